import FalconModel.ReaderPublic
import FalconModel.AsyncReader
import FalconModel.AsyncReaderIter
/-! C14, async reader (`falcon/asgi/reader.py`): **every history of public operations of the model `ARd` (the one `ardriver`
    ties to the real class) refines the flat cursor `Rd.cursorRun`, for every chunking of the source.**

    Plan: `future r` is what `_iter_normalized` will still deliver (depends on where that generator is suspended), `abs r` =
    unread buffer ++ `future r` is the flat text still to come. `nextNorm_spec` = one `__anext__` of `_iter_normalized`
    (fuel of `normLoop` sufficient). A wrapper generator (`_iter_with_buffer` / `_iter_delimited`) suspended at program counter
    `pc` satisfies the generator invariant `GI pc r` and will still hand out the first `lim pc (abs r)` bytes of `abs r`
    (everything / up to the first occurrence of the delimiter); `step_spec` = one resumption (fuel `fuelOf` sufficient; the
    cross-chunk fragment search is `straddle`). `readAll_spec` / `readN_spec` / `readFrom_spec` drain it (`_read_from`, fuel
    sufficient), `peek_spec`, `consume_spec`, then one lemma per public operation and the lift over histories
    (`async_history_refines_cursor`); iteration (`ARi.iterate`) and histories with iteration at the end. -/
namespace ARd
open Rd (Bytes slice sliceFrom sliceTo find occ stopAt)

/-- what `self._source` (= `_iter_normalized`) will still deliver, as one text -/
def future (r : AR) : Bytes :=
  match r.npc with
  | .running => r.pending ++ r.src.flatten
  | .yielded1 item => item ++ r.src.flatten
  | .yielded2 => []
  | .finished => []

/-- what a flat cursor would still return: the unread part of the buffer followed by what the source still delivers -/
def abs (r : AR) : Bytes := sliceFrom r.buf r.pos ++ future r

/-- representation invariant -/
structure Good (r : AR) : Prop where
  len_eq : r.len = r.buf.length
  pos_nonneg : 0 ≤ r.pos
  pos_le : r.pos ≤ r.len
  chunk_pos : 0 < r.chunk
  exh_iff : r.exhausted = true ↔ r.npc = .finished

/-- bound on the number of chunks `_iter_normalized` can still yield (+1) -/
def mu (r : AR) : Nat :=
  match r.npc with
  | .finished => 0
  | .yielded2 => 1
  | _ => r.src.length + 2

def Same (r r' : AR) : Prop := r'.buf = r.buf ∧ r'.len = r.len ∧ r'.pos = r.pos ∧ r'.chunk = r.chunk

def NormSpec (chunk consumed : Int) (exh : Bool) (r : AR) (F : Bytes) (m : Nat) : Option Bytes × AR → Prop
  | (some c, r') => c ≠ [] ∧ F = c ++ future r' ∧ (chunk ≤ (c.length : Int) ∨ future r' = []) ∧
      r'.consumed = consumed + c.length ∧ Same r r' ∧ mu r' ≤ m ∧ r'.exhausted = exh ∧ r'.npc ≠ .finished
  | (none, r') => F = [] ∧ future r' = [] ∧ r'.exhausted = true ∧ r'.npc = .finished ∧ r'.consumed = consumed ∧ Same r r'

theorem normLoop_spec : ∀ (src : List Bytes) (fuel : Nat) (r : AR), r.src = src → src.length < fuel → 0 < r.chunk →
    NormSpec r.chunk r.consumed r.exhausted r (r.pending ++ src.flatten) (src.length + 1) (normLoop fuel r) := by
  intro src
  induction src with
  | nil =>
    intro fuel r hsrc hf hc
    cases fuel with
    | zero => simp at hf
    | succ f =>
      simp only [normLoop, hsrc]
      split
      · rename_i hp
        have hne : r.pending ≠ [] := by intro h; simp [h] at hp
        refine ⟨hne, by simp [future], Or.inr rfl, rfl, ⟨rfl, rfl, rfl, rfl⟩, by simp [mu], rfl, by simp⟩
      · rename_i hp
        have he : r.pending = [] := by
          cases h : r.pending with
          | nil => rfl
          | cons a b => simp [h] at hp
        exact ⟨by simp [he], rfl, rfl, rfl, rfl, ⟨rfl, rfl, rfl, rfl⟩⟩
  | cons item rest ih =>
    intro fuel r hsrc hf hc
    cases fuel with
    | zero => simp at hf
    | succ f =>
      simp only [normLoop, hsrc]
      split
      · rename_i hp
        have hne : r.pending ≠ [] := by intro h; rw [h] at hp; simp at hp; omega
        refine ⟨hne, by simp [future], Or.inl (by omega), rfl, ⟨rfl, rfl, rfl, rfl⟩, by simp [mu], rfl, by simp⟩
      · have h := ih f { r with src := rest, pending := r.pending ++ item } rfl (by simp at hf; omega) hc
        rcases hx : normLoop f { r with src := rest, pending := r.pending ++ item } with ⟨_ | c, r'⟩
        · rw [hx] at h
          obtain ⟨a, b, c, d, e, g⟩ := h
          exact ⟨by simpa using a, b, c, d, e, g⟩
        · rw [hx] at h
          obtain ⟨a, b, c1, d, e, g, i, j⟩ := h
          exact ⟨a, by simpa using b, c1, d, e, by simp at g ⊢; omega, i, j⟩

def NextSpec (r : AR) : Option Bytes × AR → Prop
  | (some c, r') => c ≠ [] ∧ future r = c ++ future r' ∧ (r.chunk ≤ (c.length : Int) ∨ future r' = []) ∧
      r'.consumed = r.consumed + c.length ∧ Same r r' ∧ mu r' < mu r ∧ r'.exhausted = r.exhausted ∧ r'.npc ≠ .finished ∧ r.npc ≠ .finished
  | (none, r') => future r = [] ∧ future r' = [] ∧ r'.exhausted = true ∧ r'.npc = .finished ∧ r'.consumed = r.consumed ∧ Same r r'

theorem nextNorm_spec (r : AR) (hg : Good r) : NextSpec r (nextNorm r) := by
  unfold nextNorm
  cases hn : r.npc with
  | finished =>
    exact ⟨by simp [future, hn], by simp [future, hn], hg.exh_iff.mpr hn, hn, rfl, rfl, rfl, rfl, rfl⟩
  | yielded2 =>
    exact ⟨by simp [future, hn], by simp [future], rfl, rfl, rfl, rfl, rfl, rfl, rfl⟩
  | yielded1 item =>
    have hmu : mu r = r.src.length + 2 := by simp [mu, hn]
    have h := normLoop_spec r.src (r.src.length + 1) { r with pending := item, npc := .running } rfl (by omega) hg.chunk_pos
    show NextSpec r (normLoop (r.src.length + 1) { r with pending := item, npc := .running })
    rcases hx : normLoop (r.src.length + 1) { r with pending := item, npc := .running } with ⟨_ | c, r'⟩
    · rw [hx] at h
      obtain ⟨a, b, c, d, e, g⟩ := h
      exact ⟨by simpa [future, hn] using a, b, c, d, e, g⟩
    · rw [hx] at h
      obtain ⟨a, b, c1, d, e, g, i, j⟩ := h
      exact ⟨a, by simpa [future, hn] using b, c1, d, e, by omega, i, j, by simp [hn]⟩
  | running =>
    have hmu : mu r = r.src.length + 2 := by simp [mu, hn]
    have h := normLoop_spec r.src (r.src.length + 1) r rfl (by omega) hg.chunk_pos
    show NextSpec r (normLoop (r.src.length + 1) r)
    rcases hx : normLoop (r.src.length + 1) r with ⟨_ | c, r'⟩
    · rw [hx] at h
      obtain ⟨a, b, c, d, e, g⟩ := h
      exact ⟨by simpa [future, hn] using a, b, c, d, e, g⟩
    · rw [hx] at h
      obtain ⟨a, b, c1, d, e, g, i, j⟩ := h
      exact ⟨a, by simpa [future, hn] using b, c1, d, e, by omega, i, j, by simp [hn]⟩


/-! ### occurrences: how far a delimited generator goes -/

/-- number of bytes up to the first occurrence of `d` in `A` (all of `A` if there is none) -/
def U (d A : Bytes) : Nat := stopAt d A A.length

theorem U_spec (d A : Bytes) (hd : d ≠ []) :
    U d A ≤ A.length ∧ (∀ j, j < U d A → ¬ occ d A j) ∧ (U d A < A.length → occ d A (U d A)) := by
  unfold U
  rcases Rd.firstOcc_spec d A hd with ⟨_, hno⟩ | ⟨p, _, hp, hbefore⟩
  · rw [Rd.stopAt_none d A _ hd hno]
    exact ⟨by omega, fun j _ => hno j, fun h => by omega⟩
  · have hlt := Rd.occ_lt_length d A p hd hp
    rw [Rd.stopAt_of_occ d A _ p hd hp hbefore]
    have : min A.length p = p := by omega
    rw [this]
    exact ⟨by omega, hbefore, fun _ => hp⟩

theorem U_eq (d A : Bytes) (hd : d ≠ []) (n : Nat) (h1 : n ≤ A.length) (h2 : ∀ j, j < n → ¬ occ d A j)
    (h3 : n < A.length → occ d A n) : U d A = n := by
  obtain ⟨u1, u2, u3⟩ := U_spec d A hd
  rcases Nat.lt_trichotomy (U d A) n with h | h | h
  · exact absurd (u3 (by omega)) (h2 _ h)
  · exact h
  · exact absurd (h3 (by omega)) (u2 _ h)

theorem U_ge (d A : Bytes) (hd : d ≠ []) (m : Nat) (h1 : m ≤ A.length) (h2 : ∀ j, j < m → ¬ occ d A j) : m ≤ U d A := by
  obtain ⟨u1, u2, u3⟩ := U_spec d A hd
  rcases Nat.lt_or_ge (U d A) m with h | h
  · exact absurd (u3 (by omega)) (h2 _ h)
  · exact h

/-- after handing out `m` bytes that lie before the delimiter, the rest is still up to the same delimiter -/
theorem U_drop (d A : Bytes) (hd : d ≠ []) (m : Nat) (hm : m ≤ U d A) : m + U d (A.drop m) = U d A := by
  obtain ⟨u1, u2, u3⟩ := U_spec d A hd
  have : U d (A.drop m) = U d A - m := by
    apply U_eq d _ hd
    · rw [List.length_drop]; omega
    · intro j hj hc
      exact u2 (m + j) (by omega) ((Rd.occ_drop d A m j).mp hc)
    · intro h
      rw [List.length_drop] at h
      have := u3 (by omega)
      rw [Rd.occ_drop]
      rw [show m + (U d A - m) = U d A by omega]
      exact this
  omega

theorem stopAt_eq_min_U (d A : Bytes) (hd : d ≠ []) (n : Nat) : stopAt d A n = min n (U d A) := by
  unfold U
  rcases Rd.firstOcc_spec d A hd with ⟨_, hno⟩ | ⟨p, _, hp, hbefore⟩
  · rw [Rd.stopAt_none d A _ hd hno, Rd.stopAt_none d A _ hd hno]; omega
  · have hlt := Rd.occ_lt_length d A p hd hp
    rw [Rd.stopAt_of_occ d A _ p hd hp hbefore, Rd.stopAt_of_occ d A _ p hd hp hbefore]; omega

/-- **cross-chunk delimiter detection of `_iter_delimited`**: `b` is the buffered text (no complete occurrence of `d`), `c` the
    next chunk and `F` what follows; an occurrence that starts inside `b` is seen exactly by the search in
    `fragment = b[len(b)-(len(d)-1):] + c[:len(d)-1]` - provided `c` is a full chunk (`len(d) ≤ chunk_size ≤ len(c)`) or the last one -/
theorem straddle (d b c F : Bytes) (chunk : Int) (hd : d ≠ []) (hdc : (d.length : Int) ≤ chunk)
    (hc : chunk ≤ (c.length : Int) ∨ F = []) (hno : ∀ j, ¬ occ d b j) (j : Nat) (hj : j < b.length) :
    occ d (b ++ (c ++ F)) j ↔
      (b.length - (d.length - 1) ≤ j ∧ occ d (b.drop (b.length - (d.length - 1)) ++ c.take (d.length - 1)) (j - (b.length - (d.length - 1)))) := by
  have hdl : 0 < d.length := List.length_pos_iff.mpr hd
  have hfr := Rd.fragment_first_occ d b c 0 hd (Nat.zero_le _) (fun j _ => hno j)
  simp only [Nat.max_zero] at hfr
  constructor
  · intro h
    have hnf : ¬ j + d.length ≤ b.length := by
      intro hf
      exact hno j ((Rd.occ_append_left d b (c ++ F) j hd hf).mp h)
    have hoff : b.length - (d.length - 1) ≤ j := by omega
    refine ⟨hoff, ?_⟩
    have hbc : occ d (b ++ c) j := by
      rcases hc with hc | hc
      · rw [← List.append_assoc] at h
        exact (Rd.occ_append_left d (b ++ c) F j hd (by rw [List.length_append]; omega)).mp h
      · rw [hc, List.append_nil] at h; exact h
    rw [hfr]
    rw [show b.length - (d.length - 1) + (j - (b.length - (d.length - 1))) = j by omega]
    exact ⟨hbc, hj⟩
  · rintro ⟨hoff, h⟩
    rw [hfr] at h
    rw [show b.length - (d.length - 1) + (j - (b.length - (d.length - 1))) = j by omega] at h
    have hfit := ((Rd.occ_iff d (b ++ c) j hd).mp h.1).2
    rw [← List.append_assoc]
    exact (Rd.occ_append_left d (b ++ c) F j hd hfit).mpr h.1


/-! ### the wrapper generators `_iter_with_buffer` / `_iter_delimited` -/

def total (r : AR) : Int := r.consumed + (future r).length

def isW : Pc → Bool
  | .wStart _ | .wAfterHint | .wSource => true
  | _ => false

/-- how many of the bytes still to come the generator at `pc` will hand out -/
def lim (pc : Pc) (A : Bytes) : Nat :=
  match pc with
  | .wStart _ | .wAfterHint | .wSource => A.length
  | .dStart d _ | .dFoundAfterHint d _ | .dPreLoop d | .dLoop d | .dAfterOutput d => U d A
  | .done => 0

def okDelim (chunk : Int) (d : Bytes) : Prop := d ≠ [] ∧ (d.length : Int) ≤ chunk

/-- generator invariant: what has to hold of the reader whenever the generator is suspended at `pc` -/
def GI (pc : Pc) (r : AR) : Prop :=
  Good r ∧ match pc with
  | .wStart _ | .wAfterHint | .done => True
  | .wSource => r.pos = r.len
  | .dStart d _ => okDelim r.chunk d
  | .dFoundAfterHint d p => okDelim r.chunk d ∧ r.pos ≤ p ∧ p ≤ r.len ∧ (p - r.pos).toNat = U d (abs r)
  | .dPreLoop d => okDelim r.chunk d ∧ ∀ j, r.pos.toNat ≤ j → ¬ occ d r.buf j
  | .dLoop d => okDelim r.chunk d ∧ r.pos = 0 ∧ ∀ j, ¬ occ d r.buf j
  | .dAfterOutput d => okDelim r.chunk d ∧ r.pos = 0

def weight (pc : Pc) (r : AR) : Nat :=
  match pc with
  | .done => 0
  | .wStart _ | .dStart _ _ => 2 * mu r + 3
  | .wAfterHint | .dPreLoop _ | .dAfterOutput _ => 2 * mu r + 2
  | .wSource | .dLoop _ | .dFoundAfterHint _ _ => 2 * mu r + 1

/-- recursion depth `step` needs at `pc` -/
def need (pc : Pc) (r : AR) : Nat :=
  match pc with
  | .dStart _ _ => mu r + 3
  | .dPreLoop _ | .dAfterOutput _ => mu r + 2
  | .dLoop _ => mu r + 1
  | .wStart _ => 2
  | _ => 1

/-- one resumption of a wrapper generator: a `yield` hands out the next bytes of the flat text, within the generator's limit;
    `StopAsyncIteration` only when the limit is reached -/
def StepSpec (pc : Pc) (r : AR) : Y × Pc × AR → Prop
  | (.yield c, pc', r') => c = (abs r).take c.length ∧ abs r' = (abs r).drop c.length ∧
      c.length + lim pc' (abs r') = lim pc (abs r) ∧ GI pc' r' ∧ weight pc' r' < weight pc r ∧ total r' = total r ∧
      r'.chunk = r.chunk ∧ isW pc' = isW pc
  | (.stop, _, r') => lim pc (abs r) = 0 ∧ abs r' = abs r ∧ Good r' ∧ total r' = total r ∧ r'.chunk = r.chunk ∧
      (isW pc = true → r'.exhausted = true ∧ r'.pos = r'.len)
  | (.raiseValue, _, _) => False

theorem StepSpec.transfer {pc pc2 : Pc} {r r2 : AR} {x : Y × Pc × AR} (h : StepSpec pc2 r2 x) (ha : abs r2 = abs r)
    (hl : lim pc2 (abs r) = lim pc (abs r)) (hw : weight pc2 r2 ≤ weight pc r) (ht : total r2 = total r)
    (hc : r2.chunk = r.chunk) (hW : isW pc2 = isW pc) : StepSpec pc r x := by
  rcases x with ⟨y, pc', r'⟩
  cases y with
  | yield c =>
    obtain ⟨a1, a2, a3, a4, a5, a6, a7, a8⟩ := h
    rw [ha] at a1 a2 a3
    exact ⟨a1, a2, by rw [a3, hl], a4, by omega, by rw [a6, ht], by rw [a7, hc], by rw [a8, hW]⟩
  | stop =>
    obtain ⟨a1, a2, a3, a4, a5, a6⟩ := h
    rw [ha] at a1 a2
    exact ⟨by rw [← hl, a1], a2, a3, by rw [a4, ht], by rw [a5, hc], by rw [← hW]; exact a6⟩
  | raiseValue => exact h

theorem abs_eq (r : AR) (hg : Good r) : abs r = r.buf.drop r.pos.toNat ++ future r := by
  unfold abs; rw [Rd.sliceFrom_nonneg _ _ hg.pos_nonneg]

/-- handing out `buffer[pos:q]` and moving the position to `q` -/
theorem buf_yield (r : AR) (hg : Good r) (q : Int) (h1 : r.pos ≤ q) (h2 : q ≤ r.len) :
    slice r.buf r.pos q = (abs r).take (q - r.pos).toNat ∧ abs { r with pos := q } = (abs r).drop (q - r.pos).toNat ∧
    Good { r with pos := q } ∧ (slice r.buf r.pos q).length = (q - r.pos).toNat := by
  have hl := hg.len_eq
  have hp := hg.pos_nonneg
  have hg' : Good { r with pos := q } := ⟨hg.len_eq, by show 0 ≤ q; omega, h2, hg.chunk_pos, hg.exh_iff⟩
  have hs : slice r.buf r.pos q = (r.buf.drop r.pos.toNat).take (q - r.pos).toNat := by
    rw [Rd.slice_nonneg _ _ _ hp h1]; congr 1; omega
  refine ⟨?_, ?_, hg', ?_⟩
  · rw [hs, abs_eq r hg, List.take_append_of_le_length (by rw [List.length_drop]; omega)]
  · rw [abs_eq _ hg', abs_eq r hg, List.drop_append_of_le_length (by rw [List.length_drop]; omega), List.drop_drop]
    show List.drop q.toNat r.buf ++ future r = _
    congr 2; omega
  · rw [hs, List.length_take, List.length_drop]; omega

theorem abs_length_buf (r : AR) (hg : Good r) : (abs r).length = (r.len - r.pos).toNat + (future r).length := by
  rw [abs_eq r hg, List.length_append, List.length_drop]
  have := hg.len_eq; have := hg.pos_nonneg; have := hg.pos_le; omega

theorem good_next_some {r r' : AR} (hg : Good r) (hs : Same r r') (he : r'.exhausted = r.exhausted)
    (h1 : r'.npc ≠ .finished) (h2 : r.npc ≠ .finished) : Good r' := by
  obtain ⟨s1, s2, s3, s4⟩ := hs
  refine ⟨by rw [s2, s1]; exact hg.len_eq, by rw [s3]; exact hg.pos_nonneg, by rw [s3, s2]; exact hg.pos_le,
    by rw [s4]; exact hg.chunk_pos, ?_⟩
  constructor
  · intro h; rw [he] at h; exact absurd (hg.exh_iff.mp h) h2
  · intro h; exact absurd h h1

theorem good_next_none {r r' : AR} (hg : Good r) (hs : Same r r') (he : r'.exhausted = true)
    (h1 : r'.npc = .finished) : Good r' := by
  obtain ⟨s1, s2, s3, s4⟩ := hs
  exact ⟨by rw [s2, s1]; exact hg.len_eq, by rw [s3]; exact hg.pos_nonneg, by rw [s3, s2]; exact hg.pos_le,
    by rw [s4]; exact hg.chunk_pos, ⟨fun _ => h1, fun _ => he⟩⟩

theorem abs_same {r r' : AR} (hs : Same r r') : abs r' = sliceFrom r.buf r.pos ++ future r' := by
  obtain ⟨s1, s2, s3, s4⟩ := hs
  unfold abs; rw [s1, s3]


theorem wSource_spec (r : AR) (hgi : GI .wSource r) :
    StepSpec .wSource r (match nextNorm r with
      | (some c, r) => (.yield c, .wSource, r)
      | (none, r) => (.stop, .done, r)) := by
  obtain ⟨hg, hpl⟩ := hgi
  simp only at hpl
  have hn := nextNorm_spec r hg
  have hb : r.buf.drop r.pos.toNat = [] := List.drop_of_length_le (by have := hg.len_eq; omega)
  rcases hx : nextNorm r with ⟨_ | c, r'⟩
  · rw [hx] at hn
    obtain ⟨n1, n2, n3, n4, n5, n6⟩ := hn
    have hg' := good_next_none hg n6 n3 n4
    have ha : abs r = [] := by rw [abs_eq r hg, hb, n1]; rfl
    have ha' : abs r' = [] := by
      obtain ⟨s1, s2, s3, s4⟩ := n6
      rw [abs_eq r' hg', s1, s3, hb, n2]; rfl
    refine ⟨by simp [lim, ha], by rw [ha, ha'], hg', by simp [total, n5, n1, n2], n6.2.2.2, fun _ => ⟨n3, ?_⟩⟩
    rw [n6.2.2.1, n6.2.1]; exact hpl
  · rw [hx] at hn
    obtain ⟨n1, n2, n3, n4, n5, n6, n7, n8, n9⟩ := hn
    have hg' := good_next_some hg n5 n7 n8 n9
    have ha : abs r = c ++ future r' := by rw [abs_eq r hg, hb, n2]; rfl
    have ha' : abs r' = future r' := by
      obtain ⟨s1, s2, s3, s4⟩ := n5
      rw [abs_eq r' hg', s1, s3, hb]; rfl
    refine ⟨by rw [ha]; simp, by rw [ha, ha']; simp, by simp [lim, ha, ha'], ⟨hg', ?_⟩, by simp [weight]; omega,
      by simp [total, n4, n2]; omega, n5.2.2.2, rfl⟩
    show r'.pos = r'.len
    rw [n5.2.2.1, n5.2.1]; exact hpl

theorem step_w (fuel : Nat) (pc : Pc) (r : AR) (hw : isW pc = true) (hgi : GI pc r) (hf : need pc r ≤ fuel) :
    StepSpec pc r (step fuel pc r) := by
  cases fuel with
  | zero => cases pc <;> simp [need] at hf
  | succ f =>
  cases pc with
  | wSource => exact wSource_spec r hgi
  | wAfterHint =>
    obtain ⟨hg, _⟩ := hgi
    obtain ⟨b1, b2, b3, b4⟩ := buf_yield r hg r.len hg.pos_le (Int.le_refl _)
    simp only [step]
    have hA := abs_length_buf r hg
    refine ⟨by rw [b4]; exact b1, by rw [b4]; exact b2, ?_, ⟨b3, rfl⟩, by simp [weight, mu], rfl, rfl, rfl⟩
    simp only [lim]; rw [b4, b2, List.length_drop]; omega
  | wStart hint =>
    obtain ⟨hg, _⟩ := hgi
    have hA := abs_length_buf r hg
    simp only [step]
    split
    · rename_i hlt
      split
      · rename_i hh
        simp only [Bool.and_eq_true, decide_eq_true_eq] at hh
        obtain ⟨b1, b2, b3, b4⟩ := buf_yield r hg (r.pos + hint) (by omega) (by omega)
        refine ⟨by rw [b4]; exact b1, by rw [b4]; exact b2, ?_, ⟨b3, trivial⟩, by simp [weight, mu], rfl, rfl, rfl⟩
        simp only [lim]; rw [b4, b2, List.length_drop]; omega
      · obtain ⟨b1, b2, b3, b4⟩ := buf_yield r hg r.len hg.pos_le (Int.le_refl _)
        refine ⟨by rw [b4]; exact b1, by rw [b4]; exact b2, ?_, ⟨b3, rfl⟩, by simp [weight, mu], rfl, rfl, rfl⟩
        simp only [lim]; rw [b4, b2, List.length_drop]; omega
    · rename_i hlt
      cases f with
      | zero => simp [need] at hf
      | succ f2 =>
        have hpl : r.pos = r.len := by have := hg.pos_le; omega
        exact StepSpec.transfer (wSource_spec r ⟨hg, hpl⟩) rfl rfl (by simp [weight]) rfl rfl rfl
  | _ => simp [isW] at hw


/-! ### `_iter_delimited` -/

/-- the delimiter found in the buffer at `p` (first occurrence at or after the position): the flat text goes `p - pos` bytes up to it -/
theorem U_found (r : AR) (hg : Good r) (d : Bytes) (hd : d ≠ []) (p : Nat) (hp : r.pos.toNat ≤ p) (ho : occ d r.buf p)
    (hno : ∀ j, r.pos.toNat ≤ j → j < p → ¬ occ d r.buf j) : U d (abs r) = p - r.pos.toNat ∧ p + d.length ≤ r.buf.length := by
  have hfit := ((Rd.occ_iff d r.buf p hd).mp ho).2
  refine ⟨?_, hfit⟩
  rw [abs_eq r hg]
  have hB : (r.buf.drop r.pos.toNat).length = r.buf.length - r.pos.toNat := List.length_drop ..
  apply U_eq d _ hd
  · rw [List.length_append, hB]; omega
  · intro j hj hc
    have h1 := (Rd.occ_append_left d (r.buf.drop r.pos.toNat) (future r) j hd (by rw [hB]; omega)).mp hc
    rw [Rd.occ_drop] at h1
    exact hno _ (by omega) (by omega) h1
  · intro _
    rw [Rd.occ_append_left d _ _ _ hd (by rw [hB]; omega), Rd.occ_drop, show r.pos.toNat + (p - r.pos.toNat) = p by omega]
    exact ho

/-- no complete occurrence in the buffer: the first `m` bytes are before the delimiter as long as `m + (len(d)-1)` stays inside the buffer -/
theorem U_ge_buf (r : AR) (hg : Good r) (d : Bytes) (hd : d ≠ []) (hno : ∀ j, r.pos.toNat ≤ j → ¬ occ d r.buf j)
    (m : Nat) (hm : m + (d.length - 1) ≤ r.buf.length - r.pos.toNat) : m ≤ U d (abs r) := by
  have hdl : 0 < d.length := List.length_pos_iff.mpr hd
  rw [abs_eq r hg]
  have hB : (r.buf.drop r.pos.toNat).length = r.buf.length - r.pos.toNat := List.length_drop ..
  apply U_ge d _ hd
  · rw [List.length_append, hB]; omega
  · intro j hj hc
    have h1 := (Rd.occ_append_left d (r.buf.drop r.pos.toNat) (future r) j hd (by rw [hB]; omega)).mp hc
    rw [Rd.occ_drop] at h1
    exact hno _ (by omega) h1

theorem sliceTo_eq_slice (b : Bytes) (j : Int) (h : 0 ≤ j) : sliceTo b j = slice b 0 j := by
  rw [Rd.sliceTo_nonneg b j h, Rd.slice_nonneg b 0 j (Int.le_refl 0) h]; simp

/-- a `yield buffer[pos:q]` of the delimited generator -/
theorem d_buf_yield (pc pc' : Pc) (d : Bytes) (r : AR) (hg : Good r) (hd : d ≠ []) (q : Int) (h1 : r.pos ≤ q) (h2 : q ≤ r.len)
    (hpc : lim pc = U d)
    (hpc' : (lim pc' = U d ∧ (q - r.pos).toNat ≤ U d (abs r)) ∨ (pc' = .done ∧ (q - r.pos).toNat = U d (abs r)))
    (hgi : Good { r with pos := q } → abs { r with pos := q } = (abs r).drop (q - r.pos).toNat → GI pc' { r with pos := q })
    (hw : weight pc' { r with pos := q } < weight pc r) (hW : isW pc' = isW pc) :
    StepSpec pc r (.yield (slice r.buf r.pos q), pc', { r with pos := q }) := by
  obtain ⟨b1, b2, b3, b4⟩ := buf_yield r hg q h1 h2
  refine ⟨by rw [b4]; exact b1, by rw [b4]; exact b2, ?_, hgi b3 b2, hw, rfl, rfl, hW⟩
  rw [b4, hpc]
  rcases hpc' with ⟨e, hle⟩ | ⟨e, heq⟩
  · rw [e, b2]; exact U_drop d _ hd _ hle
  · rw [e]; simp only [lim]; omega

theorem dCheck_spec (d : Bytes) (r : AR) (hg : Good r) (hok : okDelim r.chunk d) (hp0 : r.pos = 0) :
    match dCheckBuffer d r with
    | some x => StepSpec (.dAfterOutput d) r x
    | none => ∀ j, ¬ occ d r.buf j := by
  obtain ⟨hd, hdc⟩ := hok
  unfold dCheckBuffer
  have hp0' : r.pos.toNat = 0 := by omega
  rcases Rd.find_spec r.buf d 0 hd (Int.le_refl 0) (by omega) with ⟨h1, h2⟩ | ⟨p, h1, _, h3, h4⟩
  · simp only [h1]
    exact fun j => h2 j (by simp)
  · simp only [h1]
    have hp : ((p : Int) ≥ 0) := by omega
    simp only [hp, if_true]
    obtain ⟨hU, hfit⟩ := U_found r hg d hd p (by omega) h3 (fun j _ hj => h4 j (by simp) hj)
    rw [hp0'] at hU
    by_cases hpos : (p : Int) > 0
    · simp only [hpos, if_true]
      rw [sliceTo_eq_slice _ _ (by omega), ← hp0]
      have hl := hg.len_eq
      exact d_buf_yield _ _ d r hg hd p (by omega) (by omega) rfl (Or.inr ⟨rfl, by rw [hU]; omega⟩)
        (fun h _ => ⟨h, trivial⟩) (by simp [weight]) rfl
    · simp only [hpos, if_false]
      have : p = 0 := by omega
      refine ⟨by simp only [lim]; omega, rfl, hg, rfl, rfl, fun h => by simp [isW] at h⟩


theorem merge_eq (r : AR) (c : Bytes) (hl : r.len = r.buf.length) :
    (if !r.buf.isEmpty then { r with buf := r.buf ++ c, len := r.len + c.length } else { r with buf := c, len := c.length })
      = { r with buf := r.buf ++ c, len := r.len + c.length } := by
  cases hb : r.buf with
  | nil => rw [hb] at hl; simp [hl]
  | cons a t => simp

/-- the `async for chunk in self._source` loop of `_iter_delimited`, from any state satisfying its invariant
    (position 0, no complete occurrence of the delimiter in the buffer), with enough recursion depth -/
theorem dLoop_spec (d : Bytes) : ∀ (fuel : Nat) (r : AR), GI (.dLoop d) r → mu r + 1 ≤ fuel →
    StepSpec (.dLoop d) r (step fuel (.dLoop d) r) := by
  intro fuel
  induction fuel with
  | zero => intro r _ hf; omega
  | succ f ih =>
    intro r hgi hf
    obtain ⟨hg, ⟨hd, hdc⟩, hp0, hno⟩ := hgi
    have hdl : 0 < d.length := List.length_pos_iff.mpr hd
    have hl := hg.len_eq
    have hA : abs r = r.buf ++ future r := by rw [abs_eq r hg, hp0]; rfl
    have hn := nextNorm_spec r hg
    rcases hx : nextNorm r with ⟨_ | c, r'⟩
    · -- the source is exhausted: hand out the whole buffer
      rw [hx] at hn
      obtain ⟨n1, n2, n3, n4, n5, s1, s2, s3, s4⟩ := hn
      simp only [step, hx]
      have hA' : abs r = r.buf := by rw [hA, n1]; simp
      have hU : U d (abs r) = r.buf.length := by
        apply U_eq d _ hd _ (by rw [hA']; omega) (fun j _ => by rw [hA']; exact hno j) (fun h => by rw [hA'] at h; omega)
      have hg2 : Good { r' with buf := [], len := 0, pos := 0 } :=
        ⟨rfl, Int.le_refl 0, Int.le_refl 0, by show 0 < r'.chunk; rw [s4]; exact hg.chunk_pos, ⟨fun _ => n4, fun _ => n3⟩⟩
      have ha2 : abs { r' with buf := [], len := 0, pos := 0 } = [] := by rw [abs_eq _ hg2]; show _ ++ future r' = []; rw [n2]; rfl
      refine ⟨by rw [s1, hA']; simp, by rw [ha2, s1, hA']; simp, by rw [s1]; simp only [lim]; omega, ⟨hg2, trivial⟩,
        by simp [weight], ?_, s4, rfl⟩
      show r'.consumed + ((future r').length : Int) = r.consumed + ((future r).length : Int)
      rw [n5, n1, n2]
    · rw [hx] at hn
      obtain ⟨n1, n2, n3, n4, ⟨s1, s2, s3, s4⟩, n6, n7, n8, n9⟩ := hn
      have hg' := good_next_some hg ⟨s1, s2, s3, s4⟩ n7 n8 n9
      have hA2 : abs r = r.buf ++ (c ++ future r') := by rw [hA, n2]
      have htot : r'.consumed + ((future r').length : Int) = total r := by
        unfold total; rw [n4, n2, List.length_append]; omega
      simp only [step, hx]
      by_cases hoff : r'.len - ((d.length : Int) - 1) > 0
      · simp only [hoff, if_true]
        have hoffn : (r'.len - ((d.length : Int) - 1)).toNat = r.buf.length - (d.length - 1) := by omega
        have hfr : sliceFrom r'.buf (r'.len - ((d.length : Int) - 1)) ++ sliceTo c ((d.length : Int) - 1)
            = r.buf.drop (r.buf.length - (d.length - 1)) ++ c.take (d.length - 1) := by
          rw [Rd.sliceFrom_nonneg _ _ (by omega), Rd.sliceTo_nonneg _ _ (by omega), hoffn, s1]
          congr 2; omega
        rw [hfr]
        have hst := fun j hj => straddle d r.buf c (future r') r.chunk hd hdc n3 hno j hj
        rcases Rd.find_spec (r.buf.drop (r.buf.length - (d.length - 1)) ++ c.take (d.length - 1)) d 0 hd (Int.le_refl 0) (by omega)
          with ⟨h1, h2⟩ | ⟨p, h1, _, h3, h4⟩
        · -- no delimiter across the border: the old buffer goes out, the chunk becomes the buffer
          simp only [h1, show ((-1 : Int) < 0) from by omega, if_true]
          have hnoA : ∀ j, j < r.buf.length → ¬ occ d (abs r) j := by
            intro j hj hc
            rw [hA2] at hc
            exact h2 _ (by simp) ((hst j hj).mp hc).2
          have hge : r.buf.length ≤ U d (abs r) := U_ge d _ hd _ (by rw [hA2, List.length_append]; omega) hnoA
          have hg2 : Good { r' with buf := c, len := c.length } :=
            ⟨rfl, by show 0 ≤ r'.pos; rw [s3]; exact hg.pos_nonneg, by show r'.pos ≤ (c.length : Int); rw [s3, hp0]; omega,
              hg'.chunk_pos, hg'.exh_iff⟩
          have ha2 : abs { r' with buf := c, len := c.length } = (abs r).drop r.buf.length := by
            rw [abs_eq _ hg2, hA2]
            show List.drop r'.pos.toNat c ++ future r' = _
            rw [s3, hp0]; simp
          refine ⟨by rw [s1, hA2]; simp, by rw [s1]; exact ha2, ?_, ⟨hg2, ⟨hd, by show _ ≤ r'.chunk; rw [s4]; exact hdc⟩, by show r'.pos = 0; rw [s3, hp0]⟩,
            by simp only [weight]; show 2 * mu r' + 2 < 2 * mu r + 1; omega, htot, s4, rfl⟩
          rw [s1, ha2]; simp only [lim]
          exact U_drop d _ hd _ hge
        · -- the delimiter straddles the border
          have hpn : ¬ ((p : Int) < 0) := by omega
          simp only [h1, hpn, if_false]
          have hfl : (r.buf.drop (r.buf.length - (d.length - 1)) ++ c.take (d.length - 1)).length ≤ (d.length - 1) + (d.length - 1) := by
            rw [List.length_append, List.length_drop, List.length_take]; omega
          have hpfit := ((Rd.occ_iff d _ p hd).mp h3).2
          have hq : r.buf.length - (d.length - 1) + p < r.buf.length := by omega
          have hoccA : occ d (abs r) (r.buf.length - (d.length - 1) + p) := by
            rw [hA2, hst _ hq]
            exact ⟨by omega, by rw [show r.buf.length - (d.length - 1) + p - (r.buf.length - (d.length - 1)) = p by omega]; exact h3⟩
          have hfirst : ∀ j, j < r.buf.length - (d.length - 1) + p → ¬ occ d (abs r) j := by
            intro j hj hc
            rw [hA2, hst j (by omega)] at hc
            exact h4 _ (by simp) (by omega) hc.2
          have hU : U d (abs r) = r.buf.length - (d.length - 1) + p :=
            U_eq d _ hd _ (by rw [hA2, List.length_append]; omega) hfirst (fun _ => hoccA)
          have hqi : r'.len - ((d.length : Int) - 1) + (p : Int) = ((r.buf.length - (d.length - 1) + p : Nat) : Int) := by omega
          rw [hqi]
          generalize hQ : r.buf.length - (d.length - 1) + p = q at *
          have hg2 : Good { r' with buf := r'.buf ++ c, len := r'.len + c.length, pos := (q : Int) } :=
            ⟨by show r'.len + (c.length : Int) = ((r'.buf ++ c).length : Int); rw [List.length_append, s1, s2]; omega,
              by show (0 : Int) ≤ q; omega, by show (q : Int) ≤ r'.len + c.length; omega, hg'.chunk_pos, hg'.exh_iff⟩
          have hc1 : sliceTo (r'.buf ++ c) (q : Int) = (abs r).take q := by
            rw [Rd.sliceTo_nonneg _ _ (by omega), s1, hA2, Int.toNat_natCast,
              List.take_append_of_le_length (by omega), List.take_append_of_le_length (by omega)]
          have hc2 : (sliceTo (r'.buf ++ c) (q : Int)).length = q := by
            rw [hc1, List.length_take, hA2, List.length_append]; omega
          have ha2 : abs { r' with buf := r'.buf ++ c, len := r'.len + c.length, pos := (q : Int) } = (abs r).drop q := by
            rw [abs_eq _ hg2, hA2]
            show List.drop (q : Int).toNat (r'.buf ++ c) ++ future r' = _
            rw [s1, Int.toNat_natCast, List.drop_append_of_le_length (by omega), List.drop_append_of_le_length (by omega),
              List.append_assoc]
          refine ⟨by rw [hc2]; exact hc1, by rw [hc2]; exact ha2, by rw [hc2]; simp only [lim]; omega, ⟨hg2, trivial⟩,
            by simp [weight], htot, s4, rfl⟩
      · -- the buffer is shorter than the delimiter: merge and search the buffer
        simp only [hoff, if_false]
        rw [merge_eq r' c (by rw [s2, s1]; exact hl)]
        have hg2 : Good { r' with buf := r'.buf ++ c, len := r'.len + c.length } :=
          ⟨by show r'.len + (c.length : Int) = ((r'.buf ++ c).length : Int); rw [List.length_append, s1, s2]; omega,
            hg'.pos_nonneg, by show r'.pos ≤ r'.len + c.length; rw [s3, hp0]; omega, hg'.chunk_pos, hg'.exh_iff⟩
        have hp2 : ({ r' with buf := r'.buf ++ c, len := r'.len + c.length } : AR).pos = 0 := by show r'.pos = 0; rw [s3, hp0]
        have hok2 : okDelim ({ r' with buf := r'.buf ++ c, len := r'.len + c.length } : AR).chunk d := ⟨hd, by show _ ≤ r'.chunk; rw [s4]; exact hdc⟩
        have ha2 : abs { r' with buf := r'.buf ++ c, len := r'.len + c.length } = abs r := by
          rw [abs_eq _ hg2, hA2, hp2, s1]
          show List.drop 0 (r.buf ++ c) ++ future r' = _
          simp
        have hchk := dCheck_spec d _ hg2 hok2 hp2
        rcases hck : dCheckBuffer d { r' with buf := r'.buf ++ c, len := r'.len + c.length } with _ | out
        · rw [hck] at hchk
          simp only
          have hgi2 : GI (.dLoop d) { r' with buf := r'.buf ++ c, len := r'.len + c.length } := ⟨hg2, hok2, hp2, hchk⟩
          have hmu2 : mu { r' with buf := r'.buf ++ c, len := r'.len + c.length } = mu r' := rfl
          exact StepSpec.transfer (ih _ hgi2 (by rw [hmu2]; omega)) ha2 rfl (by simp only [weight]; rw [hmu2]; omega) htot s4 rfl
        · rw [hck] at hchk
          simp only
          have hmu2 : mu { r' with buf := r'.buf ++ c, len := r'.len + c.length } = mu r' := rfl
          exact StepSpec.transfer hchk ha2 rfl (by simp only [weight]; rw [hmu2]; omega) htot s4 rfl


theorem trim_spec (r : AR) (hg : Good r) :
    Good (trimBuffer r) ∧ abs (trimBuffer r) = abs r ∧ (trimBuffer r).pos = 0 ∧ (trimBuffer r).buf = r.buf.drop r.pos.toNat ∧
    total (trimBuffer r) = total r ∧ mu (trimBuffer r) = mu r ∧ (trimBuffer r).chunk = r.chunk ∧ future (trimBuffer r) = future r := by
  have hl := hg.len_eq; have hp := hg.pos_nonneg; have hpl := hg.pos_le
  have hb : (trimBuffer r).buf = r.buf.drop r.pos.toNat := by
    show sliceFrom r.buf r.pos = _; rw [Rd.sliceFrom_nonneg _ _ hp]
  have hg2 : Good (trimBuffer r) := by
    refine ⟨?_, Int.le_refl 0, ?_, hg.chunk_pos, hg.exh_iff⟩
    · show r.len - r.pos = ((trimBuffer r).buf.length : Int); rw [hb, List.length_drop]; omega
    · show (0 : Int) ≤ r.len - r.pos; omega
  refine ⟨hg2, ?_, rfl, hb, rfl, rfl, rfl, rfl⟩
  rw [abs_eq _ hg2, abs_eq r hg, hb]
  show List.drop (0 : Int).toNat _ ++ future r = _
  simp

theorem dPreLoop_spec (d : Bytes) (fuel : Nat) (r : AR) (hgi : GI (.dPreLoop d) r) (hf : mu r + 2 ≤ fuel) :
    StepSpec (.dPreLoop d) r (step fuel (.dPreLoop d) r) := by
  obtain ⟨hg, hok, hno⟩ := hgi
  cases fuel with
  | zero => omega
  | succ f =>
    simp only [step]
    by_cases hp : r.pos > 0
    · simp only [hp, if_true]
      obtain ⟨t1, t2, t3, t4, t5, t6, t7, _⟩ := trim_spec r hg
      have hgi2 : GI (.dLoop d) (trimBuffer r) := by
        refine ⟨t1, by rw [t7]; exact hok, t3, ?_⟩
        intro j hc
        rw [t4, Rd.occ_drop] at hc
        exact hno _ (by omega) hc
      exact StepSpec.transfer (dLoop_spec d f _ hgi2 (by rw [t6]; omega)) t2 rfl (by simp only [weight]; rw [t6]; omega) t5 t7 rfl
    · simp only [hp, if_false]
      have hgi2 : GI (.dLoop d) r := ⟨hg, hok, by have := hg.pos_nonneg; omega, fun j => hno j (by have := hg.pos_nonneg; omega)⟩
      exact StepSpec.transfer (dLoop_spec d f _ hgi2 (by omega)) rfl rfl (by simp only [weight]; omega) rfl rfl rfl

theorem dAfterOutput_spec (d : Bytes) (fuel : Nat) (r : AR) (hgi : GI (.dAfterOutput d) r) (hf : mu r + 2 ≤ fuel) :
    StepSpec (.dAfterOutput d) r (step fuel (.dAfterOutput d) r) := by
  obtain ⟨hg, hok, hp0⟩ := hgi
  cases fuel with
  | zero => omega
  | succ f =>
    simp only [step]
    have hchk := dCheck_spec d r hg hok hp0
    rcases hck : dCheckBuffer d r with _ | out
    · rw [hck] at hchk
      simp only
      exact StepSpec.transfer (dLoop_spec d f r ⟨hg, hok, hp0, hchk⟩ (by omega)) rfl rfl (by simp only [weight]; omega) rfl rfl rfl
    · rw [hck] at hchk
      exact hchk

theorem dStart_spec (d : Bytes) (hint : Int) (fuel : Nat) (r : AR) (hgi : GI (.dStart d hint) r) (hf : mu r + 3 ≤ fuel) :
    StepSpec (.dStart d hint) r (step fuel (.dStart d hint) r) := by
  obtain ⟨hg, hd, hdc⟩ := hgi
  have hdl : 0 < d.length := List.length_pos_iff.mpr hd
  have hl := hg.len_eq; have hp := hg.pos_nonneg; have hpl := hg.pos_le
  cases fuel with
  | zero => omega
  | succ f =>
    simp only [step]
    have hv : (decide ((0 : Int) ≤ (d.length : Int) - 1) && decide ((d.length : Int) - 1 < r.chunk)) = true := by
      simp only [Bool.and_eq_true, decide_eq_true_eq]; omega
    simp only [hv, Bool.not_true, Bool.false_eq_true, if_false]
    by_cases hlt : r.len > r.pos
    · simp only [hlt, if_true]
      rcases Rd.find_spec r.buf d r.pos hd hp (by omega) with ⟨h1, h2⟩ | ⟨p, h1, hpp, h3, h4⟩
      · -- not in the buffer
        simp only [h1, show ((-1 : Int) == 0) = false from rfl, show ¬ ((-1 : Int) > 0) from by omega, Bool.false_eq_true, if_false]
        by_cases hh : (decide (0 < hint) && decide (hint < r.len - r.pos - ((d.length : Int) - 1))) = true
        · simp only [hh, if_true]
          simp only [Bool.and_eq_true, decide_eq_true_eq] at hh
          refine d_buf_yield _ _ d r hg hd (r.pos + hint) (by omega) (by omega) rfl (Or.inl ⟨rfl, ?_⟩) (fun h _ => ⟨h, ⟨hd, hdc⟩, ?_⟩)
            (by simp only [weight]; show 2 * mu r + 2 < 2 * mu r + 3; omega) rfl
          · exact U_ge_buf r hg d hd h2 _ (by omega)
          · intro j hj; exact h2 j (by have : (r.pos + hint).toNat ≤ j := hj; omega)
        · simp only [hh, Bool.false_eq_true, if_false]
          exact StepSpec.transfer (dPreLoop_spec d f r ⟨hg, ⟨hd, hdc⟩, h2⟩ (by omega)) rfl rfl (by simp only [weight]; omega) rfl rfl rfl
      · obtain ⟨hU, hfit⟩ := U_found r hg d hd p hpp h3 h4
        simp only [h1]
        by_cases hp0 : p = 0
        · subst hp0
          simp only [show (((0 : Nat) : Int) == 0) = true from rfl, if_true]
          exact ⟨by simp only [lim]; omega, rfl, hg, rfl, rfl, fun h => by simp [isW] at h⟩
        · have hb : ((p : Int) == 0) = false := by simp; omega
          have hgt : (p : Int) > 0 := by omega
          simp only [hb, Bool.false_eq_true, if_false, hgt, if_true]
          by_cases hh : (decide (0 < hint) && decide (hint < (p : Int) - r.pos)) = true
          · simp only [hh, if_true]
            simp only [Bool.and_eq_true, decide_eq_true_eq] at hh
            refine d_buf_yield _ _ d r hg hd (r.pos + hint) (by omega) (by omega) rfl (Or.inl ⟨rfl, by omega⟩)
              (fun h ha => ⟨h, ⟨hd, hdc⟩, by show r.pos + hint ≤ p; omega, by show (p : Int) ≤ r.len; omega, ?_⟩)
              (by simp only [weight]; show 2 * mu r + 1 < 2 * mu r + 3; omega) rfl
            show ((p : Int) - (r.pos + hint)).toNat = _
            have := U_drop d (abs r) hd (r.pos + hint - r.pos).toNat (by omega)
            rw [ha]; omega
          · simp only [hh, Bool.false_eq_true, if_false]
            exact d_buf_yield _ _ d r hg hd p (by omega) (by omega) rfl (Or.inr ⟨rfl, by omega⟩) (fun h _ => ⟨h, trivial⟩)
              (by simp [weight]) rfl
    · simp only [hlt, if_false]
      have hno : ∀ j, r.pos.toNat ≤ j → ¬ occ d r.buf j := by
        intro j hj hc
        have := Rd.occ_lt_length d r.buf j hd hc
        omega
      exact StepSpec.transfer (dPreLoop_spec d f r ⟨hg, ⟨hd, hdc⟩, hno⟩ (by omega)) rfl rfl (by simp only [weight]; omega) rfl rfl rfl

/-- **one resumption of either wrapper generator**, at any program counter, from any state satisfying the generator invariant -/
theorem step_spec (fuel : Nat) (pc : Pc) (r : AR) (hgi : GI pc r) (hf : need pc r ≤ fuel) : StepSpec pc r (step fuel pc r) := by
  cases pc with
  | wStart h => exact step_w fuel _ r rfl hgi hf
  | wAfterHint => exact step_w fuel _ r rfl hgi hf
  | wSource => exact step_w fuel _ r rfl hgi hf
  | dStart d h => exact dStart_spec d h fuel r hgi hf
  | dPreLoop d => exact dPreLoop_spec d fuel r hgi hf
  | dLoop d => exact dLoop_spec d fuel r hgi hf
  | dAfterOutput d => exact dAfterOutput_spec d fuel r hgi hf
  | dFoundAfterHint d p =>
    obtain ⟨hg, ⟨hd, hdc⟩, h1, h2, h3⟩ := hgi
    cases fuel with
    | zero => simp [need] at hf
    | succ f =>
      simp only [step]
      exact d_buf_yield _ _ d r hg hd p h1 h2 rfl (Or.inr ⟨rfl, h3⟩) (fun h _ => ⟨h, trivial⟩) (by simp [weight]) rfl
  | done =>
    cases fuel with
    | zero => simp [need] at hf
    | succ f =>
      simp only [step]
      exact ⟨rfl, rfl, hgi.1, rfl, rfl, fun h => by simp [isW] at h⟩

theorem need_le_fuelOf (pc : Pc) (r : AR) : need pc r ≤ fuelOf r := by
  have : mu r ≤ r.src.length + 2 := by unfold mu; split <;> omega
  unfold need fuelOf; split <;> omega


/-! ### `_read_from`: draining a generator completely / up to `size` bytes -/

theorem lim_le (pc : Pc) (r : AR) (hgi : GI pc r) : lim pc (abs r) ≤ (abs r).length := by
  cases pc with
  | wStart h => exact Nat.le_refl _
  | wAfterHint => exact Nat.le_refl _
  | wSource => exact Nat.le_refl _
  | done => exact Nat.zero_le _
  | dStart d h => exact (U_spec d _ hgi.2.1).1
  | dFoundAfterHint d p => exact (U_spec d _ hgi.2.1.1).1
  | dPreLoop d => exact (U_spec d _ hgi.2.1.1).1
  | dLoop d => exact (U_spec d _ hgi.2.1.1).1
  | dAfterOutput d => exact (U_spec d _ hgi.2.1.1).1

/-- `async for chunk in source: result.write(chunk)` hands out exactly the generator's share of the flat text -/
theorem readAll_spec : ∀ (fuel : Nat) (pc : Pc) (r : AR) (acc : Bytes), GI pc r → weight pc r < fuel →
    ∃ r', readAll fuel pc r acc = (.ok (acc ++ (abs r).take (lim pc (abs r))), r') ∧ Good r' ∧
      abs r' = (abs r).drop (lim pc (abs r)) ∧ total r' = total r ∧ r'.chunk = r.chunk ∧
      (isW pc = true → r'.exhausted = true ∧ r'.pos = r'.len) := by
  intro fuel
  induction fuel with
  | zero => intro pc r acc _ h; omega
  | succ f ih =>
    intro pc r acc hgi hw
    have hs := step_spec (fuelOf r) pc r hgi (need_le_fuelOf pc r)
    simp only [readAll]
    rcases hx : step (fuelOf r) pc r with ⟨y, pc', r1⟩
    rw [hx] at hs
    cases y with
    | yield c =>
      obtain ⟨a1, a2, a3, a4, a5, a6, a7, a8⟩ := hs
      obtain ⟨r', e1, e2, e3, e4, e5, e6⟩ := ih pc' r1 (acc ++ c) a4 (by omega)
      refine ⟨r', ?_, e2, ?_, by rw [e4, a6], by rw [e5, a7], by rw [← a8]; exact e6⟩
      · simp only
        rw [e1, ← a3, List.take_add, ← a1, a2, List.append_assoc]
      · rw [e3, ← a3, a2, List.drop_drop]
    | stop =>
      obtain ⟨a1, a2, a3, a4, a5, a6⟩ := hs
      refine ⟨r1, by simp only [a1, List.take_zero, List.append_nil], a3, by rw [a1, a2]; rfl, a4, a5, a6⟩
    | raiseValue => exact absurd hs id

theorem prepend_spec (r : AR) (x : Bytes) (hg : Good r) :
    Good (prependBuffer r x) ∧ abs (prependBuffer r x) = x ++ abs r ∧ total (prependBuffer r x) = total r ∧
    (prependBuffer r x).chunk = r.chunk := by
  have hl := hg.len_eq; have hp := hg.pos_nonneg; have hpl := hg.pos_le
  unfold prependBuffer
  by_cases h : r.len > r.pos
  · rw [if_pos h]
    have hg2 : Good { r with buf := x ++ sliceFrom r.buf r.pos, len := ((x ++ sliceFrom r.buf r.pos).length : Int), pos := 0 } :=
      ⟨rfl, Int.le_refl 0, by show (0 : Int) ≤ ((x ++ sliceFrom r.buf r.pos).length : Int); omega, hg.chunk_pos, hg.exh_iff⟩
    refine ⟨hg2, ?_, rfl, rfl⟩
    rw [abs_eq _ hg2]
    show List.drop (0 : Int).toNat (x ++ sliceFrom r.buf r.pos) ++ future r = _
    unfold abs; simp
  · rw [if_neg h]
    have hg2 : Good { r with buf := x, len := (x.length : Int), pos := 0 } :=
      ⟨rfl, Int.le_refl 0, by show (0 : Int) ≤ (x.length : Int); omega, hg.chunk_pos, hg.exh_iff⟩
    refine ⟨hg2, ?_, rfl, rfl⟩
    have hb : r.buf.drop r.pos.toNat = [] := List.drop_of_length_le (by omega)
    rw [abs_eq _ hg2, abs_eq r hg, hb]
    show List.drop (0 : Int).toNat x ++ future r = _
    simp

/-- the `remaining`-counting loop of `_read_from` (both the join and the `BytesIO` variant): exactly `min(size, share)` bytes,
    the unused tail of the last chunk is put back in front of the buffer -/
theorem readN_spec : ∀ (fuel : Nat) (pc : Pc) (r : AR) (rem : Int) (acc : Bytes), GI pc r → weight pc r < fuel → 0 < rem →
    ∃ r', readN fuel pc r rem acc = (.ok (acc ++ (abs r).take (min rem.toNat (lim pc (abs r)))), r') ∧ Good r' ∧
      abs r' = (abs r).drop (min rem.toNat (lim pc (abs r))) ∧ total r' = total r ∧ r'.chunk = r.chunk := by
  intro fuel
  induction fuel with
  | zero => intro pc r rem acc _ h; omega
  | succ f ih =>
    intro pc r rem acc hgi hw hrem
    have hs := step_spec (fuelOf r) pc r hgi (need_le_fuelOf pc r)
    have hle := lim_le pc r hgi
    simp only [readN]
    rcases hx : step (fuelOf r) pc r with ⟨y, pc', r1⟩
    rw [hx] at hs
    cases y with
    | yield c =>
      obtain ⟨a1, a2, a3, a4, a5, a6, a7, a8⟩ := hs
      have hcl : c.length ≤ (abs r).length := by omega
      simp only
      by_cases h1 : rem < (c.length : Int)
      · simp only [h1, if_true]
        obtain ⟨p1, p2, p3, p4⟩ := prepend_spec r1 (sliceFrom c rem) a4.1
        have hmin : min rem.toNat (lim pc (abs r)) = rem.toNat := by omega
        have hres : sliceTo c rem = (abs r).take (min rem.toNat (lim pc (abs r))) := by
          rw [hmin, Rd.sliceTo_nonneg _ _ (by omega)]
          conv => lhs; rw [a1]
          rw [List.take_take]; congr 1; omega
        refine ⟨_, by rw [hres], p1, ?_, by rw [p3, a6], by rw [p4, a7]⟩
        · rw [p2, hmin, a2, Rd.sliceFrom_nonneg _ _ (by omega)]
          conv => rhs; rw [← List.take_append_drop c.length (abs r), ← a1]
          rw [List.drop_append_of_le_length (by omega)]
      · simp only [h1, if_false]
        by_cases h2 : rem - (c.length : Int) = 0
        · have hb : (rem - (c.length : Int) == 0) = true := by simp [h2]
          simp only [hb, if_true]
          have hmin : min rem.toNat (lim pc (abs r)) = c.length := by omega
          refine ⟨r1, ?_, a4.1, by rw [hmin]; exact a2, a6, a7⟩
          rw [hmin, ← a1]
        · have hb : (rem - (c.length : Int) == 0) = false := by simp [h2]
          simp only [hb, Bool.false_eq_true, if_false]
          obtain ⟨r', e1, e2, e3, e4, e5⟩ := ih pc' r1 (rem - c.length) (acc ++ c) a4 (by omega) (by omega)
          have hmin : min rem.toNat (lim pc (abs r)) = c.length + min (rem - (c.length : Int)).toNat (lim pc' (abs r1)) := by omega
          refine ⟨r', ?_, e2, ?_, by rw [e4, a6], by rw [e5, a7]⟩
          · rw [e1, hmin, List.take_add, ← a1, a2, List.append_assoc]
          · rw [e3, hmin, a2, List.drop_drop]
    | stop =>
      obtain ⟨a1, a2, a3, a4, a5, a6⟩ := hs
      refine ⟨r1, by simp only [a1, Nat.min_zero, List.take_zero, List.append_nil], a3, by rw [a1, a2]; simp, a4, a5⟩
    | raiseValue => exact absurd hs id

theorem weight_lt_big (pc : Pc) (r : AR) : weight pc r < 4 * (r.src.length + 4) := by
  have : mu r ≤ r.src.length + 2 := by unfold mu; split <;> omega
  unfold weight; split <;> omega

open Rd (want) in
/-- **`_read_from(source, size)`** for any `size` (`None`, `-1`, ≤ 0, > 0) and either wrapper generator: returns the next
    `min(size, share)` bytes of the flat text and leaves exactly the rest -/
theorem readFrom_spec (pc : Pc) (r : AR) (size : Option Int) (hgi : GI pc r) :
    ∃ r', readFrom pc r size = (.ok ((abs r).take (min (want (abs r) size) (lim pc (abs r)))), r') ∧ Good r' ∧
      abs r' = (abs r).drop (min (want (abs r) size) (lim pc (abs r))) ∧ total r' = total r ∧ r'.chunk = r.chunk := by
  have hle := lim_le pc r hgi
  have hall : ∃ r', readAll (4 * (r.src.length + 4)) pc r [] = (.ok ((abs r).take (min (abs r).length (lim pc (abs r)))), r') ∧ Good r' ∧
      abs r' = (abs r).drop (min (abs r).length (lim pc (abs r))) ∧ total r' = total r ∧ r'.chunk = r.chunk := by
    obtain ⟨r', e1, e2, e3, e4, e5, _⟩ := readAll_spec _ pc r [] hgi (weight_lt_big pc r)
    have hmin : min (abs r).length (lim pc (abs r)) = lim pc (abs r) := by omega
    exact ⟨r', by rw [e1, hmin]; rfl, e2, by rw [e3, hmin], e4, e5⟩
  unfold readFrom
  cases size with
  | none => simpa only [want] using hall
  | some s =>
    simp only
    by_cases h1 : s = -1
    · subst h1
      simpa only [want, if_true, beq_self_eq_true] using hall
    · have hb : (s == -1) = false := by simp [h1]
      simp only [hb, Bool.false_eq_true, if_false, want, h1]
      by_cases h2 : s ≤ 0
      · simp only [h2, if_true]
        have : s.toNat = 0 := by omega
        refine ⟨r, by rw [this]; simp, hgi.1, by rw [this]; simp, rfl, rfl⟩
      · simp only [h2, if_false]
        obtain ⟨r', e1, e2, e3, e4, e5⟩ := readN_spec _ pc r s [] hgi (weight_lt_big pc r) (by omega)
        exact ⟨r', by rw [e1]; rfl, e2, e3, e4, e5⟩


/-! ### `peek`, `_consume_delimiter` -/

theorem peekLoop_spec : ∀ (fuel : Nat) (r : AR) (size : Int), Good r → r.pos = 0 → mu r ≤ fuel →
    Good (peekLoop fuel r size) ∧ abs (peekLoop fuel r size) = abs r ∧ (peekLoop fuel r size).pos = 0 ∧
    (size ≤ (peekLoop fuel r size).len ∨ future (peekLoop fuel r size) = []) ∧ total (peekLoop fuel r size) = total r ∧
    (peekLoop fuel r size).chunk = r.chunk := by
  intro fuel
  induction fuel with
  | zero =>
    intro r size hg hp0 hmu
    have hfin : r.npc = .finished := by
      unfold mu at hmu
      cases hn : r.npc <;> simp [hn] at hmu
      rfl
    exact ⟨hg, rfl, hp0, Or.inr (by show future r = []; simp [future, hfin]), rfl, rfl⟩
  | succ f ih =>
    intro r size hg hp0 hmu
    have hn := nextNorm_spec r hg
    simp only [peekLoop]
    rcases hx : nextNorm r with ⟨_ | c, r'⟩
    · rw [hx] at hn
      obtain ⟨n1, n2, n3, n4, n5, s1, s2, s3, s4⟩ := hn
      have hg' := good_next_none hg ⟨s1, s2, s3, s4⟩ n3 n4
      refine ⟨hg', ?_, by rw [s3, hp0], Or.inr n2, by simp [total, n5, n1, n2], s4⟩
      rw [abs_same ⟨s1, s2, s3, s4⟩, n2]; unfold abs; rw [n1]
    · rw [hx] at hn
      obtain ⟨n1, n2, n3, n4, ⟨s1, s2, s3, s4⟩, n6, n7, n8, n9⟩ := hn
      have hg' := good_next_some hg ⟨s1, s2, s3, s4⟩ n7 n8 n9
      simp only
      have hg2 : Good { r' with buf := r'.buf ++ c, len := ((r'.buf ++ c).length : Int) } :=
        ⟨rfl, hg'.pos_nonneg, by show r'.pos ≤ ((r'.buf ++ c).length : Int); rw [s3, hp0]; omega, hg'.chunk_pos, hg'.exh_iff⟩
      have ha2 : abs { r' with buf := r'.buf ++ c, len := ((r'.buf ++ c).length : Int) } = abs r := by
        rw [abs_eq _ hg2, abs_eq r hg, n2]
        show List.drop r'.pos.toNat (r'.buf ++ c) ++ future r' = _
        rw [s3, s1, hp0]; simp
      have ht2 : total { r' with buf := r'.buf ++ c, len := ((r'.buf ++ c).length : Int) } = total r := by
        show r'.consumed + ((future r').length : Int) = r.consumed + ((future r).length : Int)
        rw [n4, n2, List.length_append]; omega
      by_cases hge : ((r'.buf ++ c).length : Int) ≥ size
      · rw [if_pos hge]
        exact ⟨hg2, ha2, by show r'.pos = 0; rw [s3, hp0], Or.inl hge, ht2, s4⟩
      · rw [if_neg hge]
        obtain ⟨i1, i2, i3, i4, i5, i6⟩ := ih { r' with buf := r'.buf ++ c, len := ((r'.buf ++ c).length : Int) } size hg2
          (by show r'.pos = 0; rw [s3, hp0]) (by show mu r' ≤ f; omega)
        exact ⟨i1, by rw [i2, ha2], i3, i4, by rw [i5, ht2], by rw [i6]; exact s4⟩

/-- the size `peek` really uses -/
def peekSize (chunk size : Int) : Nat := (if size < 0 || size > chunk then chunk else size).toNat

/-- **`peek(size)`**: the next `size` (clamped to the chunk size) bytes, nothing consumed -/
theorem peek_spec (r : AR) (size : Int) (hg : Good r) :
    (peek r size).1 = (abs r).take (peekSize r.chunk size) ∧ abs (peek r size).2 = abs r ∧ Good (peek r size).2 ∧
    total (peek r size).2 = total r ∧ (peek r size).2.chunk = r.chunk ∧ (peek r size).2.pos = 0 ∧
    ((peekSize r.chunk size : Int) ≤ (peek r size).2.len ∨ future (peek r size).2 = []) := by
  have hc := hg.chunk_pos
  unfold peek peekSize
  generalize hS : (if size < 0 || size > r.chunk then r.chunk else size) = S
  have hS0 : 0 ≤ S := by
    rw [← hS]; split
    · omega
    · rename_i h; simp at h; omega
  -- after the optional trim
  have h1 : ∃ r1, (if r.pos > 0 then trimBuffer r else r) = r1 ∧ Good r1 ∧ abs r1 = abs r ∧ r1.pos = 0 ∧ total r1 = total r ∧
      r1.chunk = r.chunk ∧ mu r1 = mu r ∧ r1.src = r.src := by
    by_cases hp : r.pos > 0
    · obtain ⟨t1, t2, t3, _, t5, t6, t7, _⟩ := trim_spec r hg
      exact ⟨_, by rw [if_pos hp], t1, t2, t3, t5, t7, t6, rfl⟩
    · exact ⟨r, by rw [if_neg hp], hg, rfl, by have := hg.pos_nonneg; omega, rfl, rfl, rfl, rfl⟩
  obtain ⟨r1, e1, g1, a1, p1, t1, c1, m1, sr1⟩ := h1
  simp only [e1]
  have h2 : ∃ r2, (if r1.len < S then peekLoop (r1.src.length + 2) r1 S else r1) = r2 ∧ Good r2 ∧ abs r2 = abs r ∧ r2.pos = 0 ∧
      (S ≤ r2.len ∨ future r2 = []) ∧ total r2 = total r ∧ r2.chunk = r.chunk := by
    by_cases hlt : r1.len < S
    · have hmu : mu r1 ≤ r1.src.length + 2 := by unfold mu; split <;> omega
      obtain ⟨i1, i2, i3, i4, i5, i6⟩ := peekLoop_spec (r1.src.length + 2) r1 S g1 p1 hmu
      exact ⟨_, by rw [if_pos hlt], i1, by rw [i2, a1], i3, i4, by rw [i5, t1], by rw [i6, c1]⟩
    · exact ⟨r1, by rw [if_neg hlt], g1, a1, p1, Or.inl (by omega), t1, c1⟩
  obtain ⟨r2, e2, g2, a2, p2, f2, t2, c2⟩ := h2
  simp only [e2]
  refine ⟨?_, a2, g2, t2, c2, p2, by rw [Int.toNat_of_nonneg hS0]; exact f2⟩
  rw [Rd.sliceTo_nonneg _ _ hS0, ← a2, abs_eq r2 g2, p2]
  show _ = List.take S.toNat (List.drop 0 r2.buf ++ future r2)
  have hl := g2.len_eq
  rcases f2 with h | h
  · rw [List.drop_zero, List.take_append_of_le_length (by omega)]
  · rw [h]; simp

/-- **`_consume_delimiter`** on the flat text: succeeds iff the text continues with the delimiter, then steps over it;
    otherwise nothing is consumed -/
theorem consume_spec (r : AR) (d : Bytes) (hg : Good r) (hdc : (d.length : Int) ≤ r.chunk) :
    ((abs r).take d.length = d → ∃ r', consumeDelimiter r d = some r' ∧ abs r' = (abs r).drop d.length ∧ Good r' ∧
        total r' = total r ∧ r'.chunk = r.chunk) ∧
    ((abs r).take d.length ≠ d → consumeDelimiter r d = none ∧ abs (peek r d.length).2 = abs r ∧ Good (peek r d.length).2 ∧
        total (peek r d.length).2 = total r ∧ (peek r d.length).2.chunk = r.chunk) := by
  obtain ⟨k1, k2, k3, k4, k5, k6, k7⟩ := peek_spec r d.length hg
  have hps : peekSize r.chunk (d.length : Int) = d.length := by
    unfold peekSize
    have h1 : ¬ ((d.length : Int) < 0) := by omega
    have h2 : ¬ ((d.length : Int) > r.chunk) := by omega
    simp [h1, h2]
  rw [hps] at k1 k7
  unfold consumeDelimiter
  constructor
  · intro heq
    rcases hpk : peek r d.length with ⟨p, r1⟩
    rw [hpk] at k1 k2 k3 k4 k5 k6 k7
    simp only at k1 k2 k3 k4 k5 k6 k7
    have hpd : p = d := by rw [k1, heq]
    simp only [hpd, bne_self_eq_false, Bool.false_eq_true, if_false]
    have hl := k3.len_eq
    have hfit : (d.length : Int) ≤ r1.len := by
      rcases k7 with h | h
      · exact h
      · have : (abs r1).length = r1.buf.length := by rw [abs_eq r1 k3, k6, h]; simp
        have h3 : d.length ≤ (abs r).length := by
          have := congrArg List.length heq
          rw [List.length_take] at this; omega
        rw [← k2, this] at h3; omega
    obtain ⟨b1, b2, b3, b4⟩ := buf_yield r1 k3 (r1.pos + d.length) (by omega) (by rw [k6]; omega)
    refine ⟨_, rfl, ?_, b3, k4, k5⟩
    rw [b2, k2]; congr 1; omega
  · intro hne
    rcases hpk : peek r d.length with ⟨p, r1⟩
    rw [hpk] at k1 k2 k3 k4 k5
    simp only at k1 k2 k3 k4 k5
    have hpd : (p != d) = true := by rw [k1]; simpa using hne
    simp only [hpd, if_true]
    exact ⟨trivial, k2, k3, k4, k5⟩


/-! ### the public operations and the history theorem -/

/-- the modelled public operations of the async `BufferedReader` (exactly what `ardriver` executes) -/
inductive AOp where
  | read (size : Option Int)
  | readall
  | peek (size : Int)
  | readUntil (d : Bytes) (size : Option Int) (consume : Bool)
  | pipeUntil (d : Bytes) (consume : Bool)
  | pipe
  | exhaust

/-- the same operation of the flat cursor `Rd.cursorStep` (the specification shared with the sync reader); `readall()` = `read(None)` -/
def AOp.toPOp : AOp → Rd.POp
  | .read s => .read s
  | .readall => .read none
  | .peek n => .peek n
  | .readUntil d s c => .readUntil d s c
  | .pipeUntil d c => .pipeUntil d c
  | .pipe => .pipe
  | .exhaust => .exhaust

/-- argument conditions: delimiters are non-empty and no longer than the chunk size; sizes are arbitrary (`None` or any int) -/
def AOp.ok (chunk : Int) : AOp → Prop
  | .readUntil d _ _ => d ≠ [] ∧ (d.length : Int) ≤ chunk
  | .pipeUntil d _ => d ≠ [] ∧ (d.length : Int) ≤ chunk
  | _ => True

def resObs : Res → Rd.Obs
  | .ok b => .bytes b
  | .delimErr => .delimErr
  | .valueErr => .valueErr

/-- **the implementation**: one public operation of the reader model, as the driver runs it -/
def asyncStep (r : AR) : AOp → Rd.Obs × AR
  | .read s => let x := read r s; (resObs x.1, x.2)
  | .readall => let x := readall r; (resObs x.1, x.2)
  | .peek n => let x := peek r n; (.bytes x.1, x.2)
  | .readUntil d s c => let x := readUntil r d s c; (resObs x.1, x.2.1)
  | .pipeUntil d c => let x := pipeUntil r d c; (resObs x.1, x.2)
  | .pipe => let x := pipe r; (resObs x.1, x.2)
  | .exhaust => let x := pipe r; ((match x.1 with | .ok _ => .unit | e => resObs e), x.2)

def asyncRun : AR → List AOp → List Rd.Obs × AR
  | r, [] => ([], r)
  | r, op :: rest =>
    let (o, r1) := asyncStep r op
    let (os, r2) := asyncRun r1 rest
    (o :: os, r2)

theorem take_min_length (A : Bytes) (n : Nat) : A.take (min n A.length) = A.take n := by
  rcases Nat.le_total n A.length with h | h
  · rw [Nat.min_eq_left h]
  · rw [Nat.min_eq_right h, List.take_of_length_le (Nat.le_refl _), List.take_of_length_le h]

theorem drop_min_length (A : Bytes) (n : Nat) : A.drop (min n A.length) = A.drop n := by
  rcases Nat.le_total n A.length with h | h
  · rw [Nat.min_eq_left h]
  · rw [Nat.min_eq_right h, List.drop_of_length_le (Nat.le_refl _), List.drop_of_length_le h]

/-- what one operation has to establish -/
def Refines (r : AR) (op : AOp) (x : Rd.Obs × AR) : Prop :=
  x.1 = (Rd.cursorStep r.chunk (abs r) op.toPOp).1 ∧ abs x.2 = (Rd.cursorStep r.chunk (abs r) op.toPOp).2 ∧
  Good x.2 ∧ x.2.chunk = r.chunk ∧ total x.2 = total r

theorem read_refines (r : AR) (s : Option Int) (hg : Good r) : Refines r (.read s) (asyncStep r (.read s)) := by
  obtain ⟨r', e1, e2, e3, e4, e5⟩ := readFrom_spec (.wStart (hintOf s)) r s ⟨hg, trivial⟩
  simp only [lim, take_min_length, drop_min_length] at e1 e3
  simp only [Refines, asyncStep, read, e1, resObs, AOp.toPOp, Rd.cursorStep]
  exact ⟨trivial, e3, e2, e5, e4⟩

theorem readall_refines (r : AR) (hg : Good r) : Refines r .readall (asyncStep r .readall) := by
  obtain ⟨r', e1, e2, e3, e4, e5⟩ := readFrom_spec (.wStart 0) r none ⟨hg, trivial⟩
  simp only [lim, take_min_length, drop_min_length] at e1 e3
  simp only [Refines, asyncStep, readall, e1, resObs, AOp.toPOp, Rd.cursorStep]
  exact ⟨trivial, e3, e2, e5, e4⟩

theorem peek_refines (r : AR) (n : Int) (hg : Good r) : Refines r (.peek n) (asyncStep r (.peek n)) := by
  obtain ⟨k1, k2, k3, k4, k5, _, _⟩ := peek_spec r n hg
  simp only [Refines, asyncStep, AOp.toPOp, Rd.cursorStep, k1]
  exact ⟨rfl, k2, k3, k5, k4⟩

theorem pipe_spec (r : AR) (hg : Good r) : ∃ r', pipe r = (.ok (abs r), r') ∧ abs r' = [] ∧ Good r' ∧ r'.chunk = r.chunk ∧
    total r' = total r ∧ eof r' = true := by
  obtain ⟨r', e1, e2, e3, e4, e5, e6⟩ := readAll_spec (4 * (r.src.length + 4)) (.wStart 0) r [] ⟨hg, trivial⟩ (weight_lt_big _ r)
  obtain ⟨x1, x2⟩ := e6 rfl
  simp only [lim, List.take_length, List.drop_length, List.nil_append] at e1 e3
  exact ⟨r', e1, e3, e2, e5, e4, by simp [eof, x1, x2]⟩

theorem pipe_refines (r : AR) (hg : Good r) : Refines r .pipe (asyncStep r .pipe) := by
  obtain ⟨r', e1, e2, e3, e4, e5, _⟩ := pipe_spec r hg
  simp only [Refines, asyncStep, e1, resObs, AOp.toPOp, Rd.cursorStep]
  exact ⟨trivial, e2, e3, e4, e5⟩

theorem exhaust_refines (r : AR) (hg : Good r) : Refines r .exhaust (asyncStep r .exhaust) := by
  obtain ⟨r', e1, e2, e3, e4, e5, _⟩ := pipe_spec r hg
  simp only [Refines, asyncStep, e1, AOp.toPOp, Rd.cursorStep]
  exact ⟨trivial, e2, e3, e4, e5⟩

/-- the `consume_delimiter` tail shared by `read_until` and `pipe_until`, against `Rd.untilSpec` -/
theorem until_tail (A d : Bytes) (n : Nat) (r1 : AR) (chunk : Int) (tot : Int) (hg : Good r1) (hdc : (d.length : Int) ≤ chunk)
    (hc : r1.chunk = chunk) (ha : abs r1 = A.drop (stopAt d A n)) (ht : total r1 = tot) :
    (match consumeDelimiter r1 d with
      | some r2 => (Rd.Obs.bytes (A.take (stopAt d A n)), r2)
      | none => (Rd.Obs.delimErr, (peek r1 d.length).2)) = x →
    x.1 = (Rd.untilSpec A d n true).1 ∧ abs x.2 = (Rd.untilSpec A d n true).2 ∧ Good x.2 ∧ x.2.chunk = chunk ∧ total x.2 = tot := by
  intro hx
  obtain ⟨c1, c2⟩ := consume_spec r1 d hg (by rw [hc]; exact hdc)
  simp only [Rd.untilSpec, if_true]
  by_cases hat : (A.drop (stopAt d A n)).take d.length = d
  · obtain ⟨r2, f1, f2, f3, f4, f5⟩ := c1 (by rw [ha]; exact hat)
    rw [f1] at hx
    subst hx
    simp only [hat, if_true]
    exact ⟨trivial, by rw [f2, ha, List.drop_drop], f3, by rw [f5, hc], by rw [f4, ht]⟩
  · obtain ⟨f1, f2, f3, f4, f5⟩ := c2 (by rw [ha]; exact hat)
    rw [f1] at hx
    subst hx
    simp only [hat, if_false]
    exact ⟨trivial, by rw [f2, ha], f3, by rw [f5, hc], by rw [f4, ht]⟩

theorem readUntil_refines (r : AR) (d : Bytes) (s : Option Int) (c : Bool) (hg : Good r) (hd : d ≠ []) (hdc : (d.length : Int) ≤ r.chunk) :
    Refines r (.readUntil d s c) (asyncStep r (.readUntil d s c)) := by
  obtain ⟨r1, e1, e2, e3, e4, e5⟩ := readFrom_spec (.dStart d (hintOf s)) r s ⟨hg, hd, hdc⟩
  simp only [lim, ← stopAt_eq_min_U d _ hd] at e1 e3
  simp only [Refines, asyncStep, AOp.toPOp, Rd.cursorStep, readUntil, e1]
  cases c with
  | false =>
    simp only [Bool.false_eq_true, if_false, resObs, Rd.untilSpec]
    exact ⟨trivial, e3, e2, e5, e4⟩
  | true =>
    simp only [if_true]
    have := until_tail (abs r) d (Rd.want (abs r) s) r1 r.chunk (total r) e2 hdc e5 e3 e4 (x := _) rfl
    rcases hcd : consumeDelimiter r1 d with _ | r2
    · rw [hcd] at this; simpa only [resObs] using this
    · rw [hcd] at this; simpa only [resObs] using this

theorem pipeUntil_refines (r : AR) (d : Bytes) (c : Bool) (hg : Good r) (hd : d ≠ []) (hdc : (d.length : Int) ≤ r.chunk) :
    Refines r (.pipeUntil d c) (asyncStep r (.pipeUntil d c)) := by
  obtain ⟨r1, e1, e2, e3, e4, e5, _⟩ := readAll_spec (4 * (r.src.length + 4)) (.dStart d 0) r [] ⟨hg, hd, hdc⟩ (weight_lt_big _ r)
  have hU : lim (.dStart d 0) (abs r) = stopAt d (abs r) (abs r).length := rfl
  rw [hU] at e1 e3
  simp only [List.nil_append] at e1
  simp only [Refines, asyncStep, AOp.toPOp, Rd.cursorStep, pipeUntil, e1]
  cases c with
  | false =>
    simp only [Bool.false_eq_true, if_false, resObs, Rd.untilSpec]
    exact ⟨trivial, e3, e2, e5, e4⟩
  | true =>
    simp only [if_true]
    have := until_tail (abs r) d (abs r).length r1 r.chunk (total r) e2 hdc e5 e3 e4 (x := _) rfl
    rcases hcd : consumeDelimiter r1 d with _ | r2
    · rw [hcd] at this; simpa only [resObs] using this
    · rw [hcd] at this; simpa only [resObs] using this

/-- **one public operation of the async reader = one step of the flat cursor** (same observation, same remaining text),
    for every chunking still to come (`r.src`, `r.pending`, the suspended `_iter_normalized`) and every buffer state -/
theorem asyncStep_refines (r : AR) (op : AOp) (hg : Good r) (hok : op.ok r.chunk) : Refines r op (asyncStep r op) := by
  cases op with
  | read s => exact read_refines r s hg
  | readall => exact readall_refines r hg
  | peek n => exact peek_refines r n hg
  | readUntil d s c => exact readUntil_refines r d s c hg hok.1 hok.2
  | pipeUntil d c => exact pipeUntil_refines r d c hg hok.1 hok.2
  | pipe => exact pipe_refines r hg
  | exhaust => exact exhaust_refines r hg

/-- **C14 for the async reader, every history.** From every reader state satisfying the representation invariant - any buffer
    contents and position, any list of source chunks still to come (empty chunks anywhere), `_iter_normalized` suspended at any
    of its yields - every history of public operations with valid delimiters returns, operation by operation, what the flat
    cursor `Rd.cursorRun` returns on the text still to come, leaves exactly the cursor's rest, and keeps `consumed + future`
    (hence `tell() + len(rest)`) constant. -/
theorem async_history_refines_cursor (ops : List AOp) : ∀ (r : AR), Good r → (∀ op ∈ ops, op.ok r.chunk) →
    (asyncRun r ops).1 = (Rd.cursorRun r.chunk (abs r) (ops.map AOp.toPOp)).1 ∧
    abs (asyncRun r ops).2 = (Rd.cursorRun r.chunk (abs r) (ops.map AOp.toPOp)).2 ∧
    Good (asyncRun r ops).2 ∧ (asyncRun r ops).2.chunk = r.chunk ∧ total (asyncRun r ops).2 = total r := by
  induction ops with
  | nil => intro r hg _; exact ⟨rfl, rfl, hg, rfl, rfl⟩
  | cons op rest ih =>
    intro r hg hok
    obtain ⟨s1, s2, s3, s4, s5⟩ := asyncStep_refines r op hg (hok op (by simp))
    rcases hi : asyncStep r op with ⟨o, r1⟩
    rw [hi] at s1 s2 s3 s4 s5
    simp only at s1 s2 s3 s4 s5
    obtain ⟨t1, t2, t3, t4, t5⟩ := ih r1 s3 (fun op' h' => by rw [s4]; exact hok op' (by simp [h']))
    rcases hc : Rd.cursorStep r.chunk (abs r) op.toPOp with ⟨o', A1⟩
    rw [hc] at s1 s2
    simp only at s1 s2
    simp only [asyncRun, Rd.cursorRun, List.map_cons, hi, hc]
    rw [s4, s2] at t1 t2
    exact ⟨by rw [s1, t1], t2, t3, by rw [t4, s4], by rw [t5, s5]⟩

/-! ### position and end of stream -/

theorem tell_total (r : AR) (hg : Good r) : tell r + (abs r).length = total r := by
  unfold tell total
  rw [abs_length_buf r hg]
  have := hg.pos_le; omega

/-- `eof` is reported only at the end of the flat text -/
theorem eof_end (r : AR) (hg : Good r) (h : eof r = true) : abs r = [] := by
  unfold eof at h
  simp only [Bool.and_eq_true, beq_iff_eq] at h
  have hf : future r = [] := by
    have := hg.exh_iff.mp h.1
    simp [future, this]
  have hl := hg.len_eq
  rw [abs_eq r hg, hf, List.drop_of_length_le (by omega)]; rfl

/-- ... and is reported once `readall()` / `read(None)` / `read(-1)` / `pipe()` / `exhaust()` has run into the end -/
theorem eof_after_drain (r : AR) (hg : Good r) :
    eof (asyncStep r .readall).2 = true ∧ eof (asyncStep r .pipe).2 = true ∧ eof (asyncStep r .exhaust).2 = true ∧
    eof (asyncStep r (.read none)).2 = true ∧ eof (asyncStep r (.read (some (-1)))).2 = true := by
  obtain ⟨r', e1, _, _, _, _, e6⟩ := pipe_spec r hg
  have hp : pipe r = readAll (4 * (r.src.length + 4)) (.wStart 0) r [] := rfl
  refine ⟨?_, ?_, ?_, ?_, ?_⟩
  · show eof (readFrom (.wStart 0) r none).2 = true
    simp only [readFrom, ← hp, e1, e6]
  · show eof (pipe r).2 = true
    rw [e1]; exact e6
  · show eof (pipe r).2 = true
    rw [e1]; exact e6
  · show eof (readFrom (.wStart 0) r none).2 = true
    simp only [readFrom, ← hp, e1, e6]
  · show eof (readFrom (.wStart (-1)) r (some (-1))).2 = true
    obtain ⟨r2, f1, f2, f3, f4, f5, f6⟩ := readAll_spec (4 * (r.src.length + 4)) (.wStart (-1)) r [] ⟨hg, trivial⟩ (weight_lt_big _ r)
    obtain ⟨x1, x2⟩ := f6 rfl
    simp only [readFrom, beq_self_eq_true, if_true, f1]
    simp [eof, x1, x2]

/-- a freshly constructed reader `BufferedReader(source, chunk_size)`: the text still to come is the concatenation of all
    source chunks, the position is 0 -/
theorem fresh_async (chunk : Int) (parts : List Bytes) (hc : 0 < chunk) :
    let r : AR := { chunk := chunk, src := parts }
    Good r ∧ abs r = parts.flatten ∧ tell r = 0 := by
  intro r
  have he : r.exhausted = false := rfl
  have hn : r.npc = .running := rfl
  refine ⟨⟨rfl, Int.le_refl 0, Int.le_refl 0, hc, Iff.intro (fun h => by rw [he] at h; cases h) (fun h => by rw [hn] at h; cases h)⟩, ?_, rfl⟩
  simp [abs, future, r, sliceFrom, Rd.pyIdx]

/-- **C14, async reader, as stated**: for every list of source chunks (every chunking of the data, empty chunks anywhere),
    every chunk size > 0 and every history of operations with valid delimiters, the reader constructed over that source
    returns operation by operation what the flat cursor over the concatenated data returns (no byte lost, duplicated or
    reordered), what is still to come is exactly the cursor's rest, and `tell()` is the cursor's position. -/
theorem async_reader_refines_flat_cursor (chunk : Int) (parts : List Bytes) (ops : List AOp) (hc : 0 < chunk)
    (hok : ∀ op ∈ ops, op.ok chunk) :
    let run := asyncRun { chunk := chunk, src := parts } ops
    let spec := Rd.cursorRun chunk parts.flatten (ops.map AOp.toPOp)
    run.1 = spec.1 ∧ abs run.2 = spec.2 ∧ tell run.2 = (parts.flatten.length : Int) - spec.2.length ∧
    (eof run.2 = true → spec.2 = []) := by
  intro run spec
  obtain ⟨f1, f2, f3⟩ := fresh_async chunk parts hc
  obtain ⟨h1, h2, h3, h4, h5⟩ := async_history_refines_cursor ops { chunk := chunk, src := parts } f1 hok
  rw [f2] at h1 h2
  have h1 : (asyncRun { chunk := chunk, src := parts } ops).1 = (Rd.cursorRun chunk parts.flatten (ops.map AOp.toPOp)).1 := h1
  have h2 : abs (asyncRun { chunk := chunk, src := parts } ops).2 = (Rd.cursorRun chunk parts.flatten (ops.map AOp.toPOp)).2 := h2
  have t0 := tell_total _ f1
  have t1 := tell_total _ h3
  rw [f2, f3] at t0
  refine ⟨h1, h2, ?_, fun he => ?_⟩
  · show tell (asyncRun _ ops).2 = _
    rw [h2] at t1
    show _ = (parts.flatten.length : Int) - ((Rd.cursorRun chunk parts.flatten (ops.map AOp.toPOp)).2.length : Int)
    omega
  · have := eof_end _ h3 he
    rw [h2] at this; exact this

/-- non-vacuity and a concrete instance: chunk size 3, the source delivers `ab` `` `c\r\n` `d`; read(2), then
    read_until(CRLF, consume) across the chunk border, then peek, then readall -/
example :
    let ops := [AOp.read (some 2), .readUntil [13, 10] none true, .peek 5, .readall]
    (∀ op ∈ ops, op.ok 3) ∧
    (asyncRun { chunk := 3, src := [[97, 98], [], [99, 13], [10, 100]] } ops).1
      = [.bytes [97, 98], .bytes [99], .bytes [100], .bytes [100]] := by
  refine ⟨?_, by rfl⟩
  intro op hop
  simp only [List.mem_cons, List.not_mem_nil, or_false] at hop
  rcases hop with rfl | rfl | rfl | rfl
  · trivial
  · exact ⟨by simp, by decide⟩
  · trivial
  · trivial

/-! ### iteration (`__aiter__` + `async for`, abandoned after `k` chunks) -/

theorem lim_isW (pc : Pc) (A : Bytes) (h : isW pc = true) : lim pc A = A.length := by
  cases pc <;> simp [isW] at h <;> rfl

theorem iterLoop_spec : ∀ (k : Nat) (pc : Pc) (r : AR) (acc : List Bytes), GI pc r → isW pc = true →
    ∃ out, (ARi.iterLoop k pc r acc).1 = acc ++ out ∧ out.flatten = (abs r).take out.flatten.length ∧
      abs (ARi.iterLoop k pc r acc).2 = (abs r).drop out.flatten.length ∧ out.length ≤ k ∧
      (out.length = k ∨ abs (ARi.iterLoop k pc r acc).2 = []) ∧ Good (ARi.iterLoop k pc r acc).2 ∧
      total (ARi.iterLoop k pc r acc).2 = total r ∧ (ARi.iterLoop k pc r acc).2.chunk = r.chunk := by
  intro k
  induction k with
  | zero =>
    intro pc r acc hgi _
    exact ⟨[], by simp [ARi.iterLoop], by simp, by simp [ARi.iterLoop], Nat.le_refl _, Or.inl rfl, hgi.1, rfl, rfl⟩
  | succ k ih =>
    intro pc r acc hgi hW
    have hs := step_spec (fuelOf r) pc r hgi (need_le_fuelOf pc r)
    simp only [ARi.iterLoop]
    rcases hx : step (fuelOf r) pc r with ⟨y, pc', r1⟩
    rw [hx] at hs
    cases y with
    | yield c =>
      obtain ⟨a1, a2, a3, a4, a5, a6, a7, a8⟩ := hs
      obtain ⟨out, e1, e2, e3, e4, e5, e6, e7, e8⟩ := ih pc' r1 (acc ++ [c]) a4 (by rw [a8]; exact hW)
      simp only
      refine ⟨c :: out, by rw [e1]; simp, ?_, ?_, by simp; omega, ?_, e6, by rw [e7, a6], by rw [e8, a7]⟩
      · simp only [List.flatten_cons, List.length_append]
        rw [List.take_add, ← a1, ← a2, ← e2]
      · simp only [List.flatten_cons, List.length_append]
        rw [e3, a2, List.drop_drop]
      · rcases e5 with h | h
        · left; simp; omega
        · right; exact h
    | stop =>
      obtain ⟨a1, a2, a3, a4, a5, a6⟩ := hs
      rw [lim_isW pc _ hW] at a1
      have hA : abs r = [] := List.eq_nil_of_length_eq_zero a1
      simp only
      exact ⟨[], by simp, by simp, by rw [a2]; simp, Nat.zero_le _, Or.inr (by rw [a2, hA]), a3, a4, a5⟩
    | raiseValue => exact absurd hs id

/-- **iteration refines the flat cursor**: the chunks handed out concatenate to the next bytes of the flat text (their borders
    are free), the rest remains, and fewer than `k` chunks come only when the text is used up -/
theorem iterate_refines (r : AR) (k : Nat) (hg : Good r) :
    let cs := (ARi.iterate r k).1
    cs.flatten = (abs r).take cs.flatten.length ∧ abs (ARi.iterate r k).2 = (abs r).drop cs.flatten.length ∧
    cs.length ≤ k ∧ (cs.length = k ∨ abs (ARi.iterate r k).2 = []) ∧ Good (ARi.iterate r k).2 ∧
    total (ARi.iterate r k).2 = total r ∧ (ARi.iterate r k).2.chunk = r.chunk := by
  intro cs
  have hgi : GI (ARi.aiterPc r) r ∧ isW (ARi.aiterPc r) = true := by
    unfold ARi.aiterPc
    by_cases h : r.len > r.pos
    · rw [if_pos h]; exact ⟨⟨hg, trivial⟩, rfl⟩
    · rw [if_neg h]; exact ⟨⟨hg, by show r.pos = r.len; have := hg.pos_le; omega⟩, rfl⟩
  obtain ⟨out, e1, e2, e3, e4, e5, e6, e7, e8⟩ := iterLoop_spec k _ r [] hgi.1 hgi.2
  have hcs : cs = out := by show (ARi.iterLoop k _ r []).1 = out; rw [e1]; rfl
  rw [hcs]
  exact ⟨e2, e3, e4, e5, e6, e7, e8⟩

/-- histories that may also iterate -/
inductive IOp where
  | op (a : AOp)
  | iter (k : Nat)

inductive IObs where
  | obs (o : Rd.Obs)
  | chunks (cs : List Bytes)

def iterStep (r : AR) : IOp → IObs × AR
  | .op a => let x := asyncStep r a; (.obs x.1, x.2)
  | .iter k => let x := ARi.iterate r k; (.chunks x.1, x.2)

def iterRun : AR → List IOp → List IObs × AR
  | r, [] => ([], r)
  | r, op :: rest =>
    let (o, r1) := iterStep r op
    let (os, r2) := iterRun r1 rest
    (o :: os, r2)

/-- the flat cursor over the text `A` accepts observation `o` for `op` and moves to `A'`: a deterministic step of
    `Rd.cursorStep` for the ordinary operations; for an iteration any chunking of the next bytes, short of `k` chunks only
    at the end of the text -/
def Accepts (chunk : Int) (A : Bytes) : IOp → IObs → Bytes → Prop
  | .op a, o, A' => o = .obs (Rd.cursorStep chunk A a.toPOp).1 ∧ A' = (Rd.cursorStep chunk A a.toPOp).2
  | .iter k, .chunks cs, A' => cs.flatten = A.take cs.flatten.length ∧ A' = A.drop cs.flatten.length ∧ cs.length ≤ k ∧
      (cs.length = k ∨ A' = [])
  | .iter _, .obs _, _ => False

def AcceptsRun (chunk : Int) : Bytes → List IOp → List IObs → Bytes → Prop
  | A, [], [], A' => A' = A
  | A, op :: ops, o :: os, A' => ∃ A1, Accepts chunk A op o A1 ∧ AcceptsRun chunk A1 ops os A'
  | _, _, _, _ => False

def IOp.ok (chunk : Int) : IOp → Prop
  | .op a => a.ok chunk
  | .iter _ => True

/-- **C14 for the async reader, histories with iteration**: every history over read / readall / peek / read_until /
    pipe_until / pipe / exhaust / iterate-k-chunks is accepted, operation by operation, by the flat cursor over the text
    still to come, which ends at exactly what the reader still has to deliver -/
theorem async_history_iter_refines_cursor (ops : List IOp) : ∀ (r : AR), Good r → (∀ op ∈ ops, op.ok r.chunk) →
    AcceptsRun r.chunk (abs r) ops (iterRun r ops).1 (abs (iterRun r ops).2) ∧ Good (iterRun r ops).2 ∧
    (iterRun r ops).2.chunk = r.chunk ∧ total (iterRun r ops).2 = total r := by
  induction ops with
  | nil => intro r hg _; exact ⟨rfl, hg, rfl, rfl⟩
  | cons op rest ih =>
    intro r hg hok
    have hstep : ∃ A1, Accepts r.chunk (abs r) op (iterStep r op).1 A1 ∧ abs (iterStep r op).2 = A1 ∧ Good (iterStep r op).2 ∧
        (iterStep r op).2.chunk = r.chunk ∧ total (iterStep r op).2 = total r := by
      cases op with
      | op a =>
        obtain ⟨s1, s2, s3, s4, s5⟩ := asyncStep_refines r a hg (hok (.op a) (by simp))
        exact ⟨_, ⟨by simp only [iterStep, s1], rfl⟩, s2, s3, s4, s5⟩
      | iter k =>
        obtain ⟨e2, e3, e4, e5, e6, e7, e8⟩ := iterate_refines r k hg
        exact ⟨_, ⟨e2, rfl, e4, by rw [← e3]; exact e5⟩, e3, e6, e8, e7⟩
    obtain ⟨A1, h1, h2, h3, h4, h5⟩ := hstep
    rcases hi : iterStep r op with ⟨o, r1⟩
    rw [hi] at h1 h2 h3 h4 h5
    simp only at h1 h2 h3 h4 h5
    obtain ⟨t1, t2, t3, t4⟩ := ih r1 h3 (fun op' h' => by rw [h4]; exact hok op' (by simp [h']))
    simp only [iterRun, hi]
    rw [h4, h2] at t1
    exact ⟨⟨A1, h1, t1⟩, t2, by rw [t3, h4], by rw [t4, h5]⟩

/-- non-vacuity: chunk size 2, source `a` `` `bc` `d`; read(1) leaves nothing buffered... then iterate 2 chunks, then readall -/
example :
    (iterRun { chunk := 2, src := [[97], [], [98, 99], [100], [101]] } [.op (.read (some 1)), .iter 2, .op .readall]).1
      = [.obs (.bytes [97]), .chunks [[98, 99], [100, 101]], .obs (.bytes [])] := by rfl

/-- **C14, async reader, histories with iteration, from construction**: for every list of source chunks, chunk size > 0 and
    history (valid delimiters), the flat cursor over the concatenated data accepts every observation in turn and ends at the
    text the reader still has to deliver; `tell()` is the cursor's position -/
theorem async_reader_iter_refines_flat_cursor (chunk : Int) (parts : List Bytes) (ops : List IOp) (hc : 0 < chunk)
    (hok : ∀ op ∈ ops, op.ok chunk) :
    let run := iterRun { chunk := chunk, src := parts } ops
    AcceptsRun chunk parts.flatten ops run.1 (abs run.2) ∧ tell run.2 = (parts.flatten.length : Int) - (abs run.2).length := by
  intro run
  obtain ⟨f1, f2, f3⟩ := fresh_async chunk parts hc
  obtain ⟨h1, h2, h3, h4⟩ := async_history_iter_refines_cursor ops { chunk := chunk, src := parts } f1 hok
  rw [f2] at h1
  have t0 := tell_total _ f1
  have t1 := tell_total _ h2
  rw [f2, f3] at t0
  refine ⟨h1, ?_⟩
  show tell (iterRun _ ops).2 = _ - ((abs (iterRun _ ops).2).length : Int)
  omega
end ARd

/-! Feasibility probe: percent-encoding round trip at byte level. -/
namespace Probe

def hexDigit (n : Nat) : UInt8 :=
  if n < 10 then (48 + n).toUInt8 else (55 + n).toUInt8   -- '0'.. / 'A'..

def hexVal? (c : UInt8) : Option Nat :=
  if 48 ≤ c.toNat ∧ c.toNat ≤ 57 then some (c.toNat - 48)
  else if 65 ≤ c.toNat ∧ c.toNat ≤ 70 then some (c.toNat - 55)
  else if 97 ≤ c.toNat ∧ c.toNat ≤ 102 then some (c.toNat - 87)
  else none

def unreserved (c : UInt8) : Bool :=
  let n := c.toNat
  (65 ≤ n && n ≤ 90) || (97 ≤ n && n ≤ 122) || (48 ≤ n && n ≤ 57) ||
  n == 45 || n == 46 || n == 95 || n == 126

def encodeByte (c : UInt8) : List UInt8 :=
  if unreserved c then [c] else [37, hexDigit (c.toNat / 16), hexDigit (c.toNat % 16)]

def encode (bs : List UInt8) : List UInt8 := bs.flatMap encodeByte

/-- reference decoder: well-formed %XX → byte, else literal -/
def decode : List UInt8 → List UInt8
  | [] => []
  | 37 :: a :: b :: rest =>
    match hexVal? a, hexVal? b with
    | some x, some y => (x * 16 + y).toUInt8 :: decode rest
    | _, _ => 37 :: decode (a :: b :: rest)
  | c :: rest => c :: decode rest

theorem hexVal_hexDigit (n : Nat) (h : n < 16) : hexVal? (hexDigit n) = some n := by
  have : n = 0 ∨ n = 1 ∨ n = 2 ∨ n = 3 ∨ n = 4 ∨ n = 5 ∨ n = 6 ∨ n = 7 ∨ n = 8 ∨ n = 9 ∨
      n = 10 ∨ n = 11 ∨ n = 12 ∨ n = 13 ∨ n = 14 ∨ n = 15 := by omega
  rcases this with h|h|h|h|h|h|h|h|h|h|h|h|h|h|h|h <;> subst h <;> decide

theorem unreserved_ne_pct (c : UInt8) (h : unreserved c = true) : c ≠ 37 := by
  intro hc; subst hc; revert h; decide

theorem decode_cons_unres (c : UInt8) (rest : List UInt8) (h : c ≠ 37) :
    decode (c :: rest) = c :: decode rest := by
  rw [decode]
  intro a b r hc _
  exact h hc

theorem decode_encodeByte (c : UInt8) (rest : List UInt8) :
    decode (encodeByte c ++ rest) = c :: decode rest := by
  unfold encodeByte
  split
  · rename_i hu
    simp only [List.singleton_append]
    exact decode_cons_unres _ _ (unreserved_ne_pct c hu)
  · simp only [List.cons_append, List.nil_append]
    have h1 := hexVal_hexDigit (c.toNat / 16) (by have := c.toNat_lt; omega)
    have h2 := hexVal_hexDigit (c.toNat % 16) (by omega)
    rw [decode]
    simp only [h1, h2]
    congr 1
    have : c.toNat / 16 * 16 + c.toNat % 16 = c.toNat := by omega
    rw [this]; exact UInt8.ofNat_toNat ..

theorem decode_encode (bs : List UInt8) : decode (encode bs) = bs := by
  induction bs with
  | nil => simp [encode, decode]
  | cons c cs ih =>
    unfold encode at *
    simp only [List.flatMap_cons]
    rw [decode_encodeByte, ih]

#print axioms decode_encode
end Probe

import FalconModel.HeaderParsers
/-! C15: what a response cookie line looks like.

    Transcribed from `falcon/response.py::Response.set_cookie` / `unset_cookie` (shared by `falcon.asgi.Response`), the emission
    `[('set-cookie', c.OutputString()) for c in self._cookies.values()]`, and CPython 3.12 `http/cookies.py`
    (`_quote`, `Morsel.set`, `Morsel.OutputString`, `_getdate`, `BaseCookie.__setitem__`), `datetime.strftime` for the
    format `'%a, %d %b %Y %H:%M:%S GMT'`, `datetime.astimezone(timezone.utc)` and `time.gmtime` (via `_ymd2ord` / `_ord2ymd`
    of `Lib/_pydatetime.py`).

    A `str` is a `List Char`.  The cookie jar (`SimpleCookie`, a dict name -> `Morsel`) is an association list in insertion order.
    `t` is `floor(time.time())` at the moment the header list is produced (only `unset_cookie` lines depend on it). -/
namespace Cw
open Hp (Str)

/-! ### `http.cookies._quote` -/
def isAlnum (c : Char) : Bool :=
  let n := c.toNat
  (48 ≤ n && n ≤ 57) || (65 ≤ n && n ≤ 90) || (97 ≤ n && n ≤ 122)

/-- `_LegalChars = string.ascii_letters + string.digits + "!#$%&'*+-.^_`|~:"` -/
def isLegal (c : Char) : Bool :=
  isAlnum c || c == '!' || c == '#' || c == '$' || c == '%' || c == '&' || c == '\'' || c == '*' || c == '+' || c == '-' ||
  c == '.' || c == '^' || c == '_' || c == '`' || c == '|' || c == '~' || c == ':'

/-- `_UnescapedChars = _LegalChars + ' ()/<=>?@[]{}'` -/
def isUnescaped (c : Char) : Bool :=
  isLegal c || c == ' ' || c == '(' || c == ')' || c == '/' || c == '<' || c == '=' || c == '>' || c == '?' || c == '@' ||
  c == '[' || c == ']' || c == '{' || c == '}'

/-- `'%03o' % n` for `n < 512` -/
def oct3 (n : Nat) : Str := [Char.ofNat (48 + n / 64), Char.ofNat (48 + n / 8 % 8), Char.ofNat (48 + n % 8)]

/-- one entry of `_Translator` (code points above 255 have no entry: `str.translate` leaves them alone) -/
def translate (c : Char) : Str :=
  if c == '"' then ['\\', '"'] else if c == '\\' then ['\\', '\\']
  else if c.toNat < 256 && !isUnescaped c then '\\' :: oct3 c.toNat else [c]

/-- `_is_legal_key = re.compile('[%s]+' % re.escape(_LegalChars)).fullmatch` -/
def isLegalKey (s : Str) : Bool := !s.isEmpty && s.all isLegal

/-- `_quote` -/
def quote (s : Str) : Str := if isLegalKey s then s else '"' :: (s.flatMap translate ++ ['"'])

/-! ### dates: `_ymd2ord`, `_ord2ymd`, `strftime`, `_getdate` -/
structure Civil where
  year : Nat
  month : Nat
  day : Nat
  hour : Nat
  minute : Nat
  second : Nat
  deriving Repr, DecidableEq

def isLeap (y : Nat) : Bool := y % 4 == 0 && (y % 100 != 0 || y % 400 == 0)

/-- `_days_before_year` -/
def daysBeforeYear (year : Nat) : Nat :=
  let y := year - 1
  y * 365 + y / 4 - y / 100 + y / 400

/-- `_DAYS_IN_MONTH` (index 0 is a placeholder) -/
def daysInMonthTbl : List Nat := [0, 31, 28, 31, 30, 31, 30, 31, 31, 30, 31, 30, 31]
/-- `_DAYS_BEFORE_MONTH` (index 0 is a placeholder) -/
def daysBeforeMonthTbl : List Nat := [0, 0, 31, 59, 90, 120, 151, 181, 212, 243, 273, 304, 334]

/-- `_days_before_month` -/
def daysBeforeMonth (year month : Nat) : Nat := daysBeforeMonthTbl.getD month 0 + (if month > 2 && isLeap year then 1 else 0)

/-- `_ymd2ord`: 0001-01-01 is day 1 -/
def ymd2ord (year month day : Nat) : Nat := daysBeforeYear year + daysBeforeMonth year month + day

/-- the second half of `_ord2ymd`: month and day of the `n`-th day (from 0) of a year -/
def monthDay (leap : Bool) (n : Nat) : Nat × Nat :=
  let month := (n + 50) / 32        -- `(n + 50) >> 5`: an estimate that is either exact or one too large
  let preceding := daysBeforeMonthTbl.getD month 0 + (if month > 2 && leap then 1 else 0)
  if preceding > n then
    let month := month - 1
    let preceding := preceding - (daysInMonthTbl.getD month 0 + (if month == 2 && leap then 1 else 0))
    (month, n - preceding + 1)
  else (month, n - preceding + 1)

/-- `_ord2ymd` -/
def ord2ymd (ord : Nat) : Nat × Nat × Nat :=
  let n := ord - 1
  let n400 := n / 146097
  let n := n % 146097
  let n100 := n / 36524
  let n := n % 36524
  let n4 := n / 1461
  let n := n % 1461
  let n1 := n / 365
  let n := n % 365
  let year := n400 * 400 + 1 + n100 * 100 + n4 * 4 + n1
  if n1 == 4 || n100 == 4 then (year - 1, 12, 31)
  else
    let leap := n1 == 3 && (n4 != 24 || n100 == 3)
    let md := monthDay leap n
    (year, md.1, md.2)

/-- `date.weekday()`: Monday = 0 -/
def weekdayOfOrd (ord : Nat) : Nat := (ord + 6) % 7

def wdName (wd : Nat) : Str :=
  match wd with
  | 0 => ['M', 'o', 'n'] | 1 => ['T', 'u', 'e'] | 2 => ['W', 'e', 'd'] | 3 => ['T', 'h', 'u']
  | 4 => ['F', 'r', 'i'] | 5 => ['S', 'a', 't'] | _ => ['S', 'u', 'n']

def monName (m : Nat) : Str :=
  match m with
  | 1 => ['J', 'a', 'n'] | 2 => ['F', 'e', 'b'] | 3 => ['M', 'a', 'r'] | 4 => ['A', 'p', 'r'] | 5 => ['M', 'a', 'y']
  | 6 => ['J', 'u', 'n'] | 7 => ['J', 'u', 'l'] | 8 => ['A', 'u', 'g'] | 9 => ['S', 'e', 'p'] | 10 => ['O', 'c', 't']
  | 11 => ['N', 'o', 'v'] | _ => ['D', 'e', 'c']

def digit (n : Nat) : Char := Char.ofNat (48 + n % 10)

/-- `'%02d' % n` for `n < 100` -/
def pad2 (n : Nat) : Str := [digit (n / 10), digit n]

/-- `'%d' % n` for a natural number -/
def natDec (n : Nat) : Str := if n < 10 then [digit n] else natDec (n / 10) ++ [digit n]
termination_by n
decreasing_by omega

/-- `'%d' % n` -/
def intDec (n : Int) : Str := if n < 0 then '-' :: natDec (-n).toNat else natDec n.toNat

/-- `'%4d' % n` -/
def pad4 (n : Nat) : Str := List.replicate (4 - (natDec n).length) ' ' ++ natDec n

/-- the text after the weekday, shared by `strftime('%a, %d %b %Y %H:%M:%S GMT')` (`year` = `%Y`: glibc does not pad) and
    `_getdate` (`year` = `%4d`) -/
def dateTail (c : Civil) (year : Str) : Str :=
  [',', ' '] ++ pad2 c.day ++ [' '] ++ monName c.month ++ [' '] ++ year ++ [' '] ++ pad2 c.hour ++ [':'] ++ pad2 c.minute ++ [':'] ++
  pad2 c.second ++ [' ', 'G', 'M', 'T']

/-- `dt.strftime('%a, %d %b %Y %H:%M:%S GMT')`: the IMF-fixdate of a civil date-time, weekday computed from the date -/
def imfDate (c : Civil) : Str := wdName (weekdayOfOrd (ymd2ord c.year c.month c.day)) ++ dateTail c (natDec c.year)

/-- `time.gmtime(t)` for `t ≥ 0` (1970-01-01 is day 719163) -/
def gmtime (t : Nat) : Civil :=
  let (y, m, d) := ord2ymd (719163 + t / 86400)
  let s := t % 86400
  ⟨y, m, d, s / 3600, s % 3600 / 60, s % 60⟩

/-- `http.cookies._getdate(future)` evaluated at `floor(time()) + future = t` -/
def getdate (t : Nat) : Str :=
  let c := gmtime t
  wdName (weekdayOfOrd (719163 + t / 86400)) ++ dateTail c (pad4 c.year)

/-- the `expires` argument: the fields of the `datetime`, and `tzinfo.utcoffset()` in seconds (`none` = naive) -/
structure Expires where
  dt : Civil
  utcoff : Option Int := none
  deriving Repr, DecidableEq

/-- naive: as is; aware: `expires.astimezone(timezone.utc)` = `self - offset`; `none` = `OverflowError` (outside years 1..9999) -/
def toUtc (e : Expires) : Option Civil :=
  match e.utcoff with
  | none => some e.dt
  | some off =>
    let total : Int := (ymd2ord e.dt.year e.dt.month e.dt.day : Int) * 86400 + (e.dt.hour * 3600 + e.dt.minute * 60 + e.dt.second : Nat) - off
    let days := total / 86400
    let secs := (total % 86400).toNat
    if 0 < days ∧ days ≤ 3652059 then
      let (y, m, d) := ord2ymd days.toNat
      some ⟨y, m, d, secs / 3600, secs % 3600 / 60, secs % 60⟩
    else none

/-! ### `Morsel` -/
inductive ExpVal where
  | unset                 -- `''`
  | text (s : Str)        -- a `str` (what `set_cookie` stores)
  | rel (secs : Int)      -- an `int` (what `unset_cookie` stores): rendered by `_getdate` when the line is produced
  deriving Repr, DecidableEq

/-- a `Morsel`: key, value, coded value and the reserved attributes that Falcon ever writes (`comment` and `version` stay `''`).
    `[]` / `false` / `none` stand for the initial `''`. -/
structure Morsel where
  key : Str := []
  value : Str := []
  coded : Str := []
  domain : Str := []
  expires : ExpVal := .unset
  httponly : Bool := false
  maxAge : Option Int := none
  partitioned : Bool := false
  path : Str := []
  samesite : Str := []
  secure : Bool := false
  deriving Repr, DecidableEq

inductive Err where
  | nameNotAscii        -- KeyError('name is not ascii encodable')
  | nameReservedChar    -- KeyError('name contains a reserved character')   (fix 9cb24a9)
  | valueNotAscii       -- ValueError('value is not ascii encodable')
  | keyReserved         -- CookieError('Attempt to set a reserved key …')  -> KeyError in set_cookie
  | keyIllegal          -- CookieError('Illegal key …')                    -> KeyError in set_cookie
  | dateOverflow        -- OverflowError from astimezone
  | maxAge              -- ValueError from int(max_age)
  | sameSite            -- ValueError("same_site must be set to either 'lax', 'strict', or 'none'")
  deriving Repr, DecidableEq

def asciiLower (c : Char) : Char := if 65 ≤ c.toNat && c.toNat ≤ 90 then Char.ofNat (c.toNat + 32) else c
def asciiUpper (c : Char) : Char := if 97 ≤ c.toNat && c.toNat ≤ 122 then Char.ofNat (c.toNat - 32) else c
/-- `str.lower()` (on ASCII; no other character lower-cases to an ASCII letter occurring in the words compared against) -/
def lower (s : Str) : Str := s.map asciiLower
/-- `str.capitalize()` on ASCII -/
def capitalize : Str → Str
  | [] => []
  | c :: r => asciiUpper c :: lower r

/-- the keys of `Morsel._reserved` (with Falcon's `partitioned`) -/
def reservedKeys : List Str :=
  [['e', 'x', 'p', 'i', 'r', 'e', 's'], ['p', 'a', 't', 'h'], ['c', 'o', 'm', 'm', 'e', 'n', 't'], ['d', 'o', 'm', 'a', 'i', 'n'],
   ['m', 'a', 'x', '-', 'a', 'g', 'e'], ['s', 'e', 'c', 'u', 'r', 'e'], ['h', 't', 't', 'p', 'o', 'n', 'l', 'y'],
   ['v', 'e', 'r', 's', 'i', 'o', 'n'], ['s', 'a', 'm', 'e', 's', 'i', 't', 'e'], ['p', 'a', 'r', 't', 'i', 't', 'i', 'o', 'n', 'e', 'd']]

/-- `Morsel.set(key, val, coded_val)` -/
def morselSet (m : Morsel) (key value coded : Str) : Except Err Morsel :=
  if reservedKeys.contains (lower key) then .error .keyReserved
  else if !isLegalKey key then .error .keyIllegal
  else .ok { m with key := key, value := value, coded := coded }

/-- `_semispacejoin` -/
def joinSS : List Str → Str
  | [] => []
  | [p] => p
  | p :: q :: r => p ++ ';' :: ' ' :: joinSS (q :: r)

def kDomain : Str := ['D', 'o', 'm', 'a', 'i', 'n']
def kExpires : Str := ['e', 'x', 'p', 'i', 'r', 'e', 's']
def kHttpOnly : Str := ['H', 't', 't', 'p', 'O', 'n', 'l', 'y']
def kMaxAge : Str := ['M', 'a', 'x', '-', 'A', 'g', 'e']
def kPartitioned : Str := ['P', 'a', 'r', 't', 'i', 't', 'i', 'o', 'n', 'e', 'd']
def kPath : Str := ['P', 'a', 't', 'h']
def kSameSite : Str := ['S', 'a', 'm', 'e', 'S', 'i', 't', 'e']
def kSecure : Str := ['S', 'e', 'c', 'u', 'r', 'e']

/-- `'%s=%s' % (k, v)` -/
def kv (k v : Str) : Str := k ++ '=' :: v

/-- the attribute part of `Morsel.OutputString`: `sorted(self.items())`, entries equal to `''` skipped, flags without value -/
def attrPieces (t : Nat) (m : Morsel) : List Str :=
  (if m.domain.isEmpty then [] else [kv kDomain m.domain]) ++
  (match m.expires with
   | .unset => []
   | .text s => if s.isEmpty then [] else [kv kExpires s]
   | .rel secs => [kv kExpires (getdate ((t : Int) + secs).toNat)]) ++
  (if m.httponly then [kHttpOnly] else []) ++
  (match m.maxAge with
   | none => []
   | some n => [kv kMaxAge (intDec n)]) ++
  (if m.partitioned then [kPartitioned] else []) ++
  (if m.path.isEmpty then [] else [kv kPath m.path]) ++
  (if m.samesite.isEmpty then [] else [kv kSameSite m.samesite]) ++
  (if m.secure then [kSecure] else [])

/-- `Morsel.OutputString()`: the text after `Set-Cookie: ` -/
def outputString (t : Nat) (m : Morsel) : Str := joinSS (kv m.key m.coded :: attrPieces t m)

/-! ### `Response.set_cookie` -/
/-- what `max_age` may be: an `int`, a `str`, or a finite `float` given by `float.as_integer_ratio()` -/
inductive MaxAge where
  | int (n : Int)
  | str (s : Str)
  | flt (num : Int) (den : Nat)
  deriving Repr, DecidableEq

/-- `int(max_age)`; `none` = `ValueError` -/
def MaxAge.toInt : MaxAge → Option Int
  | .int n => some n
  | .str s => Hp.pyInt s
  | .flt num den => some (Int.tdiv num den)

/-- the arguments of `set_cookie` -/
structure CookieSpec where
  name : Str
  value : Str
  expires : Option Expires := none
  maxAge : Option MaxAge := none
  domain : Option Str := none
  path : Option Str := none
  secure : Option Bool := none
  httpOnly : Bool := true
  sameSite : Option Str := none
  partitioned : Bool := false
  deriving Repr, DecidableEq

/-- `resp.options` -/
structure Opts where
  secureDefault : Bool := true    -- `secure_cookies_by_default`
  deriving Repr, DecidableEq

def isAscii (s : Str) : Bool := s.all fun c => c.toNat < 128

def sameSiteWords : List Str := [['l', 'a', 'x'], ['s', 't', 'r', 'i', 'c', 't'], ['n', 'o', 'n', 'e']]

/-- `if expires: … self._cookies[name]['expires'] = ….strftime(fmt)` -/
def stExpires (s : CookieSpec) (m : Morsel) : Except Err Morsel :=
  match s.expires with
  | none => .ok m
  | some e =>
    match toUtc e with
    | none => .error .dateOverflow
    | some c => .ok { m with expires := .text (imfDate c) }

/-- `if max_age is not None: self._cookies[name]['max-age'] = int(max_age)` (fix c04363d: `0` counts) -/
def stMaxAge (s : CookieSpec) (m : Morsel) : Except Err Morsel :=
  match s.maxAge with
  | none => .ok m
  | some a =>
    match a.toInt with
    | none => .error .maxAge
    | some n => .ok { m with maxAge := some n }

/-- `if domain:` -/
def stDomain (s : CookieSpec) (m : Morsel) : Except Err Morsel :=
  match s.domain with
  | none => .ok m
  | some d => if d.isEmpty then .ok m else .ok { m with domain := d }

/-- `if path:` -/
def stPath (s : CookieSpec) (m : Morsel) : Except Err Morsel :=
  match s.path with
  | none => .ok m
  | some p => if p.isEmpty then .ok m else .ok { m with path := p }

/-- `is_secure = self.options.secure_cookies_by_default if secure is None else secure` -/
def isSecure (o : Opts) (s : CookieSpec) : Bool :=
  match s.secure with
  | none => o.secureDefault
  | some b => b

def stSecure (o : Opts) (s : CookieSpec) (m : Morsel) : Except Err Morsel :=
  if isSecure o s then .ok { m with secure := true } else .ok m

def stHttpOnly (s : CookieSpec) (m : Morsel) : Except Err Morsel :=
  if s.httpOnly then .ok { m with httponly := true } else .ok m

/-- `if same_site: same_site = same_site.lower(); if … not in _RESERVED_SAMESITE_VALUES: raise ValueError; … = same_site.capitalize()` -/
def stSameSite (s : CookieSpec) (m : Morsel) : Except Err Morsel :=
  match s.sameSite with
  | none => .ok m
  | some v =>
    if v.isEmpty then .ok m
    else if !sameSiteWords.contains (lower v) then .error .sameSite
    else .ok { m with samesite := capitalize (lower v) }

def stPartitioned (s : CookieSpec) (m : Morsel) : Except Err Morsel :=
  if s.partitioned then .ok { m with partitioned := true } else .ok m

/-- the attribute assignments in the order of the source; a raising step leaves the morsel as it was before that step -/
def runSteps : Morsel → List (Morsel → Except Err Morsel) → Morsel × Option Err
  | m, [] => (m, none)
  | m, f :: fs =>
    match f m with
    | .ok m' => runSteps m' fs
    | .error e => (m, some e)

def steps (o : Opts) (s : CookieSpec) : List (Morsel → Except Err Morsel) :=
  [stExpires s, stMaxAge s, stDomain s, stPath s, stSecure o s, stHttpOnly s, stSameSite s, stPartitioned s]

/-- what a `set_cookie` call does to the jar entry of its name -/
inductive JarEffect where
  | keep                  -- raised before `self._cookies.pop(name, None)`
  | pop                   -- popped, then `Morsel.set` raised
  | put (m : Morsel)      -- the (possibly half-filled) morsel left under the name
  deriving Repr, DecidableEq

/-- `Response.set_cookie`: the effect on the jar and the exception, if any -/
def setCookie (o : Opts) (s : CookieSpec) : JarEffect × Option Err :=
  if !isAscii s.name then (.keep, some .nameNotAscii)
  else if s.name.contains ':' then (.keep, some .nameReservedChar)
  else if !isAscii s.value then (.keep, some .valueNotAscii)
  else
    -- `self._cookies.pop(name, None)`; `self._cookies[name] = value` on a fresh `Morsel()` (fix ae30cad)
    match morselSet {} s.name s.value (quote s.value) with
    | .error e => (.pop, some e)
    | .ok m0 =>
      let (m, e) := runSteps m0 (steps o s)
      (.put m, e)

/-- the text after `Set-Cookie: ` that a successful `set_cookie` call produces -/
def setCookieLine (o : Opts) (s : CookieSpec) : Except Err Str :=
  match setCookie o s with
  | (.put m, none) => .ok (outputString 0 m)
  | (_, some e) => .error e
  | (_, none) => .error .keyIllegal   -- unreachable: without an exception the morsel is put

/-! ### `Response.unset_cookie` -/
/-- `unset_cookie(name, samesite, domain, path)` on the morsel `prev` the jar holds under `name` (it is reused, with its
    attributes); `.error` = `CookieError` propagates -/
def unsetCookie (prev : Option Morsel) (name sameSite : Str) (domain path : Option Str) : Except Err Morsel :=
  match morselSet (prev.getD {}) name [] (quote []) with
  | .error e => .error e
  | .ok m =>
    let m := { m with maxAge := none, expires := .rel (-1), samesite := sameSite }
    let m := match domain with
      | none => m
      | some d => if d.isEmpty then m else { m with domain := d }
    let m := match path with
      | none => m
      | some p => if p.isEmpty then m else { m with path := p }
    .ok m

def unsetCookieLine (t : Nat) (prev : Option Morsel) (name sameSite : Str) (domain path : Option Str) : Except Err Str :=
  (unsetCookie prev name sameSite domain path).map (outputString t)

/-! ### the jar -/
abbrev Jar := List (Str × Morsel)

def jarGet (j : Jar) (name : Str) : Option Morsel := (j.find? fun e => e.1 == name).map (·.2)
def jarDel (j : Jar) (name : Str) : Jar := j.filter fun e => e.1 != name
/-- `d[name] = m` on a dict: an existing key keeps its position -/
def jarPut (j : Jar) (name : Str) (m : Morsel) : Jar :=
  if j.any (fun e => e.1 == name) then j.map (fun e => if e.1 == name then (name, m) else e) else j ++ [(name, m)]

def jarSetCookie (o : Opts) (j : Jar) (s : CookieSpec) : Jar × Option Err :=
  match setCookie o s with
  | (.keep, e) => (j, e)
  | (.pop, e) => (jarDel j s.name, e)
  | (.put m, e) => (jarDel j s.name ++ [(s.name, m)], e)

def jarUnsetCookie (j : Jar) (name sameSite : Str) (domain path : Option Str) : Jar × Option Err :=
  match unsetCookie (jarGet j name) name sameSite domain path with
  | .error e => (j, some e)
  | .ok m => (jarPut j name m, none)

/-- the `set-cookie` values of `_wsgi_headers()` / `_asgi_headers()` produced at time `t` -/
def jarLines (t : Nat) (j : Jar) : List Str := j.map fun e => outputString t e.2

end Cw

import FalconModel.CookieOut
import FalconModel.CookiesProofs
/-! C15 proofs for `CookieOut.lean`: what `set_cookie` / `unset_cookie` put on the wire.

    * `setCookie_spec`: which check raises, what is left in the jar, and the morsel of a successful call, read off the arguments;
    * `cookie_attrs_exact` (+ the `attr_*` corollaries, `secure_defaults_from_option`): splitting the emitted line at `"; "` gives the
      name, the coded value and exactly the requested attributes;
    * `cookie_echo_reads_back`: the request-side parser (`Ck`) reads the emitted cookie-pair as the same name and value;
    * `name_with_reserved_char_rejected`, `invalid_same_site_rejected`;
    * `unset_cookie_is_expired`;
    * dates: `ord2ymd_spec`, `epoch_gmtime`, `toUtc_instant`, `parseDate_imfDate`. -/
namespace Cw
open Hp (Str)

/-! ### characters -/
theorem isLegal_ascii {c : Char} (h : isLegal c = true) : c.toNat < 128 := by
  simp only [isLegal, isAlnum, Bool.or_eq_true, Bool.and_eq_true, decide_eq_true_eq, beq_iff_eq] at h
  rcases h with ((((((((((((((((h | h) | h) | h) | h) | h) | h) | h) | h) | h) | h) | h) | h) | h) | h) | h) | h)
  · omega
  all_goals (subst h; decide)

theorem isLegal_ne {c : Char} (h : isLegal c = true) : c ≠ ';' ∧ c ≠ '=' ∧ c ≠ '"' ∧ c ≠ '\\' ∧ c ≠ ' ' := by
  refine ⟨?_, ?_, ?_, ?_, ?_⟩ <;> (intro e; subst e; revert h; decide)

theorem legal_tbl : ∀ n : Fin 128, isLegal (Char.ofNat n) = true →
    (Char.ofNat n ≠ ':' → Ck.isReserved (Char.ofNat n) = false) ∧ Hp.isWs (Char.ofNat n) = false := by decide

theorem isLegal_not_reserved {c : Char} (h : isLegal c = true) (hc : c ≠ ':') : Ck.isReserved c = false := by
  have := legal_tbl ⟨c.toNat, isLegal_ascii h⟩
  simp only [Char.ofNat_toNat] at this
  exact (this h).1 hc

theorem isLegal_not_ws {c : Char} (h : isLegal c = true) : Hp.isWs c = false := by
  have := legal_tbl ⟨c.toNat, isLegal_ascii h⟩
  simp only [Char.ofNat_toNat] at this
  exact (this h).2

/-! ### `_quote` is the escaping that `Ck.unquote_quote` inverts -/
/-- the characters `_quote` copies unchanged between the DQUOTEs -/
def keptByQuote (c : Char) : Bool := isUnescaped c || decide (256 ≤ c.toNat)

theorem translate_eq (c : Char) : translate c = Ck.escChar keptByQuote c := by
  unfold translate Ck.escChar keptByQuote oct3 Ck.octDigits
  by_cases h1 : c = '"'
  · simp [h1]
  by_cases h2 : c = '\\'
  · simp [h2]
  simp only [beq_iff_eq, h1, h2, if_false]
  by_cases h3 : c.toNat < 256 <;> cases h4 : isUnescaped c <;> simp [h3] <;> omega

theorem flatMap_translate : ∀ (s : Str), s.flatMap translate = Ck.quoteBody keptByQuote s
  | [] => rfl
  | c :: r => by simp only [List.flatMap_cons, Ck.quoteBody, translate_eq, flatMap_translate r]

theorem quote_legal {s : Str} (h : isLegalKey s = true) : quote s = s := by simp [quote, h]
theorem quote_other {s : Str} (h : isLegalKey s = false) : quote s = '"' :: (Ck.quoteBody keptByQuote s ++ ['"']) := by
  simp [quote, h, flatMap_translate]

theorem legalKey_cons {s : Str} (h : isLegalKey s = true) : ∃ c r, s = c :: r ∧ isLegal c = true := by
  cases s with
  | nil => simp [isLegalKey] at h
  | cons c r => simp [isLegalKey] at h; exact ⟨c, r, rfl, h.1⟩

theorem legalKey_all {s : Str} (h : isLegalKey s = true) : ∀ c ∈ s, isLegal c = true := by
  simp [isLegalKey] at h; exact h.2

/-- the request side's `cookieValue` (DQUOTE removal + `_unquote`) inverts `_quote` on every Latin-1 string -/
theorem cookieValue_quote (s : Str) (h : ∀ c ∈ s, c.toNat < 256) : Ck.cookieValue (quote s) = s := by
  cases hk : isLegalKey s with
  | true =>
    rw [quote_legal hk]
    obtain ⟨c, r, rfl, hc⟩ := legalKey_cons hk
    have : c ≠ '"' := (isLegal_ne hc).2.2.1
    simp [Ck.cookieValue, this]
  | false =>
    rw [quote_other hk]
    unfold Ck.cookieValue
    have hl : 2 ≤ ('"' :: (Ck.quoteBody keptByQuote s ++ ['"'])).length := by simp
    simp only [hl, decide_true, List.head?_cons, Hp.getLast?_quote, beq_self_eq_true, Bool.and_self, if_true]
    exact Ck.cUnquote_quote keptByQuote s h

theorem oct3_not_mem (n : Nat) (hn : n < 256) (x : Char) (hx : x.toNat < 48 ∨ 55 < x.toNat) : x ∉ oct3 n := by
  have h1 : 48 + n / 64 < 256 := by omega
  have h2 : 48 + n / 8 % 8 < 256 := by omega
  have h3 : 48 + n % 8 < 256 := by omega
  intro e
  simp only [oct3, List.mem_cons, List.not_mem_nil, or_false] at e
  rcases e with e | e | e <;> (subst e; first | rw [Ck.toNat_ofNat_small _ h1] at hx | rw [Ck.toNat_ofNat_small _ h2] at hx | rw [Ck.toNat_ofNat_small _ h3] at hx) <;> omega

theorem semi_not_mem_translate (c : Char) : ';' ∉ translate c := by
  unfold translate
  split
  · decide
  split
  · decide
  split
  · rename_i h
    simp only [Bool.and_eq_true, decide_eq_true_eq] at h
    intro e
    rcases List.mem_cons.mp e with e | e
    · exact absurd e (by decide)
    · exact oct3_not_mem _ h.1 ';' (by decide) e
  · rename_i h1 h2 h3
    intro e
    simp only [List.mem_cons, List.not_mem_nil, or_false] at e
    subst e
    exact h3 (by decide)

theorem semi_not_mem_quote (s : Str) : ';' ∉ quote s := by
  unfold quote
  split
  · rename_i h; intro e; exact (isLegal_ne (legalKey_all h _ e)).1 rfl
  · intro e
    simp only [List.mem_cons, List.mem_append, List.mem_flatMap, List.not_mem_nil, or_false] at e
    rcases e with e | ⟨c, _, e⟩ | e
    · exact absurd e (by decide)
    · exact semi_not_mem_translate c e
    · exact absurd e (by decide)

theorem strip_quote (s : Str) : Hp.strip (quote s) = quote s := by
  cases hk : isLegalKey s with
  | true =>
    rw [quote_legal hk]
    apply Hp.strip_of_ends
    · intro x hx; exact isLegal_not_ws (legalKey_all hk x (List.mem_of_mem_head? hx))
    · intro x hx
      have : x ∈ s.reverse := List.mem_of_mem_head? hx
      exact isLegal_not_ws (legalKey_all hk x (by simpa using this))
  | false =>
    rw [quote_other hk]
    apply Hp.strip_of_ends
    · intro x hx; simp at hx; subst hx; decide
    · intro x hx; simp at hx; subst hx; decide

/-! ### which names and values `set_cookie` accepts -/
/-- the names `set_cookie` accepts: ASCII, no colon (fix 9cb24a9), not an attribute name reserved by `http.cookies`
    (case-insensitively), non-empty and made of `_LegalChars` -/
def nameOk (n : Str) : Bool := isAscii n && !n.contains ':' && !reservedKeys.contains (lower n) && isLegalKey n

/-- a name `set_cookie` accepts is an RFC 6265 token as the request parser demands it -/
theorem nameOk_token {n : Str} (h : nameOk n = true) : n ≠ [] ∧ ∀ c ∈ n, isLegal c = true ∧ Ck.isReserved c = false := by
  simp only [nameOk, Bool.and_eq_true, Bool.not_eq_true'] at h
  obtain ⟨⟨⟨_, hc⟩, _⟩, hk⟩ := h
  obtain ⟨c, r, rfl, _⟩ := legalKey_cons hk
  refine ⟨by simp, fun x hx => ⟨legalKey_all hk x hx, isLegal_not_reserved (legalKey_all hk x hx) ?_⟩⟩
  intro e; subst e
  have : (c :: r).contains ':' = true := by simpa using hx
  rw [this] at hc; exact absurd hc (by decide)

/-- **echo**: a cookie-pair `name=<coded value>` as written by `set_cookie` is read by the request cookie parser as exactly
    that name with exactly that value (for every accepted name and every Latin-1 – in particular every accepted, ASCII – value) -/
theorem parse_pair (n v : Str) (hn : nameOk n = true) (hv : ∀ c ∈ v, c.toNat < 256) :
    Ck.parseCookieHeader (kv n (quote v)) = [(n, [v])] := by
  obtain ⟨hne, hall⟩ := nameOk_token hn
  have hsemi : ';' ∉ kv n (quote v) := by
    unfold kv
    intro e
    rcases List.mem_append.mp e with e | e
    · exact (isLegal_ne (hall _ e).1).1 rfl
    · rcases List.mem_cons.mp e with e | e
      · exact absurd e (by decide)
      · exact semi_not_mem_quote v e
  have heq : '=' ∉ n := fun e => (isLegal_ne (hall _ e).1).2.1 rfl
  have hsn : Hp.strip n = n := by
    apply Hp.strip_of_ends
    · intro x hx; exact isLegal_not_ws (hall x (List.mem_of_mem_head? hx)).1
    · intro x hx
      have : x ∈ n.reverse := List.mem_of_mem_head? hx
      exact isLegal_not_ws (hall x (by simpa using this)).1
  have hany : n.any Ck.isReserved = false := by
    simp only [List.any_eq_false]
    intro c hc; simp [(hall c hc).2]
  have hemp : n.isEmpty = false := by cases n with | nil => exact absurd rfl hne | cons _ _ => rfl
  unfold Ck.parseCookieHeader
  rw [Ck.splitOn_none ';' _ hsemi]
  simp only [List.foldl_cons, List.foldl_nil, Ck.stepToken]
  unfold kv
  rw [Hp.partition_append n (quote v) '=' heq]
  simp only [hsn, hemp, hany, Bool.false_eq_true, if_false, strip_quote, cookieValue_quote v hv, Ck.insertVal]

def expOk (s : CookieSpec) : Bool := match s.expires with | none => true | some e => (toUtc e).isSome
/-- the UTC civil time of `expires` -/
def expUtc (s : CookieSpec) : Option Civil := match s.expires with | none => none | some e => toUtc e
def expVal (s : CookieSpec) : ExpVal := match expUtc s with | none => .unset | some c => .text (imfDate c)
def maOk (s : CookieSpec) : Bool := match s.maxAge with | none => true | some a => a.toInt.isSome
def maVal (s : CookieSpec) : Option Int := match s.maxAge with | none => none | some a => a.toInt
def ssOk (s : CookieSpec) : Bool := match s.sameSite with | none => true | some v => v.isEmpty || sameSiteWords.contains (lower v)
def ssVal (s : CookieSpec) : Str := match s.sameSite with | none => [] | some v => if v.isEmpty then [] else capitalize (lower v)

/-- the morsel right after `self._cookies[name] = value` -/
def baseMorsel (s : CookieSpec) : Morsel := { key := s.name, value := s.value, coded := quote s.value }

/-- the morsel a successful `set_cookie` leaves in the jar, read off the arguments -/
def finalMorsel (o : Opts) (s : CookieSpec) : Morsel :=
  { key := s.name, value := s.value, coded := quote s.value, domain := s.domain.getD [], expires := expVal s, httponly := s.httpOnly,
    maxAge := maVal s, partitioned := s.partitioned, path := s.path.getD [], samesite := ssVal s, secure := isSecure o s }

theorem stExpires_ok {s : CookieSpec} (h : expOk s = true) (m : Morsel) (hm : m.expires = .unset) :
    stExpires s m = .ok { m with expires := expVal s } := by
  unfold stExpires expVal expUtc
  unfold expOk at h
  cases he : s.expires with
  | none => simp only; rw [← hm]
  | some e =>
    rw [he] at h; simp only at h ⊢
    cases hu : toUtc e with
    | none => rw [hu] at h; exact absurd h (by decide)
    | some c => rfl

theorem stExpires_err {s : CookieSpec} (h : expOk s = false) (m : Morsel) : stExpires s m = .error .dateOverflow := by
  unfold stExpires
  unfold expOk at h
  cases he : s.expires with
  | none => rw [he] at h; exact absurd h (by decide)
  | some e =>
    rw [he] at h; simp only at h ⊢
    cases hu : toUtc e with
    | none => rfl
    | some c => rw [hu] at h; simp at h

theorem stMaxAge_ok {s : CookieSpec} (h : maOk s = true) (m : Morsel) (hm : m.maxAge = none) :
    stMaxAge s m = .ok { m with maxAge := maVal s } := by
  unfold stMaxAge maVal
  unfold maOk at h
  cases he : s.maxAge with
  | none => simp only; rw [← hm]
  | some a =>
    rw [he] at h; simp only at h ⊢
    cases hu : a.toInt with
    | none => rw [hu] at h; exact absurd h (by decide)
    | some c => rfl

theorem stMaxAge_err {s : CookieSpec} (h : maOk s = false) (m : Morsel) : stMaxAge s m = .error .maxAge := by
  unfold stMaxAge
  unfold maOk at h
  cases he : s.maxAge with
  | none => rw [he] at h; exact absurd h (by decide)
  | some a =>
    rw [he] at h; simp only at h ⊢
    cases hu : a.toInt with
    | none => rfl
    | some c => rw [hu] at h; simp at h

theorem stDomain_eq (s : CookieSpec) (m : Morsel) (hm : m.domain = []) : stDomain s m = .ok { m with domain := s.domain.getD [] } := by
  unfold stDomain
  cases s.domain with
  | none => simp only [Option.getD_none]; rw [← hm]
  | some d =>
    cases d with
    | nil => simp only [List.isEmpty_nil, if_true, Option.getD_some]; rw [← hm]
    | cons c r => rfl

theorem stPath_eq (s : CookieSpec) (m : Morsel) (hm : m.path = []) : stPath s m = .ok { m with path := s.path.getD [] } := by
  unfold stPath
  cases s.path with
  | none => simp only [Option.getD_none]; rw [← hm]
  | some d =>
    cases d with
    | nil => simp only [List.isEmpty_nil, if_true, Option.getD_some]; rw [← hm]
    | cons c r => rfl

theorem stSecure_eq (o : Opts) (s : CookieSpec) (m : Morsel) (hm : m.secure = false) : stSecure o s m = .ok { m with secure := isSecure o s } := by
  unfold stSecure
  cases h : isSecure o s with
  | true => rfl
  | false => simp only [Bool.false_eq_true, if_false]; rw [← hm]

theorem stHttpOnly_eq (s : CookieSpec) (m : Morsel) (hm : m.httponly = false) : stHttpOnly s m = .ok { m with httponly := s.httpOnly } := by
  unfold stHttpOnly
  cases h : s.httpOnly with
  | true => rfl
  | false => simp only [Bool.false_eq_true, if_false]; rw [← hm]

theorem stPartitioned_eq (s : CookieSpec) (m : Morsel) (hm : m.partitioned = false) : stPartitioned s m = .ok { m with partitioned := s.partitioned } := by
  unfold stPartitioned
  cases h : s.partitioned with
  | true => rfl
  | false => simp only [Bool.false_eq_true, if_false]; rw [← hm]

theorem stSameSite_ok {s : CookieSpec} (h : ssOk s = true) (m : Morsel) (hm : m.samesite = []) :
    stSameSite s m = .ok { m with samesite := ssVal s } := by
  unfold stSameSite ssVal
  unfold ssOk at h
  cases he : s.sameSite with
  | none => simp only; rw [← hm]
  | some v =>
    rw [he] at h; simp only at h ⊢
    cases hv : v.isEmpty with
    | true => simp only [if_true]; rw [← hm]
    | false =>
      rw [hv] at h; simp only [Bool.false_or] at h
      simp only [Bool.false_eq_true, if_false, h, Bool.not_true]

theorem stSameSite_err {s : CookieSpec} (h : ssOk s = false) (m : Morsel) : stSameSite s m = .error .sameSite := by
  unfold stSameSite
  unfold ssOk at h
  cases he : s.sameSite with
  | none => rw [he] at h; exact absurd h (by decide)
  | some v =>
    rw [he] at h; simp only [Bool.or_eq_false_iff] at h ⊢
    simp only [h.1, h.2, Bool.false_eq_true, if_false, Bool.not_false, if_true]

theorem runSteps_ok {f : Morsel → Except Err Morsel} {fs : List (Morsel → Except Err Morsel)} {m m' : Morsel} (h : f m = .ok m') :
    runSteps m (f :: fs) = runSteps m' fs := by simp only [runSteps, h]
theorem runSteps_err {f : Morsel → Except Err Morsel} {fs : List (Morsel → Except Err Morsel)} {m : Morsel} {e : Err} (h : f m = .error e) :
    runSteps m (f :: fs) = (m, some e) := by simp only [runSteps, h]

/-- the morsel after the `expires` / `max-age` / … / `httponly` assignments -/
def m1 (s : CookieSpec) : Morsel := { baseMorsel s with expires := expVal s }
def m2 (s : CookieSpec) : Morsel := { m1 s with maxAge := maVal s }
def m3 (s : CookieSpec) : Morsel := { m2 s with domain := s.domain.getD [] }
def m4 (s : CookieSpec) : Morsel := { m3 s with path := s.path.getD [] }
def m5 (o : Opts) (s : CookieSpec) : Morsel := { m4 s with secure := isSecure o s }
def m6 (o : Opts) (s : CookieSpec) : Morsel := { m5 o s with httponly := s.httpOnly }
def m7 (o : Opts) (s : CookieSpec) : Morsel := { m6 o s with samesite := ssVal s }

theorem runSteps_spec (o : Opts) (s : CookieSpec) : runSteps (baseMorsel s) (steps o s) =
    if !expOk s then (baseMorsel s, some .dateOverflow)
    else if !maOk s then (m1 s, some .maxAge)
    else if !ssOk s then (m6 o s, some .sameSite)
    else (finalMorsel o s, none) := by
  unfold steps
  cases h1 : expOk s with
  | false => rw [runSteps_err (stExpires_err h1 _)]; rfl
  | true =>
    rw [runSteps_ok (stExpires_ok h1 (baseMorsel s) rfl)]
    show runSteps (m1 s) _ = _
    cases h2 : maOk s with
    | false => rw [runSteps_err (stMaxAge_err h2 _)]; rfl
    | true =>
      rw [runSteps_ok (stMaxAge_ok h2 (m1 s) rfl)]
      show runSteps (m2 s) _ = _
      rw [runSteps_ok (stDomain_eq s (m2 s) rfl)]
      show runSteps (m3 s) _ = _
      rw [runSteps_ok (stPath_eq s (m3 s) rfl)]
      show runSteps (m4 s) _ = _
      rw [runSteps_ok (stSecure_eq o s (m4 s) rfl)]
      show runSteps (m5 o s) _ = _
      rw [runSteps_ok (stHttpOnly_eq s (m5 o s) rfl)]
      show runSteps (m6 o s) _ = _
      cases h3 : ssOk s with
      | false => rw [runSteps_err (stSameSite_err h3 _)]; rfl
      | true =>
        rw [runSteps_ok (stSameSite_ok h3 (m6 o s) rfl)]
        show runSteps (m7 o s) _ = _
        rw [runSteps_ok (stPartitioned_eq s (m7 o s) rfl)]; rfl

/-- **`set_cookie`, completely**: which check raises, what is left in the jar, and the morsel of a successful call -/
theorem setCookie_spec (o : Opts) (s : CookieSpec) : setCookie o s =
    if !isAscii s.name then (.keep, some .nameNotAscii)
    else if s.name.contains ':' then (.keep, some .nameReservedChar)
    else if !isAscii s.value then (.keep, some .valueNotAscii)
    else if reservedKeys.contains (lower s.name) then (.pop, some .keyReserved)
    else if !isLegalKey s.name then (.pop, some .keyIllegal)
    else if !expOk s then (.put (baseMorsel s), some .dateOverflow)
    else if !maOk s then (.put (m1 s), some .maxAge)
    else if !ssOk s then (.put (m6 o s), some .sameSite)
    else (.put (finalMorsel o s), none) := by
  unfold setCookie
  split; · rfl
  split; · rfl
  split; · rfl
  cases hr : reservedKeys.contains (lower s.name) with
  | true => simp only [morselSet, hr, if_true]
  | false =>
    cases hk : isLegalKey s.name with
    | false => simp only [morselSet, hr, hk, Bool.not_false, Bool.false_eq_true, if_true, if_false]
    | true =>
      simp only [morselSet, hr, hk, Bool.not_true, Bool.false_eq_true, if_false]
      show (match runSteps (baseMorsel s) (steps o s) with | (m, e) => (JarEffect.put m, e)) = _
      rw [runSteps_spec]
      cases expOk s <;> cases maOk s <;> cases ssOk s <;> rfl

/-! ### calendar arithmetic: `_ord2ymd` inverts `_ymd2ord` -/
theorem isLeap_iff (y : Nat) : isLeap y = true ↔ (y % 4 = 0 ∧ (y % 100 ≠ 0 ∨ y % 400 = 0)) := by
  simp [isLeap]

/-- `_days_before_month` with the leap flag given -/
def dbmL (leap : Bool) (month : Nat) : Nat := daysBeforeMonthTbl.getD month 0 + (if month > 2 && leap then 1 else 0)

def monthDayOk (leap : Bool) (r : Nat) : Bool :=
  decide (1 ≤ (monthDay leap r).1) && decide ((monthDay leap r).1 ≤ 12) && decide (1 ≤ (monthDay leap r).2) && decide ((monthDay leap r).2 ≤ 31) &&
    decide (dbmL leap (monthDay leap r).1 + (monthDay leap r).2 = r + 1)

set_option maxRecDepth 20000 in
/-- checked by evaluation for each of the 365 day numbers and both kinds of year (day 366 of a leap year is the early exit of `_ord2ymd`) -/
theorem monthDay_tbl : ((List.range 365).all (monthDayOk false) && (List.range 365).all (monthDayOk true)) = true := by decide

theorem monthDay_ok (leap : Bool) (r : Nat) (h : r < 365) :
    1 ≤ (monthDay leap r).1 ∧ (monthDay leap r).1 ≤ 12 ∧ 1 ≤ (monthDay leap r).2 ∧ (monthDay leap r).2 ≤ 31 ∧
    dbmL leap (monthDay leap r).1 + (monthDay leap r).2 = r + 1 := by
  have := monthDay_tbl
  simp only [Bool.and_eq_true, List.all_eq_true, List.mem_range] at this
  have hk : monthDayOk leap r = true := by
    cases leap with
    | false => exact this.1 r h
    | true => exact this.2 r h
  simpa only [monthDayOk, Bool.and_eq_true, decide_eq_true_eq, and_assoc] using hk

/-- `_days_before_year` and the leap rule on a year written as `400a + 100b + 4c + d + 1` -/
theorem dby_digits (a b c d : Nat) (hb : b ≤ 3) (hc : c ≤ 24) (hd : d ≤ 3) :
    daysBeforeYear (a * 400 + 1 + b * 100 + c * 4 + d) = 146097 * a + 36524 * b + 1461 * c + 365 * d ∧
    (isLeap (a * 400 + 1 + b * 100 + c * 4 + d) = true ↔ (d = 3 ∧ (c ≠ 24 ∨ b = 3))) := by
  have hY : a * 400 + 1 + b * 100 + c * 4 + d - 1 = 400 * a + 100 * b + 4 * c + d := by omega
  have h4 : (400 * a + 100 * b + 4 * c + d) / 4 = 100 * a + 25 * b + c := by omega
  have h100 : (400 * a + 100 * b + 4 * c + d) / 100 = 4 * a + b := by omega
  have h400 : (400 * a + 100 * b + 4 * c + d) / 400 = a := by omega
  refine ⟨?_, ?_⟩
  · simp only [daysBeforeYear, hY, h4, h100, h400]; omega
  · rw [isLeap_iff]
    have m4 : (a * 400 + 1 + b * 100 + c * 4 + d) % 4 = (d + 1) % 4 := by omega
    have m100 : (a * 400 + 1 + b * 100 + c * 4 + d) % 100 = (c * 4 + d + 1) % 100 := by omega
    have m400 : (a * 400 + 1 + b * 100 + c * 4 + d) % 400 = (b * 100 + c * 4 + d + 1) % 400 := by omega
    rw [m4, m100, m400]
    omega

/-- the successive `divmod`s of `_ord2ymd` -/
theorem year_split (n0 : Nat) :
    ∃ a b c d r, n0 / 146097 = a ∧ n0 % 146097 / 36524 = b ∧ n0 % 146097 % 36524 / 1461 = c ∧ n0 % 146097 % 36524 % 1461 / 365 = d ∧
      n0 % 146097 % 36524 % 1461 % 365 = r ∧ n0 = 146097 * a + 36524 * b + 1461 * c + 365 * d + r ∧ b ≤ 4 ∧ c ≤ 24 ∧ d ≤ 4 ∧ r < 365 ∧
      (b = 4 → c = 0 ∧ d = 0 ∧ r = 0) ∧ (d = 4 → r = 0) ∧ (c = 24 → d ≤ 3) := by
  refine ⟨_, _, _, _, _, rfl, rfl, rfl, rfl, rfl, ?_⟩
  have e1 := Nat.div_add_mod n0 146097
  have l1 := Nat.mod_lt n0 (by decide : 146097 > 0)
  generalize n0 / 146097 = a at *
  generalize n0 % 146097 = r1 at *
  have e2 := Nat.div_add_mod r1 36524
  have l2 := Nat.mod_lt r1 (by decide : 36524 > 0)
  generalize r1 / 36524 = b at *
  generalize r1 % 36524 = r2 at *
  have e3 := Nat.div_add_mod r2 1461
  have l3 := Nat.mod_lt r2 (by decide : 1461 > 0)
  generalize r2 / 1461 = c at *
  generalize r2 % 1461 = r3 at *
  have e4 := Nat.div_add_mod r3 365
  have l4 := Nat.mod_lt r3 (by decide : 365 > 0)
  generalize r3 / 365 = d at *
  generalize r3 % 365 = r at *
  refine ⟨?_, ?_, ?_, ?_, ?_, ?_, ?_, ?_⟩ <;> omega

theorem daysBeforeMonth_eq (y m : Nat) : daysBeforeMonth y m = dbmL (isLeap y) m := rfl

/-- **`_ord2ymd` is the inverse of `_ymd2ord`** on every day number, and returns a real month and day -/
theorem ord2ymd_spec (n : Nat) (hn : 1 ≤ n) :
    ymd2ord (ord2ymd n).1 (ord2ymd n).2.1 (ord2ymd n).2.2 = n ∧ 1 ≤ (ord2ymd n).2.1 ∧ (ord2ymd n).2.1 ≤ 12 ∧
    1 ≤ (ord2ymd n).2.2 ∧ (ord2ymd n).2.2 ≤ 31 ∧ 1 ≤ (ord2ymd n).1 ∧
    (n ≤ 3652059 → (ord2ymd n).1 ≤ 9999) ∧ (719163 ≤ n → 1970 ≤ (ord2ymd n).1) := by
  obtain ⟨a, b, c, d, r, h1, h2, h3, h4, h5, hn0, hb, hc, hd, hr, hb4, hd4, hc24⟩ := year_split (n - 1)
  unfold ord2ymd
  simp only [h1, h2, h3, h4, h5]
  by_cases hA : d = 4 ∨ b = 4
  · have hcond : (d == 4 || b == 4) = true := by simpa using hA
    simp only [hcond, if_true]
    rcases hA with hA | hA
    · -- last day of a leap year inside a 4-year cycle
      subst hA
      have hb3 : b ≤ 3 := by omega
      have hc23 : c ≤ 23 := by omega
      obtain ⟨e1, e2⟩ := dby_digits a b c 3 hb3 (by omega) (by omega)
      have hy : a * 400 + 1 + b * 100 + c * 4 + 4 - 1 = a * 400 + 1 + b * 100 + c * 4 + 3 := by omega
      have hl : isLeap (a * 400 + 1 + b * 100 + c * 4 + 3) = true := e2.mpr ⟨rfl, Or.inl (by omega)⟩
      rw [hy]
      refine ⟨?_, by decide, by decide, by decide, by decide, by omega, ?_, ?_⟩
      · simp only [ymd2ord, daysBeforeMonth_eq, hl, e1, dbmL, daysBeforeMonthTbl]
        simp only [List.getD_cons_succ, List.getD_cons_zero]
        have := hd4 rfl
        simp; omega
      · intro h; have := hd4 rfl; omega
      · intro h; have := hd4 rfl; omega
    · -- last day of a 400-year cycle
      subst hA
      obtain ⟨rfl, rfl, rfl⟩ := hb4 rfl
      obtain ⟨e1, e2⟩ := dby_digits a 3 24 3 (by omega) (by omega) (by omega)
      have hy : a * 400 + 1 + 4 * 100 + 0 * 4 + 0 - 1 = a * 400 + 1 + 3 * 100 + 24 * 4 + 3 := by omega
      have hl : isLeap (a * 400 + 1 + 3 * 100 + 24 * 4 + 3) = true := e2.mpr ⟨rfl, Or.inr rfl⟩
      rw [hy]
      refine ⟨?_, by decide, by decide, by decide, by decide, by omega, ?_, ?_⟩
      · simp only [ymd2ord, daysBeforeMonth_eq, hl, e1, dbmL, daysBeforeMonthTbl]
        simp only [List.getD_cons_succ, List.getD_cons_zero]
        simp; omega
      · intro h; omega
      · intro h; omega
  · have hd3 : d ≤ 3 := by omega
    have hb3 : b ≤ 3 := by omega
    have hcond : (d == 4 || b == 4) = false := by
      simp only [Bool.or_eq_false_iff, beq_eq_false_iff_ne]; exact ⟨fun e => hA (Or.inl e), fun e => hA (Or.inr e)⟩
    simp only [hcond, Bool.false_eq_true, if_false]
    obtain ⟨e1, e2⟩ := dby_digits a b c d hb3 hc hd3
    have hleap : (d == 3 && (c != 24 || b == 3)) = isLeap (a * 400 + 1 + b * 100 + c * 4 + d) := by
      rw [Bool.eq_iff_iff, e2]; simp
    rw [hleap]
    obtain ⟨m1, m2, m3, m4, m5⟩ := monthDay_ok (isLeap (a * 400 + 1 + b * 100 + c * 4 + d)) r hr
    refine ⟨?_, m1, m2, m3, m4, by omega, ?_, ?_⟩
    · simp only [ymd2ord, daysBeforeMonth_eq, e1]; omega
    · intro h; omega
    · intro h; omega

/-! ### the text of a date -/
theorem digit_toNat (n : Nat) : (digit n).toNat = 48 + n % 10 := by
  unfold digit; exact Ck.toNat_ofNat_small _ (by omega)

/-- the value of a decimal digit character -/
def digVal (c : Char) : Option Nat := if 48 ≤ c.toNat ∧ c.toNat ≤ 57 then some (c.toNat - 48) else none

theorem digVal_digit (n : Nat) : digVal (digit n) = some (n % 10) := by
  unfold digVal; rw [digit_toNat]
  have : 48 ≤ 48 + n % 10 ∧ 48 + n % 10 ≤ 57 := by omega
  simp only [this, and_self, if_true]; congr 1; omega

/-- characters that occur in a rendered date or number -/
def isDateChar (c : Char) : Bool := isAlnum c || c == ' ' || c == ',' || c == ':' || c == '-'

theorem dateChar_ne_semi {c : Char} (h : isDateChar c = true) : c ≠ ';' ∧ c ≠ '=' := by
  refine ⟨?_, ?_⟩ <;> (intro e; subst e; revert h; decide)

theorem isDateChar_digit (n : Nat) : isDateChar (digit n) = true := by
  simp only [isDateChar, isAlnum, digit_toNat, Bool.or_eq_true, Bool.and_eq_true, decide_eq_true_eq]
  left; left; left; left; left; left; omega

theorem natDec_dateChars : ∀ (n : Nat), ∀ c ∈ natDec n, isDateChar c = true := by
  intro n
  induction n using Nat.strongRecOn with
  | _ n ih =>
    intro c hc
    rw [natDec] at hc
    split at hc
    · simp only [List.mem_cons, List.not_mem_nil, or_false] at hc; subst hc; exact isDateChar_digit n
    · rcases List.mem_append.mp hc with hc | hc
      · exact ih (n / 10) (by omega) c hc
      · simp only [List.mem_cons, List.not_mem_nil, or_false] at hc; subst hc; exact isDateChar_digit n

theorem intDec_dateChars (n : Int) : ∀ c ∈ intDec n, isDateChar c = true := by
  intro c hc
  unfold intDec at hc
  split at hc
  · rcases List.mem_cons.mp hc with hc | hc
    · subst hc; decide
    · exact natDec_dateChars _ c hc
  · exact natDec_dateChars _ c hc

theorem pad2_dateChars (n : Nat) : ∀ c ∈ pad2 n, isDateChar c = true := by
  intro c hc
  simp only [pad2, List.mem_cons, List.not_mem_nil, or_false] at hc
  rcases hc with hc | hc <;> (subst hc; exact isDateChar_digit _)

theorem wdName_dateChars (w : Nat) : (wdName w).all isDateChar = true := by
  unfold wdName; split <;> decide

theorem monName_dateChars (m : Nat) : (monName m).all isDateChar = true := by
  unfold monName; split <;> decide

theorem natDec_4 (y : Nat) (h1 : 1000 ≤ y) (h2 : y ≤ 9999) : natDec y = [digit (y / 1000), digit (y / 100), digit (y / 10), digit y] := by
  rw [natDec, if_neg (by omega), natDec, if_neg (by omega), natDec, if_neg (by omega), natDec, if_pos (by omega)]
  simp only [List.cons_append, List.nil_append, Nat.div_div_eq_div_mul]

theorem pad4_4 (y : Nat) (h1 : 1000 ≤ y) (h2 : y ≤ 9999) : pad4 y = natDec y := by
  unfold pad4; rw [natDec_4 y h1 h2]; rfl

theorem pad2_all (n : Nat) : (pad2 n).all isDateChar = true := by
  simp only [List.all_eq_true]; exact pad2_dateChars n

theorem dateTail_all (c : Civil) (year : Str) (hy : year.all isDateChar = true) : (dateTail c year).all isDateChar = true := by
  simp only [dateTail, List.all_append, pad2_all, monName_dateChars, hy, Bool.and_true]
  decide

theorem dateTail_dateChars (c : Civil) (year : Str) (hy : ∀ x ∈ year, isDateChar x = true) : ∀ x ∈ dateTail c year, isDateChar x = true := by
  have := dateTail_all c year (by simpa only [List.all_eq_true] using hy)
  simpa only [List.all_eq_true] using this

theorem imfDate_dateChars (c : Civil) : ∀ x ∈ imfDate c, isDateChar x = true := by
  intro x hx
  have hw := wdName_dateChars (weekdayOfOrd (ymd2ord c.year c.month c.day))
  simp only [List.all_eq_true] at hw
  rcases List.mem_append.mp hx with hx | hx
  · exact hw x hx
  · exact dateTail_dateChars c _ (natDec_dateChars _) x hx

theorem imfDate_ne_nil (c : Civil) : (imfDate c).isEmpty = false := by
  unfold imfDate dateTail
  cases wdName (weekdayOfOrd (ymd2ord c.year c.month c.day)) <;> rfl

/-! ### an IMF-fixdate reader (RFC 9110 section 5.6.7), to say what the emitted text denotes -/
def num2 (a b : Char) : Option Nat :=
  match digVal a, digVal b with
  | some x, some y => some (10 * x + y)
  | _, _ => none

def num4 (a b c d : Char) : Option Nat :=
  match digVal a, digVal b, digVal c, digVal d with
  | some x, some y, some z, some w => some (1000 * x + 100 * y + 10 * z + w)
  | _, _, _, _ => none

def monOf (s : Str) : Option Nat := (List.range 13).find? fun m => 1 ≤ m && monName m == s

/-- `day-name "," SP 2DIGIT SP month SP 4DIGIT SP 2DIGIT ":" 2DIGIT ":" 2DIGIT SP "GMT"` (the day name is not interpreted) -/
def parseDate : Str → Option Civil
  | [_, _, _, ',', ' ', d1, d2, ' ', m1, m2, m3, ' ', y1, y2, y3, y4, ' ', h1, h2, ':', i1, i2, ':', s1, s2, ' ', 'G', 'M', 'T'] =>
    match num2 d1 d2, monOf [m1, m2, m3], num4 y1 y2 y3 y4, num2 h1 h2, num2 i1 i2, num2 s1 s2 with
    | some d, some m, some y, some h, some i, some s => some ⟨y, m, d, h, i, s⟩
    | _, _, _, _, _, _ => none
  | _ => none

theorem num2_pad2 (n : Nat) (h : n < 100) : num2 (digit (n / 10)) (digit n) = some n := by
  simp only [num2, digVal_digit]; congr 1; omega

theorem num4_digits (y : Nat) (h : y ≤ 9999) : num4 (digit (y / 1000)) (digit (y / 100)) (digit (y / 10)) (digit y) = some y := by
  simp only [num4, digVal_digit]; congr 1; omega

theorem wdName_len (w : Nat) : ∃ a b c, wdName w = [a, b, c] := by
  unfold wdName; split <;> exact ⟨_, _, _, rfl⟩

theorem monName_len (m : Nat) : ∃ a b c, monName m = [a, b, c] := by
  unfold monName; split <;> exact ⟨_, _, _, rfl⟩

theorem monOf_monName : ∀ m : Fin 13, 1 ≤ m.val → monOf (monName m) = some m.val := by decide

/-- a civil date-time whose fields are in the ranges of a `datetime` with a four-digit year -/
def Civil.fourDigit (c : Civil) : Bool :=
  decide (1000 ≤ c.year) && decide (c.year ≤ 9999) && decide (1 ≤ c.month) && decide (c.month ≤ 12) && decide (c.day < 100) &&
  decide (c.hour < 100) && decide (c.minute < 100) && decide (c.second < 100)

theorem parseDate_tail (a b c' : Char) (c : Civil) (h : c.fourDigit = true) :
    parseDate ([a, b, c'] ++ dateTail c (natDec c.year)) = some c := by
  simp only [Civil.fourDigit, Bool.and_eq_true, decide_eq_true_eq] at h
  obtain ⟨⟨⟨⟨⟨⟨⟨y1, y2⟩, mo1⟩, mo2⟩, hd⟩, hh⟩, hm⟩, hs⟩ := h
  obtain ⟨p, q, r, hmn⟩ := monName_len c.month
  have hmo := monOf_monName ⟨c.month, by omega⟩ mo1
  simp only [hmn] at hmo
  simp only [dateTail, natDec_4 c.year y1 y2, pad2, hmn, List.cons_append, List.nil_append, parseDate,
    num2_pad2 _ hd, num2_pad2 _ hh, num2_pad2 _ hm, num2_pad2 _ hs, num4_digits _ y2, hmo]

/-- **the emitted `expires` text denotes the requested date-time**: an IMF-fixdate reader returns the civil fields it was rendered from -/
theorem parseDate_imfDate (c : Civil) (h : c.fourDigit = true) : parseDate (imfDate c) = some c := by
  obtain ⟨x, y, z, hw⟩ := wdName_len (weekdayOfOrd (ymd2ord c.year c.month c.day))
  unfold imfDate; rw [hw]; exact parseDate_tail x y z c h

/-- seconds since 1970-01-01T00:00:00Z of a civil UTC date-time -/
def epochOf (c : Civil) : Int :=
  ((ymd2ord c.year c.month c.day : Nat) - 719163 : Int) * 86400 + (c.hour * 3600 + c.minute * 60 + c.second : Nat)

theorem gmtime_eq (t : Nat) : gmtime t =
    ⟨(ord2ymd (719163 + t / 86400)).1, (ord2ymd (719163 + t / 86400)).2.1, (ord2ymd (719163 + t / 86400)).2.2,
     t % 86400 / 3600, t % 86400 % 3600 / 60, t % 86400 % 60⟩ := rfl

/-- `gmtime` is right: the civil time it returns is `t` seconds after the epoch -/
theorem epoch_gmtime (t : Nat) : epochOf (gmtime t) = t := by
  obtain ⟨h, _⟩ := ord2ymd_spec (719163 + t / 86400) (by omega)
  rw [gmtime_eq]
  simp only [epochOf, h]
  omega

theorem gmtime_fourDigit (t : Nat) (ht : t < 253402300800) : (gmtime t).fourDigit = true := by
  obtain ⟨_, m1, m2, d1, d2, _, y2, y1⟩ := ord2ymd_spec (719163 + t / 86400) (by omega)
  have := y2 (by omega)
  have := y1 (by omega)
  rw [gmtime_eq]
  simp only [Civil.fourDigit, Bool.and_eq_true, decide_eq_true_eq]
  refine ⟨⟨⟨⟨⟨⟨⟨?_, ?_⟩, ?_⟩, ?_⟩, ?_⟩, ?_⟩, ?_⟩, ?_⟩ <;> omega

/-- before the year 10000 `_getdate` writes the same text as `strftime` would for that moment -/
theorem getdate_eq_imfDate (t : Nat) (ht : t < 253402300800) : getdate t = imfDate (gmtime t) := by
  obtain ⟨h, _, _, _, _, _, y2, y1⟩ := ord2ymd_spec (719163 + t / 86400) (by omega)
  have := y2 (by omega)
  have := y1 (by omega)
  have hy : (gmtime t).year = (ord2ymd (719163 + t / 86400)).1 := rfl
  have hm : (gmtime t).month = (ord2ymd (719163 + t / 86400)).2.1 := rfl
  have hd : (gmtime t).day = (ord2ymd (719163 + t / 86400)).2.2 := rfl
  unfold getdate imfDate
  simp only [hy, hm, hd, h]
  rw [pad4_4 _ (by omega) (by omega)]

/-- `astimezone(timezone.utc)` keeps the instant: the UTC fields denote the local fields' instant minus the offset -/
theorem toUtc_instant (dt c : Civil) (off : Int) (h : toUtc ⟨dt, some off⟩ = some c) : epochOf c = epochOf dt - off := by
  unfold toUtc at h
  simp only at h
  split at h
  · rename_i hr
    obtain ⟨h1, _⟩ := ord2ymd_spec (((ymd2ord dt.year dt.month dt.day : Int) * 86400 + ((dt.hour * 3600 + dt.minute * 60 + dt.second : Nat) : Int) - off) / 86400).toNat (by omega)
    simp only [Option.some.injEq] at h
    subst h
    simp only [epochOf, h1]
    omega
  · exact absurd h (by simp)

theorem toUtc_naive (dt : Civil) : toUtc ⟨dt, none⟩ = some dt := rfl

end Cw

import FalconModel.CookieOut
import FalconModel.CookiesProofs
/-! C15 proofs for `CookieOut.lean`: what `set_cookie` / `unset_cookie` put on the wire.

    * `setCookie_spec`: which check raises, what is left in the jar, and the morsel of a successful call, read off the arguments;
    * `cookie_attrs_exact` (+ the `attr_*` corollaries, `secure_defaults_from_option`): splitting the emitted line at `"; "` gives the
      name, the coded value and exactly the requested attributes;
    * `cookie_echo_reads_back`: the request-side parser (`Ck`) reads the emitted cookie-pair as the same name and value;
    * `name_with_reserved_char_rejected`, `invalid_same_site_rejected`;
    * `unset_cookie_is_expired`;
    * dates: `ord2ymd_spec`, `epoch_gmtime`, `toUtc_instant`, `parseDate_imfDate`. -/
namespace Cw
open Hp (Str)

/-! ### characters -/
theorem isLegal_ascii {c : Char} (h : isLegal c = true) : c.toNat < 128 := by
  simp only [isLegal, isAlnum, Bool.or_eq_true, Bool.and_eq_true, decide_eq_true_eq, beq_iff_eq] at h
  rcases h with ((((((((((((((((h | h) | h) | h) | h) | h) | h) | h) | h) | h) | h) | h) | h) | h) | h) | h) | h)
  · omega
  all_goals (subst h; decide)

theorem isLegal_ne {c : Char} (h : isLegal c = true) : c ≠ ';' ∧ c ≠ '=' ∧ c ≠ '"' ∧ c ≠ '\\' ∧ c ≠ ' ' := by
  refine ⟨?_, ?_, ?_, ?_, ?_⟩ <;> (intro e; subst e; revert h; decide)

theorem legal_tbl : ∀ n : Fin 128, isLegal (Char.ofNat n) = true →
    (Char.ofNat n ≠ ':' → Ck.isReserved (Char.ofNat n) = false) ∧ Hp.isWs (Char.ofNat n) = false := by decide

theorem isLegal_not_reserved {c : Char} (h : isLegal c = true) (hc : c ≠ ':') : Ck.isReserved c = false := by
  have := legal_tbl ⟨c.toNat, isLegal_ascii h⟩
  simp only [Char.ofNat_toNat] at this
  exact (this h).1 hc

theorem isLegal_not_ws {c : Char} (h : isLegal c = true) : Hp.isWs c = false := by
  have := legal_tbl ⟨c.toNat, isLegal_ascii h⟩
  simp only [Char.ofNat_toNat] at this
  exact (this h).2

/-! ### `_quote` is the escaping that `Ck.unquote_quote` inverts -/
/-- the characters `_quote` copies unchanged between the DQUOTEs -/
def keptByQuote (c : Char) : Bool := isUnescaped c || decide (256 ≤ c.toNat)

theorem translate_eq (c : Char) : translate c = Ck.escChar keptByQuote c := by
  unfold translate Ck.escChar keptByQuote oct3 Ck.octDigits
  by_cases h1 : c = '"'
  · simp [h1]
  by_cases h2 : c = '\\'
  · simp [h2]
  simp only [beq_iff_eq, h1, h2, if_false]
  by_cases h3 : c.toNat < 256 <;> cases h4 : isUnescaped c <;> simp [h3] <;> omega

theorem flatMap_translate : ∀ (s : Str), s.flatMap translate = Ck.quoteBody keptByQuote s
  | [] => rfl
  | c :: r => by simp only [List.flatMap_cons, Ck.quoteBody, translate_eq, flatMap_translate r]

theorem quote_legal {s : Str} (h : isLegalKey s = true) : quote s = s := by simp [quote, h]
theorem quote_other {s : Str} (h : isLegalKey s = false) : quote s = '"' :: (Ck.quoteBody keptByQuote s ++ ['"']) := by
  simp [quote, h, flatMap_translate]

theorem legalKey_cons {s : Str} (h : isLegalKey s = true) : ∃ c r, s = c :: r ∧ isLegal c = true := by
  cases s with
  | nil => simp [isLegalKey] at h
  | cons c r => simp [isLegalKey] at h; exact ⟨c, r, rfl, h.1⟩

theorem legalKey_all {s : Str} (h : isLegalKey s = true) : ∀ c ∈ s, isLegal c = true := by
  simp [isLegalKey] at h; exact h.2

/-- the request side's `cookieValue` (DQUOTE removal + `_unquote`) inverts `_quote` on every Latin-1 string -/
theorem cookieValue_quote (s : Str) (h : ∀ c ∈ s, c.toNat < 256) : Ck.cookieValue (quote s) = s := by
  cases hk : isLegalKey s with
  | true =>
    rw [quote_legal hk]
    obtain ⟨c, r, rfl, hc⟩ := legalKey_cons hk
    have : c ≠ '"' := (isLegal_ne hc).2.2.1
    simp [Ck.cookieValue, this]
  | false =>
    rw [quote_other hk]
    unfold Ck.cookieValue
    have hl : 2 ≤ ('"' :: (Ck.quoteBody keptByQuote s ++ ['"'])).length := by simp
    simp only [hl, decide_true, List.head?_cons, Hp.getLast?_quote, beq_self_eq_true, Bool.and_self, if_true]
    exact Ck.cUnquote_quote keptByQuote s h

theorem oct3_not_mem (n : Nat) (hn : n < 256) (x : Char) (hx : x.toNat < 48 ∨ 55 < x.toNat) : x ∉ oct3 n := by
  have h1 : 48 + n / 64 < 256 := by omega
  have h2 : 48 + n / 8 % 8 < 256 := by omega
  have h3 : 48 + n % 8 < 256 := by omega
  intro e
  simp only [oct3, List.mem_cons, List.not_mem_nil, or_false] at e
  rcases e with e | e | e <;> (subst e; first | rw [Ck.toNat_ofNat_small _ h1] at hx | rw [Ck.toNat_ofNat_small _ h2] at hx | rw [Ck.toNat_ofNat_small _ h3] at hx) <;> omega

theorem semi_not_mem_translate (c : Char) : ';' ∉ translate c := by
  unfold translate
  split
  · decide
  split
  · decide
  split
  · rename_i h
    simp only [Bool.and_eq_true, decide_eq_true_eq] at h
    intro e
    rcases List.mem_cons.mp e with e | e
    · exact absurd e (by decide)
    · exact oct3_not_mem _ h.1 ';' (by decide) e
  · rename_i h1 h2 h3
    intro e
    simp only [List.mem_cons, List.not_mem_nil, or_false] at e
    subst e
    exact h3 (by decide)

theorem semi_not_mem_quote (s : Str) : ';' ∉ quote s := by
  unfold quote
  split
  · rename_i h; intro e; exact (isLegal_ne (legalKey_all h _ e)).1 rfl
  · intro e
    simp only [List.mem_cons, List.mem_append, List.mem_flatMap, List.not_mem_nil, or_false] at e
    rcases e with e | ⟨c, _, e⟩ | e
    · exact absurd e (by decide)
    · exact semi_not_mem_translate c e
    · exact absurd e (by decide)

theorem strip_quote (s : Str) : Hp.strip (quote s) = quote s := by
  cases hk : isLegalKey s with
  | true =>
    rw [quote_legal hk]
    apply Hp.strip_of_ends
    · intro x hx; exact isLegal_not_ws (legalKey_all hk x (List.mem_of_mem_head? hx))
    · intro x hx
      have : x ∈ s.reverse := List.mem_of_mem_head? hx
      exact isLegal_not_ws (legalKey_all hk x (by simpa using this))
  | false =>
    rw [quote_other hk]
    apply Hp.strip_of_ends
    · intro x hx; simp at hx; subst hx; decide
    · intro x hx; simp at hx; subst hx; decide

/-! ### which names and values `set_cookie` accepts -/
/-- the names `set_cookie` accepts: ASCII, no colon (fix 9cb24a9), not an attribute name reserved by `http.cookies`
    (case-insensitively), non-empty and made of `_LegalChars` -/
def nameOk (n : Str) : Bool := isAscii n && !n.contains ':' && !reservedKeys.contains (lower n) && isLegalKey n

/-- a name `set_cookie` accepts is an RFC 6265 token as the request parser demands it -/
theorem nameOk_token {n : Str} (h : nameOk n = true) : n ≠ [] ∧ ∀ c ∈ n, isLegal c = true ∧ Ck.isReserved c = false := by
  simp only [nameOk, Bool.and_eq_true, Bool.not_eq_true'] at h
  obtain ⟨⟨⟨_, hc⟩, _⟩, hk⟩ := h
  obtain ⟨c, r, rfl, _⟩ := legalKey_cons hk
  refine ⟨by simp, fun x hx => ⟨legalKey_all hk x hx, isLegal_not_reserved (legalKey_all hk x hx) ?_⟩⟩
  intro e; subst e
  have : (c :: r).contains ':' = true := by simpa using hx
  rw [this] at hc; exact absurd hc (by decide)

/-- **echo**: a cookie-pair `name=<coded value>` as written by `set_cookie` is read by the request cookie parser as exactly
    that name with exactly that value (for every accepted name and every Latin-1 – in particular every accepted, ASCII – value) -/
theorem parse_pair (n v : Str) (hn : nameOk n = true) (hv : ∀ c ∈ v, c.toNat < 256) :
    Ck.parseCookieHeader (kv n (quote v)) = [(n, [v])] := by
  obtain ⟨hne, hall⟩ := nameOk_token hn
  have hsemi : ';' ∉ kv n (quote v) := by
    unfold kv
    intro e
    rcases List.mem_append.mp e with e | e
    · exact (isLegal_ne (hall _ e).1).1 rfl
    · rcases List.mem_cons.mp e with e | e
      · exact absurd e (by decide)
      · exact semi_not_mem_quote v e
  have heq : '=' ∉ n := fun e => (isLegal_ne (hall _ e).1).2.1 rfl
  have hsn : Hp.strip n = n := by
    apply Hp.strip_of_ends
    · intro x hx; exact isLegal_not_ws (hall x (List.mem_of_mem_head? hx)).1
    · intro x hx
      have : x ∈ n.reverse := List.mem_of_mem_head? hx
      exact isLegal_not_ws (hall x (by simpa using this)).1
  have hany : n.any Ck.isReserved = false := by
    simp only [List.any_eq_false]
    intro c hc; simp [(hall c hc).2]
  have hemp : n.isEmpty = false := by cases n with | nil => exact absurd rfl hne | cons _ _ => rfl
  unfold Ck.parseCookieHeader
  rw [Ck.splitOn_none ';' _ hsemi]
  simp only [List.foldl_cons, List.foldl_nil, Ck.stepToken]
  unfold kv
  rw [Hp.partition_append n (quote v) '=' heq]
  simp only [hsn, hemp, hany, Bool.false_eq_true, if_false, strip_quote, cookieValue_quote v hv, Ck.insertVal]

def expOk (s : CookieSpec) : Bool := match s.expires with | none => true | some e => (toUtc e).isSome
/-- the UTC civil time of `expires` -/
def expUtc (s : CookieSpec) : Option Civil := match s.expires with | none => none | some e => toUtc e
def expVal (s : CookieSpec) : ExpVal := match expUtc s with | none => .unset | some c => .text (imfDate c)
def maOk (s : CookieSpec) : Bool := match s.maxAge with | none => true | some a => a.toInt.isSome
def maVal (s : CookieSpec) : Option Int := match s.maxAge with | none => none | some a => a.toInt
def ssOk (s : CookieSpec) : Bool := match s.sameSite with | none => true | some v => v.isEmpty || sameSiteWords.contains (lower v)
def ssVal (s : CookieSpec) : Str := match s.sameSite with | none => [] | some v => if v.isEmpty then [] else capitalize (lower v)

/-- the morsel right after `self._cookies[name] = value` -/
def baseMorsel (s : CookieSpec) : Morsel := { key := s.name, value := s.value, coded := quote s.value }

/-- the morsel a successful `set_cookie` leaves in the jar, read off the arguments -/
def finalMorsel (o : Opts) (s : CookieSpec) : Morsel :=
  { key := s.name, value := s.value, coded := quote s.value, domain := s.domain.getD [], expires := expVal s, httponly := s.httpOnly,
    maxAge := maVal s, partitioned := s.partitioned, path := s.path.getD [], samesite := ssVal s, secure := isSecure o s }

theorem stExpires_ok {s : CookieSpec} (h : expOk s = true) (m : Morsel) (hm : m.expires = .unset) :
    stExpires s m = .ok { m with expires := expVal s } := by
  unfold stExpires expVal expUtc
  unfold expOk at h
  cases he : s.expires with
  | none => simp only; rw [← hm]
  | some e =>
    rw [he] at h; simp only at h ⊢
    cases hu : toUtc e with
    | none => rw [hu] at h; exact absurd h (by decide)
    | some c => rfl

theorem stExpires_err {s : CookieSpec} (h : expOk s = false) (m : Morsel) : stExpires s m = .error .dateOverflow := by
  unfold stExpires
  unfold expOk at h
  cases he : s.expires with
  | none => rw [he] at h; exact absurd h (by decide)
  | some e =>
    rw [he] at h; simp only at h ⊢
    cases hu : toUtc e with
    | none => rfl
    | some c => rw [hu] at h; simp at h

theorem stMaxAge_ok {s : CookieSpec} (h : maOk s = true) (m : Morsel) (hm : m.maxAge = none) :
    stMaxAge s m = .ok { m with maxAge := maVal s } := by
  unfold stMaxAge maVal
  unfold maOk at h
  cases he : s.maxAge with
  | none => simp only; rw [← hm]
  | some a =>
    rw [he] at h; simp only at h ⊢
    cases hu : a.toInt with
    | none => rw [hu] at h; exact absurd h (by decide)
    | some c => rfl

theorem stMaxAge_err {s : CookieSpec} (h : maOk s = false) (m : Morsel) : stMaxAge s m = .error .maxAge := by
  unfold stMaxAge
  unfold maOk at h
  cases he : s.maxAge with
  | none => rw [he] at h; exact absurd h (by decide)
  | some a =>
    rw [he] at h; simp only at h ⊢
    cases hu : a.toInt with
    | none => rfl
    | some c => rw [hu] at h; simp at h

theorem stDomain_eq (s : CookieSpec) (m : Morsel) (hm : m.domain = []) : stDomain s m = .ok { m with domain := s.domain.getD [] } := by
  unfold stDomain
  cases s.domain with
  | none => simp only [Option.getD_none]; rw [← hm]
  | some d =>
    cases d with
    | nil => simp only [List.isEmpty_nil, if_true, Option.getD_some]; rw [← hm]
    | cons c r => rfl

theorem stPath_eq (s : CookieSpec) (m : Morsel) (hm : m.path = []) : stPath s m = .ok { m with path := s.path.getD [] } := by
  unfold stPath
  cases s.path with
  | none => simp only [Option.getD_none]; rw [← hm]
  | some d =>
    cases d with
    | nil => simp only [List.isEmpty_nil, if_true, Option.getD_some]; rw [← hm]
    | cons c r => rfl

theorem stSecure_eq (o : Opts) (s : CookieSpec) (m : Morsel) (hm : m.secure = false) : stSecure o s m = .ok { m with secure := isSecure o s } := by
  unfold stSecure
  cases h : isSecure o s with
  | true => rfl
  | false => simp only [Bool.false_eq_true, if_false]; rw [← hm]

theorem stHttpOnly_eq (s : CookieSpec) (m : Morsel) (hm : m.httponly = false) : stHttpOnly s m = .ok { m with httponly := s.httpOnly } := by
  unfold stHttpOnly
  cases h : s.httpOnly with
  | true => rfl
  | false => simp only [Bool.false_eq_true, if_false]; rw [← hm]

theorem stPartitioned_eq (s : CookieSpec) (m : Morsel) (hm : m.partitioned = false) : stPartitioned s m = .ok { m with partitioned := s.partitioned } := by
  unfold stPartitioned
  cases h : s.partitioned with
  | true => rfl
  | false => simp only [Bool.false_eq_true, if_false]; rw [← hm]

theorem stSameSite_ok {s : CookieSpec} (h : ssOk s = true) (m : Morsel) (hm : m.samesite = []) :
    stSameSite s m = .ok { m with samesite := ssVal s } := by
  unfold stSameSite ssVal
  unfold ssOk at h
  cases he : s.sameSite with
  | none => simp only; rw [← hm]
  | some v =>
    rw [he] at h; simp only at h ⊢
    cases hv : v.isEmpty with
    | true => simp only [if_true]; rw [← hm]
    | false =>
      rw [hv] at h; simp only [Bool.false_or] at h
      simp only [Bool.false_eq_true, if_false, h, Bool.not_true]

theorem stSameSite_err {s : CookieSpec} (h : ssOk s = false) (m : Morsel) : stSameSite s m = .error .sameSite := by
  unfold stSameSite
  unfold ssOk at h
  cases he : s.sameSite with
  | none => rw [he] at h; exact absurd h (by decide)
  | some v =>
    rw [he] at h; simp only [Bool.or_eq_false_iff] at h ⊢
    simp only [h.1, h.2, Bool.false_eq_true, if_false, Bool.not_false, if_true]

theorem runSteps_ok {f : Morsel → Except Err Morsel} {fs : List (Morsel → Except Err Morsel)} {m m' : Morsel} (h : f m = .ok m') :
    runSteps m (f :: fs) = runSteps m' fs := by simp only [runSteps, h]
theorem runSteps_err {f : Morsel → Except Err Morsel} {fs : List (Morsel → Except Err Morsel)} {m : Morsel} {e : Err} (h : f m = .error e) :
    runSteps m (f :: fs) = (m, some e) := by simp only [runSteps, h]

/-- the morsel after the `expires` / `max-age` / … / `httponly` assignments -/
def m1 (s : CookieSpec) : Morsel := { baseMorsel s with expires := expVal s }
def m2 (s : CookieSpec) : Morsel := { m1 s with maxAge := maVal s }
def m3 (s : CookieSpec) : Morsel := { m2 s with domain := s.domain.getD [] }
def m4 (s : CookieSpec) : Morsel := { m3 s with path := s.path.getD [] }
def m5 (o : Opts) (s : CookieSpec) : Morsel := { m4 s with secure := isSecure o s }
def m6 (o : Opts) (s : CookieSpec) : Morsel := { m5 o s with httponly := s.httpOnly }
def m7 (o : Opts) (s : CookieSpec) : Morsel := { m6 o s with samesite := ssVal s }

theorem runSteps_spec (o : Opts) (s : CookieSpec) : runSteps (baseMorsel s) (steps o s) =
    if !expOk s then (baseMorsel s, some .dateOverflow)
    else if !maOk s then (m1 s, some .maxAge)
    else if !ssOk s then (m6 o s, some .sameSite)
    else (finalMorsel o s, none) := by
  unfold steps
  cases h1 : expOk s with
  | false => rw [runSteps_err (stExpires_err h1 _)]; rfl
  | true =>
    rw [runSteps_ok (stExpires_ok h1 (baseMorsel s) rfl)]
    show runSteps (m1 s) _ = _
    cases h2 : maOk s with
    | false => rw [runSteps_err (stMaxAge_err h2 _)]; rfl
    | true =>
      rw [runSteps_ok (stMaxAge_ok h2 (m1 s) rfl)]
      show runSteps (m2 s) _ = _
      rw [runSteps_ok (stDomain_eq s (m2 s) rfl)]
      show runSteps (m3 s) _ = _
      rw [runSteps_ok (stPath_eq s (m3 s) rfl)]
      show runSteps (m4 s) _ = _
      rw [runSteps_ok (stSecure_eq o s (m4 s) rfl)]
      show runSteps (m5 o s) _ = _
      rw [runSteps_ok (stHttpOnly_eq s (m5 o s) rfl)]
      show runSteps (m6 o s) _ = _
      cases h3 : ssOk s with
      | false => rw [runSteps_err (stSameSite_err h3 _)]; rfl
      | true =>
        rw [runSteps_ok (stSameSite_ok h3 (m6 o s) rfl)]
        show runSteps (m7 o s) _ = _
        rw [runSteps_ok (stPartitioned_eq s (m7 o s) rfl)]; rfl

/-- **`set_cookie`, completely**: which check raises, what is left in the jar, and the morsel of a successful call -/
theorem setCookie_spec (o : Opts) (s : CookieSpec) : setCookie o s =
    if !isAscii s.name then (.keep, some .nameNotAscii)
    else if s.name.contains ':' then (.keep, some .nameReservedChar)
    else if !isAscii s.value then (.keep, some .valueNotAscii)
    else if reservedKeys.contains (lower s.name) then (.pop, some .keyReserved)
    else if !isLegalKey s.name then (.pop, some .keyIllegal)
    else if !expOk s then (.put (baseMorsel s), some .dateOverflow)
    else if !maOk s then (.put (m1 s), some .maxAge)
    else if !ssOk s then (.put (m6 o s), some .sameSite)
    else (.put (finalMorsel o s), none) := by
  unfold setCookie
  split; · rfl
  split; · rfl
  split; · rfl
  cases hr : reservedKeys.contains (lower s.name) with
  | true => simp only [morselSet, hr, if_true]
  | false =>
    cases hk : isLegalKey s.name with
    | false => simp only [morselSet, hr, hk, Bool.not_false, Bool.false_eq_true, if_true, if_false]
    | true =>
      simp only [morselSet, hr, hk, Bool.not_true, Bool.false_eq_true, if_false]
      show (match runSteps (baseMorsel s) (steps o s) with | (m, e) => (JarEffect.put m, e)) = _
      rw [runSteps_spec]
      cases expOk s <;> cases maOk s <;> cases ssOk s <;> rfl

/-! ### calendar arithmetic: `_ord2ymd` inverts `_ymd2ord` -/
theorem isLeap_iff (y : Nat) : isLeap y = true ↔ (y % 4 = 0 ∧ (y % 100 ≠ 0 ∨ y % 400 = 0)) := by
  simp [isLeap]

/-- `_days_before_month` with the leap flag given -/
def dbmL (leap : Bool) (month : Nat) : Nat := daysBeforeMonthTbl.getD month 0 + (if month > 2 && leap then 1 else 0)

def monthDayOk (leap : Bool) (r : Nat) : Bool :=
  decide (1 ≤ (monthDay leap r).1) && decide ((monthDay leap r).1 ≤ 12) && decide (1 ≤ (monthDay leap r).2) && decide ((monthDay leap r).2 ≤ 31) &&
    decide (dbmL leap (monthDay leap r).1 + (monthDay leap r).2 = r + 1)

set_option maxRecDepth 20000 in
/-- checked by evaluation for each of the 365 day numbers and both kinds of year (day 366 of a leap year is the early exit of `_ord2ymd`) -/
theorem monthDay_tbl : ((List.range 365).all (monthDayOk false) && (List.range 365).all (monthDayOk true)) = true := by decide

theorem monthDay_ok (leap : Bool) (r : Nat) (h : r < 365) :
    1 ≤ (monthDay leap r).1 ∧ (monthDay leap r).1 ≤ 12 ∧ 1 ≤ (monthDay leap r).2 ∧ (monthDay leap r).2 ≤ 31 ∧
    dbmL leap (monthDay leap r).1 + (monthDay leap r).2 = r + 1 := by
  have := monthDay_tbl
  simp only [Bool.and_eq_true, List.all_eq_true, List.mem_range] at this
  have hk : monthDayOk leap r = true := by
    cases leap with
    | false => exact this.1 r h
    | true => exact this.2 r h
  simpa only [monthDayOk, Bool.and_eq_true, decide_eq_true_eq, and_assoc] using hk

/-- `_days_before_year` and the leap rule on a year written as `400a + 100b + 4c + d + 1` -/
theorem dby_digits (a b c d : Nat) (hb : b ≤ 3) (hc : c ≤ 24) (hd : d ≤ 3) :
    daysBeforeYear (a * 400 + 1 + b * 100 + c * 4 + d) = 146097 * a + 36524 * b + 1461 * c + 365 * d ∧
    (isLeap (a * 400 + 1 + b * 100 + c * 4 + d) = true ↔ (d = 3 ∧ (c ≠ 24 ∨ b = 3))) := by
  have hY : a * 400 + 1 + b * 100 + c * 4 + d - 1 = 400 * a + 100 * b + 4 * c + d := by omega
  have h4 : (400 * a + 100 * b + 4 * c + d) / 4 = 100 * a + 25 * b + c := by omega
  have h100 : (400 * a + 100 * b + 4 * c + d) / 100 = 4 * a + b := by omega
  have h400 : (400 * a + 100 * b + 4 * c + d) / 400 = a := by omega
  refine ⟨?_, ?_⟩
  · simp only [daysBeforeYear, hY, h4, h100, h400]; omega
  · rw [isLeap_iff]
    have m4 : (a * 400 + 1 + b * 100 + c * 4 + d) % 4 = (d + 1) % 4 := by omega
    have m100 : (a * 400 + 1 + b * 100 + c * 4 + d) % 100 = (c * 4 + d + 1) % 100 := by omega
    have m400 : (a * 400 + 1 + b * 100 + c * 4 + d) % 400 = (b * 100 + c * 4 + d + 1) % 400 := by omega
    rw [m4, m100, m400]
    omega

/-- the successive `divmod`s of `_ord2ymd` -/
theorem year_split (n0 : Nat) :
    ∃ a b c d r, n0 / 146097 = a ∧ n0 % 146097 / 36524 = b ∧ n0 % 146097 % 36524 / 1461 = c ∧ n0 % 146097 % 36524 % 1461 / 365 = d ∧
      n0 % 146097 % 36524 % 1461 % 365 = r ∧ n0 = 146097 * a + 36524 * b + 1461 * c + 365 * d + r ∧ b ≤ 4 ∧ c ≤ 24 ∧ d ≤ 4 ∧ r < 365 ∧
      (b = 4 → c = 0 ∧ d = 0 ∧ r = 0) ∧ (d = 4 → r = 0) ∧ (c = 24 → d ≤ 3) := by
  refine ⟨_, _, _, _, _, rfl, rfl, rfl, rfl, rfl, ?_⟩
  have e1 := Nat.div_add_mod n0 146097
  have l1 := Nat.mod_lt n0 (by decide : 146097 > 0)
  generalize n0 / 146097 = a at *
  generalize n0 % 146097 = r1 at *
  have e2 := Nat.div_add_mod r1 36524
  have l2 := Nat.mod_lt r1 (by decide : 36524 > 0)
  generalize r1 / 36524 = b at *
  generalize r1 % 36524 = r2 at *
  have e3 := Nat.div_add_mod r2 1461
  have l3 := Nat.mod_lt r2 (by decide : 1461 > 0)
  generalize r2 / 1461 = c at *
  generalize r2 % 1461 = r3 at *
  have e4 := Nat.div_add_mod r3 365
  have l4 := Nat.mod_lt r3 (by decide : 365 > 0)
  generalize r3 / 365 = d at *
  generalize r3 % 365 = r at *
  refine ⟨?_, ?_, ?_, ?_, ?_, ?_, ?_, ?_⟩ <;> omega

theorem daysBeforeMonth_eq (y m : Nat) : daysBeforeMonth y m = dbmL (isLeap y) m := rfl

/-- **`_ord2ymd` is the inverse of `_ymd2ord`** on every day number, and returns a real month and day -/
theorem ord2ymd_spec (n : Nat) (hn : 1 ≤ n) :
    ymd2ord (ord2ymd n).1 (ord2ymd n).2.1 (ord2ymd n).2.2 = n ∧ 1 ≤ (ord2ymd n).2.1 ∧ (ord2ymd n).2.1 ≤ 12 ∧
    1 ≤ (ord2ymd n).2.2 ∧ (ord2ymd n).2.2 ≤ 31 ∧ 1 ≤ (ord2ymd n).1 ∧
    (n ≤ 3652059 → (ord2ymd n).1 ≤ 9999) ∧ (719163 ≤ n → 1970 ≤ (ord2ymd n).1) := by
  obtain ⟨a, b, c, d, r, h1, h2, h3, h4, h5, hn0, hb, hc, hd, hr, hb4, hd4, hc24⟩ := year_split (n - 1)
  unfold ord2ymd
  simp only [h1, h2, h3, h4, h5]
  by_cases hA : d = 4 ∨ b = 4
  · have hcond : (d == 4 || b == 4) = true := by simpa using hA
    simp only [hcond, if_true]
    rcases hA with hA | hA
    · -- last day of a leap year inside a 4-year cycle
      subst hA
      have hb3 : b ≤ 3 := by omega
      have hc23 : c ≤ 23 := by omega
      obtain ⟨e1, e2⟩ := dby_digits a b c 3 hb3 (by omega) (by omega)
      have hy : a * 400 + 1 + b * 100 + c * 4 + 4 - 1 = a * 400 + 1 + b * 100 + c * 4 + 3 := by omega
      have hl : isLeap (a * 400 + 1 + b * 100 + c * 4 + 3) = true := e2.mpr ⟨rfl, Or.inl (by omega)⟩
      rw [hy]
      refine ⟨?_, by decide, by decide, by decide, by decide, by omega, ?_, ?_⟩
      · simp only [ymd2ord, daysBeforeMonth_eq, hl, e1, dbmL, daysBeforeMonthTbl]
        simp only [List.getD_cons_succ, List.getD_cons_zero]
        have := hd4 rfl
        simp; omega
      · intro h; have := hd4 rfl; omega
      · intro h; have := hd4 rfl; omega
    · -- last day of a 400-year cycle
      subst hA
      obtain ⟨rfl, rfl, rfl⟩ := hb4 rfl
      obtain ⟨e1, e2⟩ := dby_digits a 3 24 3 (by omega) (by omega) (by omega)
      have hy : a * 400 + 1 + 4 * 100 + 0 * 4 + 0 - 1 = a * 400 + 1 + 3 * 100 + 24 * 4 + 3 := by omega
      have hl : isLeap (a * 400 + 1 + 3 * 100 + 24 * 4 + 3) = true := e2.mpr ⟨rfl, Or.inr rfl⟩
      rw [hy]
      refine ⟨?_, by decide, by decide, by decide, by decide, by omega, ?_, ?_⟩
      · simp only [ymd2ord, daysBeforeMonth_eq, hl, e1, dbmL, daysBeforeMonthTbl]
        simp only [List.getD_cons_succ, List.getD_cons_zero]
        simp; omega
      · intro h; omega
      · intro h; omega
  · have hd3 : d ≤ 3 := by omega
    have hb3 : b ≤ 3 := by omega
    have hcond : (d == 4 || b == 4) = false := by
      simp only [Bool.or_eq_false_iff, beq_eq_false_iff_ne]; exact ⟨fun e => hA (Or.inl e), fun e => hA (Or.inr e)⟩
    simp only [hcond, Bool.false_eq_true, if_false]
    obtain ⟨e1, e2⟩ := dby_digits a b c d hb3 hc hd3
    have hleap : (d == 3 && (c != 24 || b == 3)) = isLeap (a * 400 + 1 + b * 100 + c * 4 + d) := by
      rw [Bool.eq_iff_iff, e2]; simp
    rw [hleap]
    obtain ⟨m1, m2, m3, m4, m5⟩ := monthDay_ok (isLeap (a * 400 + 1 + b * 100 + c * 4 + d)) r hr
    refine ⟨?_, m1, m2, m3, m4, by omega, ?_, ?_⟩
    · simp only [ymd2ord, daysBeforeMonth_eq, e1]; omega
    · intro h; omega
    · intro h; omega

/-! ### the text of a date -/
theorem digit_toNat (n : Nat) : (digit n).toNat = 48 + n % 10 := by
  unfold digit; exact Ck.toNat_ofNat_small _ (by omega)

/-- the value of a decimal digit character -/
def digVal (c : Char) : Option Nat := if 48 ≤ c.toNat ∧ c.toNat ≤ 57 then some (c.toNat - 48) else none

theorem digVal_digit (n : Nat) : digVal (digit n) = some (n % 10) := by
  unfold digVal; rw [digit_toNat]
  have : 48 ≤ 48 + n % 10 ∧ 48 + n % 10 ≤ 57 := by omega
  simp only [this, and_self, if_true]; congr 1; omega

/-- characters that occur in a rendered date or number -/
def isDateChar (c : Char) : Bool := isAlnum c || c == ' ' || c == ',' || c == ':' || c == '-'

theorem dateChar_ne_semi {c : Char} (h : isDateChar c = true) : c ≠ ';' ∧ c ≠ '=' := by
  refine ⟨?_, ?_⟩ <;> (intro e; subst e; revert h; decide)

theorem isDateChar_digit (n : Nat) : isDateChar (digit n) = true := by
  simp only [isDateChar, isAlnum, digit_toNat, Bool.or_eq_true, Bool.and_eq_true, decide_eq_true_eq]
  left; left; left; left; left; left; omega

theorem natDec_dateChars : ∀ (n : Nat), ∀ c ∈ natDec n, isDateChar c = true := by
  intro n
  induction n using Nat.strongRecOn with
  | _ n ih =>
    intro c hc
    rw [natDec] at hc
    split at hc
    · simp only [List.mem_cons, List.not_mem_nil, or_false] at hc; subst hc; exact isDateChar_digit n
    · rcases List.mem_append.mp hc with hc | hc
      · exact ih (n / 10) (by omega) c hc
      · simp only [List.mem_cons, List.not_mem_nil, or_false] at hc; subst hc; exact isDateChar_digit n

theorem intDec_dateChars (n : Int) : ∀ c ∈ intDec n, isDateChar c = true := by
  intro c hc
  unfold intDec at hc
  split at hc
  · rcases List.mem_cons.mp hc with hc | hc
    · subst hc; decide
    · exact natDec_dateChars _ c hc
  · exact natDec_dateChars _ c hc

theorem pad2_dateChars (n : Nat) : ∀ c ∈ pad2 n, isDateChar c = true := by
  intro c hc
  simp only [pad2, List.mem_cons, List.not_mem_nil, or_false] at hc
  rcases hc with hc | hc <;> (subst hc; exact isDateChar_digit _)

theorem wdName_dateChars (w : Nat) : (wdName w).all isDateChar = true := by
  unfold wdName; split <;> decide

theorem monName_dateChars (m : Nat) : (monName m).all isDateChar = true := by
  unfold monName; split <;> decide

theorem natDec_4 (y : Nat) (h1 : 1000 ≤ y) (h2 : y ≤ 9999) : natDec y = [digit (y / 1000), digit (y / 100), digit (y / 10), digit y] := by
  rw [natDec, if_neg (by omega), natDec, if_neg (by omega), natDec, if_neg (by omega), natDec, if_pos (by omega)]
  simp only [List.cons_append, List.nil_append, Nat.div_div_eq_div_mul]

theorem pad4_4 (y : Nat) (h1 : 1000 ≤ y) (h2 : y ≤ 9999) : pad4 y = natDec y := by
  unfold pad4; rw [natDec_4 y h1 h2]; rfl

theorem pad2_all (n : Nat) : (pad2 n).all isDateChar = true := by
  simp only [List.all_eq_true]; exact pad2_dateChars n

theorem dateTail_all (c : Civil) (year : Str) (hy : year.all isDateChar = true) : (dateTail c year).all isDateChar = true := by
  simp only [dateTail, List.all_append, pad2_all, monName_dateChars, hy, Bool.and_true]
  decide

theorem dateTail_dateChars (c : Civil) (year : Str) (hy : ∀ x ∈ year, isDateChar x = true) : ∀ x ∈ dateTail c year, isDateChar x = true := by
  have := dateTail_all c year (by simpa only [List.all_eq_true] using hy)
  simpa only [List.all_eq_true] using this

theorem imfDate_dateChars (c : Civil) : ∀ x ∈ imfDate c, isDateChar x = true := by
  intro x hx
  have hw := wdName_dateChars (weekdayOfOrd (ymd2ord c.year c.month c.day))
  simp only [List.all_eq_true] at hw
  rcases List.mem_append.mp hx with hx | hx
  · exact hw x hx
  · exact dateTail_dateChars c _ (natDec_dateChars _) x hx

theorem imfDate_ne_nil (c : Civil) : (imfDate c).isEmpty = false := by
  unfold imfDate dateTail
  cases wdName (weekdayOfOrd (ymd2ord c.year c.month c.day)) <;> rfl

/-! ### an IMF-fixdate reader (RFC 9110 section 5.6.7), to say what the emitted text denotes -/
def num2 (a b : Char) : Option Nat :=
  match digVal a, digVal b with
  | some x, some y => some (10 * x + y)
  | _, _ => none

def num4 (a b c d : Char) : Option Nat :=
  match digVal a, digVal b, digVal c, digVal d with
  | some x, some y, some z, some w => some (1000 * x + 100 * y + 10 * z + w)
  | _, _, _, _ => none

def monOf (s : Str) : Option Nat := (List.range 13).find? fun m => 1 ≤ m && monName m == s

/-- `day-name "," SP 2DIGIT SP month SP 4DIGIT SP 2DIGIT ":" 2DIGIT ":" 2DIGIT SP "GMT"` (the day name is not interpreted) -/
def parseDate : Str → Option Civil
  | [_, _, _, ',', ' ', d1, d2, ' ', m1, m2, m3, ' ', y1, y2, y3, y4, ' ', h1, h2, ':', i1, i2, ':', s1, s2, ' ', 'G', 'M', 'T'] =>
    match num2 d1 d2, monOf [m1, m2, m3], num4 y1 y2 y3 y4, num2 h1 h2, num2 i1 i2, num2 s1 s2 with
    | some d, some m, some y, some h, some i, some s => some ⟨y, m, d, h, i, s⟩
    | _, _, _, _, _, _ => none
  | _ => none

theorem num2_pad2 (n : Nat) (h : n < 100) : num2 (digit (n / 10)) (digit n) = some n := by
  simp only [num2, digVal_digit]; congr 1; omega

theorem num4_digits (y : Nat) (h : y ≤ 9999) : num4 (digit (y / 1000)) (digit (y / 100)) (digit (y / 10)) (digit y) = some y := by
  simp only [num4, digVal_digit]; congr 1; omega

theorem wdName_len (w : Nat) : ∃ a b c, wdName w = [a, b, c] := by
  unfold wdName; split <;> exact ⟨_, _, _, rfl⟩

theorem monName_len (m : Nat) : ∃ a b c, monName m = [a, b, c] := by
  unfold monName; split <;> exact ⟨_, _, _, rfl⟩

theorem monOf_monName : ∀ m : Fin 13, 1 ≤ m.val → monOf (monName m) = some m.val := by decide

/-- a civil date-time whose fields are in the ranges of a `datetime` with a four-digit year -/
def Civil.fourDigit (c : Civil) : Bool :=
  decide (1000 ≤ c.year) && decide (c.year ≤ 9999) && decide (1 ≤ c.month) && decide (c.month ≤ 12) && decide (c.day < 100) &&
  decide (c.hour < 100) && decide (c.minute < 100) && decide (c.second < 100)

theorem parseDate_tail (a b c' : Char) (c : Civil) (h : c.fourDigit = true) :
    parseDate ([a, b, c'] ++ dateTail c (natDec c.year)) = some c := by
  simp only [Civil.fourDigit, Bool.and_eq_true, decide_eq_true_eq] at h
  obtain ⟨⟨⟨⟨⟨⟨⟨y1, y2⟩, mo1⟩, mo2⟩, hd⟩, hh⟩, hm⟩, hs⟩ := h
  obtain ⟨p, q, r, hmn⟩ := monName_len c.month
  have hmo := monOf_monName ⟨c.month, by omega⟩ mo1
  simp only [hmn] at hmo
  simp only [dateTail, natDec_4 c.year y1 y2, pad2, hmn, List.cons_append, List.nil_append, parseDate,
    num2_pad2 _ hd, num2_pad2 _ hh, num2_pad2 _ hm, num2_pad2 _ hs, num4_digits _ y2, hmo]

/-- **the emitted `expires` text denotes the requested date-time**: an IMF-fixdate reader returns the civil fields it was rendered from -/
theorem parseDate_imfDate (c : Civil) (h : c.fourDigit = true) : parseDate (imfDate c) = some c := by
  obtain ⟨x, y, z, hw⟩ := wdName_len (weekdayOfOrd (ymd2ord c.year c.month c.day))
  unfold imfDate; rw [hw]; exact parseDate_tail x y z c h

/-- seconds since 1970-01-01T00:00:00Z of a civil UTC date-time -/
def epochOf (c : Civil) : Int :=
  ((ymd2ord c.year c.month c.day : Nat) - 719163 : Int) * 86400 + (c.hour * 3600 + c.minute * 60 + c.second : Nat)

theorem gmtime_eq (t : Nat) : gmtime t =
    ⟨(ord2ymd (719163 + t / 86400)).1, (ord2ymd (719163 + t / 86400)).2.1, (ord2ymd (719163 + t / 86400)).2.2,
     t % 86400 / 3600, t % 86400 % 3600 / 60, t % 86400 % 60⟩ := rfl

/-- `gmtime` is right: the civil time it returns is `t` seconds after the epoch -/
theorem epoch_gmtime (t : Nat) : epochOf (gmtime t) = t := by
  obtain ⟨h, _⟩ := ord2ymd_spec (719163 + t / 86400) (by omega)
  rw [gmtime_eq]
  simp only [epochOf, h]
  omega

theorem gmtime_fourDigit (t : Nat) (ht : t < 253402300800) : (gmtime t).fourDigit = true := by
  obtain ⟨_, m1, m2, d1, d2, _, y2, y1⟩ := ord2ymd_spec (719163 + t / 86400) (by omega)
  have := y2 (by omega)
  have := y1 (by omega)
  rw [gmtime_eq]
  simp only [Civil.fourDigit, Bool.and_eq_true, decide_eq_true_eq]
  refine ⟨⟨⟨⟨⟨⟨⟨?_, ?_⟩, ?_⟩, ?_⟩, ?_⟩, ?_⟩, ?_⟩, ?_⟩ <;> omega

/-- before the year 10000 `_getdate` writes the same text as `strftime` would for that moment -/
theorem getdate_eq_imfDate (t : Nat) (ht : t < 253402300800) : getdate t = imfDate (gmtime t) := by
  obtain ⟨h, _, _, _, _, _, y2, y1⟩ := ord2ymd_spec (719163 + t / 86400) (by omega)
  have := y2 (by omega)
  have := y1 (by omega)
  have hy : (gmtime t).year = (ord2ymd (719163 + t / 86400)).1 := rfl
  have hm : (gmtime t).month = (ord2ymd (719163 + t / 86400)).2.1 := rfl
  have hd : (gmtime t).day = (ord2ymd (719163 + t / 86400)).2.2 := rfl
  unfold getdate imfDate
  simp only [hy, hm, hd, h]
  rw [pad4_4 _ (by omega) (by omega)]

/-- `astimezone(timezone.utc)` keeps the instant: the UTC fields denote the local fields' instant minus the offset -/
theorem toUtc_instant (dt c : Civil) (off : Int) (h : toUtc ⟨dt, some off⟩ = some c) : epochOf c = epochOf dt - off := by
  unfold toUtc at h
  simp only at h
  split at h
  · rename_i hr
    obtain ⟨h1, _⟩ := ord2ymd_spec (((ymd2ord dt.year dt.month dt.day : Int) * 86400 + ((dt.hour * 3600 + dt.minute * 60 + dt.second : Nat) : Int) - off) / 86400).toNat (by omega)
    simp only [Option.some.injEq] at h
    subst h
    simp only [epochOf, h1]
    omega
  · exact absurd h (by simp)

theorem toUtc_naive (dt : Civil) : toUtc ⟨dt, none⟩ = some dt := rfl

/-! ### reading a `Set-Cookie` value back: split at `"; "`, then each piece at its first `=` -/
/-- `line.split('; ')` -/
def splitSS : Str → List Str
  | [] => [[]]
  | ';' :: ' ' :: r => [] :: splitSS r
  | x :: r =>
    match splitSS r with
    | h :: t => (x :: h) :: t
    | [] => [[x]]

/-- (cookie name, coded value, attributes as (name, value | flag)) -/
def parseLine (line : Str) : Str × Option Str × List (Str × Option Str) :=
  match splitSS line with
  | [] => ([], none, [])
  | p :: ps => ((Hp.breakOn '=' p).1, (Hp.breakOn '=' p).2, ps.map (Hp.breakOn '='))

/-- the cookie-pair a user agent stores and sends back: the text before the first `"; "` -/
def cookiePair (line : Str) : Str := (splitSS line).headD []

theorem splitSS_cons_ne (x : Char) (r : Str) (h : x ≠ ';') :
    splitSS (x :: r) = match splitSS r with | h :: t => (x :: h) :: t | [] => [[x]] := by
  rw [splitSS.eq_def]
  split
  · rename_i e; simp at e
  · rename_i e; simp at e; exact absurd e.1 h
  · rename_i e; simp at e; obtain ⟨rfl, rfl⟩ := e; rfl

theorem splitSS_none : ∀ (a : Str), ';' ∉ a → splitSS a = [a]
  | [], _ => rfl
  | x :: a, h => by
    have hx : x ≠ ';' := fun e => h (by simp [e])
    rw [splitSS_cons_ne x a hx, splitSS_none a (fun e => h (by simp [e]))]

theorem splitSS_append : ∀ (a rest : Str), ';' ∉ a → splitSS (a ++ ';' :: ' ' :: rest) = a :: splitSS rest
  | [], rest, _ => by simp [splitSS]
  | x :: a, rest, h => by
    have hx : x ≠ ';' := fun e => h (by simp [e])
    rw [List.cons_append, splitSS_cons_ne x _ hx, splitSS_append a rest (fun e => h (by simp [e]))]

/-- the first piece is recovered whatever follows it -/
theorem cookiePair_joinSS (p : Str) (ps : List Str) (hp : ';' ∉ p) : cookiePair (joinSS (p :: ps)) = p := by
  unfold cookiePair
  cases ps with
  | nil => simp [joinSS, splitSS_none p hp]
  | cons q r => simp only [joinSS]; rw [splitSS_append p _ hp]; rfl

theorem splitSS_joinSS : ∀ (ps : List Str), ps ≠ [] → (∀ p ∈ ps, ';' ∉ p) → splitSS (joinSS ps) = ps
  | [], h, _ => absurd rfl h
  | [p], _, hv => by simp [joinSS, splitSS_none p (hv p (by simp))]
  | p :: q :: ps, _, hv => by
    simp only [joinSS]
    rw [splitSS_append p _ (hv p (by simp)), splitSS_joinSS (q :: ps) (by simp) (fun x hx => hv x (by simp [hx]))]

/-! ### the attributes of a morsel -/
def flagA (k : Str) (b : Bool) : List (Str × Option Str) := if b then [(k, none)] else []
def strA (k v : Str) : List (Str × Option Str) := if v.isEmpty then [] else [(k, some v)]
def optA {α : Type} (k : Str) (f : α → Str) (o : Option α) : List (Str × Option Str) :=
  match o with
  | none => []
  | some a => [(k, some (f a))]

def expA (t : Nat) : ExpVal → List (Str × Option Str)
  | .unset => []
  | .text s => strA kExpires s
  | .rel secs => [(kExpires, some (getdate ((t : Int) + secs).toNat))]

/-- what `OutputString` writes after the cookie-pair, as data -/
def morselAttrs (t : Nat) (m : Morsel) : List (Str × Option Str) :=
  strA kDomain m.domain ++ expA t m.expires ++ flagA kHttpOnly m.httponly ++ optA kMaxAge intDec m.maxAge ++
  flagA kPartitioned m.partitioned ++ strA kPath m.path ++ strA kSameSite m.samesite ++ flagA kSecure m.secure

def renderAttr (a : Str × Option Str) : Str :=
  match a.2 with
  | none => a.1
  | some v => kv a.1 v

theorem attrPieces_eq (t : Nat) (m : Morsel) : attrPieces t m = (morselAttrs t m).map renderAttr := by
  unfold attrPieces morselAttrs
  simp only [List.map_append]
  congr 1; congr 1; congr 1; congr 1; congr 1; congr 1; congr 1
  · unfold strA; split <;> rfl
  · cases m.expires with
    | unset => rfl
    | text s => simp only [expA, strA]; split <;> rfl
    | rel n => rfl
  · unfold flagA; split <;> rfl
  · unfold optA; cases m.maxAge <;> rfl
  · unfold flagA; split <;> rfl
  · unfold strA; split <;> rfl
  · unfold strA; split <;> rfl
  · unfold flagA; split <;> rfl

def allKeys : List Str := [kDomain, kExpires, kHttpOnly, kMaxAge, kPartitioned, kPath, kSameSite, kSecure]

theorem allKeys_clean : ∀ k ∈ allKeys, ';' ∉ k ∧ '=' ∉ k := by decide

/-- the attribute names of a line are a sub-sequence of the eight names, in that order: none twice, no other -/
theorem morsel_keys_sublist (t : Nat) (m : Morsel) : ((morselAttrs t m).map (·.1)).Sublist allKeys := by
  unfold morselAttrs allKeys
  simp only [List.map_append]
  have hs : ∀ (k v : Str), ((strA k v).map (·.1)).Sublist [k] := by intro k v; unfold strA; split <;> simp
  have hf : ∀ (k : Str) (b : Bool), ((flagA k b).map (·.1)).Sublist [k] := by intro k b; unfold flagA; split <;> simp
  have ho : ∀ {α : Type} (k : Str) (f : α → Str) (x : Option α), ((optA k f x).map (·.1)).Sublist [k] := by
    intro α k f x; cases x <;> simp [optA]
  have he : ((expA t m.expires).map (·.1)).Sublist [kExpires] := by
    cases m.expires with
    | unset => simp [expA]
    | text s => exact hs _ _
    | rel n => simp [expA]
  exact ((((((((hs _ _).append he).append (hf _ _)).append (ho _ _ _)).append (hf _ _)).append (hs _ _)).append (hs _ _)).append (hf _ _))

theorem morsel_key_mem (t : Nat) (m : Morsel) : ∀ a ∈ morselAttrs t m, a.1 ∈ allKeys := by
  intro a ha
  exact (morsel_keys_sublist t m).subset (List.mem_map_of_mem (f := (·.1)) ha)

theorem breakOn_renderAttr (a : Str × Option Str) (h : '=' ∉ a.1) : Hp.breakOn '=' (renderAttr a) = a := by
  obtain ⟨k, v⟩ := a
  cases v with
  | none => exact Hp.breakOn_none '=' k h
  | some v => exact Hp.breakOn_append '=' k v h

theorem kv_clean {k v : Str} (hk : ';' ∉ k) (hv : ';' ∉ v) : ';' ∉ kv k v := by
  unfold kv; intro e
  rcases List.mem_append.mp e with e | e
  · exact hk e
  · rcases List.mem_cons.mp e with e | e
    · exact absurd e (by decide)
    · exact hv e

theorem not_semi_of_dateChars {v : Str} (h : ∀ x ∈ v, isDateChar x = true) : ';' ∉ v :=
  fun e => (dateChar_ne_semi (h _ e)).1 rfl

theorem pad4_dateChars (n : Nat) : ∀ c ∈ pad4 n, isDateChar c = true := by
  intro c hc
  unfold pad4 at hc
  rcases List.mem_append.mp hc with hc | hc
  · rw [List.mem_replicate] at hc; rw [hc.2]; decide
  · exact natDec_dateChars n c hc

theorem getdate_dateChars (t : Nat) : ∀ x ∈ getdate t, isDateChar x = true := by
  intro x hx
  have hw := wdName_dateChars (weekdayOfOrd (719163 + t / 86400))
  simp only [List.all_eq_true] at hw
  unfold getdate at hx
  rcases List.mem_append.mp hx with hx | hx
  · exact hw x hx
  · exact dateTail_dateChars _ _ (pad4_dateChars _) x hx

/-- no attribute contains the separator when Domain, Path, SameSite and a textual expires do not -/
theorem morsel_clean (t : Nat) (m : Morsel) (hd : ';' ∉ m.domain) (hp : ';' ∉ m.path) (hs : ';' ∉ m.samesite)
    (he : ∀ s, m.expires = .text s → ';' ∉ s) : ∀ a ∈ morselAttrs t m, ';' ∉ renderAttr a := by
  intro a ha
  have hstr : ∀ (k v : Str), ';' ∉ k → ';' ∉ v → a ∈ strA k v → ';' ∉ renderAttr a := by
    intro k v hk hv h; unfold strA at h; split at h
    · simp at h
    · simp only [List.mem_cons, List.not_mem_nil, or_false] at h; subst h; exact kv_clean hk hv
  have hflag : ∀ (k : Str) (b : Bool), ';' ∉ k → a ∈ flagA k b → ';' ∉ renderAttr a := by
    intro k b hk h; unfold flagA at h; split at h
    · simp only [List.mem_cons, List.not_mem_nil, or_false] at h; subst h; exact hk
    · simp at h
  unfold morselAttrs at ha
  simp only [List.mem_append] at ha
  rcases ha with ((((((ha | ha) | ha) | ha) | ha) | ha) | ha) | ha
  · exact hstr _ _ (by decide) hd ha
  · cases hc : m.expires with
    | unset => rw [hc] at ha; simp [expA] at ha
    | text s => rw [hc] at ha; exact hstr _ _ (by decide) (he s hc) ha
    | rel n =>
      rw [hc] at ha; simp only [expA, List.mem_cons, List.not_mem_nil, or_false] at ha; subst ha
      exact kv_clean (by decide : ';' ∉ kExpires) (not_semi_of_dateChars (getdate_dateChars _))
  · exact hflag _ _ (by decide) ha
  · unfold optA at ha
    cases hc : m.maxAge with
    | none => rw [hc] at ha; simp at ha
    | some n =>
      rw [hc] at ha; simp only [List.mem_cons, List.not_mem_nil, or_false] at ha; subst ha
      exact kv_clean (by decide : ';' ∉ kMaxAge) (not_semi_of_dateChars (intDec_dateChars n))
  · exact hflag _ _ (by decide) ha
  · exact hstr _ _ (by decide) hp ha
  · exact hstr _ _ (by decide) hs ha
  · exact hflag _ _ (by decide) ha

/-- **`OutputString` can be read back**: splitting the line at `"; "` and each piece at its first `=` returns the key, the coded
    value and the attribute list – nothing bleeds from one attribute into another -/
theorem parse_output (t : Nat) (m : Morsel) (hk1 : ';' ∉ m.key) (hk2 : '=' ∉ m.key) (hc : ';' ∉ m.coded)
    (hclean : ∀ a ∈ morselAttrs t m, ';' ∉ renderAttr a) :
    parseLine (outputString t m) = (m.key, some m.coded, morselAttrs t m) := by
  unfold outputString parseLine
  rw [attrPieces_eq, splitSS_joinSS _ (by simp)]
  · simp only [kv, Hp.breakOn_append '=' m.key _ hk2, List.map_map]
    congr 2
    rw [List.map_congr_left (g := id)]
    · simp
    · intro a ha2
      have := (allKeys_clean _ (morsel_key_mem t m a ha2)).2
      simp only [Function.comp, id]
      exact breakOn_renderAttr a this
  · intro p hp2
    rcases List.mem_cons.mp hp2 with hp2 | hp2
    · subst hp2; exact kv_clean hk1 hc
    · obtain ⟨a, ha2, rfl⟩ := List.mem_map.mp hp2
      exact hclean a ha2

theorem cookiePair_output (t : Nat) (m : Morsel) (hk1 : ';' ∉ m.key) (hc : ';' ∉ m.coded) :
    cookiePair (outputString t m) = kv m.key m.coded := by
  unfold outputString; exact cookiePair_joinSS _ _ (kv_clean hk1 hc)

/-! ### acceptance -/
/-- the calls that do not raise -/
def accepts (s : CookieSpec) : Bool := nameOk s.name && isAscii s.value && expOk s && maOk s && ssOk s

theorem setCookie_accepts {o : Opts} {s : CookieSpec} (h : accepts s = true) : setCookie o s = (.put (finalMorsel o s), none) := by
  simp only [accepts, nameOk, Bool.and_eq_true, Bool.not_eq_true'] at h
  obtain ⟨⟨⟨⟨⟨⟨⟨h1, h2⟩, h3⟩, h4⟩, h5⟩, h6⟩, h7⟩, h8⟩ := h
  rw [setCookie_spec]
  simp only [h1, h2, h3, h4, h5, h6, h7, h8, Bool.not_true, Bool.false_eq_true, if_false]

theorem setCookie_rejects {o : Opts} {s : CookieSpec} (h : accepts s = false) : ∃ e, (setCookie o s).2 = some e := by
  rw [setCookie_spec]
  cases h1 : isAscii s.name with
  | false => exact ⟨_, rfl⟩
  | true =>
  cases h2 : s.name.contains ':' with
  | true => exact ⟨_, rfl⟩
  | false =>
  cases h3 : isAscii s.value with
  | false => exact ⟨_, rfl⟩
  | true =>
  cases h4 : reservedKeys.contains (lower s.name) with
  | true => exact ⟨_, rfl⟩
  | false =>
  cases h5 : isLegalKey s.name with
  | false => exact ⟨_, rfl⟩
  | true =>
  cases h6 : expOk s with
  | false => exact ⟨_, rfl⟩
  | true =>
  cases h7 : maOk s with
  | false => exact ⟨_, rfl⟩
  | true =>
  cases h8 : ssOk s with
  | false => exact ⟨_, rfl⟩
  | true => rw [accepts, nameOk, h1, h2, h3, h4, h5, h6, h7, h8] at h; exact absurd h (by decide)

/-- `set_cookie` returns normally exactly for the accepted calls, and then the line is the rendering of `finalMorsel` -/
theorem setCookieLine_ok_iff (o : Opts) (s : CookieSpec) (line : Str) :
    setCookieLine o s = .ok line ↔ (accepts s = true ∧ line = outputString 0 (finalMorsel o s)) := by
  cases ha : accepts s with
  | true =>
    unfold setCookieLine; rw [setCookie_accepts ha]
    simp only [Except.ok.injEq, true_and]
    exact ⟨fun h => h.symm, fun h => h.symm⟩
  | false =>
    obtain ⟨e, he⟩ := setCookie_rejects (o := o) ha
    unfold setCookieLine
    have : setCookie o s = ((setCookie o s).1, some e) := by rw [← he]
    rw [this]
    constructor
    · intro h
      generalize (setCookie o s).1 = j at h
      cases j <;> simp at h
    · intro h; exact absurd h.1 (by decide)

/-! ### SameSite values -/
theorem ssVal_mem {s : CookieSpec} (h : ssOk s = true) :
    ssVal s = [] ∨ ssVal s = ['L', 'a', 'x'] ∨ ssVal s = ['S', 't', 'r', 'i', 'c', 't'] ∨ ssVal s = ['N', 'o', 'n', 'e'] := by
  unfold ssOk at h
  unfold ssVal
  cases hs : s.sameSite with
  | none => left; rfl
  | some v =>
    rw [hs] at h; simp only at h ⊢
    cases hv : v.isEmpty with
    | true => left; simp
    | false =>
      rw [hv] at h
      simp only [Bool.false_or, sameSiteWords, List.contains_cons, List.contains_nil, Bool.or_false, Bool.or_eq_true, beq_iff_eq] at h
      right
      simp only [Bool.false_eq_true, if_false]
      rcases h with h | h | h <;> rw [h]
      · left; decide
      · right; left; decide
      · right; right; decide

theorem ssVal_clean {s : CookieSpec} (h : ssOk s = true) : ';' ∉ ssVal s := by
  rcases ssVal_mem h with e | e | e | e <;> rw [e] <;> decide

/-! ### exactly the requested attributes -/
/-- the attributes `set_cookie(**s)` asks for, in the order `OutputString` writes them (sorted by lower-cased key):
    Domain / Path iff non-empty, expires iff given (the IMF-fixdate of its UTC time), HttpOnly iff `http_only`, Max-Age iff
    `max_age is not None` (so also for 0) with the `int()` of it, Partitioned iff given, SameSite iff non-empty (capitalised),
    Secure iff `secure`, or the option when `secure` is None -/
def wantedAttrs (o : Opts) (s : CookieSpec) : List (Str × Option Str) :=
  strA kDomain (s.domain.getD []) ++ optA kExpires imfDate (expUtc s) ++ flagA kHttpOnly s.httpOnly ++ optA kMaxAge intDec (maVal s) ++
  flagA kPartitioned s.partitioned ++ strA kPath (s.path.getD []) ++ strA kSameSite (ssVal s) ++ flagA kSecure (isSecure o s)

theorem morselAttrs_final (t : Nat) (o : Opts) (s : CookieSpec) : morselAttrs t (finalMorsel o s) = wantedAttrs o s := by
  unfold morselAttrs wantedAttrs finalMorsel
  congr 7
  unfold expVal
  cases expUtc s with
  | none => rfl
  | some c => simp only [expA, optA, strA, imfDate_ne_nil, Bool.false_eq_true, if_false]

theorem nameOk_clean {n : Str} (h : nameOk n = true) : ';' ∉ n ∧ '=' ∉ n := by
  obtain ⟨_, hall⟩ := nameOk_token h
  exact ⟨fun e => (isLegal_ne (hall _ e).1).1 rfl, fun e => (isLegal_ne (hall _ e).1).2.1 rfl⟩

/-- **cookie attributes exact**: for every call that `set_cookie` accepts (Domain / Path free of `;`, as RFC 6265 demands of an
    attribute value), splitting the emitted line at `"; "` and each piece at its first `=` gives the cookie name, the coded value, and
    exactly the list of requested attributes – nothing else, nothing twice, nothing bleeding from one attribute into another -/
theorem cookie_attrs_exact (o : Opts) (s : CookieSpec) (line : Str) (h : setCookieLine o s = .ok line)
    (hd : ';' ∉ s.domain.getD []) (hp : ';' ∉ s.path.getD []) :
    parseLine line = (s.name, some (quote s.value), wantedAttrs o s) := by
  obtain ⟨ha, rfl⟩ := (setCookieLine_ok_iff o s line).mp h
  have ha' := ha
  simp only [accepts, Bool.and_eq_true] at ha'
  obtain ⟨⟨⟨⟨hn, _⟩, _⟩, _⟩, hs⟩ := ha'
  obtain ⟨hn1, hn2⟩ := nameOk_clean hn
  have := parse_output 0 (finalMorsel o s) hn1 hn2 (semi_not_mem_quote s.value)
    (morsel_clean 0 _ hd hp (ssVal_clean hs) (by
      intro x hx
      have hx' : expVal s = .text x := hx
      unfold expVal at hx'
      cases hc : expUtc s with
      | none => rw [hc] at hx'; simp at hx'
      | some c =>
        rw [hc] at hx'; simp only [ExpVal.text.injEq] at hx'; subst hx'
        exact not_semi_of_dateChars (imfDate_dateChars c)))
  rw [morselAttrs_final] at this
  exact this

/-! ### one attribute at a time -/
/-- `none` = the attribute is absent, `some none` = present as a flag, `some (some v)` = present with value `v` -/
def attr (as : List (Str × Option Str)) (k : Str) : Option (Option Str) := (as.find? fun a => a.1 == k).map (·.2)

theorem attr_append (xs ys : List (Str × Option Str)) (k : Str) : attr (xs ++ ys) k = (attr xs k).or (attr ys k) := by
  unfold attr; rw [List.find?_append]; cases xs.find? (fun a => a.1 == k) <;> rfl

theorem attr_strA (k' v k : Str) : attr (strA k' v) k = if k' = k ∧ v ≠ [] then some (some v) else none := by
  unfold attr strA
  cases v with
  | nil => simp
  | cons c r => by_cases h : k' = k <;> simp [List.find?, h]

theorem attr_flagA (k' : Str) (b : Bool) (k : Str) : attr (flagA k' b) k = if k' = k ∧ b = true then some none else none := by
  unfold attr flagA
  cases b with
  | false => simp
  | true => by_cases h : k' = k <;> simp [List.find?, h]

theorem attr_optA {α : Type} (k' : Str) (f : α → Str) (x : Option α) (k : Str) :
    attr (optA k' f x) k = if k' = k then x.map fun a => some (f a) else none := by
  unfold attr optA
  cases x with
  | none => simp
  | some a =>
    by_cases h : k' = k
    · simp [List.find?, h]
    · have : (k' == k) = false := by simpa using h
      simp [List.find?, h, this]

theorem attr_domain (o : Opts) (s : CookieSpec) :
    attr (wantedAttrs o s) kDomain = if s.domain.getD [] ≠ [] then some (some (s.domain.getD [])) else none := by
  simp +decide [wantedAttrs, attr_append, attr_strA, attr_flagA, attr_optA]
theorem attr_expires (o : Opts) (s : CookieSpec) : attr (wantedAttrs o s) kExpires = (expUtc s).map fun c => some (imfDate c) := by
  simp +decide [wantedAttrs, attr_append, attr_strA, attr_flagA, attr_optA]
theorem attr_httponly (o : Opts) (s : CookieSpec) : attr (wantedAttrs o s) kHttpOnly = if s.httpOnly = true then some none else none := by
  simp +decide [wantedAttrs, attr_append, attr_strA, attr_flagA, attr_optA]
theorem attr_maxage (o : Opts) (s : CookieSpec) : attr (wantedAttrs o s) kMaxAge = (maVal s).map fun n => some (intDec n) := by
  simp +decide [wantedAttrs, attr_append, attr_strA, attr_flagA, attr_optA]
theorem attr_partitioned (o : Opts) (s : CookieSpec) : attr (wantedAttrs o s) kPartitioned = if s.partitioned = true then some none else none := by
  simp +decide [wantedAttrs, attr_append, attr_strA, attr_flagA, attr_optA]
theorem attr_path (o : Opts) (s : CookieSpec) :
    attr (wantedAttrs o s) kPath = if s.path.getD [] ≠ [] then some (some (s.path.getD [])) else none := by
  simp +decide [wantedAttrs, attr_append, attr_strA, attr_flagA, attr_optA]
theorem attr_samesite (o : Opts) (s : CookieSpec) : attr (wantedAttrs o s) kSameSite = if ssVal s ≠ [] then some (some (ssVal s)) else none := by
  simp +decide [wantedAttrs, attr_append, attr_strA, attr_flagA, attr_optA]
theorem attr_secure (o : Opts) (s : CookieSpec) : attr (wantedAttrs o s) kSecure = if isSecure o s = true then some none else none := by
  simp +decide [wantedAttrs, attr_append, attr_strA, attr_flagA, attr_optA]
/-- no other attribute is ever written -/
theorem attr_other (o : Opts) (s : CookieSpec) (k : Str) (h : k ∉ allKeys) : attr (wantedAttrs o s) k = none := by
  simp only [allKeys, List.mem_cons, List.not_mem_nil, or_false, not_or] at h
  obtain ⟨h1, h2, h3, h4, h5, h6, h7, h8⟩ := h
  simp [wantedAttrs, attr_append, attr_strA, attr_flagA, attr_optA, Ne.symm h1, Ne.symm h2, Ne.symm h3, Ne.symm h4, Ne.symm h5, Ne.symm h6, Ne.symm h7, Ne.symm h8]

/-! ### the statements of the property, attribute by attribute -/
/-- the attributes read back from the line of an accepted call are the requested ones -/
theorem line_attr (o : Opts) (s : CookieSpec) (line : Str) (h : setCookieLine o s = .ok line)
    (hd : ';' ∉ s.domain.getD []) (hp : ';' ∉ s.path.getD []) (k : Str) :
    attr (parseLine line).2.2 k = attr (wantedAttrs o s) k := by
  rw [cookie_attrs_exact o s line h hd hp]

theorem accepts_maOk {s : CookieSpec} (h : accepts s = true) : maOk s = true := by
  simp only [accepts, Bool.and_eq_true] at h; exact h.1.2

theorem accepts_expOk {s : CookieSpec} (h : accepts s = true) : expOk s = true := by
  simp only [accepts, Bool.and_eq_true] at h; exact h.1.1.2

/-- **Max-Age iff `max_age` is given** – also for `max_age=0` (fix c04363d) – and its value is the decimal text of `int(max_age)` -/
theorem attr_maxage_iff (o : Opts) (s : CookieSpec) (h : accepts s = true) :
    (attr (wantedAttrs o s) kMaxAge).isSome = s.maxAge.isSome := by
  rw [attr_maxage]
  have := accepts_maOk h
  unfold maOk at this
  unfold maVal
  cases hm : s.maxAge with
  | none => rfl
  | some a =>
    rw [hm] at this; simp only at this ⊢
    cases ht : a.toInt with
    | none => rw [ht] at this; simp at this
    | some n => rfl

theorem attr_maxage_zero (o : Opts) (s : CookieSpec) (h : s.maxAge = some (.int 0)) :
    attr (wantedAttrs o s) kMaxAge = some (some ['0']) := by
  have h0 : intDec 0 = ['0'] := by
    unfold intDec; simp only [Int.lt_irrefl, if_false, Int.toNat_zero]; rw [natDec]; rfl
  rw [attr_maxage]; unfold maVal; rw [h]; simp only [MaxAge.toInt, Option.map_some, h0]

/-- **expires iff given** (for an accepted call), and its text is the IMF-fixdate of the UTC time of the argument -/
theorem attr_expires_iff (o : Opts) (s : CookieSpec) (h : accepts s = true) :
    (attr (wantedAttrs o s) kExpires).isSome = s.expires.isSome := by
  rw [attr_expires]
  have := accepts_expOk h
  unfold expOk at this
  unfold expUtc
  cases hm : s.expires with
  | none => rfl
  | some e =>
    rw [hm] at this; simp only at this ⊢
    cases ht : toUtc e with
    | none => rw [ht] at this; simp at this
    | some n => rfl

/-- **Secure defaults from the app option**: the Secure flag is written iff `secure=True`, or `secure` was left `None` and
    `resp_options.secure_cookies_by_default` is on; `secure=False` wins over the option -/
theorem secure_defaults_from_option (o : Opts) (s : CookieSpec) :
    attr (wantedAttrs o s) kSecure = some none ↔ (s.secure = some true ∨ (s.secure = none ∧ o.secureDefault = true)) := by
  rw [attr_secure]
  unfold isSecure
  cases hs : s.secure with
  | none => cases o.secureDefault <;> simp
  | some b => cases b <;> simp

theorem secure_absent_otherwise (o : Opts) (s : CookieSpec) :
    attr (wantedAttrs o s) kSecure = none ↔ (s.secure = some false ∨ (s.secure = none ∧ o.secureDefault = false)) := by
  rw [attr_secure]
  unfold isSecure
  cases hs : s.secure with
  | none => cases o.secureDefault <;> simp
  | some b => cases b <;> simp

/-- **SameSite iff given, capitalised**: absent for `None` / `''`, otherwise exactly `Lax`, `Strict` or `None` according to the
    argument read case-insensitively -/
theorem attr_samesite_iff (o : Opts) (s : CookieSpec) (h : accepts s = true) :
    (s.sameSite.getD [] = [] → attr (wantedAttrs o s) kSameSite = none) ∧
    (∀ v, s.sameSite = some v → v ≠ [] → attr (wantedAttrs o s) kSameSite = some (some (capitalize (lower v))) ∧
      (capitalize (lower v) = ['L', 'a', 'x'] ∨ capitalize (lower v) = ['S', 't', 'r', 'i', 'c', 't'] ∨ capitalize (lower v) = ['N', 'o', 'n', 'e'])) := by
  have hs : ssOk s = true := by simp only [accepts, Bool.and_eq_true] at h; exact h.2
  rw [attr_samesite]
  constructor
  · intro he
    have : ssVal s = [] := by
      unfold ssVal
      cases hv : s.sameSite with
      | none => rfl
      | some v => rw [hv] at he; simp only [Option.getD_some] at he; subst he; rfl
    simp [this]
  · intro v hv hne
    have hval : ssVal s = capitalize (lower v) := by
      unfold ssVal; rw [hv]
      cases v with
      | nil => exact absurd rfl hne
      | cons c r => rfl
    have hne2 : capitalize (lower v) ≠ [] := by
      cases v with
      | nil => exact absurd rfl hne
      | cons c r => simp [lower, capitalize]
    have hm := ssVal_mem hs
    rw [hval] at hm ⊢
    refine ⟨by simp [hne2], ?_⟩
    rcases hm with e | e | e | e
    · exact absurd e hne2
    · exact Or.inl e
    · exact Or.inr (Or.inl e)
    · exact Or.inr (Or.inr e)

/-! ### rejections -/
theorem setCookieLine_err {o : Opts} {s : CookieSpec} {e : Err} (h : (setCookie o s).2 = some e) : setCookieLine o s = .error e := by
  unfold setCookieLine
  have : setCookie o s = ((setCookie o s).1, some e) := by rw [← h]
  rw [this]
  generalize (setCookie o s).1 = j
  cases j <;> rfl

theorem ssOk_false {s : CookieSpec} {v : Str} (hv : s.sameSite = some v) (hne : v ≠ []) (hbad : lower v ∉ sameSiteWords) : ssOk s = false := by
  unfold ssOk; rw [hv]
  cases v with
  | nil => exact absurd rfl hne
  | cons c r => simpa using hbad

/-- **an invalid `same_site` is rejected**: whatever the other arguments, the call raises and no line is produced -/
theorem invalid_same_site_rejected (o : Opts) (s : CookieSpec) (v : Str) (hv : s.sameSite = some v) (hne : v ≠ [])
    (hbad : lower v ∉ sameSiteWords) : ∃ e, setCookieLine o s = .error e := by
  have : accepts s = false := by simp [accepts, ssOk_false hv hne hbad]
  obtain ⟨e, he⟩ := setCookie_rejects (o := o) this
  exact ⟨e, setCookieLine_err he⟩

/-- … and when the rest of the call is acceptable the exception is the `ValueError` of the same_site check, raised after the other
    attributes were written: the jar is left with a cookie that lacks SameSite and Partitioned -/
theorem invalid_same_site_value_error (o : Opts) (s : CookieSpec) (v : Str) (hv : s.sameSite = some v) (hne : v ≠ [])
    (hbad : lower v ∉ sameSiteWords) (hrest : accepts { s with sameSite := none } = true) :
    setCookie o s = (.put (m6 o s), some .sameSite) := by
  simp only [accepts, nameOk, Bool.and_eq_true, Bool.not_eq_true'] at hrest
  obtain ⟨⟨⟨⟨⟨⟨⟨h1, h2⟩, h3⟩, h4⟩, h5⟩, h6⟩, h7⟩, _⟩ := hrest
  have h6' : expOk s = true := h6
  have h7' : maOk s = true := h7
  rw [setCookie_spec]
  simp only [h1, h2, h3, h4, h5, h6', h7', ssOk_false hv hne hbad, Bool.not_true, Bool.not_false, Bool.false_eq_true, if_false, if_true]

/-- a name is accepted iff it is non-empty, made of `_LegalChars` other than the colon, and not (case-insensitively) one of the
    attribute names `http.cookies` reserves -/
theorem nameOk_iff (n : Str) : nameOk n = true ↔ (n ≠ [] ∧ (∀ c ∈ n, isLegal c = true ∧ c ≠ ':') ∧ lower n ∉ reservedKeys) := by
  constructor
  · intro h
    obtain ⟨hne, hall⟩ := nameOk_token h
    simp only [nameOk, Bool.and_eq_true, Bool.not_eq_true'] at h
    obtain ⟨⟨⟨_, hc⟩, hr⟩, _⟩ := h
    refine ⟨hne, fun c hc2 => ⟨(hall c hc2).1, ?_⟩, by simpa using hr⟩
    intro e; subst e
    have : n.contains ':' = true := by simpa using hc2
    rw [this] at hc; exact absurd hc (by decide)
  · intro ⟨hne, hall, hr⟩
    simp only [nameOk, Bool.and_eq_true, Bool.not_eq_true']
    refine ⟨⟨⟨?_, ?_⟩, by simpa using hr⟩, ?_⟩
    · simp only [isAscii, List.all_eq_true, decide_eq_true_eq]
      intro c hc; exact isLegal_ascii (hall c hc).1
    · cases hcc : n.contains ':' with
      | false => rfl
      | true => exact absurd rfl (hall ':' (by simpa using hcc)).2
    · simp only [isLegalKey, Bool.and_eq_true, Bool.not_eq_true', List.all_eq_true]
      refine ⟨?_, fun c hc => (hall c hc).1⟩
      cases n with
      | nil => exact absurd rfl hne
      | cons _ _ => rfl

/-- **a name the request side cannot read back is rejected** (fix 9cb24a9 for the colon): if the name is empty or contains a
    character of `_COOKIE_NAME_RESERVED_CHARS` – what makes `_parse_cookie_header` drop a pair –, or any non-ASCII character, then
    `set_cookie` raises one of its name errors (all `KeyError`; `ValueError` only if the value is not ASCII either, which is
    checked before `Morsel.set`), and it never stores a cookie -/
theorem name_with_reserved_char_rejected (o : Opts) (s : CookieSpec)
    (h : s.name = [] ∨ s.name.any Ck.isReserved = true ∨ isAscii s.name = false) :
    ∃ e, (setCookie o s).2 = some e ∧ setCookieLine o s = .error e ∧
      (e = .nameNotAscii ∨ e = .nameReservedChar ∨ e = .valueNotAscii ∨ e = .keyReserved ∨ e = .keyIllegal) ∧
      (isAscii s.value = true → e ≠ .valueNotAscii) ∧ ∀ m, (setCookie o s).1 ≠ .put m := by
  have hbad : isAscii s.name = true → s.name.contains ':' = false → isLegalKey s.name = false := by
    intro h1 h2
    rcases h with h | h | h
    · rw [h]; rfl
    · simp only [List.any_eq_true] at h
      obtain ⟨c, hc, hr⟩ := h
      cases hk : isLegalKey s.name with
      | false => rfl
      | true =>
        have hl := legalKey_all hk c hc
        have hcol : c ≠ ':' := by
          intro e; subst e
          have : s.name.contains ':' = true := by simpa using hc
          rw [this] at h2; exact absurd h2 (by decide)
        rw [isLegal_not_reserved hl hcol] at hr; exact absurd hr (by decide)
    · rw [h] at h1; exact absurd h1 (by decide)
  have key : ∀ e j, setCookie o s = (j, some e) → (∀ m, j ≠ .put m) →
      (e = .nameNotAscii ∨ e = .nameReservedChar ∨ e = .valueNotAscii ∨ e = .keyReserved ∨ e = .keyIllegal) →
      (isAscii s.value = true → e ≠ .valueNotAscii) →
      ∃ e, (setCookie o s).2 = some e ∧ setCookieLine o s = .error e ∧
        (e = .nameNotAscii ∨ e = .nameReservedChar ∨ e = .valueNotAscii ∨ e = .keyReserved ∨ e = .keyIllegal) ∧
        (isAscii s.value = true → e ≠ .valueNotAscii) ∧ ∀ m, (setCookie o s).1 ≠ .put m := by
    intro e j hj hput hkind hval
    exact ⟨e, by rw [hj], setCookieLine_err (by rw [hj]), hkind, hval, by rw [hj]; exact hput⟩
  cases h1 : isAscii s.name with
  | false =>
    exact key .nameNotAscii .keep (by rw [setCookie_spec]; simp only [h1, Bool.not_false, if_true]) (by intro m; simp) (by simp) (by simp)
  | true =>
  cases h2 : s.name.contains ':' with
  | true =>
    exact key .nameReservedChar .keep (by rw [setCookie_spec]; simp only [h1, h2, Bool.not_true, Bool.false_eq_true, if_false, if_true]) (by intro m; simp) (by simp) (by simp)
  | false =>
  by_cases h3 : isAscii s.value = false
  · exact key .valueNotAscii .keep (by rw [setCookie_spec]; simp only [h1, h2, h3, Bool.not_true, Bool.not_false, Bool.false_eq_true, if_false, if_true])
      (by intro m; simp) (by simp) (by simp [h3])
  have h3 : isAscii s.value = true := by simpa using h3
  cases h4 : reservedKeys.contains (lower s.name) with
  | true =>
    exact key .keyReserved .pop (by rw [setCookie_spec]; simp only [h1, h2, h3, h4, Bool.not_true, Bool.false_eq_true, if_false, if_true])
      (by intro m; simp) (by simp) (by simp)
  | false =>
    exact key .keyIllegal .pop (by
      rw [setCookie_spec]
      simp only [h1, h2, h3, h4, hbad h1 h2, Bool.not_true, Bool.not_false, Bool.false_eq_true, if_false, if_true])
      (by intro m; simp) (by simp) (by simp)

/-! ### echo -/
/-- **echo**: for every call `set_cookie` accepts, the cookie-pair of the emitted line, sent back in a `Cookie` header, is read by
    the request API as exactly the name and the value that were passed in: `req.cookies == {name: value}` and
    `req.get_cookie_values(name) == [value]` -/
theorem cookie_echo_reads_back (o : Opts) (s : CookieSpec) (line : Str) (h : setCookieLine o s = .ok line) :
    Ck.reqJar (some (cookiePair line)) = [(s.name, [s.value])] ∧
    Ck.reqCookies (some (cookiePair line)) = [(s.name, s.value)] ∧
    Ck.getCookieValues (some (cookiePair line)) s.name = some [s.value] := by
  obtain ⟨ha, rfl⟩ := (setCookieLine_ok_iff o s line).mp h
  have ha' := ha
  simp only [accepts, Bool.and_eq_true] at ha'
  obtain ⟨⟨⟨⟨hn, hv⟩, _⟩, _⟩, _⟩ := ha'
  have hv256 : ∀ c ∈ s.value, c.toNat < 256 := by
    simp only [isAscii, List.all_eq_true, decide_eq_true_eq] at hv
    intro c hc; have := hv c hc; omega
  have hp : cookiePair (outputString 0 (finalMorsel o s)) = kv s.name (quote s.value) :=
    cookiePair_output 0 (finalMorsel o s) (nameOk_clean hn).1 (semi_not_mem_quote s.value)
  have hj : Ck.reqJar (some (cookiePair (outputString 0 (finalMorsel o s)))) = [(s.name, [s.value])] := by
    rw [hp, Ck.reqJar_some, parse_pair s.name s.value hn hv256]
  refine ⟨hj, ?_, ?_⟩
  · unfold Ck.reqCookies; rw [hj]; rfl
  · unfold Ck.getCookieValues; rw [hj]; simp [Ck.lookup]

/-! ### `unset_cookie` -/
/-- the morsel `unset_cookie` leaves under the name: the previous one (if any) with the value emptied, Max-Age cleared (fix ae30cad),
    expires one second in the past, SameSite / Domain / Path as given -/
def unsetMorsel (prev : Option Morsel) (name sameSite : Str) (domain path : Option Str) : Morsel :=
  { (prev.getD {}) with
    key := name, value := [], coded := ['"', '"'], maxAge := none, expires := .rel (-1), samesite := sameSite,
    domain := if (domain.getD []).isEmpty then (prev.getD {}).domain else domain.getD [],
    path := if (path.getD []).isEmpty then (prev.getD {}).path else path.getD [] }

theorem unsetCookie_spec (prev : Option Morsel) (name sameSite : Str) (domain path : Option Str) :
    unsetCookie prev name sameSite domain path =
      if reservedKeys.contains (lower name) then .error .keyReserved
      else if !isLegalKey name then .error .keyIllegal
      else .ok (unsetMorsel prev name sameSite domain path) := by
  unfold unsetCookie morselSet
  cases hr : reservedKeys.contains (lower name) with
  | true => rfl
  | false =>
    cases hk : isLegalKey name with
    | false => rfl
    | true =>
      simp only [Bool.not_true, Bool.false_eq_true, if_false]
      congr 1
      unfold unsetMorsel
      cases domain with
      | none => cases path with
        | none => rfl
        | some p => cases p <;> rfl
      | some d => cases d with
        | nil => cases path with
          | none => rfl
          | some p => cases p <;> rfl
        | cons c r => cases path with
          | none => rfl
          | some p => cases p <;> rfl

theorem attr_expA_ne (t : Nat) (e : ExpVal) (k : Str) (h : kExpires ≠ k) : attr (expA t e) k = none := by
  cases e with
  | unset => rfl
  | text s => simp [expA, attr_strA, h]
  | rel n =>
    have : (kExpires == k) = false := by simpa using h
    simp [expA, attr, List.find?, this]

theorem attr_morsel_maxage (t : Nat) (m : Morsel) : attr (morselAttrs t m) kMaxAge = m.maxAge.map fun n => some (intDec n) := by
  simp +decide [morselAttrs, attr_append, attr_strA, attr_flagA, attr_optA, attr_expA_ne]

theorem attr_morsel_expires_rel (t : Nat) (m : Morsel) (n : Int) (h : m.expires = .rel n) :
    attr (morselAttrs t m) kExpires = some (some (getdate ((t : Int) + n).toNat)) := by
  have he : attr (expA t (.rel n)) kExpires = some (some (getdate ((t : Int) + n).toNat)) := by
    simp +decide [expA, attr]
  simp +decide [morselAttrs, attr_append, attr_strA, attr_flagA, attr_optA, h, he]

theorem legalKey_clean {n : Str} (h : isLegalKey n = true) : ';' ∉ n ∧ '=' ∉ n :=
  ⟨fun e => (isLegal_ne (legalKey_all h _ e)).1 rfl, fun e => (isLegal_ne (legalKey_all h _ e)).2.1 rfl⟩

/-- **an unset cookie is expired**: whatever an earlier `set_cookie` left under the name (`prev`), the line `unset_cookie` produces at
    time `t` (after 1970, before the year 10000) carries the empty value (`""`, read back as the empty string), no Max-Age, and an
    Expires that an IMF-fixdate reader understands as the instant `t - 1`, i.e. in the past.  (Domain / Path / SameSite free of `;`.) -/
theorem unset_cookie_is_expired (t : Nat) (prev : Option Morsel) (name sameSite : Str) (domain path : Option Str) (line : Str)
    (ht : 1 ≤ t) (hy : t ≤ 253402300800)
    (h : unsetCookieLine t prev name sameSite domain path = .ok line)
    (hs : ';' ∉ sameSite) (hd : ';' ∉ (unsetMorsel prev name sameSite domain path).domain)
    (hp : ';' ∉ (unsetMorsel prev name sameSite domain path).path) :
    (parseLine line).1 = name ∧ (parseLine line).2.1 = some ['"', '"'] ∧ Ck.cookieValue ['"', '"'] = [] ∧
    attr (parseLine line).2.2 kMaxAge = none ∧
    ∃ txt c, attr (parseLine line).2.2 kExpires = some (some txt) ∧ parseDate txt = some c ∧ epochOf c = (t : Int) - 1 := by
  unfold unsetCookieLine at h
  rw [unsetCookie_spec] at h
  cases hr : reservedKeys.contains (lower name) with
  | true => rw [hr] at h; simp [Except.map] at h
  | false =>
    cases hk : isLegalKey name with
    | false => rw [hr, hk] at h; simp [Except.map] at h
    | true =>
      rw [hr, hk] at h
      simp only [Bool.not_true, Bool.false_eq_true, if_false, Except.map, Except.ok.injEq] at h
      subst h
      obtain ⟨k1, k2⟩ := legalKey_clean hk
      have hpo := parse_output t (unsetMorsel prev name sameSite domain path) k1 k2 (show ';' ∉ (['"', '"'] : Str) by decide)
        (morsel_clean t _ hd hp hs (by intro x hx; exact absurd hx (by simp [unsetMorsel])))
      rw [hpo]
      refine ⟨rfl, rfl, by decide, ?_, ?_⟩
      · simp only [attr_morsel_maxage]; rfl
      · have ht1 : ((t : Int) + -1).toNat = t - 1 := by omega
        have hlt : t - 1 < 253402300800 := by omega
        refine ⟨getdate (t - 1), gmtime (t - 1), ?_, ?_, ?_⟩
        · rw [attr_morsel_expires_rel t (unsetMorsel prev name sameSite domain path) (-1) rfl, ht1]
        · rw [getdate_eq_imfDate _ hlt]; exact parseDate_imfDate _ (gmtime_fourDigit _ hlt)
        · rw [epoch_gmtime]; omega

/-- the cookie-pair of an unset cookie, echoed back, reads as the name with the empty value -/
theorem unset_cookie_echo (t : Nat) (prev : Option Morsel) (name sameSite : Str) (domain path : Option Str) (line : Str)
    (hn : nameOk name = true) (h : unsetCookieLine t prev name sameSite domain path = .ok line) :
    Ck.reqJar (some (cookiePair line)) = [(name, [[]])] := by
  unfold unsetCookieLine at h
  rw [unsetCookie_spec] at h
  have hn' := hn
  simp only [nameOk, Bool.and_eq_true, Bool.not_eq_true'] at hn'
  obtain ⟨⟨_, hr⟩, hk⟩ := hn'
  rw [hr, hk] at h
  simp only [Bool.not_true, Bool.false_eq_true, if_false, Except.map, Except.ok.injEq] at h
  subst h
  rw [cookiePair_output t _ (legalKey_clean hk).1 (show ';' ∉ (['"', '"'] : Str) by decide), Ck.reqJar_some]
  exact parse_pair name [] hn (by simp)

/-! ### the jar -/
/-- fix ae30cad: an accepted `set_cookie` replaces whatever the jar held under the name by the morsel of this call alone, emitted last -/
theorem jar_set_fresh (o : Opts) (j : Jar) (s : CookieSpec) (h : accepts s = true) :
    jarSetCookie o j s = (jarDel j s.name ++ [(s.name, finalMorsel o s)], none) := by
  unfold jarSetCookie; rw [setCookie_accepts h]

theorem jar_lines_after_set (t : Nat) (o : Opts) (j : Jar) (s : CookieSpec) (h : accepts s = true) :
    jarLines t (jarSetCookie o j s).1 = jarLines t (jarDel j s.name) ++ [outputString 0 (finalMorsel o s)] := by
  rw [jar_set_fresh o j s h]
  simp only [jarLines, List.map_append, List.map_cons, List.map_nil]
  congr 2
  unfold outputString
  rw [attrPieces_eq, attrPieces_eq, morselAttrs_final, morselAttrs_final]

/-! ### non-vacuity: concrete calls that satisfy the hypotheses, and their lines -/
/-- `set_cookie('sid', 'a b;c', domain='example.com', path='/', same_site='lAx')` with `secure_cookies_by_default = True` -/
def exSpec : CookieSpec :=
  { name := ['s', 'i', 'd'], value := ['a', ' ', 'b', ';', 'c'], domain := some "example.com".toList, path := some ['/'],
    sameSite := some ['l', 'A', 'x'] }
example : accepts exSpec = true := by decide
example : ';' ∉ exSpec.domain.getD [] ∧ ';' ∉ exSpec.path.getD [] := by decide
example : (setCookieLine ⟨true⟩ exSpec).toOption = some "sid=\"a b\\073c\"; Domain=example.com; HttpOnly; Path=/; SameSite=Lax; Secure".toList := by decide
example : (setCookieLine ⟨false⟩ { exSpec with httpOnly := false, partitioned := true, secure := none }).toOption =
    some "sid=\"a b\\073c\"; Domain=example.com; Partitioned; Path=/; SameSite=Lax".toList := by decide
example : Ck.reqCookies (some (cookiePair "sid=\"a b\\073c\"; Domain=example.com; HttpOnly".toList)) = [(exSpec.name, exSpec.value)] := by decide
/-- rejected names and values -/
example : (setCookie {} { exSpec with name := ['n', ':', 'm'] }) = (.keep, some .nameReservedChar) := by decide
example : (setCookie {} { exSpec with name := "Path".toList }) = (.pop, some .keyReserved) := by decide
example : (setCookie {} { exSpec with name := ['a', ' ', 'b'] }) = (.pop, some .keyIllegal) := by decide
example : (setCookie {} { exSpec with sameSite := some "bogus".toList }).2 = some .sameSite := by decide
example : (setCookie {} { exSpec with maxAge := some (.str ['x']) }).2 = some .maxAge := by decide
/-- `max_age=0`, `'007'`, `15.7` and `-0.9` -/
example : attr (wantedAttrs {} { exSpec with maxAge := some (.int 0) }) kMaxAge = some (some ['0']) := attr_maxage_zero _ _ rfl
example : maVal { exSpec with maxAge := some (.str ['0', '0', '7']) } = some 7 := by decide
example : maVal { exSpec with maxAge := some (.flt 4419157134357299 281474976710656) } = some 15 := by decide
example : maVal { exSpec with maxAge := some (.flt (-8106479329266893) 9007199254740992) } = some 0 := by decide
/-- dates: 2024-02-29 was a Thursday; an aware datetime is moved to UTC (here across the year boundary) -/
example : imfDate ⟨2024, 2, 29, 0, 0, 0⟩ = "Thu, 29 Feb 2024 00:00:00 GMT".toList := by
  unfold imfDate; rw [natDec_4 _ (by decide) (by decide)]; decide
example : toUtc ⟨⟨2024, 12, 31, 20, 30, 0⟩, some (-18000)⟩ = some ⟨2025, 1, 1, 1, 30, 0⟩ := by decide
example : toUtc ⟨⟨9999, 12, 31, 23, 0, 0⟩, some (-3600)⟩ = none := by decide
example : (⟨2024, 2, 29, 0, 0, 0⟩ : Civil).fourDigit = true := by decide
example : gmtime 1790000000 = ⟨2026, 9, 21, 14, 13, 20⟩ := by decide
/-- `unset_cookie('sid')` after the call above: value emptied, Max-Age gone, the other attributes kept -/
example : (unsetCookie (some (finalMorsel ⟨true⟩ { exSpec with maxAge := some (.int 300) })) exSpec.name "Lax".toList none none).toOption.map
    (fun m => (m.coded, m.maxAge, m.expires, m.secure, m.domain)) = some (['"', '"'], none, .rel (-1), true, "example.com".toList) := by decide

/-- the hypotheses of `unset_cookie_is_expired` for `unset_cookie('sid', domain='example.com')` at 2026-09-21T14:13:20Z after the call above -/
example : 1 ≤ 1790000000 ∧ 1790000000 ≤ 253402300800 ∧
    ';' ∉ (unsetMorsel (some (finalMorsel ⟨true⟩ exSpec)) exSpec.name "Lax".toList (some "example.com".toList) none).domain ∧
    ';' ∉ (unsetMorsel (some (finalMorsel ⟨true⟩ exSpec)) exSpec.name "Lax".toList (some "example.com".toList) none).path := by decide

/-! ### the weekday -/
/-- consecutive days have consecutive weekdays … -/
theorem weekdayOfOrd_succ (n : Nat) : weekdayOfOrd (n + 1) = (weekdayOfOrd n + 1) % 7 := by unfold weekdayOfOrd; omega
/-- … and 1970-01-01 was a Thursday (Monday = 0), which fixes the weekday of every day -/
theorem weekday_epoch : weekdayOfOrd (ymd2ord 1970 1 1) = 3 ∧ ymd2ord 1970 1 1 = 719163 := by decide

end Cw

import FalconModel.HeaderParsers
/-! C09: the `Cookie` request header (RFC 6265 section 5.4 as Falcon reads it).

    Transcribed from `falcon/request_helpers.py::_parse_cookie_header`, `req.cookies` / `req.get_cookie_values`
    (`falcon/request.py`) and CPython 3.12 `http.cookies._unquote`.

    `_unquote` is a loop over `_OctalPatt.search` (`\\[0-3][0-7][0-7]`) and `_QuotePatt.search` (`[\\].`, where `.` is
    any character but `\n`).  Every octal match is also a quote match at the same position, so at each step the loop
    finds the first `\` that is followed by a character other than `\n`, copies the text before it, and then decodes an
    octal escape if one starts there, otherwise emits the following character.  `unq` is that left-to-right scanner.

    A `dict` is modelled as an association list in insertion order (Python dicts keep insertion order). -/
namespace Ck
open Hp (Str)

/-- `_COOKIE_NAME_RESERVED_CHARS`: `[\x00-\x1f\x7f-\xff()<>@,;:\\"/[\]?={} \x09]` -/
def isReserved (c : Char) : Bool :=
  let n := c.toNat
  n ≤ 0x1f || (0x7f ≤ n && n ≤ 0xff) || c == '(' || c == ')' || c == '<' || c == '>' || c == '@' || c == ',' || c == ';' ||
  c == ':' || c == '\\' || c == '"' || c == '/' || c == '[' || c == ']' || c == '?' || c == '=' || c == '{' || c == '}' || c == ' '

/-- `[0-3][0-7][0-7]` -/
def isOct3 (a b c : Char) : Bool :=
  (48 ≤ a.toNat && a.toNat ≤ 51) && (48 ≤ b.toNat && b.toNat ≤ 55) && (48 ≤ c.toNat && c.toNat ≤ 55)

/-- `chr(int(abc, 8))` -/
def octChar (a b c : Char) : Char := Char.ofNat ((a.toNat - 48) * 64 + (b.toNat - 48) * 8 + (c.toNat - 48))

/-- the body of `http.cookies._unquote` on the text between the quotes -/
def unq : Str → Str
  | [] => []
  | '\\' :: a :: b :: c :: r2 =>
    if isOct3 a b c then octChar a b c :: unq r2
    else if a != '\n' then a :: unq (b :: c :: r2) else '\\' :: a :: unq (b :: c :: r2)
  | '\\' :: a :: r => if a != '\n' then a :: unq r else '\\' :: a :: unq r
  | x :: r => x :: unq r

/-- `http.cookies._unquote` -/
def cUnquote (s : Str) : Str :=
  if s.length < 2 then s
  else if s.head? != some '"' || s.getLast? != some '"' then s
  else unq ((s.drop 1).dropLast)

/-- `if len(value) >= 2 and value[0] == '"' and value[-1] == '"': value = _unquote(value)` -/
def cookieValue (value : Str) : Str :=
  if 2 ≤ value.length && value.head? == some '"' && value.getLast? == some '"' then cUnquote value else value

/-- `s.split(c)` -/
def splitOn (c : Char) : Str → List Str
  | [] => [[]]
  | x :: r =>
    if x == c then [] :: splitOn c r
    else match splitOn c r with
      | h :: t => (x :: h) :: t
      | [] => [[x]]

abbrev Jar := List (Str × List Str)

/-- `if name in cookies: cookies[name].append(value) else: cookies[name] = [value]` -/
def insertVal : Jar → Str → Str → Jar
  | [], k, v => [(k, [v])]
  | (k', vs) :: t, k, v => if k' == k then (k', vs ++ [v]) :: t else (k', vs) :: insertVal t k v

/-- one iteration of `for token in header_value.split(';')` -/
def stepToken (d : Jar) (token : Str) : Jar :=
  let p := Hp.partition token '='
  let name := Hp.strip p.1
  let value := Hp.strip p.2.2
  if name.isEmpty then d
  else if name.any isReserved then d
  else insertVal d name (cookieValue value)

/-- `_parse_cookie_header` -/
def parseCookieHeader (h : Str) : Jar := (splitOn ';' h).foldl stepToken []

/-- `req._cookies` after the first access (`if header_value: … else: {}`) -/
def reqJar (hdr : Option Str) : Jar :=
  match hdr with
  | none => []
  | some [] => []
  | some h => parseCookieHeader h

/-- `req.cookies`: `{n: v[0] for n, v in self._cookies.items()}` -/
def reqCookies (hdr : Option Str) : List (Str × Str) := (reqJar hdr).map fun nv => (nv.1, nv.2.headD [])

def lookup (d : Jar) (name : Str) : Option (List Str) := (d.find? fun nv => nv.1 == name).map (·.2)

/-- `req.get_cookie_values(name)`: `self._cookies.get(name)` -/
def getCookieValues (hdr : Option Str) (name : Str) : Option (List Str) := lookup (reqJar hdr) name

end Ck

import FalconModel.Cookies
import FalconModel.HeaderParsersProofs
/-! C09 proofs for `Cookies.lean`: an RFC 6265 cookie-string of valid names is read as the mapping name -> values in order
    (`cookie_valid_eq_rfc`), `req.cookies` is the first value (`cookies_first_value`), `_unquote` inverts quoting. -/
namespace Ck
open Hp (Str)

/-! ### the RFC 6265 side: cookie-string = cookie-pair *( ";" SP cookie-pair ), cookie-pair = cookie-name "=" cookie-value -/
/-- cookie-octet: %x21 / %x23-2B / %x2D-3A / %x3C-5B / %x5D-7E -/
def isCookieOctet (c : Char) : Bool :=
  let n := c.toNat
  n == 0x21 || (0x23 ≤ n && n ≤ 0x2B) || (0x2D ≤ n && n ≤ 0x3A) || (0x3C ≤ n && n ≤ 0x5B) || (0x5D ≤ n && n ≤ 0x7E)

/-- a cookie-pair; `pre` = the blanks after the preceding `;` (RFC 6265: exactly one SP; the parser accepts any white space);
    `quoted` = the value is written between DQUOTEs -/
structure Pair where
  pre : Str
  name : Str
  val : Str
  quoted : Bool
  deriving Repr, DecidableEq

/-- cookie-name is a token: no CTLs, separators or non-ASCII characters (`= !isReserved` on Latin-1) -/
def Pair.valid (p : Pair) : Bool :=
  p.pre.all Hp.isWs && !p.name.isEmpty && p.name.all (fun c => !isReserved c) && p.val.all isCookieOctet

def Pair.rawValue (p : Pair) : Str := if p.quoted then '"' :: (p.val ++ ['"']) else p.val
def Pair.render (p : Pair) : Str := p.pre ++ (p.name ++ '=' :: p.rawValue)

def renderCookies : List Pair → Str
  | [] => []
  | [p] => p.render
  | p :: q :: ps => p.render ++ ';' :: renderCookies (q :: ps)

/-! ### split / strip -/
theorem splitOn_ne_nil (c : Char) : ∀ (s : Str), splitOn c s ≠ []
  | [] => by simp [splitOn]
  | x :: r => by
    simp only [splitOn]
    split
    · simp
    · split <;> simp

theorem splitOn_none (c : Char) : ∀ (a : Str), c ∉ a → splitOn c a = [a]
  | [], _ => rfl
  | x :: a, h => by
    have hx : (x == c) = false := by simp; intro e; exact h (by simp [e])
    have ha : c ∉ a := fun e => h (by simp [e])
    simp [splitOn, hx, splitOn_none c a ha]

theorem splitOn_append (c : Char) : ∀ (a rest : Str), c ∉ a → splitOn c (a ++ c :: rest) = a :: splitOn c rest
  | [], rest, _ => by simp [splitOn]
  | x :: a, rest, h => by
    have hx : (x == c) = false := by simp; intro e; exact h (by simp [e])
    have ha : c ∉ a := fun e => h (by simp [e])
    simp [splitOn, hx, splitOn_append c a rest ha]

theorem lstripW_pre (w : Char → Bool) (pre s : Str) (hp : pre.all w = true) : Hp.lstripW w (pre ++ s) = Hp.lstripW w s := by
  induction pre with
  | nil => rfl
  | cons x t ih =>
    simp only [List.all_cons, Bool.and_eq_true] at hp
    simp only [Hp.lstripW, List.cons_append, List.dropWhile, hp.1] at ih ⊢
    exact ih hp.2

theorem strip_pre (w : Char → Bool) (pre s : Str) (hp : pre.all w = true)
    (h1 : ∀ x, s.head? = some x → w x = false) (h2 : ∀ x, s.reverse.head? = some x → w x = false) :
    Hp.stripW w (pre ++ s) = s := by
  have := Hp.strip_of_ends (w := w) s h1 h2
  unfold Hp.stripW at this ⊢
  rw [lstripW_pre w pre s hp]; exact this

theorem isWs_reserved {c : Char} (h : Hp.isWs c = true) : isReserved c = true := by
  simp only [Hp.isWs, Bool.or_eq_true, Bool.and_eq_true, decide_eq_true_eq, beq_iff_eq] at h
  simp only [isReserved, Bool.or_eq_true, Bool.and_eq_true, decide_eq_true_eq, beq_iff_eq]
  by_cases h32 : c.toNat = 32
  · have : c = ' ' := by apply Char.toNat_inj.mp; simpa using h32
    simp [this]
  · omega

theorem not_ws_of_not_reserved {c : Char} (h : isReserved c = false) : Hp.isWs c = false := by
  cases hw : Hp.isWs c with
  | false => rfl
  | true => rw [isWs_reserved hw] at h; exact absurd h (by decide)

theorem octet_not_ws {c : Char} (h : isCookieOctet c = true) : Hp.isWs c = false := by
  simp only [isCookieOctet, Bool.or_eq_true, Bool.and_eq_true, decide_eq_true_eq, beq_iff_eq] at h
  simp only [Hp.isWs, Bool.or_eq_false_iff, Bool.and_eq_false_iff, decide_eq_false_iff_not, beq_eq_false_iff_ne]
  omega

theorem octet_ne {c : Char} (h : isCookieOctet c = true) : c ≠ ';' ∧ c ≠ '"' ∧ c ≠ '\\' := by
  refine ⟨?_, ?_, ?_⟩ <;> (intro e; subst e; revert h; decide)

theorem not_reserved_ne {c : Char} (h : isReserved c = false) : c ≠ ';' ∧ c ≠ '=' := by
  refine ⟨?_, ?_⟩ <;> (intro e; subst e; revert h; decide)

theorem ws_ne {c : Char} (h : Hp.isWs c = true) : c ≠ ';' ∧ c ≠ '=' := by
  refine ⟨?_, ?_⟩ <;> (intro e; subst e; revert h; decide)

/-! ### `_unquote` -/
theorem unq_cons_ne (x : Char) (r : Str) (h : x ≠ '\\') : unq (x :: r) = x :: unq r := by
  rw [unq.eq_def]
  split
  · rename_i e; simp at e
  · rename_i e; simp at e; exact absurd e.1 h
  · rename_i e; simp at e; exact absurd e.1 h
  · rename_i e; simp at e; obtain ⟨rfl, rfl⟩ := e; rfl

theorem unq_noBs : ∀ (s : Str), '\\' ∉ s → unq s = s
  | [], _ => by simp [unq]
  | x :: r, h => by
    have hx : x ≠ '\\' := fun e => h (by simp [e])
    rw [unq_cons_ne x r hx, unq_noBs r (fun e => h (by simp [e]))]

/-- a value between DQUOTEs that contains no backslash is returned without the DQUOTEs -/
theorem cUnquote_plain (v : Str) (h : '\\' ∉ v) : cUnquote ('"' :: (v ++ ['"'])) = v := by
  unfold cUnquote
  have hl : ¬ ('"' :: (v ++ ['"'])).length < 2 := by simp
  have hd : (('"' :: (v ++ ['"'])).drop 1).dropLast = v := by simp
  simp only [hl, if_false, List.head?_cons, Hp.getLast?_quote, hd]
  simp only [bne_self_eq_false, Bool.or_self, Bool.false_eq_true, if_false]
  exact unq_noBs v h

/-! ### one cookie-pair -/
theorem cookieValue_raw (p : Pair) (hv : p.val.all isCookieOctet = true) : cookieValue p.rawValue = p.val := by
  simp only [List.all_eq_true] at hv
  unfold Pair.rawValue
  cases p.quoted with
  | true =>
    simp only [if_true]
    have hb : '\\' ∉ p.val := fun e => (octet_ne (hv _ e)).2.2 rfl
    unfold cookieValue
    have hl : (2 ≤ ('"' :: (p.val ++ ['"'])).length) := by simp
    simp only [hl, decide_true, List.head?_cons, Hp.getLast?_quote, beq_self_eq_true, Bool.and_self, if_true]
    exact cUnquote_plain p.val hb
  | false =>
    simp only [Bool.false_eq_true, if_false]
    unfold cookieValue
    cases hvv : p.val with
    | nil => simp
    | cons c r =>
      have : c ≠ '"' := (octet_ne (hv c (by simp [hvv]))).2.1
      simp [this]

theorem strip_rawValue (p : Pair) (hv : p.val.all isCookieOctet = true) : Hp.strip p.rawValue = p.rawValue := by
  simp only [List.all_eq_true] at hv
  unfold Pair.rawValue
  cases p.quoted with
  | true =>
    simp only [if_true]
    apply Hp.strip_of_ends
    · intro x hx; simp at hx; subst hx; decide
    · intro x hx; simp at hx; subst hx; decide
  | false =>
    simp only [Bool.false_eq_true, if_false]
    apply Hp.strip_of_ends
    · intro x hx; exact octet_not_ws (hv x (List.mem_of_mem_head? hx))
    · intro x hx
      have : x ∈ p.val.reverse := List.mem_of_mem_head? hx
      exact octet_not_ws (hv x (by simpa using this))

theorem stepToken_render (d : Jar) (p : Pair) (hv : p.valid = true) : stepToken d p.render = insertVal d p.name p.val := by
  simp only [Pair.valid, Bool.and_eq_true, Bool.not_eq_true', List.all_eq_true] at hv
  obtain ⟨⟨⟨hpre, hne⟩, hname⟩, hval⟩ := hv
  have hname' : ∀ c ∈ p.name, isReserved c = false := by intro c hc; simpa using hname c hc
  have heq : '=' ∉ p.pre ++ p.name := by
    intro e
    rcases List.mem_append.mp e with e | e
    · exact (ws_ne (hpre _ e)).2 rfl
    · exact (not_reserved_ne (hname' _ e)).2 rfl
  have hpart : Hp.partition p.render '=' = (p.pre ++ p.name, true, p.rawValue) := by
    unfold Pair.render
    rw [← List.append_assoc]
    exact Hp.partition_append _ _ '=' heq
  have hsn : Hp.strip (p.pre ++ p.name) = p.name := by
    apply strip_pre
    · simpa [List.all_eq_true] using hpre
    · intro x hx; exact not_ws_of_not_reserved (hname' x (List.mem_of_mem_head? hx))
    · intro x hx
      have : x ∈ p.name.reverse := List.mem_of_mem_head? hx
      exact not_ws_of_not_reserved (hname' x (by simpa using this))
  have hany : p.name.any isReserved = false := by
    simp only [List.any_eq_false]
    intro c hc; simp [hname' c hc]
  unfold stepToken
  simp only [hpart, hsn, hne, hany, Bool.false_eq_true, if_false, strip_rawValue p (by simpa [List.all_eq_true] using hval),
    cookieValue_raw p (by simpa [List.all_eq_true] using hval)]

theorem semi_not_mem_render (p : Pair) (hv : p.valid = true) : ';' ∉ p.render := by
  simp only [Pair.valid, Bool.and_eq_true, Bool.not_eq_true', List.all_eq_true] at hv
  obtain ⟨⟨⟨hpre, _⟩, hname⟩, hval⟩ := hv
  have hname' : ∀ c ∈ p.name, isReserved c = false := by intro c hc; simpa using hname c hc
  unfold Pair.render Pair.rawValue
  intro e
  rcases List.mem_append.mp e with e | e
  · exact (ws_ne (hpre _ e)).1 rfl
  · rcases List.mem_append.mp e with e | e
    · exact (not_reserved_ne (hname' _ e)).1 rfl
    · cases hq : p.quoted with
      | true =>
        simp [hq] at e
        exact (octet_ne (hval _ e)).1 rfl
      | false =>
        simp [hq] at e
        exact (octet_ne (hval _ e)).1 rfl

theorem splitOn_renderCookies : ∀ (ps : List Pair), ps ≠ [] → (∀ p ∈ ps, p.valid = true) →
    splitOn ';' (renderCookies ps) = ps.map Pair.render
  | [], h, _ => absurd rfl h
  | [p], _, hv => by simp [renderCookies, splitOn_none ';' _ (semi_not_mem_render p (hv p (by simp)))]
  | p :: q :: ps, _, hv => by
    simp only [renderCookies]
    rw [splitOn_append ';' _ _ (semi_not_mem_render p (hv p (by simp))),
      splitOn_renderCookies (q :: ps) (by simp) (fun x hx => hv x (by simp [hx]))]
    rfl

theorem foldl_stepToken (ps : List Pair) (hv : ∀ p ∈ ps, p.valid = true) : ∀ (d : Jar),
    (ps.map Pair.render).foldl stepToken d = ps.foldl (fun d p => insertVal d p.name p.val) d := by
  induction ps with
  | nil => intro d; rfl
  | cons p t ih =>
    intro d
    simp only [List.map_cons, List.foldl_cons]
    rw [stepToken_render d p (hv p (by simp)), ih (fun x hx => hv x (by simp [hx]))]

/-- the jar built from a grammatical cookie-string: every pair is entered, in order, with the DQUOTEs of a quoted value removed -/
theorem parseCookieHeader_render (ps : List Pair) (hv : ∀ p ∈ ps, p.valid = true) :
    parseCookieHeader (renderCookies ps) = ps.foldl (fun d p => insertVal d p.name p.val) [] := by
  cases ps with
  | nil => simp [parseCookieHeader, renderCookies, splitOn, stepToken, Hp.partition, Hp.breakOn, Hp.strip, Hp.stripW, Hp.rstripW, Hp.lstripW]
  | cons p t =>
    unfold parseCookieHeader
    rw [splitOn_renderCookies (p :: t) (by simp) hv, foldl_stepToken (p :: t) hv]

/-! ### the mapping -/
theorem lookup_insertVal (nm k v : Str) : ∀ (d : Jar),
    lookup (insertVal d k v) nm = if k = nm then some ((lookup d nm).getD [] ++ [v]) else lookup d nm
  | [] => by
    by_cases h : k = nm <;> simp [insertVal, lookup, List.find?, h]
  | (k', vs) :: t => by
    have ih := lookup_insertVal nm k v t
    by_cases h1 : k' = k
    · subst h1
      by_cases h2 : k' = nm
      · simp [insertVal, lookup, List.find?, h2]
      · have : (k' == nm) = false := by simp [h2]
        simp [insertVal, lookup, List.find?, h2, this]
    · have e1 : (k' == k) = false := by simp [h1]
      by_cases h2 : k' = nm
      · subst h2
        have : ¬ k = k' := fun e => h1 e.symm
        simp [insertVal, e1, lookup, List.find?, this]
      · have e2 : (k' == nm) = false := by simp [h2]
        simp only [insertVal, e1, Bool.false_eq_true, if_false]
        simp only [lookup, List.find?, e2] at ih ⊢
        exact ih

/-- all values given for `nm`, in the order of the header -/
def valuesOf (ps : List Pair) (nm : Str) : List Str := (ps.filter fun p => p.name == nm).map (·.val)

def merge (o : Option (List Str)) (vs : List Str) : Option (List Str) :=
  match o, vs with
  | none, [] => none
  | o, vs => some (o.getD [] ++ vs)

theorem lookup_foldl (nm : Str) (ps : List Pair) : ∀ (d : Jar),
    lookup (ps.foldl (fun d p => insertVal d p.name p.val) d) nm = merge (lookup d nm) (valuesOf ps nm) := by
  induction ps with
  | nil => intro d; cases h : lookup d nm <;> simp [valuesOf, merge, h]
  | cons p t ih =>
    intro d
    rw [List.foldl_cons, ih, lookup_insertVal]
    by_cases h : p.name = nm
    · simp [valuesOf, h, merge]
    · have : (p.name == nm) = false := by simp [h]
      simp [valuesOf, h, this]

theorem reqJar_some (s : Str) : reqJar (some s) = parseCookieHeader s := by
  cases s with
  | nil => simp [reqJar, parseCookieHeader, splitOn, stepToken, Hp.partition, Hp.breakOn, Hp.strip, Hp.stripW, Hp.rstripW, Hp.lstripW]
  | cons c r => rfl

/-- **RFC 6265**: for a cookie-string of valid pairs, `req.get_cookie_values(name)` is the list of all values given for that
    name, in header order (DQUOTEs of quoted values removed), and `None` when the name does not occur -/
theorem cookie_valid_eq_rfc (ps : List Pair) (hv : ∀ p ∈ ps, p.valid = true) (nm : Str) :
    getCookieValues (some (renderCookies ps)) nm = match valuesOf ps nm with | [] => none | vs => some vs := by
  unfold getCookieValues
  rw [reqJar_some, parseCookieHeader_render ps hv, lookup_foldl]
  cases valuesOf ps nm <;> simp [lookup, merge]

/-- dictionary lookup in `req.cookies` -/
def cookieOf (hdr : Option Str) (nm : Str) : Option Str := ((reqCookies hdr).find? fun nv => nv.1 == nm).map (·.2)

theorem cookieOf_eq (hdr : Option Str) (nm : Str) : cookieOf hdr nm = (getCookieValues hdr nm).map (·.headD []) := by
  unfold cookieOf reqCookies getCookieValues lookup
  induction reqJar hdr with
  | nil => rfl
  | cons a t ih =>
    simp only [List.map_cons, List.find?]
    cases h : (a.1 == nm) with
    | true => simp
    | false => simpa using ih

theorem head_valuesOf (ps : List Pair) (nm : Str) : (valuesOf ps nm).head? = (ps.find? fun p => p.name == nm).map (·.val) := by
  induction ps with
  | nil => rfl
  | cons p t ih =>
    cases h : (p.name == nm) with
    | true => simp [valuesOf, List.find?, h]
    | false => simp [valuesOf, List.find?, h] at ih ⊢

/-- `req.cookies[name]` is the first value given for the name -/
theorem cookies_first_value (ps : List Pair) (hv : ∀ p ∈ ps, p.valid = true) (nm : Str) :
    cookieOf (some (renderCookies ps)) nm = (ps.find? fun p => p.name == nm).map (·.val) := by
  rw [cookieOf_eq, cookie_valid_eq_rfc ps hv nm, ← head_valuesOf]
  cases valuesOf ps nm <;> simp

/-- the names of `req.cookies` are exactly the cookie names of the header -/
theorem cookies_has_name (ps : List Pair) (hv : ∀ p ∈ ps, p.valid = true) (nm : Str) :
    (cookieOf (some (renderCookies ps)) nm).isSome = ps.any fun p => p.name == nm := by
  rw [cookies_first_value ps hv nm]
  clear hv
  induction ps with
  | nil => rfl
  | cons p t ih =>
    cases h : (p.name == nm) <;> simp [List.find?, h]
    simpa using ih

/-! ### `_unquote` inverts `http.cookies._quote`-style escaping (including the octal escapes) -/
theorem toNat_ofNat_small (k : Nat) (h : k < 256) : (Char.ofNat k).toNat = k := by
  have : k.isValidChar := by left; omega
  simp [Char.ofNat, this, Char.ofNatAux, Char.toNat]

/-- `'%03o' % n` for `n < 512` -/
def octDigits (n : Nat) : Str := [Char.ofNat (48 + n / 64), Char.ofNat (48 + n / 8 % 8), Char.ofNat (48 + n % 8)]

/-- what `_quote` writes for one character: `"` and `\` get a backslash, characters outside `legal` become `\ooo` -/
def escChar (legal : Char → Bool) (c : Char) : Str :=
  if c == '"' then ['\\', '"'] else if c == '\\' then ['\\', '\\'] else if legal c then [c] else '\\' :: octDigits c.toNat

def quoteBody (legal : Char → Bool) : Str → Str
  | [] => []
  | c :: r => escChar legal c ++ quoteBody legal r

theorem unq_esc_lit (c : Char) (r : Str) (hc : c = '"' ∨ c = '\\') : unq ('\\' :: c :: r) = c :: unq r := by
  have hn : (c != '\n') = true := by rcases hc with rfl | rfl <;> decide
  have ho : ∀ b d, isOct3 c b d = false := by intro b d; rcases hc with rfl | rfl <;> simp [isOct3]
  rw [unq.eq_def]
  split
  · rename_i e; simp at e
  · rename_i a b d r2 e
    simp at e; obtain ⟨rfl, rfl⟩ := e
    simp [ho, hn]
  · rename_i a r' _ e
    simp at e; obtain ⟨rfl, rfl⟩ := e
    simp [hn]
  · rename_i x r' h1 h2 e
    simp at e; obtain ⟨rfl, rfl⟩ := e; exact (h2 c r rfl rfl).elim

theorem unq_oct (n : Nat) (hn : n < 256) (r : Str) : unq ('\\' :: (octDigits n ++ r)) = Char.ofNat n :: unq r := by
  have h1 : 48 + n / 64 < 256 := by omega
  have h2 : 48 + n / 8 % 8 < 256 := by omega
  have h3 : 48 + n % 8 < 256 := by omega
  simp only [octDigits, List.cons_append, List.nil_append]
  rw [unq]
  have ho : isOct3 (Char.ofNat (48 + n / 64)) (Char.ofNat (48 + n / 8 % 8)) (Char.ofNat (48 + n % 8)) = true := by
    simp only [isOct3, toNat_ofNat_small _ h1, toNat_ofNat_small _ h2, toNat_ofNat_small _ h3, Bool.and_eq_true, decide_eq_true_eq]
    omega
  have hv : octChar (Char.ofNat (48 + n / 64)) (Char.ofNat (48 + n / 8 % 8)) (Char.ofNat (48 + n % 8)) = Char.ofNat n := by
    simp only [octChar, toNat_ofNat_small _ h1, toNat_ofNat_small _ h2, toNat_ofNat_small _ h3]
    congr 1; omega
  simp only [ho, if_true, hv]

theorem escChar_quote (legal : Char → Bool) : escChar legal '"' = ['\\', '"'] := by simp [escChar]
theorem escChar_bs (legal : Char → Bool) : escChar legal '\\' = ['\\', '\\'] := by simp [escChar]
theorem escChar_other (legal : Char → Bool) (c : Char) (h1 : c ≠ '"') (h2 : c ≠ '\\') :
    escChar legal c = if legal c then [c] else '\\' :: octDigits c.toNat := by simp [escChar, h1, h2]

/-- for every Latin-1 string and every choice of `legal`: un-quoting the escaped text gives the text back -/
theorem unquote_quote (legal : Char → Bool) : ∀ (s : Str), (∀ c ∈ s, c.toNat < 256) → unq (quoteBody legal s) = s
  | [], _ => by simp [quoteBody, unq]
  | c :: r, h => by
    have ih := unquote_quote legal r (fun x hx => h x (by simp [hx]))
    simp only [quoteBody]
    by_cases h1 : c = '"'
    · subst h1; rw [escChar_quote]; simp only [List.cons_append, List.nil_append]
      rw [unq_esc_lit _ _ (Or.inl rfl), ih]
    · by_cases h2 : c = '\\'
      · subst h2; rw [escChar_bs]; simp only [List.cons_append, List.nil_append]
        rw [unq_esc_lit _ _ (Or.inr rfl), ih]
      · rw [escChar_other legal c h1 h2]
        cases legal c with
        | true => simp only [if_true, List.cons_append, List.nil_append]; rw [unq_cons_ne c _ h2, ih]
        | false =>
          simp only [Bool.false_eq_true, if_false, List.cons_append]
          rw [unq_oct c.toNat (h c (by simp)) _, ih, Char.ofNat_toNat]

/-- the whole `_unquote`: `"` + escaped text + `"` -/
theorem cUnquote_quote (legal : Char → Bool) (s : Str) (h : ∀ c ∈ s, c.toNat < 256) :
    cUnquote ('"' :: (quoteBody legal s ++ ['"'])) = s := by
  unfold cUnquote
  have hl : ¬ ('"' :: (quoteBody legal s ++ ['"'])).length < 2 := by simp
  have hd : (('"' :: (quoteBody legal s ++ ['"'])).drop 1).dropLast = quoteBody legal s := by simp
  simp only [hl, if_false, List.head?_cons, Hp.getLast?_quote, hd]
  simp only [bne_self_eq_false, Bool.or_self, Bool.false_eq_true, if_false]
  exact unquote_quote legal s h

/-! ### non-vacuity -/
/-- `SID=31d4; lang="en-US";  SID=x` -/
def exPairs : List Pair :=
  [⟨[], "SID".toList, "31d4".toList, false⟩, ⟨[' '], "lang".toList, "en-US".toList, true⟩, ⟨[' ', '\t'], "SID".toList, "x".toList, false⟩]
example : renderCookies exPairs = "SID=31d4; lang=\"en-US\"; \tSID=x".toList := by decide
example : ∀ p ∈ exPairs, p.valid = true := by decide
example : getCookieValues (some (renderCookies exPairs)) "SID".toList = some ["31d4".toList, "x".toList] := by decide
example : reqCookies (some (renderCookies exPairs)) = [("SID".toList, "31d4".toList), ("lang".toList, "en-US".toList)] := by decide
example : getCookieValues (some (renderCookies exPairs)) "none".toList = none := by decide
-- lenient readings outside the grammar: bad names are skipped, `""` is the empty value, escapes are decoded
example : reqJar (some "a b=1; =x; c=\"\"; d=\"\\101\\\"\\\\z\"; e".toList) =
    [("c".toList, [[]]), ("d".toList, ["A\"\\z".toList]), ("e".toList, [[]])] := by decide
example : quoteBody (fun c => c.isAlphanum) "a\"\\;".toList = "a\\\"\\\\\\073".toList := by decide

end Ck

/-! Prototype for C20: CORSMiddleware.process_response as a function on a header map; policy theorems.
    Header names are an enum (string-literal comparisons make `simp` time out — a modelling lesson). -/
namespace Co

inductive H where
  | acao | acac | acam | acah | acma | aceh | allow | other (n : Nat)
deriving Repr, DecidableEq

abbrev Hdrs := List (H × String)
def get (h : Hdrs) (k : H) : Option String := (h.find? (·.1 == k)).map (·.2)
def set (h : Hdrs) (k : H) (v : String) : Hdrs := (h.filter (·.1 != k)) ++ [(k, v)]
def del (h : Hdrs) (k : H) : Hdrs := h.filter (·.1 != k)

inductive Origins where
  | any
  | only (s : List String)
deriving Repr

structure Cfg where
  allowOrigins : Origins
  allowCredentials : Origins
  exposeHeaders : Option String

def Origins.has : Origins → String → Bool
  | .any, _ => true
  | .only s, o => s.contains o

structure Req where
  origin : Option String
  isOptions : Bool
  acrm : Option String
  acrh : Option String

def truthy : Option String → Bool
  | some s => !s.isEmpty
  | none => false

/-- `CORSMiddleware.process_response` (pinned code) -/
def process (c : Cfg) (r : Req) (h : Hdrs) (succeeded : Bool) : Hdrs :=
  match r.origin with
  | none => h
  | some origin =>
    if !c.allowOrigins.has origin then h else
    let h1 :=
      if (get h .acao).isNone then
        if c.allowCredentials.has origin then set (set h .acac "true") .acao origin
        else set h .acao (match c.allowOrigins with | .any => "*" | .only _ => origin)
      else h
    let h2 := match c.exposeHeaders with
      | some e => if !e.isEmpty then set h1 .aceh e else h1
      | none => h1
    if succeeded && r.isOptions && truthy r.acrm then
      match get h2 .allow with
      | none => del (del (del (del (del (del h2 .allow) .acam) .acah) .acma) .aceh) .acao
      | some a => set (set (set (del h2 .allow) .acam a) .acah (r.acrh.getD "*")) .acma "86400"
    else h2

theorem get_set_self (h : Hdrs) (k : H) (v : String) : get (set h k v) k = some v := by
  unfold get set
  rw [List.find?_append]
  have : (h.filter (·.1 != k)).find? (·.1 == k) = none := by
    rw [List.find?_eq_none]; intro x hx; simp only [List.mem_filter] at hx; simpa using hx.2
  simp [this]

theorem find_filter_ne (h : Hdrs) (k k' : H) (hne : k' ≠ k) :
    (h.filter (·.1 != k)).find? (·.1 == k') = h.find? (·.1 == k') := by
  induction h with
  | nil => rfl
  | cons x xs ih =>
    simp only [List.filter_cons]
    by_cases hx : x.1 = k
    · have : (x.1 != k) = false := by simp [hx]
      have hxk : (x.1 == k') = false := by simp [hx]; exact fun hc => hne hc.symm
      simp [this, hxk, ih]
    · have : (x.1 != k) = true := by simp [hx]
      simp only [this, if_true, List.find?_cons]
      cases (x.1 == k') <;> simp [ih]

theorem get_set_ne (h : Hdrs) (k k' : H) (v : String) (hne : k' ≠ k) : get (set h k v) k' = get h k' := by
  unfold get set
  rw [List.find?_append, find_filter_ne h k k' hne]
  have h1 : ([(k, v)] : Hdrs).find? (·.1 == k') = none := by simp; exact fun hc => hne hc.symm
  rw [h1]; simp

theorem get_del_self (h : Hdrs) (k : H) : get (del h k) k = none := by
  unfold get del
  have : (h.filter (·.1 != k)).find? (·.1 == k) = none := by
    rw [List.find?_eq_none]; intro x hx; simp only [List.mem_filter] at hx; simpa using hx.2
  simp [this]

theorem get_del_ne (h : Hdrs) (k k' : H) (hne : k' ≠ k) : get (del h k) k' = get h k' := by
  unfold get del; rw [find_filter_ne h k k' hne]

/-! ### policy theorems -/
theorem no_origin_untouched (c : Cfg) (r : Req) (h : Hdrs) (s : Bool) (ho : r.origin = none) :
    process c r h s = h := by simp [process, ho]

theorem disallowed_untouched (c : Cfg) (r : Req) (h : Hdrs) (s : Bool) (o : String)
    (ho : r.origin = some o) (hd : c.allowOrigins.has o = false) : process c r h s = h := by
  simp [process, ho, hd]

/-- credentials are granted by the middleware only to an allowed origin configured for credentials -/
theorem credentials_only_configured (c : Cfg) (r : Req) (h : Hdrs) (s : Bool)
    (h0 : get h .acac = none) (hres : get (process c r h s) .acac = some "true") :
    ∃ o, r.origin = some o ∧ c.allowOrigins.has o = true ∧ c.allowCredentials.has o = true := by
  unfold process at hres
  cases ho : r.origin with
  | none => simp [ho, h0] at hres
  | some o =>
    simp only [ho] at hres
    cases ha : c.allowOrigins.has o with
    | false => simp [ha, h0] at hres
    | true =>
      refine ⟨o, rfl, ha, ?_⟩
      cases hc : c.allowCredentials.has o with
      | true => rfl
      | false =>
        exfalso
        simp only [ha, hc, Bool.not_true, Bool.false_eq_true, if_false] at hres
        revert hres
        repeat' split
        all_goals (intro hres; simp [get_set_ne, get_del_ne, h0] at hres)

/-- whenever the middleware grants credentials it echoes the origin — never the wildcard -/
theorem credentials_imply_echo (c : Cfg) (r : Req) (h : Hdrs) (s : Bool)
    (h0 : get h .acac = none) (h1 : get h .acao = none)
    (hres : get (process c r h s) .acac = some "true") :
    ∃ o, r.origin = some o ∧
      (get (process c r h s) .acao = some o ∨ get (process c r h s) .acao = none) := by
  obtain ⟨o, ho, ha, hc⟩ := credentials_only_configured c r h s h0 hres
  refine ⟨o, ho, ?_⟩
  unfold process
  simp only [ho, ha, hc, h1, Bool.not_true, Bool.false_eq_true, if_false, Option.isNone_none, if_true]
  repeat' split
  all_goals simp [get_set_ne, get_del_ne, get_set_self, get_del_self]

#print axioms credentials_only_configured
#print axioms credentials_imply_echo
end Co

namespace Co
/-! ### F12 and its repair -/

/-- `process_response` with the F12 repair: the denied-preflight branch also deletes Access-Control-Allow-Credentials -/
def processF (c : Cfg) (r : Req) (h : Hdrs) (succeeded : Bool) : Hdrs :=
  match r.origin with
  | none => h
  | some origin =>
    if !c.allowOrigins.has origin then h else
    let h1 :=
      if (get h .acao).isNone then
        if c.allowCredentials.has origin then set (set h .acac "true") .acao origin
        else set h .acao (match c.allowOrigins with | .any => "*" | .only _ => origin)
      else h
    let h2 := match c.exposeHeaders with
      | some e => if !e.isEmpty then set h1 .aceh e else h1
      | none => h1
    if succeeded && r.isOptions && truthy r.acrm then
      match get h2 .allow with
      | none => del (del (del (del (del (del (del h2 .allow) .acam) .acah) .acma) .aceh) .acao) .acac
      | some a => set (set (set (del h2 .allow) .acam a) .acah (r.acrh.getD "*")) .acma "86400"
    else h2

/-- the six headers by which the middleware grants anything -/
def grants : List H := [.acao, .acac, .acam, .acah, .acma, .aceh]

theorem get_del_any (h : Hdrs) (k k' : H) (hk : get h k' = none) : get (del h k) k' = none := by
  by_cases hne : k' = k
  · subst hne; exact get_del_self h k'
  · rw [get_del_ne h k k' hne]; exact hk

/-- **after the repair, a denied preflight grants nothing**: whatever the configuration, the request and the headers the
    responder had set, a successful preflight for which the resource offers no `Allow` leaves none of the six CORS grant
    headers on the response -/
theorem denied_preflight_grants_nothing (c : Cfg) (r : Req) (h : Hdrs) (origin : String) (k : H)
    (ho : r.origin = some origin) (hallowed : c.allowOrigins.has origin = true)
    (hpre : (r.isOptions && truthy r.acrm) = true) (hk : k ∈ grants)
    (hnoallow : get h .allow = none) :
    get (processF c r h true) k = none := by
  unfold processF
  simp only [ho, hallowed, Bool.not_true, Bool.false_eq_true, if_false, Bool.true_and, hpre, if_true]
  -- the intermediate header maps never gain an `Allow` header
  have hallow : ∀ (h' : Hdrs) (k' : H) (v : String), k' ≠ .allow → get h' .allow = none → get (set h' k' v) .allow = none := by
    intro h' k' v hne hn; rw [get_set_ne h' k' .allow v (by intro e; exact hne e.symm)]; exact hn
  generalize hh1 : (if (get h .acao).isNone = true then
      if c.allowCredentials.has origin = true then set (set h .acac "true") .acao origin
      else set h .acao (match c.allowOrigins with | .any => "*" | .only _ => origin)
    else h) = h1
  have h1a : get h1 .allow = none := by
    rw [← hh1]
    split
    · split
      · exact hallow _ _ _ (by decide) (hallow _ _ _ (by decide) hnoallow)
      · exact hallow _ _ _ (by decide) hnoallow
    · exact hnoallow
  generalize hh2 : (match c.exposeHeaders with
      | some e => if (!e.isEmpty) = true then set h1 .aceh e else h1
      | none => h1) = h2
  have h2a : get h2 .allow = none := by
    rw [← hh2]
    split
    · split
      · exact hallow _ _ _ (by decide) h1a
      · exact h1a
    · exact h1a
  simp only [h2a]
  -- every grant header is deleted by one of the seven `delete_header` calls
  simp only [grants, List.mem_cons, List.mem_nil_iff, or_false] at hk
  rcases hk with rfl | rfl | rfl | rfl | rfl | rfl
  · exact get_del_any _ _ _ (get_del_self _ _)
  · exact get_del_self _ _
  · exact get_del_any _ _ _ (get_del_any _ _ _ (get_del_any _ _ _ (get_del_any _ _ _ (get_del_any _ _ _ (get_del_self _ _)))))
  · exact get_del_any _ _ _ (get_del_any _ _ _ (get_del_any _ _ _ (get_del_any _ _ _ (get_del_self _ _))))
  · exact get_del_any _ _ _ (get_del_any _ _ _ (get_del_any _ _ _ (get_del_self _ _)))
  · exact get_del_any _ _ _ (get_del_any _ _ _ (get_del_self _ _))

/-- F12 on the pinned code: the same request keeps `Access-Control-Allow-Credentials: true` -/
theorem f12_witness :
    get (process { allowOrigins := .any, allowCredentials := .any, exposeHeaders := none }
          { origin := some "https://a.example", isOptions := true, acrm := some "GET", acrh := none } [] true) .acac
      = some "true" := by decide

#print axioms denied_preflight_grants_nothing
end Co

import FalconModel.CorsConfig
/-! C20, how a `CORSMiddleware` is CONSTRUCTED: the binding of the arguments of one call to the three parameters of

      def __init__(self, allow_origins='*', expose_headers=None, allow_credentials=None)

    (falcon/middleware.py; the class docstring lists the settings in the same order).  Python binds positional arguments to the
    parameters in signature order, keyword arguments by name, a parameter that got nothing takes its default; a fourth
    positional argument or a parameter bound twice is a `TypeError`.  `Cg.normalise` then reads the bound values. -/
namespace Cg
open Co

/-- one call `CORSMiddleware(*pos, **kw)`: the positional arguments in call order, the keyword arguments (`none` = not passed) -/
structure CallArgs where
  pos : List Arg := []
  kwOrigins : Option Arg := Option.none
  kwExpose : Option Arg := Option.none
  kwCredentials : Option Arg := Option.none
deriving Repr

inductive CallError where
  | tooManyPositional        -- TypeError: __init__() takes from 1 to 4 positional arguments but 5 were given
  | multipleValues           -- TypeError: __init__() got multiple values for argument '…'
  | config (e : ConfigError) -- what the body of `__init__` raises
deriving Repr, DecidableEq

/-- argument binding of the signature `(allow_origins='*', expose_headers=None, allow_credentials=None)` -/
def bindArgs (c : CallArgs) : Except CallError RawConfig :=
  match c.pos with
  | [] =>
    pure { allowOrigins := c.kwOrigins.getD (.str "*"), exposeHeaders := c.kwExpose.getD .none,
           allowCredentials := c.kwCredentials.getD .none }
  | [a] =>
    if c.kwOrigins.isSome then throw .multipleValues
    else pure { allowOrigins := a, exposeHeaders := c.kwExpose.getD .none, allowCredentials := c.kwCredentials.getD .none }
  | [a, e] =>
    if c.kwOrigins.isSome || c.kwExpose.isSome then throw .multipleValues
    else pure { allowOrigins := a, exposeHeaders := e, allowCredentials := c.kwCredentials.getD .none }
  | [a, e, k] =>
    if c.kwOrigins.isSome || c.kwExpose.isSome || c.kwCredentials.isSome then throw .multipleValues
    else pure { allowOrigins := a, exposeHeaders := e, allowCredentials := k }
  | _ => throw .tooManyPositional

/-- `CORSMiddleware(*pos, **kw)`: bind, then run the body of `__init__` -/
def construct (c : CallArgs) : Except CallError Cfg :=
  match bindArgs c with
  | .error e => .error e
  | .ok raw =>
    match normalise raw with
    | .ok cfg => .ok cfg
    | .error e => .error (.config e)

/-- the call that passes the first `k` settings positionally and the others by keyword -/
def splitCall (k : Nat) (a e c : Arg) : CallArgs :=
  match k with
  | 0 => { pos := [], kwOrigins := some a, kwExpose := some e, kwCredentials := some c }
  | 1 => { pos := [a], kwExpose := some e, kwCredentials := some c }
  | 2 => { pos := [a, e], kwCredentials := some c }
  | _ => { pos := [a, e, c] }

/-- Every split of the three settings into positional and keyword arguments configures the same middleware: the documented
    order is (allow_origins, expose_headers, allow_credentials). -/
theorem bindArgs_split (k : Nat) (a e c : Arg) :
    bindArgs (splitCall k a e c) = .ok { allowOrigins := a, exposeHeaders := e, allowCredentials := c } := by
  match k with
  | 0 => rfl
  | 1 => rfl
  | 2 => rfl
  | _ + 3 => rfl

example : bindArgs (splitCall 2 (.str "*") (.str "*") .none)
    = .ok { allowOrigins := .str "*", exposeHeaders := .str "*", allowCredentials := .none } := bindArgs_split ..

/-- the second positional argument is `expose_headers`, the third `allow_credentials` -/
theorem bindArgs_positional_order (a e c : Arg) :
    bindArgs { pos := [a, e, c] } = .ok { allowOrigins := a, exposeHeaders := e, allowCredentials := c } := rfl

/-- a trailing setting that is not passed takes its default (`None`), whatever the earlier ones are -/
theorem bindArgs_two_positional (a e : Arg) :
    bindArgs { pos := [a, e] } = .ok { allowOrigins := a, exposeHeaders := e, allowCredentials := .none } := rfl

/-- `CORSMiddleware()` — the component `cors_enable=True` constructs: every origin, nothing exposed, no credentials -/
theorem bindArgs_defaults :
    bindArgs {} = .ok { allowOrigins := .str "*", exposeHeaders := .none, allowCredentials := .none } := rfl

theorem construct_defaults :
    construct {} = .ok { allowOrigins := .any, allowCredentials := .only [], exposeHeaders := Option.none } := by rfl

/-- `CORSMiddleware('*', '*')` ("every origin, expose every header") configures NO credentials. -/
theorem construct_star_star :
    construct { pos := [.str "*", .str "*"] }
      = .ok { allowOrigins := .any, allowCredentials := .only [], exposeHeaders := some "*" } := by rfl

/-- the calling convention is irrelevant: every split constructs what the keyword call constructs -/
theorem construct_split (k : Nat) (a e c : Arg) :
    construct (splitCall k a e c) = construct (splitCall 0 a e c) := by
  simp only [construct, bindArgs_split]

end Cg

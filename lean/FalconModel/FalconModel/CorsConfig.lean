import FalconModel.Cors
import FalconModel.Pipeline
/-! C20, the code around `process_response`: `CORSMiddleware.__init__` (falcon/middleware.py) — the normalisation of the three
    constructor arguments into the configuration `Co.Cfg` that `Co.processF` reads — and the `cors_enable` wiring of
    `App.__init__` / `App.add_middleware` (falcon/app.py; `falcon.asgi.App.__init__` passes its arguments on unchanged).

    Argument shapes.  `allow_origins`, `expose_headers`, `allow_credentials` are typed `Union[str, Iterable[str]]` (the last two
    also `None`).  A Python iterable other than `str` (list, tuple, set, frozenset, generator …) is modelled by the list of the
    items it yields; `frozenset(…)` is modelled by `List.eraseDups` (a duplicate-free representative — everything the code later
    does with the value is a membership test, see `Cg.has_frozenset`). -/
namespace Cg
open Co

/-- what a caller may pass for one constructor argument -/
inductive Arg where
  | none                       -- `None`
  | str (s : String)           -- a `str` (including the literal `'*'`)
  | iter (l : List String)     -- any other iterable of `str`, as the list of items it yields
deriving Repr, DecidableEq

structure RawConfig where
  allowOrigins : Arg := .str "*"
  exposeHeaders : Arg := .none
  allowCredentials : Arg := .none
deriving Repr

inductive ConfigError where
  | wildcardInOrigins          -- ValueError: '*' inside the allow_origins iterable
  | wildcardInCredentials      -- ValueError: '*' inside the allow_credentials iterable
  | originsNotIterable         -- TypeError: frozenset(None)
deriving Repr, DecidableEq

/-- `frozenset(items)` -/
def frozenset (l : List String) : List String := l.eraseDups

/-- `', '.join(items)` -/
def joinComma : List String → String
  | [] => ""
  | [a] => a
  | a :: b :: rest => a ++ ", " ++ joinComma (b :: rest)

/-- ```
    if allow_origins == '*':
        self.allow_origins = allow_origins
    else:
        if isinstance(allow_origins, str):
            allow_origins = [allow_origins]
        self.allow_origins = frozenset(allow_origins)
        if '*' in self.allow_origins:
            raise ValueError(...)
    ``` -/
def normOrigins (a : Arg) : Except ConfigError Origins :=
  if a = .str "*" then pure .any
  else do
    let items ← match a with
      | .str s => pure [s]
      | .iter l => pure l
      | .none => throw ConfigError.originsNotIterable      -- frozenset(None): TypeError
    let fs := frozenset items
    if fs.contains "*" then throw .wildcardInOrigins
    pure (.only fs)

/-- ```
    if expose_headers is not None and not isinstance(expose_headers, str):
        expose_headers = ', '.join(expose_headers)
    self.expose_headers = expose_headers
    ``` -/
def normExpose : Arg → Option String
  | .none => Option.none
  | .str s => some s
  | .iter l => some (joinComma l)

/-- ```
    if allow_credentials is None:
        allow_credentials = frozenset()
    elif allow_credentials != '*':
        if isinstance(allow_credentials, str):
            allow_credentials = [allow_credentials]
        allow_credentials = frozenset(allow_credentials)
        if '*' in allow_credentials:
            raise ValueError(...)
    self.allow_credentials = allow_credentials
    ``` -/
def normCredentials (a : Arg) : Except ConfigError Origins :=
  match a with
  | .none => pure (.only (frozenset []))
  | a =>
    if a = .str "*" then pure .any
    else
      let items := match a with
        | .str s => [s]
        | .iter l => l
        | .none => []
      let fs := frozenset items
      if fs.contains "*" then throw .wildcardInCredentials
      else pure (.only fs)

/-- `CORSMiddleware.__init__`: the three attributes, in the order the code computes them (so the first error wins) -/
def normalise (raw : RawConfig) : Except ConfigError Cfg := do
  let ao ← normOrigins raw.allowOrigins
  let ex := normExpose raw.exposeHeaders
  let ac ← normCredentials raw.allowCredentials
  pure { allowOrigins := ao, allowCredentials := ac, exposeHeaders := ex }

/-- the reading of one argument the documentation gives: which origins it names -/
def Arg.names : Arg → String → Bool
  | .none, _ => false
  | .str s, o => s == "*" || o == s
  | .iter l, o => l.contains o

/-! ## `cors_enable`: `App.__init__` and `App.add_middleware` -/

/-- a middleware component as far as the wiring cares: is it a `CORSMiddleware` (`isinstance`, so subclasses count), and was it
    the one `cors_enable` constructed; any other component carries a number -/
inductive Mw where
  | cors (builtin : Bool)
  | other (n : Nat)
deriving Repr, DecidableEq

def Mw.isCors : Mw → Bool
  | .cors _ => true
  | .other _ => false

/-- the `middleware` argument: `None`, one bare component (`list(x)` raises TypeError), or an iterable of components -/
inductive MwArg where
  | none
  | single (m : Mw)
  | iter (l : List Mw)
deriving Repr

inductive StackError where
  | corsTwice        -- ValueError: CORSMiddleware is not allowed in conjunction with cors_enable
deriving Repr, DecidableEq

/-- `list(middleware)` / `[middleware]` -/
def MwArg.items : MwArg → List Mw
  | .none => []
  | .single m => [m]
  | .iter l => l

/-- ```
    if middleware:
        try: middleware = list(middleware)
        except TypeError: middleware = [middleware]
        if self._cors_enable and len([mc for mc in self._unprepared_middleware + middleware
                                      if isinstance(mc, CORSMiddleware)]) > 1:
            raise ValueError(...)
        self._unprepared_middleware += middleware
    ```
    (`None` and an empty list are falsy; an empty generator is truthy and adds nothing — the same result.) -/
def addMiddleware (corsEnable : Bool) (unprepared : List Mw) (arg : MwArg) : Except StackError (List Mw) :=
  match arg with
  | .none => pure unprepared
  | .iter [] => pure unprepared
  | arg =>
    let mw := arg.items
    if corsEnable && ((unprepared ++ mw).filter Mw.isCors).length > 1 then throw .corsTwice
    else pure (unprepared ++ mw)

/-- ```
    if cors_enable:
        cm = CORSMiddleware()
        if middleware is None: middleware = [cm]
        else:
            try: middleware = list(middleware); middleware.append(cm)
            except TypeError: middleware = [middleware, cm]
    self._unprepared_middleware = []
    self.add_middleware(middleware)
    ``` -/
def appInit (corsEnable : Bool) (arg : MwArg) : Except StackError (List Mw) :=
  let arg' := if corsEnable then MwArg.iter (arg.items ++ [Mw.cors true]) else arg
  addMiddleware corsEnable [] arg'

/-- later `add_middleware` calls; one that raises leaves the stack as it was (the `raise` precedes the `+=`).
    Returns the final stack and, per call, whether it was accepted. -/
def runAdds (corsEnable : Bool) : List Mw → List MwArg → List Mw × List Bool
  | st, [] => (st, [])
  | st, a :: rest =>
    match addMiddleware corsEnable st a with
    | .ok st' => let (f, oks) := runAdds corsEnable st' rest; (f, true :: oks)
    | .error _ => let (f, oks) := runAdds corsEnable st rest; (f, false :: oks)

/-- the CORS middleware as a pipeline component (C03 model): no `process_request`, no `process_resource`, a
    `process_response` that returns -/
def corsComp : Pl.Comp := { req := Option.none, rsrc := Option.none, resp := some .ret }

/-- a middleware stack as pipeline components; `beh` is what the other components define and do -/
def comps (beh : Nat → Pl.Comp) : List Mw → List Pl.Comp
  | [] => []
  | .cors _ :: rest => corsComp :: comps beh rest
  | .other n :: rest => beh n :: comps beh rest

end Cg

import FalconModel.CorsConfig
import FalconModel.CorsProofs
import FalconModel.PipelineSpec
/-! C20: `CORSMiddleware.__init__` and the `cors_enable` wiring (model `CorsConfig.lean`, namespace `Cg`), connected to the policy
    theorems of `CorsProofs.lean` (namespace `Co`) and to the call discipline of `App.__call__` (`Pl.run_eq_spec`, C03).

    1. `normalise` — what each argument shape becomes; a single string is the one-element iterable (membership by equality);
       the policy depends only on the SET of configured strings; `'*'` inside an iterable is rejected; `expose_headers` join.
    2. the main policy theorems restated from the RAW constructor arguments.
    3. `cors_enable`: exactly one CORSMiddleware, last in the stack, and its `process_response` runs with the documented
       `req_succeeded` for routed / sink / static / unrouted / failed requests. -/
namespace Cg
open Co

/-! ## 1. normalisation -/

theorem mem_frozenset (l : List String) (x : String) : x ∈ frozenset l ↔ x ∈ l := by
  unfold frozenset; exact List.mem_eraseDups

theorem contains_frozenset (l : List String) (o : String) : (frozenset l).contains o = l.contains o := by
  rw [Bool.eq_iff_iff, List.contains_iff_mem, List.contains_iff_mem, mem_frozenset]

theorem has_frozenset (l : List String) (o : String) : (Origins.only (frozenset l)).has o = l.contains o := by
  simp only [Origins.has]; exact contains_frozenset l o

/-- what `normOrigins` returns, by argument shape -/
theorem normOrigins_str (s : String) :
    normOrigins (.str s) = if s = "*" then .ok .any else .ok (.only (frozenset [s])) := by
  unfold normOrigins
  by_cases h : s = "*"
  · subst h; simp [pure, Except.pure]
  · have h1 : ¬ (Arg.str s = Arg.str "*") := by intro e; injection e with e; exact h e
    have h2 : ¬ "*" = s := fun e => h e.symm
    simp [h, h1, h2, mem_frozenset, bind, Except.bind, pure, Except.pure]

theorem normOrigins_iter (l : List String) :
    normOrigins (.iter l) = if l.contains "*" then .error .wildcardInOrigins else .ok (.only (frozenset l)) := by
  unfold normOrigins
  have h1 : ¬ (Arg.iter l = Arg.str "*") := by intro e; cases e
  by_cases h : "*" ∈ l <;> simp [h1, mem_frozenset, h, bind, Except.bind, pure, Except.pure, throw, throwThe, MonadExceptOf.throw]

theorem normOrigins_none : normOrigins .none = .error .originsNotIterable := by
  unfold normOrigins; simp [bind, Except.bind, throw, throwThe, MonadExceptOf.throw]

theorem normCredentials_none : normCredentials .none = .ok (.only []) := by
  simp [normCredentials, frozenset, pure, Except.pure]

theorem normCredentials_str (s : String) :
    normCredentials (.str s) = if s = "*" then .ok .any else .ok (.only (frozenset [s])) := by
  unfold normCredentials
  by_cases h : s = "*"
  · subst h; simp [pure, Except.pure]
  · have h1 : ¬ (Arg.str s = Arg.str "*") := by intro e; injection e with e; exact h e
    have h2 : ¬ "*" = s := fun e => h e.symm
    simp [h, h1, h2, mem_frozenset, pure, Except.pure]

theorem normCredentials_iter (l : List String) :
    normCredentials (.iter l) = if l.contains "*" then .error .wildcardInCredentials else .ok (.only (frozenset l)) := by
  unfold normCredentials
  have h1 : ¬ (Arg.iter l = Arg.str "*") := by intro e; cases e
  by_cases h : "*" ∈ l <;> simp [h1, mem_frozenset, h, pure, Except.pure, throw, throwThe, MonadExceptOf.throw]

/-! ### the constructor as a whole -/
theorem normalise_eq (raw : RawConfig) :
    normalise raw = match normOrigins raw.allowOrigins with
      | .error e => .error e
      | .ok ao => match normCredentials raw.allowCredentials with
        | .error e => .error e
        | .ok ac => .ok { allowOrigins := ao, allowCredentials := ac, exposeHeaders := normExpose raw.exposeHeaders } := by
  unfold normalise
  cases normOrigins raw.allowOrigins with
  | error e => rfl
  | ok ao => cases normCredentials raw.allowCredentials with
    | error e => rfl
    | ok ac => rfl

theorem normalise_ok_iff (raw : RawConfig) (c : Cfg) :
    normalise raw = .ok c ↔ normOrigins raw.allowOrigins = .ok c.allowOrigins ∧
      normCredentials raw.allowCredentials = .ok c.allowCredentials ∧ c.exposeHeaders = normExpose raw.exposeHeaders := by
  rw [normalise_eq]
  cases h1 : normOrigins raw.allowOrigins with
  | error e => simp
  | ok ao => cases h2 : normCredentials raw.allowCredentials with
    | error e => simp
    | ok ac =>
      simp only [Except.ok.injEq]
      constructor
      · intro h; subst h; exact ⟨rfl, rfl, rfl⟩
      · intro ⟨a, b, d⟩; cases c; simp_all

def isAny : Origins → Bool
  | .any => true
  | .only _ => false

/-- `normOrigins` against the documented reading of the argument -/
theorem normOrigins_has (a : Arg) (ao : Origins) (h : normOrigins a = .ok ao) :
    (∀ o, ao.has o = a.names o) ∧ (isAny ao = true ↔ a = .str "*") := by
  cases a with
  | none => rw [normOrigins_none] at h; cases h
  | str s =>
    rw [normOrigins_str] at h
    by_cases hs : s = "*"
    · subst hs; simp at h; subst h; simp [Origins.has, Arg.names, isAny]
    · simp [hs] at h; subst h
      refine ⟨fun o => ?_, by simp [isAny, hs]⟩
      have hs' : (s == "*") = false := by simpa using hs
      rw [has_frozenset]; simp only [Arg.names, hs', Bool.false_or]; rw [Bool.eq_iff_iff]; simp
  | iter l =>
    rw [normOrigins_iter] at h
    by_cases hc : "*" ∈ l
    · simp [hc] at h
    · simp [hc] at h; subst h; exact ⟨fun o => by rw [has_frozenset]; rfl, by simp [isAny]⟩

theorem normCredentials_has (a : Arg) (ac : Origins) (h : normCredentials a = .ok ac) :
    ∀ o, ac.has o = a.names o := by
  cases a with
  | none => rw [normCredentials_none] at h; cases h; intro o; simp [Origins.has, Arg.names]
  | str s =>
    rw [normCredentials_str] at h
    by_cases hs : s = "*"
    · subst hs; simp at h; subst h; simp [Origins.has, Arg.names]
    · simp [hs] at h; subst h
      intro o
      have hs' : (s == "*") = false := by simpa using hs
      rw [has_frozenset]; simp only [Arg.names, hs', Bool.false_or]; rw [Bool.eq_iff_iff]; simp
  | iter l =>
    rw [normCredentials_iter] at h
    by_cases hc : "*" ∈ l
    · simp [hc] at h
    · simp [hc] at h; subst h; exact fun o => by rw [has_frozenset]; rfl

/-- **the normalised configuration means what the arguments say**: membership in the normalised `allow_origins` /
    `allow_credentials` is exactly "the argument is the literal `'*'`, or is that very string, or is an iterable containing
    that very string" -/
theorem normalise_has (raw : RawConfig) (c : Cfg) (h : normalise raw = .ok c) :
    (∀ o, c.allowOrigins.has o = raw.allowOrigins.names o) ∧
    (∀ o, c.allowCredentials.has o = raw.allowCredentials.names o) ∧
    (isAny c.allowOrigins = true ↔ raw.allowOrigins = .str "*") ∧
    c.exposeHeaders = normExpose raw.exposeHeaders := by
  obtain ⟨h1, h2, h3⟩ := (normalise_ok_iff raw c).mp h
  exact ⟨(normOrigins_has _ _ h1).1, normCredentials_has _ _ h2, (normOrigins_has _ _ h1).2, h3⟩


/-! ### the policy reads the configuration only through membership tests -/
/-- two configurations that `process_response` cannot tell apart -/
def CfgEquiv (c1 c2 : Cfg) : Prop :=
  (∀ o, c1.allowOrigins.has o = c2.allowOrigins.has o) ∧ isAny c1.allowOrigins = isAny c2.allowOrigins ∧
  (∀ o, c1.allowCredentials.has o = c2.allowCredentials.has o) ∧ c1.exposeHeaders = c2.exposeHeaders

theorem grantStage_eq (c : Cfg) (o : String) (h : Hdrs) :
    grantStage c o h = if (get h .acao).isNone then
        if c.allowCredentials.has o then set (set h .acac "true") .acao o
        else set h .acao (if isAny c.allowOrigins then "*" else o)
      else h := by
  obtain ⟨ao, ac, ex⟩ := c
  cases ao <;> rfl

theorem processF_congr (c1 c2 : Cfg) (he : CfgEquiv c1 c2) (r : Req) (h : Hdrs) (s : Bool) :
    processF c1 r h s = processF c2 r h s := by
  obtain ⟨h1, h2, h3, h4⟩ := he
  cases ho : r.origin with
  | none => rw [noOriginF_untouched c1 r h s ho, noOriginF_untouched c2 r h s ho]
  | some o =>
    cases ha : c1.allowOrigins.has o with
    | false => rw [disallowedF_untouched c1 r h s o ho ha, disallowedF_untouched c2 r h s o ho (by rw [← h1 o]; exact ha)]
    | true =>
      rw [processF_stages c1 r h s o ho ha, processF_stages c2 r h s o ho (by rw [← h1 o]; exact ha)]
      have hg : grantStage c1 o h = grantStage c2 o h := by rw [grantStage_eq, grantStage_eq, h2, h3 o]
      rw [hg]
      unfold exposeStage
      rw [h4]

/-- outcome of two constructor calls: the same error, or configurations the policy cannot tell apart -/
def ResEquiv : Except ConfigError Cfg → Except ConfigError Cfg → Prop
  | .ok c1, .ok c2 => CfgEquiv c1 c2
  | .error e1, .error e2 => e1 = e2
  | _, _ => False

/-- two argument values denoting the same SET of strings (iterables), or equal -/
def Arg.SameSet : Arg → Arg → Prop
  | .iter l1, .iter l2 => ∀ x, x ∈ l1 ↔ x ∈ l2
  | a, b => a = b

theorem contains_congr (l1 l2 : List String) (h : ∀ x, x ∈ l1 ↔ x ∈ l2) (o : String) : l1.contains o = l2.contains o := by
  rw [Bool.eq_iff_iff, List.contains_iff_mem, List.contains_iff_mem]; exact h o

theorem normOrigins_sameSet (a b : Arg) (h : a.SameSet b) :
    match normOrigins a, normOrigins b with
    | .ok x, .ok y => (∀ o, x.has o = y.has o) ∧ isAny x = isAny y
    | .error e1, .error e2 => e1 = e2
    | _, _ => False := by
  cases a with
  | iter l1 => cases b with
    | iter l2 =>
      simp only [Arg.SameSet] at h
      rw [normOrigins_iter, normOrigins_iter, contains_congr l1 l2 h "*"]
      cases l2.contains "*"
      · simp only [Bool.false_eq_true, if_false]
        exact ⟨fun o => by rw [has_frozenset, has_frozenset, contains_congr l1 l2 h o], rfl⟩
      · simp
    | none => cases h
    | str s => cases h
  | none => simp only [Arg.SameSet] at h; subst h; simp [normOrigins_none]
  | str s =>
    simp only [Arg.SameSet] at h; subst h
    cases hn : normOrigins (.str s) <;> simp
theorem normCredentials_sameSet (a b : Arg) (h : a.SameSet b) :
    match normCredentials a, normCredentials b with
    | .ok x, .ok y => ∀ o, x.has o = y.has o
    | .error e1, .error e2 => e1 = e2
    | _, _ => False := by
  cases a with
  | iter l1 => cases b with
    | iter l2 =>
      simp only [Arg.SameSet] at h
      rw [normCredentials_iter, normCredentials_iter, contains_congr l1 l2 h "*"]
      cases l2.contains "*"
      · simp only [Bool.false_eq_true, if_false]
        exact fun o => by rw [has_frozenset, has_frozenset, contains_congr l1 l2 h o]
      · simp
    | none => cases h
    | str s => cases h
  | none => simp only [Arg.SameSet] at h; subst h; simp [normCredentials_none]
  | str s =>
    simp only [Arg.SameSet] at h; subst h
    cases hn : normCredentials (.str s) <;> simp

/-- **the policy depends only on the SET of configured strings**: constructor calls whose `allow_origins` /
    `allow_credentials` iterables have the same members (in any order, with any repetitions) either fail alike or yield
    configurations that `process_response` cannot tell apart -/
theorem normalise_depends_only_on_set (r1 r2 : RawConfig) (ho : r1.allowOrigins.SameSet r2.allowOrigins)
    (hc : r1.allowCredentials.SameSet r2.allowCredentials) (he : r1.exposeHeaders = r2.exposeHeaders) :
    ResEquiv (normalise r1) (normalise r2) := by
  have h1 := normOrigins_sameSet _ _ ho
  have h2 := normCredentials_sameSet _ _ hc
  rw [normalise_eq, normalise_eq, he]
  cases e1 : normOrigins r1.allowOrigins <;> cases e2 : normOrigins r2.allowOrigins <;> simp only [e1, e2] at h1 ⊢
  · exact h1
  · cases e3 : normCredentials r1.allowCredentials <;> cases e4 : normCredentials r2.allowCredentials <;>
      simp only [e3, e4] at h2 ⊢
    · exact h2
    · exact ⟨h1.1, h1.2, h2, rfl⟩

theorem policy_depends_only_on_set (r1 r2 : RawConfig) (c1 c2 : Cfg) (ho : r1.allowOrigins.SameSet r2.allowOrigins)
    (hc : r1.allowCredentials.SameSet r2.allowCredentials) (he : r1.exposeHeaders = r2.exposeHeaders)
    (h1 : normalise r1 = .ok c1) (h2 : normalise r2 = .ok c2) (r : Req) (h : Hdrs) (s : Bool) :
    processF c1 r h s = processF c2 r h s := by
  have := normalise_depends_only_on_set r1 r2 ho hc he
  rw [h1, h2] at this
  exact processF_congr c1 c2 this r h s

/-- order is irrelevant -/
theorem normalise_order_irrelevant (raw : RawConfig) (l1 l2 m1 m2 : List String) (hp : l1.Perm l2) (hq : m1.Perm m2) :
    ResEquiv (normalise { raw with allowOrigins := .iter l1, allowCredentials := .iter m1 })
             (normalise { raw with allowOrigins := .iter l2, allowCredentials := .iter m2 }) :=
  normalise_depends_only_on_set _ _ (fun _ => hp.mem_iff) (fun _ => hq.mem_iff) rfl

/-- repetitions are irrelevant -/
theorem normalise_duplicates_irrelevant (raw : RawConfig) (l m : List String) (x y : String) (hx : x ∈ l) (hy : y ∈ m) :
    ResEquiv (normalise { raw with allowOrigins := .iter (x :: l), allowCredentials := .iter (y :: m) })
             (normalise { raw with allowOrigins := .iter l, allowCredentials := .iter m }) :=
  normalise_depends_only_on_set _ _
    (fun z => by simp only [List.mem_cons]; exact ⟨fun h => h.elim (fun e => e ▸ hx) id, Or.inr⟩)
    (fun z => by simp only [List.mem_cons]; exact ⟨fun h => h.elim (fun e => e ▸ hy) id, Or.inr⟩) rfl

/-- **a single string is the one-element iterable** (for every string but the wildcard literal): the constructor returns the
    very same configuration -/
theorem normalise_string_is_singleton (raw : RawConfig) (s t : String) (hs : s ≠ "*") (ht : t ≠ "*") :
    normalise { raw with allowOrigins := .str s, allowCredentials := .str t }
      = normalise { raw with allowOrigins := .iter [s], allowCredentials := .iter [t] } := by
  have hs' : ¬ "*" = s := fun e => hs e.symm
  have ht' : ¬ "*" = t := fun e => ht e.symm
  rw [normalise_eq, normalise_eq]
  simp only [normOrigins_str, normOrigins_iter, normCredentials_str, normCredentials_iter]
  simp [hs, ht, hs', ht']

/-- … so its membership test is whole-string equality, never a substring test -/
theorem string_membership_is_equality (raw : RawConfig) (c : Cfg) (s t : String) (hs : s ≠ "*") (ht : t ≠ "*")
    (hn : normalise { raw with allowOrigins := .str s, allowCredentials := .str t } = .ok c) (o : String) :
    (c.allowOrigins.has o = true ↔ o = s) ∧ (c.allowCredentials.has o = true ↔ o = t) := by
  obtain ⟨h1, h2, _, _⟩ := normalise_has _ c hn
  have hs' : (s == "*") = false := by simpa using hs
  have ht' : (t == "*") = false := by simpa using ht
  rw [h1 o, h2 o]
  simp [Arg.names, hs', ht']

/-- **a `'*'` inside an iterable is rejected** -/
theorem wildcard_in_iterable_rejected (raw : RawConfig) (l : List String) (h : "*" ∈ l) :
    normalise { raw with allowOrigins := .iter l } = .error .wildcardInOrigins ∧
    (∀ ao, normOrigins raw.allowOrigins = .ok ao →
      normalise { raw with allowCredentials := .iter l } = .error .wildcardInCredentials) := by
  constructor
  · rw [normalise_eq]; simp [normOrigins_iter, h]
  · intro ao hao; rw [normalise_eq]; simp [hao, normCredentials_iter, h]

/-- the constructor fails in exactly these cases -/
theorem normalise_error_iff (raw : RawConfig) :
    (∃ e, normalise raw = .error e) ↔
      raw.allowOrigins = .none ∨ (∃ l, raw.allowOrigins = .iter l ∧ "*" ∈ l) ∨ (∃ l, raw.allowCredentials = .iter l ∧ "*" ∈ l) := by
  rw [normalise_eq]
  cases ha : raw.allowOrigins with
  | none => simp [normOrigins_none]
  | str s =>
    have : ∃ ao, normOrigins (.str s) = .ok ao := by rw [normOrigins_str]; split <;> exact ⟨_, rfl⟩
    obtain ⟨ao, hao⟩ := this
    simp only [hao]
    cases hc : raw.allowCredentials with
    | none => simp [normCredentials_none]
    | str t => by_cases ht : t = "*" <;> simp [normCredentials_str, ht]
    | iter m => rw [normCredentials_iter]; by_cases hm : "*" ∈ m <;> simp [hm]
  | iter l =>
    rw [normOrigins_iter]
    by_cases hl : "*" ∈ l
    · simp [hl]
    · simp only [List.contains_iff_mem, hl, if_false]
      cases hc : raw.allowCredentials with
      | none => simp [normCredentials_none, hl]
      | str t => by_cases ht : t = "*" <;> simp [normCredentials_str, ht, hl]
      | iter m => rw [normCredentials_iter]; by_cases hm : "*" ∈ m <;> simp [hm, hl]

/-! ### expose_headers -/
theorem joinComma_nil : joinComma [] = "" := rfl
theorem joinComma_one (a : String) : joinComma [a] = a := rfl
theorem joinComma_cons (a b : String) (rest : List String) : joinComma (a :: b :: rest) = a ++ ", " ++ joinComma (b :: rest) := rfl

/-- **`expose_headers` is stored as given (a string), or as its items joined with `", "` in iteration order** -/
theorem expose_join_exact (raw : RawConfig) (c : Cfg) (h : normalise raw = .ok c) :
    c.exposeHeaders = match raw.exposeHeaders with
      | .none => none
      | .str s => some s
      | .iter l => some (joinComma l) := by
  rw [((normalise_ok_iff raw c).mp h).2.2]
  cases raw.exposeHeaders <;> rfl

/-- the characters of the joined value: the items' characters with `", "` between consecutive items, nothing else -/
theorem joinComma_toList (l : List String) :
    (joinComma l).toList = List.intercalate [',', ' '] (l.map String.toList) := by
  induction l with
  | nil => rfl
  | cons a rest ih =>
    cases rest with
    | nil => simp [joinComma, List.intercalate]
    | cons b r =>
      rw [joinComma_cons, String.toList_append, String.toList_append, ih]
      simp [List.intercalate]


/-! ## the policy, from the constructor arguments -/

/-- the documented reading of an argument, as a proposition: it is the wildcard literal, or that very string, or an iterable
    with that very string among its items (string equality: whole string, case-sensitive) -/
theorem names_iff (a : Arg) (o : String) :
    a.names o = true ↔ a = .str "*" ∨ a = .str o ∨ ∃ l, a = .iter l ∧ o ∈ l := by
  cases a with
  | none => simp [Arg.names]
  | str s =>
    simp only [Arg.names, Bool.or_eq_true, beq_iff_eq, Arg.str.injEq]
    constructor
    · rintro (h | h)
      · exact Or.inl h
      · exact Or.inr (Or.inl h.symm)
    · rintro (h | h | ⟨l, h, _⟩)
      · exact Or.inl h
      · exact Or.inr h.symm
      · cases h
  | iter l => simp [Arg.names]

/-- **an origin matches iff it is literally configured**: whole-string, case-sensitive equality with a configured string
    (or the wildcard literal passed as a bare string) -/
theorem origin_match_is_exact_equality (raw : RawConfig) (c : Cfg) (hn : normalise raw = .ok c) (o : String) :
    (c.allowOrigins.has o = true ↔
      raw.allowOrigins = .str "*" ∨ raw.allowOrigins = .str o ∨ ∃ l, raw.allowOrigins = .iter l ∧ o ∈ l) ∧
    (c.allowCredentials.has o = true ↔
      raw.allowCredentials = .str "*" ∨ raw.allowCredentials = .str o ∨ ∃ l, raw.allowCredentials = .iter l ∧ o ∈ l) := by
  obtain ⟨h1, h2, _, _⟩ := normalise_has raw c hn
  rw [h1 o, h2 o]
  exact ⟨names_iff _ o, names_iff _ o⟩

-- look-alikes of a configured origin do not match: other case, a suffix added, a proper prefix (substring), a trailing slash
example : (normalise { allowOrigins := .iter ["http://a", "http://b"], allowCredentials := .str "http://a.example" }).toOption.map
    (fun c => (["http://a", "HTTP://A", "http://a.evil", "http://", "http://a/", ""].map c.allowOrigins.has,
               ["http://a.example", "http://a", "a.example", "http://a.example.org"].map c.allowCredentials.has))
    = some ([true, false, false, false, false, false], [true, false, false, false]) := by decide

/-- nothing is touched unless the request's Origin is named by the `allow_origins` argument -/
theorem raw_changed_only_for_allowed_origin (raw : RawConfig) (c : Cfg) (hn : normalise raw = .ok c)
    (r : Req) (h : Hdrs) (s : Bool) (hne : processF c r h s ≠ h) :
    ∃ o, r.origin = some o ∧ raw.allowOrigins.names o = true := by
  obtain ⟨o, ho, ha⟩ := changed_only_for_allowed_origin c r h s hne
  exact ⟨o, ho, by rw [← (normalise_has raw c hn).1 o]; exact ha⟩

/-- credentials are granted only to an Origin named by BOTH the `allow_origins` and the `allow_credentials` argument -/
theorem raw_credentials_only_configured (raw : RawConfig) (c : Cfg) (hn : normalise raw = .ok c)
    (r : Req) (h : Hdrs) (s : Bool) (h0 : get h .acac = none) (hres : (get (processF c r h s) .acac).isSome = true) :
    ∃ o, r.origin = some o ∧ raw.allowOrigins.names o = true ∧ raw.allowCredentials.names o = true := by
  obtain ⟨o, ho, ha, hc⟩ := credentialsF_only_configured c r h s h0 hres
  obtain ⟨h1, h2, _, _⟩ := normalise_has raw c hn
  exact ⟨o, ho, by rw [← h1 o]; exact ha, by rw [← h2 o]; exact hc⟩

/-- in particular: with `allow_credentials=None` (the default) the middleware never grants credentials -/
theorem raw_no_credentials_by_default (raw : RawConfig) (c : Cfg) (hn : normalise raw = .ok c)
    (hd : raw.allowCredentials = .none) (r : Req) (h : Hdrs) (s : Bool) (h0 : get h .acac = none) :
    get (processF c r h s) .acac = none := by
  cases hres : get (processF c r h s) .acac with
  | none => rfl
  | some v =>
    obtain ⟨o, _, _, hc⟩ := raw_credentials_only_configured raw c hn r h s h0 (by rw [hres]; rfl)
    rw [hd] at hc; simp [Arg.names] at hc

/-- whenever the middleware grants credentials it echoes the request's own Origin -/
theorem raw_credentials_imply_echo (raw : RawConfig) (c : Cfg) (_hn : normalise raw = .ok c)
    (r : Req) (h : Hdrs) (s : Bool) (h0 : get h .acac = none) (h1 : get h .acao = none)
    (hres : (get (processF c r h s) .acac).isSome = true) :
    ∃ o, r.origin = some o ∧ get (processF c r h s) .acao = some o :=
  credentialsF_imply_echo c r h s h0 h1 hres

/-- the wildcard never coexists with a credentials grant of the middleware, whatever was passed to the constructor -/
theorem raw_wildcard_never_with_credentials (raw : RawConfig) (c : Cfg) (_hn : normalise raw = .ok c)
    (r : Req) (h : Hdrs) (s : Bool) (h0 : get h .acac = none) (h1 : get h .acao = none) (hstar : r.origin ≠ some "*")
    (hres : (get (processF c r h s) .acac).isSome = true) : get (processF c r h s) .acao ≠ some "*" :=
  wildcard_never_with_credentials c r h s h0 h1 hstar hres

/-- a preflight is approved iff the Origin is named by `allow_origins` and the exchange is a successful OPTIONS with
    Access-Control-Request-Method whose response advertises Allow -/
theorem raw_preflight_approved_iff (raw : RawConfig) (c : Cfg) (hn : normalise raw = .ok c)
    (r : Req) (h : Hdrs) (s : Bool) (hm : get h .acam = none) :
    (get (processF c r h s) .acam).isSome = true ↔
      (∃ o, r.origin = some o ∧ raw.allowOrigins.names o = true) ∧
        s = true ∧ r.isOptions = true ∧ truthy r.acrm = true ∧ (get h .allow).isSome = true := by
  rw [preflight_approved_iff c r h s hm]
  have h1 := (normalise_has raw c hn).1
  constructor
  · rintro ⟨⟨o, ho, ha⟩, rest⟩; exact ⟨⟨o, ho, by rw [← h1 o]; exact ha⟩, rest⟩
  · rintro ⟨⟨o, ho, ha⟩, rest⟩; exact ⟨⟨o, ho, by rw [h1 o]; exact ha⟩, rest⟩

/-- the header the middleware emits for an allowed origin (outside a preflight) is exactly that join -/
theorem raw_expose_header_exact (raw : RawConfig) (c : Cfg) (hn : normalise raw = .ok c) (r : Req) (h : Hdrs) (s : Bool)
    (o : String) (ho : r.origin = some o) (ha : raw.allowOrigins.names o = true)
    (hnp : (s && r.isOptions && truthy r.acrm) = false) (l : List String) (hl : raw.exposeHeaders = .iter l)
    (hne : (joinComma l).isEmpty = false) : get (processF c r h s) .aceh = some (joinComma l) := by
  obtain ⟨n1, _, _, n4⟩ := normalise_has raw c hn
  rw [processF_stages c r h s o ho (by rw [n1 o]; exact ha)]
  unfold preflightStage
  simp only [hnp, Bool.false_eq_true, if_false]
  unfold exposeStage
  rw [n4, hl]
  simp only [normExpose, hne, Bool.not_false, if_true]
  exact get_set_self _ _ _

/-- **the wildcard answer comes only from the wildcard literal**: if the middleware itself answers
    `Access-Control-Allow-Origin: *` to an Origin other than `*`, then `allow_origins` was the bare string `'*'`
    and the Origin is not named by `allow_credentials` -/
theorem raw_wildcard_only_from_literal (raw : RawConfig) (c : Cfg) (hn : normalise raw = .ok c)
    (r : Req) (h : Hdrs) (s : Bool) (h1 : get h .acao = none) (hstar : r.origin ≠ some "*")
    (hres : get (processF c r h s) .acao = some "*") :
    raw.allowOrigins = .str "*" ∧ ∃ o, r.origin = some o ∧ raw.allowCredentials.names o = false := by
  obtain ⟨n1, n2, n3, _⟩ := normalise_has raw c hn
  cases ho : r.origin with
  | none => rw [noOriginF_untouched c r h s ho, h1] at hres; cases hres
  | some o =>
    have hostar : o ≠ "*" := fun e => hstar (by rw [ho, e])
    cases ha : c.allowOrigins.has o with
    | false => rw [disallowedF_untouched c r h s o ho ha, h1] at hres; cases hres
    | true =>
      rw [processF_stages c r h s o ho ha] at hres
      have e1 : get (exposeStage c (grantStage c o h)) .acao
          = some (if c.allowCredentials.has o then o else if isAny c.allowOrigins then "*" else o) := by
        rw [exposeStage_get _ _ _ (by simp), grantStage_eq]
        simp only [h1, Option.isNone_none, if_true]
        cases c.allowCredentials.has o <;> simp [get_set_self]
      have e2 : get (preflightStage r s (exposeStage c (grantStage c o h))) .acao = some "*" →
          get (exposeStage c (grantStage c o h)) .acao = some "*" := by
        unfold preflightStage
        repeat' split
        all_goals simp [get_set_ne, get_del_ne, get_del_self]
      have e3 := e2 hres
      rw [e1] at e3
      cases hc : c.allowCredentials.has o with
      | true => simp [hc] at e3; exact absurd e3 hostar
      | false =>
        cases hany : isAny c.allowOrigins with
        | false => simp [hc, hany] at e3; exact absurd e3 hostar
        | true => exact ⟨n3.mp hany, o, rfl, by rw [← n2 o]; exact hc⟩


/-! ## `cors_enable` wiring -/
def corsCount (st : List Mw) : Nat := (st.filter Mw.isCors).length

theorem addMiddleware_eq (ce : Bool) (st : List Mw) (arg : MwArg) :
    addMiddleware ce st arg =
      if ce = true ∧ corsCount (st ++ arg.items) > 1 ∧ arg.items ≠ [] then .error .corsTwice else .ok (st ++ arg.items) := by
  unfold addMiddleware corsCount
  cases arg with
  | none => simp [MwArg.items, pure, Except.pure]
  | single m => simp [MwArg.items, pure, Except.pure, throw, throwThe, MonadExceptOf.throw]
  | iter l =>
    cases l with
    | nil => simp [MwArg.items, pure, Except.pure]
    | cons x xs => simp [MwArg.items, pure, Except.pure, throw, throwThe, MonadExceptOf.throw]

theorem corsCount_append (a b : List Mw) : corsCount (a ++ b) = corsCount a + corsCount b := by
  simp [corsCount, List.filter_append]

theorem corsCount_zero_iff (l : List Mw) : corsCount l = 0 ↔ l.any Mw.isCors = false := by
  induction l with
  | nil => simp [corsCount]
  | cons x xs ih =>
    cases hx : x.isCors <;> simp [corsCount, hx] at ih ⊢

/-- **`cors_enable=True` adds exactly one CORSMiddleware, at the end of the stack** — or refuses to build the app, which it
    does exactly when the caller passed a CORSMiddleware of their own -/
theorem cors_enable_adds_exactly_one (arg : MwArg) :
    (arg.items.any Mw.isCors = false ∧ appInit true arg = .ok (arg.items ++ [Mw.cors true]) ∧
        corsCount (arg.items ++ [Mw.cors true]) = 1) ∨
    (arg.items.any Mw.isCors = true ∧ appInit true arg = .error .corsTwice) := by
  unfold appInit
  simp only [if_true]
  rw [addMiddleware_eq]
  have hi : (MwArg.iter (arg.items ++ [Mw.cors true])).items = arg.items ++ [Mw.cors true] := rfl
  simp only [hi, List.nil_append, true_and]
  have hc : corsCount (arg.items ++ [Mw.cors true]) = corsCount arg.items + 1 := by
    rw [corsCount_append]; rfl
  cases hany : arg.items.any Mw.isCors with
  | false =>
    left
    have h0 := (corsCount_zero_iff _).mpr hany
    refine ⟨rfl, ?_, by rw [hc, h0]⟩
    simp [hc, h0]
  | true =>
    right
    have h0 : corsCount arg.items ≠ 0 := by
      intro h; rw [(corsCount_zero_iff _).mp h] at hany; cases hany
    refine ⟨rfl, ?_⟩
    have : corsCount arg.items + 1 > 1 := by omega
    simp [hc, this]

/-- without `cors_enable` the stack is the caller's list, verbatim — any number of CORSMiddleware objects included -/
theorem no_cors_enable_verbatim (arg : MwArg) : appInit false arg = .ok arg.items := by
  unfold appInit
  simp only [Bool.false_eq_true, if_false]
  rw [addMiddleware_eq]; simp

/-- `add_middleware` with `cors_enable`: accepted iff the argument brings no further CORSMiddleware (when one is there) -/
theorem addMiddleware_keeps_one (st : List Mw) (arg : MwArg) (h1 : corsCount st = 1) :
    (arg.items.any Mw.isCors = false ∧ addMiddleware true st arg = .ok (st ++ arg.items)) ∨
    (arg.items.any Mw.isCors = true ∧ addMiddleware true st arg = .error .corsTwice) := by
  rw [addMiddleware_eq, corsCount_append, h1]
  cases hany : arg.items.any Mw.isCors with
  | false =>
    left
    have h0 := (corsCount_zero_iff _).mpr hany
    simp [h0]
  | true =>
    right
    have h0 : corsCount arg.items ≠ 0 := by
      intro h; rw [(corsCount_zero_iff _).mp h] at hany; cases hany
    have hne : arg.items ≠ [] := by intro e; rw [e] at hany; cases hany
    have : 1 + corsCount arg.items > 1 := by omega
    simp [this, hne]

/-- **the invariant**: however many `add_middleware` calls follow (accepted or refused), an app built with
    `cors_enable=True` has exactly one CORSMiddleware in its stack, and the components before it are never disturbed -/
theorem cors_enable_invariant (adds : List MwArg) : ∀ (st : List Mw), corsCount st = 1 →
    corsCount (runAdds true st adds).1 = 1 ∧ ∃ more, (runAdds true st adds).1 = st ++ more := by
  induction adds with
  | nil => intro st h; exact ⟨h, [], by simp [runAdds]⟩
  | cons a rest ih =>
    intro st h
    rcases addMiddleware_keeps_one st a h with ⟨hany, hok⟩ | ⟨_, herr⟩
    · have hc : corsCount (st ++ a.items) = 1 := by
        rw [corsCount_append, h, (corsCount_zero_iff _).mpr hany]
      obtain ⟨i1, more, i2⟩ := ih (st ++ a.items) hc
      simp only [runAdds, hok]
      exact ⟨i1, a.items ++ more, by rw [i2, List.append_assoc]⟩
    · obtain ⟨i1, more, i2⟩ := ih st h
      simp only [runAdds, herr]
      exact ⟨i1, more, i2⟩

-- the three shapes of the `middleware` argument, and a later add_middleware that is refused
example : appInit true .none = .ok [.cors true] := by rfl
example : appInit true (.single (.other 1)) = .ok [.other 1, .cors true] := by rfl
example : appInit true (.iter [.other 1, .other 2]) = .ok [.other 1, .other 2, .cors true] := by rfl
example : appInit true (.iter [.other 1, .cors false]) = .error .corsTwice := by rfl
example : appInit false (.iter [.cors false, .cors false]) = .ok [.cors false, .cors false] := by rfl
example : runAdds true [.other 1, .cors true] [.single (.other 2), .single (.cors false), .iter [.other 3]]
    = ([.other 1, .cors true, .other 2, .other 3], [true, false, true]) := by rfl


open Pl

/-! ## the CORS component inside `App.__call__` (C03 model `Pl.run`, theorem `Pl.run_eq_spec`) -/

/-- `resource is not None` as `process_response` receives it -/
def hasResource (cfg : Pl.Cfg) : Bool :=
  (stopAct (reqs (enum cfg.comps))).isNone && (cfg.target == .route || cfg.target == .noMethod)

/-- the documented `req_succeeded` at the start of the response phase: nothing raised — no `process_request`, no
    `process_resource`, not the responder (resource method, sink or static route), and the framework's own 404 / 405
    responder was not the one that ran -/
def documentedSuccess (cfg : Pl.Cfg) : Bool :=
  let cs := enum cfg.comps
  let reqStop := stopAct (reqs cs)
  let rsrcStop := if hasResource cfg then stopAct (rsrcs cs) else none
  let reach := reqStop.isNone && rsrcStop.isNone
  !(reqStop == some .raise_ || rsrcStop == some .raise_ ||
    (reach && (((cfg.target == .route || cfg.target == .sink) && cfg.responder == .raise_) || cfg.target == .noMethod || cfg.target == .nothing)))

/-- whose `process_response` is called, first call first -/
def respOrder (cfg : Pl.Cfg) : List Nat :=
  if cfg.independent then (((enum cfg.comps).filter (·.2.resp.isSome)).map (·.1)).reverse
  else (((reached (enum cfg.comps) false).filter (·.2.resp.isSome)).map (·.1)).reverse

theorem run_response_phase (cfg : Pl.Cfg) :
    ∃ before, run cfg = before ++ respSpec (enum cfg.comps) (hasResource cfg) (respOrder cfg) (documentedSuccess cfg) := by
  rw [run_eq_spec]
  exact ⟨_, rfl⟩

theorem withFlags_split (hr : Bool) : ∀ (a1 : List (Nat × Act)) (ok : Bool) (i : Nat) (act : Act) (a2 : List (Nat × Act)),
    withFlags hr (a1 ++ (i, act) :: a2) ok
      = withFlags hr a1 ok ++ Call.resp i hr (ok && a1.all (·.2 != .raise_)) ::
          withFlags hr a2 (ok && a1.all (·.2 != .raise_) && act != .raise_)
  | [], ok, i, act, a2 => by simp [withFlags]
  | (j, b) :: rest, ok, i, act, a2 => by
    have := withFlags_split hr rest (ok && b != .raise_) i act a2
    simp only [List.cons_append, withFlags, this, List.all_cons, Bool.and_assoc]

theorem respActs_append (cs : List (Nat × Comp)) (o1 o2 : List Nat) :
    respActs cs (o1 ++ o2) = respActs cs o1 ++ respActs cs o2 := by
  unfold respActs; rw [List.filterMap_append]

theorem enum_mem_iff (comps : List Comp) (j : Nat) (c : Comp) : (j, c) ∈ enum comps ↔ comps[j]? = some c := by
  unfold enum
  rw [List.mem_iff_getElem?]
  constructor
  · rintro ⟨k, hk⟩
    rw [List.getElem?_zip_eq_some] at hk
    obtain ⟨h1, h2⟩ := hk
    have hk' : k < comps.length := by
      have := List.getElem?_eq_some_iff.mp h2; exact this.1
    rw [List.getElem?_range hk'] at h1
    simp only [Option.some.injEq] at h1
    subst h1; exact h2
  · intro h
    have hk' : j < comps.length := (List.getElem?_eq_some_iff.mp h).1
    exact ⟨j, by rw [List.getElem?_zip_eq_some]; exact ⟨List.getElem?_range hk', h⟩⟩

theorem enum_lookup (comps : List Comp) (j : Nat) (c : Comp) (h : comps[j]? = some c) :
    (enum comps).find? (·.1 == j) = some (j, c) :=
  find_self _ (enum_nodup comps) (j, c) ((enum_mem_iff comps j c).mpr h)

theorem enum_pairwise (comps : List Comp) : (enum comps).Pairwise (fun a b => a.1 < b.1) := by
  have h : ((enum comps).map (·.1)).Pairwise (· < ·) := by
    unfold enum; rw [List.map_fst_zip (by simp)]; exact List.pairwise_lt_range
  exact List.pairwise_map.mp h

theorem reached_sublist : ∀ (cs : List (Nat × Comp)) (cp : Bool), (reached cs cp).Sublist cs := by
  intro cs
  induction cs with
  | nil => intro cp; simp [reached]
  | cons x xs ih =>
    intro cp
    obtain ⟨i, c⟩ := x
    simp only [reached]
    split
    · exact List.nil_sublist _
    · exact (ih _).cons_cons _

/-- the response stack is strictly bottom-up: later-registered components first -/
theorem respOrder_decreasing (cfg : Pl.Cfg) : (respOrder cfg).Pairwise (· > ·) := by
  unfold respOrder
  have hp := enum_pairwise cfg.comps
  split
  · rw [List.pairwise_reverse, List.pairwise_map]
    exact (hp.filter _).imp (fun h => h)
  · rw [List.pairwise_reverse, List.pairwise_map]
    exact ((hp.sublist (reached_sublist _ _)).filter _).imp (fun h => h)

theorem respOrder_mem (cfg : Pl.Cfg) (j : Nat) (hj : j ∈ respOrder cfg) :
    ∃ c, cfg.comps[j]? = some c ∧ c.resp.isSome = true := by
  unfold respOrder at hj
  split at hj
  · simp only [List.mem_reverse, List.mem_map, List.mem_filter] at hj
    obtain ⟨x, ⟨hx, hr⟩, rfl⟩ := hj
    exact ⟨x.2, (enum_mem_iff _ _ _).mp hx, hr⟩
  · simp only [List.mem_reverse, List.mem_map, List.mem_filter] at hj
    obtain ⟨x, ⟨hx, hr⟩, rfl⟩ := hj
    exact ⟨x.2, (enum_mem_iff _ _ _).mp (reached_sub _ _ x hx), hr⟩

/-- **the flag a component's `process_response` receives**: if component `i` is on the response stack, its
    `process_response` is called with `resource is not None` and `req_succeeded` = the documented success of the request,
    provided no `process_response` of a component registered after it (those run first) raised -/
theorem response_call_of_member (cfg : Pl.Cfg) (i : Nat) (hi : i ∈ respOrder cfg)
    (hlater : ∀ j c, i < j → cfg.comps[j]? = some c → c.resp ≠ some .raise_) :
    Call.resp i (hasResource cfg) (documentedSuccess cfg) ∈ run cfg := by
  obtain ⟨before, hrun⟩ := run_response_phase cfg
  obtain ⟨ci, hci, hcr⟩ := respOrder_mem cfg i hi
  obtain ⟨o1, o2, hsplit⟩ := List.append_of_mem hi
  have hdec := respOrder_decreasing cfg
  rw [hsplit, List.pairwise_append] at hdec
  have hgt : ∀ j ∈ o1, i < j := fun j hj => hdec.2.2 j hj i List.mem_cons_self
  obtain ⟨ai, hai⟩ := Option.isSome_iff_exists.mp hcr
  have hlook : ((enum cfg.comps).find? (·.1 == i)).bind (·.2.resp) = some ai := by
    rw [enum_lookup _ _ _ hci]; exact hai
  have hall : (respActs (enum cfg.comps) o1).all (·.2 != .raise_) = true := by
    rw [List.all_eq_true]
    intro x hx
    unfold respActs at hx
    simp only [List.mem_filterMap] at hx
    obtain ⟨j, hj, hjx⟩ := hx
    have hjo : j ∈ respOrder cfg := by rw [hsplit]; exact List.mem_append_left _ hj
    obtain ⟨cj, hcj, _⟩ := respOrder_mem cfg j hjo
    rw [enum_lookup _ _ _ hcj] at hjx
    simp only [Option.bind_some, Option.map_eq_some_iff] at hjx
    obtain ⟨a, ha, rfl⟩ := hjx
    have := hlater j cj (hgt j hj) hcj
    rw [ha] at this
    simp only [bne_iff_ne, ne_eq]
    intro e; apply this; rw [e]
  rw [hrun, hsplit]
  apply List.mem_append_right
  unfold respSpec
  rw [respActs_append, respActs_cons_some _ _ _ _ hlook, withFlags_split, hall, Bool.and_true]
  exact List.mem_append_right _ List.mem_cons_self


/-! ### is the CORS component on the response stack? -/
theorem corsComp_resp : corsComp.resp.isSome = true := rfl

/-- independent mode: always -/
theorem mem_respOrder_independent (cfg : Pl.Cfg) (i : Nat) (c : Comp) (hind : cfg.independent = true)
    (hi : cfg.comps[i]? = some c) (hr : c.resp.isSome = true) : i ∈ respOrder cfg := by
  unfold respOrder
  simp only [hind, if_true, List.mem_reverse, List.mem_map, List.mem_filter]
  exact ⟨(i, c), ⟨(enum_mem_iff _ _ _).mpr hi, hr⟩, rfl⟩

theorem reached_true : ∀ (cs : List (Nat × Comp)), reached cs true = cs := by
  intro cs
  induction cs with
  | nil => rfl
  | cons x xs ih => obtain ⟨i, c⟩ := x; simp [reached, ih]

theorem reached_append : ∀ (l1 l2 : List (Nat × Comp)),
    reached (l1 ++ l2) false = match stopAct (reqs l1) with
      | some .raise_ => reached l1 false
      | some .complete => l1 ++ l2
      | _ => l1 ++ reached l2 false := by
  intro l1 l2
  induction l1 with
  | nil => simp [reqs, stopAct]
  | cons x xs ih =>
    obtain ⟨i, c⟩ := x
    have e1 : (some Act.ret == some Act.raise_) = false := by decide
    have e2 : (some Act.ret == some Act.complete) = false := by decide
    have e3 : (some Act.complete == some Act.raise_) = false := by decide
    cases hr : c.req with
    | none =>
      simp only [List.cons_append, reached, hr, reqs, List.filterMap_cons, Option.map_none] at ih ⊢
      simp only [Option.isSome_none, Bool.false_and, Bool.false_eq_true, if_false, Bool.or_false, ih]
      split <;> simp_all
    | some a =>
      cases a with
      | ret =>
        simp only [List.cons_append, reached, hr, reqs, List.filterMap_cons, Option.map_some, stopAct] at ih ⊢
        simp only [Option.isSome_some, Bool.not_false, Bool.and_true, Bool.true_and, e1, e2, Bool.false_eq_true, if_false,
          Bool.or_false, ih]
        split <;> simp_all
      | complete =>
        simp only [List.cons_append, reached, hr, reqs, List.filterMap_cons, Option.map_some, stopAct]
        simp [e3, reached_true]
      | raise_ =>
        simp only [List.cons_append, reached, hr, reqs, List.filterMap_cons, Option.map_some, stopAct]
        simp

theorem split_at (l : List (Nat × Comp)) (i : Nat) (x : Nat × Comp) (h : l[i]? = some x) :
    l = l.take i ++ x :: l.drop (i + 1) := by
  obtain ⟨hlt, hx⟩ := List.getElem?_eq_some_iff.mp h
  conv => lhs; rw [← List.take_append_drop i l]
  rw [List.drop_eq_getElem_cons hlt, hx]

theorem enum_getElem? (comps : List Comp) (i : Nat) (c : Comp) (h : comps[i]? = some c) : (enum comps)[i]? = some (i, c) := by
  unfold enum
  rw [List.getElem?_zip_eq_some]
  exact ⟨List.getElem?_range (List.getElem?_eq_some_iff.mp h).1, h⟩

/-- what the request phase did before it got to component `i` -/
def stopBefore (cfg : Pl.Cfg) (i : Nat) : Option Act := stopAct (reqs ((enum cfg.comps).take i))

/-- dependent mode: **iff no `process_request` of a component registered before it raised** (the CORS middleware has no
    `process_request` of its own, so "its request method was reached" means exactly this) -/
theorem mem_respOrder_dependent (cfg : Pl.Cfg) (i : Nat) (hdep : cfg.independent = false)
    (hi : cfg.comps[i]? = some corsComp) : i ∈ respOrder cfg ↔ stopBefore cfg i ≠ some .raise_ := by
  have hsplit := split_at _ i _ (enum_getElem? _ _ _ hi)
  have hmem : i ∈ respOrder cfg ↔ (i, corsComp) ∈ reached (enum cfg.comps) false := by
    unfold respOrder
    simp only [hdep, Bool.false_eq_true, if_false, List.mem_reverse, List.mem_map, List.mem_filter]
    constructor
    · rintro ⟨x, ⟨hx, _⟩, rfl⟩
      have hx' := (enum_mem_iff _ _ _).mp (reached_sub _ _ x hx)
      rw [hi] at hx'
      have : x = (x.1, corsComp) := by cases x; simp only [Option.some.injEq] at hx'; simp [hx']
      rw [← this]; exact hx
    · intro hx; exact ⟨(i, corsComp), ⟨hx, rfl⟩, rfl⟩
  rw [hmem]
  unfold stopBefore
  generalize hl1 : (enum cfg.comps).take i = l1 at hsplit ⊢
  generalize hl2 : (enum cfg.comps).drop (i + 1) = l2 at hsplit
  have hra := reached_append l1 ((i, corsComp) :: l2)
  rw [← hsplit] at hra
  have hx : reached ((i, corsComp) :: l2) false = (i, corsComp) :: reached l2 false := by
    simp [reached, corsComp]
  have hnot : (i, corsComp) ∉ l1 := by
    intro hin
    have hp := enum_pairwise cfg.comps
    rw [hsplit, List.pairwise_append] at hp
    have := hp.2.2 _ hin (i, corsComp) List.mem_cons_self
    exact Nat.lt_irrefl _ this
  cases hs : stopAct (reqs l1) with
  | none => rw [hs] at hra; simp only at hra; rw [hra, hx]; simp
  | some a =>
    cases a with
    | ret => exact absurd hs (stopAct_ne_ret _)
    | complete => rw [hs] at hra; simp only at hra; rw [hra, hsplit]; simp
    | raise_ =>
      rw [hs] at hra; simp only at hra; rw [hra]
      simp only [ne_eq, not_true_eq_false, iff_false]
      intro hin; exact hnot (reached_sub _ _ _ hin)

/-- independent mode: the CORS `process_response` runs **exactly once** per request -/
theorem cors_response_exactly_once (cfg : Pl.Cfg) (i : Nat) (hind : cfg.independent = true)
    (hi : cfg.comps[i]? = some corsComp) : ((run cfg).filterMap respIdx).count i = 1 := by
  rw [independent_resp_once cfg hind, List.count_reverse]
  have hnd : (((enum cfg.comps).filter (·.2.resp.isSome)).map (·.1)).Nodup :=
    (enum_nodup cfg.comps).sublist (List.filter_sublist.map _)
  rw [hnd.count]
  have : i ∈ ((enum cfg.comps).filter (·.2.resp.isSome)).map (·.1) := by
    simp only [List.mem_map, List.mem_filter]
    exact ⟨(i, corsComp), ⟨(enum_mem_iff _ _ _).mpr hi, rfl⟩, rfl⟩
  simp [this]

/-- dependent mode: at most once, and not at all when an earlier `process_request` raised -/
theorem cors_response_dependent_count (cfg : Pl.Cfg) (i : Nat) (hdep : cfg.independent = false)
    (hi : cfg.comps[i]? = some corsComp) :
    ((run cfg).filterMap respIdx).count i = if stopBefore cfg i = some .raise_ then 0 else 1 := by
  rw [dependent_resp_stack cfg hdep, List.count_reverse]
  have hnd : (((reached (enum cfg.comps) false).filter (·.2.resp.isSome)).map (·.1)).Nodup :=
    (enum_nodup cfg.comps).sublist ((List.filter_sublist.trans (reached_sublist _ _)).map _)
  rw [hnd.count]
  have hm := mem_respOrder_dependent cfg i hdep hi
  unfold respOrder at hm
  simp only [hdep, Bool.false_eq_true, if_false, List.mem_reverse] at hm
  by_cases hs : stopBefore cfg i = some .raise_
  · have : ¬ i ∈ ((reached (enum cfg.comps) false).filter (·.2.resp.isSome)).map (·.1) := fun h => (hm.mp h) hs
    simp [hs, this]
  · simp [hs, hm.mpr hs]


/-! ### the CORS `process_response` call, with its arguments -/

/-- independent mode (the default): the CORS `process_response` always runs, with the documented `req_succeeded` — whatever the
    request was routed to, whatever completed or raised before -/
theorem cors_process_response_independent (cfg : Pl.Cfg) (i : Nat) (hind : cfg.independent = true)
    (hi : cfg.comps[i]? = some corsComp)
    (hlater : ∀ j c, i < j → cfg.comps[j]? = some c → c.resp ≠ some .raise_) :
    Call.resp i (hasResource cfg) (documentedSuccess cfg) ∈ run cfg :=
  response_call_of_member cfg i (mem_respOrder_independent cfg i _ hind hi corsComp_resp) hlater

/-- dependent mode: the same, whenever no `process_request` registered before the CORS middleware raised -/
theorem cors_process_response_dependent (cfg : Pl.Cfg) (i : Nat) (hdep : cfg.independent = false)
    (hi : cfg.comps[i]? = some corsComp) (hreach : stopBefore cfg i ≠ some .raise_)
    (hlater : ∀ j c, i < j → cfg.comps[j]? = some c → c.resp ≠ some .raise_) :
    Call.resp i (hasResource cfg) (documentedSuccess cfg) ∈ run cfg :=
  response_call_of_member cfg i ((mem_respOrder_dependent cfg i hdep hi).mpr hreach) hlater

theorem comps_append (beh : Nat → Comp) (a b : List Mw) : comps beh (a ++ b) = comps beh a ++ comps beh b := by
  induction a with
  | nil => rfl
  | cons x xs ih => cases x <;> simp [comps, ih]

theorem comps_length (beh : Nat → Comp) (a : List Mw) : (comps beh a).length = a.length := by
  induction a with
  | nil => rfl
  | cons x xs ih => cases x <;> simp [comps, ih]

/-- **an app built with `cors_enable=True`**: the one CORS component is the last of the stack, so its `process_response` is the
    first to run and receives exactly the documented `req_succeeded` — in independent mode always, in dependent mode unless a
    `process_request` of the caller's middleware raised -/
theorem cors_enable_process_response (arg : MwArg) (st : List Mw) (h : appInit true arg = .ok st) (beh : Nat → Comp)
    (indep : Bool) (t : Target) (ra : Act) :
    let cfg : Pl.Cfg := { comps := comps beh st, independent := indep, target := t, responder := ra }
    (indep = true ∨ stopBefore cfg arg.items.length ≠ some .raise_) →
      Call.resp arg.items.length (hasResource cfg) (documentedSuccess cfg) ∈ run cfg := by
  intro cfg hmode
  have hst : st = arg.items ++ [Mw.cors true] := by
    rcases cors_enable_adds_exactly_one arg with ⟨_, hok, _⟩ | ⟨_, herr⟩
    · rw [hok] at h; injection h with h; exact h.symm
    · rw [herr] at h; cases h
  have hi : cfg.comps[arg.items.length]? = some corsComp := by
    show (comps beh st)[arg.items.length]? = some corsComp
    rw [hst, comps_append, List.getElem?_append_right (by rw [comps_length]; exact Nat.le_refl _), comps_length]
    simp [comps]
  have hlen : cfg.comps.length = arg.items.length + 1 := by
    show (comps beh st).length = _
    rw [comps_length, hst]; simp
  have hlater : ∀ j c, arg.items.length < j → cfg.comps[j]? = some c → c.resp ≠ some .raise_ := by
    intro j c hj hc
    have := (List.getElem?_eq_some_iff.mp hc).1
    omega
  cases hind : indep with
  | true => exact cors_process_response_independent cfg _ hind hi hlater
  | false =>
    rcases hmode with hm | hm
    · rw [hind] at hm; cases hm
    · exact cors_process_response_dependent cfg _ hind hi hm hlater

/-! ### the documented `req_succeeded`, by kind of request -/

/-- middleware that lets the request through (every `process_request` / `process_resource` that exists just returns): the
    flag depends on the routing outcome and the responder alone —
    routed resource: `resource` set, succeeded unless the responder raised; sink or static route: `resource` is None, succeeded
    unless it raised; no responder for the method (405): `resource` set, not succeeded; nothing matched (404): not succeeded -/
theorem req_succeeded_by_target (cfg : Pl.Cfg) (h1 : stopAct (reqs (enum cfg.comps)) = none)
    (h2 : stopAct (rsrcs (enum cfg.comps)) = none) :
    hasResource cfg = (cfg.target == .route || cfg.target == .noMethod) ∧
    documentedSuccess cfg = ((cfg.target == .route || cfg.target == .sink) && cfg.responder != .raise_) := by
  unfold documentedSuccess hasResource
  simp only [h1, h2]
  cases cfg.target <;> cases cfg.responder <;> decide

/-- a request rejected by a `process_request` (raise): `resource` is None and `req_succeeded` is False -/
theorem req_failed_in_middleware (cfg : Pl.Cfg) (h1 : stopAct (reqs (enum cfg.comps)) = some .raise_) :
    hasResource cfg = false ∧ documentedSuccess cfg = false := by
  unfold documentedSuccess hasResource
  simp only [h1]
  cases cfg.target <;> cases cfg.responder <;> simp

/-- a request rejected by a `process_resource` (raise) after a route matched: `req_succeeded` is False -/
theorem req_failed_in_resource_middleware (cfg : Pl.Cfg) (h1 : stopAct (reqs (enum cfg.comps)) = none)
    (ht : cfg.target = .route ∨ cfg.target = .noMethod) (h2 : stopAct (rsrcs (enum cfg.comps)) = some .raise_) :
    hasResource cfg = true ∧ documentedSuccess cfg = false := by
  unfold documentedSuccess hasResource
  simp only [h1, h2]
  rcases ht with ht | ht <;> rw [ht] <;> cases cfg.responder <;> simp

-- cors_enable=True next to one other component: routed / sink or static / unrouted / failing responder, and dependent mode
-- with the other component's process_request raising (CORS is skipped)
example : run { comps := comps (fun _ => ⟨some .ret, none, some .ret⟩) [.other 0, .cors true], independent := true, target := .route, responder := .ret }
    = [.req 0, .responder, .resp 1 true true, .resp 0 true true] := by decide
example : run { comps := comps (fun _ => ⟨some .ret, none, some .ret⟩) [.other 0, .cors true], independent := true, target := .sink, responder := .ret }
    = [.req 0, .responder, .resp 1 false true, .resp 0 false true] := by decide
example : run { comps := comps (fun _ => ⟨some .ret, none, some .ret⟩) [.other 0, .cors true], independent := true, target := .nothing, responder := .ret }
    = [.req 0, .resp 1 false false, .resp 0 false false] := by decide
example : run { comps := comps (fun _ => ⟨some .ret, none, some .ret⟩) [.other 0, .cors true], independent := true, target := .route, responder := .raise_ }
    = [.req 0, .responder, .resp 1 true false, .resp 0 true false] := by decide
example : run { comps := comps (fun _ => ⟨some .raise_, none, some .ret⟩) [.other 0, .cors true], independent := true, target := .route, responder := .ret }
    = [.req 0, .resp 1 false false, .resp 0 false false] := by decide
example : run { comps := comps (fun _ => ⟨some .raise_, none, some .ret⟩) [.other 0, .cors true], independent := false, target := .route, responder := .ret }
    = [.req 0] := by decide


end Cg

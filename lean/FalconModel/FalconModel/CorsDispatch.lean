import FalconModel.Dispatch
import FalconModel.Cors
/-! C20, the producers of the `Allow` header composed with the CORS policy.

    `Cd.exchange` = one request through an app whose only middleware is `CORSMiddleware` (the wiring with other middleware is
    `Cg` / `Pl.run`): the responder `App._get_responder` chooses (`Dp`, for the app's whole registration history), what that
    responder leaves on the response header map, and then `CORSMiddleware.process_response` (`Co.processF`) on the result.

    Transcribed here (the rest is imported):
    * `falcon/responders.py` `create_default_options`: `resp.status = HTTP_200; resp.set_header('Allow', ', '.join(allowed));
      resp.set_header('Content-Length', '0')` - returns, so `req_succeeded` is True;
    * `create_method_not_allowed`: raises `HTTPMethodNotAllowed(allowed)`; `_compose_error_response` does
      `resp.set_headers(error.headers)` = `Allow: ', '.join(allowed)`; `req_succeeded` is False;
    * `bad_request` / `path_not_found`: raise an error without headers; `req_succeeded` is False;
    * `falcon/routing/static.py` `StaticRoute.__call__`: `if req.method == 'OPTIONS': resp.set_header('Allow', 'GET');
      resp.set_header('Content-Length', '0'); return` - before any look at the path or the file system;
    * a resource's own responder, a sink, a static route for another method: application code, modelled by what it does to
      the header map (`Act`: a sequence of `set_header` calls, then return or raise). -/
namespace Cd
open Co (H Hdrs)

/-- `Content-Length` is one of the headers the policy never looks at -/
def contentLength : H := .other 0

/-- what application code (a resource's own responder, a sink, a static route serving a file) does to the response headers:
    `set_header` calls in order, then it returns or raises (whatever it raises: `req_succeeded` becomes False) -/
structure Act where
  sets : List (H × String) := []
  raises : Bool := false
deriving Repr

def Act.run (a : Act) (h : Hdrs) : Hdrs := a.sets.foldl (fun h kv => Co.set h kv.1 kv.2) h

/-- the response header map after the chosen responder ran on `pre`, and `req_succeeded` -/
def respond (acts : Dp.Responder → Act) (isOptions : Bool) (pre : Hdrs) : Dp.Responder → Hdrs × Bool
  | .options al => (Co.set (Co.set pre .allow (", ".intercalate al)) contentLength "0", true)
  | .notAllowed al => (Co.set pre .allow (", ".intercalate al), false)
  | .badRequest => (pre, false)
  | .notFound => (pre, false)
  | .static id =>
    if isOptions then (Co.set (Co.set pre .allow "GET") contentLength "0", true)
    else ((acts (.static id)).run pre, !(acts (.static id)).raises)
  | r => ((acts r).run pre, !(acts r).raises)

/-- an application as far as this composition is concerned: its `add_route` / `add_sink` / `add_static_route` history -/
structure Site where
  combined : List Dp.Method
  hist : List Dp.RouteReg
  adds : List Dp.Add := []
  sinkFirst : Option Bool := none
deriving Repr

def Site.app (s : Site) : Dp.App := s.adds.foldl Dp.App.add (Dp.App.init s.sinkFirst)
def Site.routes (s : Site) : Dp.Routes := Dp.routesOf s.combined s.hist

/-- the responder for a request whose path the router resolved to the node registered under `tmpl` (`none`: no node) -/
def Site.responder (s : Site) (tmpl : Option String) (hits : Dp.Kind × Nat → Bool) (method : Dp.Method) : Dp.Responder :=
  s.app.dispatchHttp ((tmpl.bind s.routes.find).map (·.mm)) method hits

/-- the request as the policy and dispatch see it -/
structure Rq where
  method : Dp.Method
  origin : Option String
  acrm : Option String
  acrh : Option String
deriving Repr

def Rq.co (r : Rq) : Co.Req := { origin := r.origin, isOptions := r.method == "OPTIONS", acrm := r.acrm, acrh := r.acrh }

/-- one exchange: dispatch, responder, then `CORSMiddleware.process_response` -/
def exchange (c : Co.Cfg) (s : Site) (acts : Dp.Responder → Act) (tmpl : Option String) (hits : Dp.Kind × Nat → Bool)
    (r : Rq) (pre : Hdrs) : Hdrs :=
  let out := respond acts (r.method == "OPTIONS") pre (s.responder tmpl hits r.method)
  Co.processF c r.co out.1 out.2

/-- `App.__call__` before routing: `if req.method in self._META_METHODS: raise HTTPBadRequest()` comes BEFORE the
    `process_request` loop, so for a meta method the response reaches the policy as it was constructed (`init`); otherwise the
    `process_request` stage of the other components (`mw`: their `set_header` calls) has run when the responder is chosen -/
def before (init : Hdrs) (mw : List (H × String)) (method : Dp.Method) : Hdrs :=
  if Dp.metaMethods.contains method then init else ({ sets := mw } : Act).run init

/-- one exchange through an app with `process_request` components in front of the policy component -/
def exchangeMw (c : Co.Cfg) (s : Site) (acts : Dp.Responder → Act) (tmpl : Option String) (hits : Dp.Kind × Nat → Bool)
    (r : Rq) (init : Hdrs) (mw : List (H × String)) : Hdrs :=
  exchange c s acts tmpl hits r (before init mw r.method)

/-- the six grant headers -/
def noGrants (h : Hdrs) : Prop := ∀ k ∈ Co.grants, Co.get h k = none

end Cd

import FalconModel.CorsDispatch
import FalconModel.CorsProofs
import FalconModel.DispatchProofs
/-! C20: theorems about `Cd.exchange` - the `Allow` producers (generated OPTIONS responder, 405, 404, static route, application
    code) composed with `CORSMiddleware.process_response`. -/
namespace Cd
open Co (H Hdrs get set del)

/-! ### which responder answers -/

/-- a routed path: the responder is the method map's answer, whatever sinks and static routes exist (for an HTTP method) -/
theorem responder_routed (s : Site) (t : String) (b : Dp.Bound) (hits : Dp.Kind × Nat → Bool) (m : Dp.Method)
    (hm : m ≠ "WEBSOCKET") (hf : s.routes.find t = some b) : s.responder (some t) hits m = b.mm.lookup m := by
  unfold Site.responder
  rw [Dp.dispatchHttp_eq _ _ _ _ hm]
  simp only [Option.bind_some, hf, Option.map_some]
  rfl

/-- ... for OPTIONS on a resource without `on_options` it is the generated responder carrying `mm.allowed` -/
theorem responder_auto_options (s : Site) (t : String) (b : Dp.Bound) (hits : Dp.Kind × Nat → Bool)
    (hf : s.routes.find t = some b) (hno : b.mm.impl.contains "OPTIONS" = false) :
    s.responder (some t) hits "OPTIONS" = .options b.mm.allowed := by
  rw [responder_routed s t b hits "OPTIONS" (by decide) hf]
  unfold Dp.MethodMap.lookup
  rw [if_neg (by rw [hno]; decide), if_pos (by decide)]

/-- ... and the resource's own `on_options` when it has one -/
theorem responder_own_options (s : Site) (t : String) (b : Dp.Bound) (hits : Dp.Kind × Nat → Bool)
    (hf : s.routes.find t = some b) (hown : b.mm.impl.contains "OPTIONS" = true) :
    s.responder (some t) hits "OPTIONS" = .resource b.mm.rid "OPTIONS" := by
  rw [responder_routed s t b hits "OPTIONS" (by decide) hf]
  exact (Dp.lookup_resource_iff b.mm "OPTIONS").mpr hown

/-- no route: 404 iff no sink / static route matches -/
theorem responder_not_found_iff (s : Site) (hits : Dp.Kind × Nat → Bool) (m : Dp.Method) (hm : m ≠ "WEBSOCKET") :
    s.responder none hits m = .notFound ↔ ∀ x ∈ s.app.order, hits x = false := by
  unfold Site.responder
  rw [Dp.dispatchHttp_eq _ _ _ _ hm]
  exact Dp.not_found_iff s.app m hits

/-! ### what the framework's own responders leave on the header map -/

theorem get_allow_auto (pre : Hdrs) (v : String) :
    get (set (set pre .allow v) contentLength "0") .allow = some v := by
  rw [Co.get_set_ne _ _ _ _ (by simp [contentLength]), Co.get_set_self]

theorem get_other_auto (pre : Hdrs) (v : String) (k : H) (h1 : k ≠ .allow) (h2 : k ≠ contentLength) :
    get (set (set pre .allow v) contentLength "0") k = get pre k := by
  rw [Co.get_set_ne _ _ _ _ h2, Co.get_set_ne _ _ _ _ h1]

theorem grant_ne (k : H) (hk : k ∈ Co.grants) : k ≠ .allow ∧ k ≠ contentLength := by
  simp only [Co.grants, List.mem_cons, List.mem_nil_iff, or_false] at hk
  rcases hk with rfl | rfl | rfl | rfl | rfl | rfl <;> simp [contentLength]

/-- falcon's own answers (generated OPTIONS responder, 405, 400, 404, a static route answering OPTIONS) never write a grant header -/
theorem respond_own_grants (acts : Dp.Responder → Act) (pre : Hdrs) (rs : Dp.Responder) (k : H) (hk : k ∈ Co.grants)
    (hown : rs.isDefault = true ∨ ∃ id, rs = .static id) :
    get (respond acts true pre rs).1 k = get pre k := by
  obtain ⟨h1, h2⟩ := grant_ne k hk
  rcases hown with hd | ⟨id, rfl⟩
  · cases rs with
    | options al => exact get_other_auto pre _ k h1 h2
    | notAllowed al => exact Co.get_set_ne _ _ _ _ h1
    | badRequest => rfl
    | notFound => rfl
    | resource _ _ => simp [Dp.Responder.isDefault] at hd
    | sink _ => simp [Dp.Responder.isDefault] at hd
    | static _ => simp [Dp.Responder.isDefault] at hd
  · exact get_other_auto pre _ k h1 h2

/-! ### (1) a preflight from a granted origin on a routed resource -/

/-- **the generated OPTIONS responder + the policy**: for every registration history and every template `t` it left routed to
    a resource without `on_options`, a preflight (OPTIONS + non-empty Access-Control-Request-Method) from a granted origin
    ends with `Access-Control-Allow-Methods` = exactly the text of the Allow list `Dp` computes for that resource, the
    requested headers echoed, max-age 86400 - and WITHOUT the `Allow` header. This holds whatever sinks / static routes exist
    and whatever earlier stages left on the header map (a pre-set `Allow` or `Access-Control-Allow-Methods` is overwritten). -/
theorem preflight_methods_exact (c : Co.Cfg) (s : Site) (acts : Dp.Responder → Act) (t : String) (b : Dp.Bound)
    (hits : Dp.Kind × Nat → Bool) (r : Rq) (pre : Hdrs) (o : String)
    (hf : s.routes.find t = some b) (hno : b.mm.impl.contains "OPTIONS" = false)
    (hm : r.method = "OPTIONS") (ho : r.origin = some o) (ha : c.allowOrigins.has o = true)
    (hq : Co.truthy r.acrm = true) :
    get (exchange c s acts (some t) hits r pre) .acam = some (", ".intercalate b.mm.allowed) ∧
    get (exchange c s acts (some t) hits r pre) .acah = some (r.acrh.getD "*") ∧
    get (exchange c s acts (some t) hits r pre) .acma = some "86400" ∧
    get (exchange c s acts (some t) hits r pre) .allow = none := by
  unfold exchange
  rw [hm, responder_auto_options s t b hits hf hno]
  simp only [respond]
  exact Co.approved_preflight_exact c _ _ o _ ho ha (by simp [Rq.co, hm, hq]) (get_allow_auto pre _)

/-- the members of that list, from the registration HISTORY: the latest accepted `add_route` call for the template decides;
    the granted methods are exactly the members of COMBINED_METHODS for which the resource had a callable
    `on_<m>[_<suffix>]` at that call, without WEBSOCKET (and without OPTIONS: the resource has no such responder) -/
theorem preflight_methods_history (c : Co.Cfg) (s : Site) (acts : Dp.Responder → Act) (t : String) (reg : Dp.RouteReg)
    (hits : Dp.Kind × Nat → Bool) (r : Rq) (pre : Hdrs) (o : String)
    (hreg : (s.hist.filter (Dp.accepted s.combined)).reverse.find? (·.tmpl == t) = some reg)
    (hno : ∀ a ∈ reg.attrs, ¬ (a.method = "OPTIONS" ∧ a.suffix = Dp.effSuffix reg.suffix))
    (hm : r.method = "OPTIONS") (ho : r.origin = some o) (ha : c.allowOrigins.has o = true)
    (hq : Co.truthy r.acrm = true) :
    ∃ al : List Dp.Method,
      get (exchange c s acts (some t) hits r pre) .acam = some (", ".intercalate al) ∧
      get (exchange c s acts (some t) hits r pre) .allow = none ∧
      ∀ m, m ∈ al ↔ ((m ∈ s.combined ∧ ∃ a ∈ reg.attrs, a.method = m ∧ a.suffix = Dp.effSuffix reg.suffix) ∧ m ≠ "WEBSOCKET") := by
  obtain ⟨b, hb, _, _, hres, hal, _⟩ := Dp.reregistered_route_exact s.combined s.hist t reg hreg
  have hno' : b.mm.impl.contains "OPTIONS" = false := by
    cases hc : b.mm.impl.contains "OPTIONS" with
    | false => rfl
    | true =>
      have h1 := (Dp.lookup_resource_iff b.mm "OPTIONS").mpr hc
      rename_i hrid _
      rw [hrid] at h1
      obtain ⟨_, a, haa, h2, h3⟩ := (hres "OPTIONS").mp h1
      exact absurd ⟨h2, h3⟩ (hno a haa)
  obtain ⟨h1, _, _, h4⟩ := preflight_methods_exact c s acts t b hits r pre o hb hno' hm ho ha hq
  exact ⟨b.mm.allowed, h1, h4, hal⟩

/-! ### application code answers OPTIONS: a resource's own `on_options`, a sink -/

/-- the exchange when application code answers (own responder of a routed resource, a sink) -/
theorem exchange_app_code (c : Co.Cfg) (s : Site) (acts : Dp.Responder → Act) (tmpl : Option String)
    (hits : Dp.Kind × Nat → Bool) (r : Rq) (pre : Hdrs)
    (hr : (∃ rid m, s.responder tmpl hits r.method = .resource rid m) ∨ (∃ id, s.responder tmpl hits r.method = .sink id)) :
    exchange c s acts tmpl hits r pre =
      Co.processF c r.co ((acts (s.responder tmpl hits r.method)).run pre) (!(acts (s.responder tmpl hits r.method)).raises) := by
  unfold exchange
  rcases hr with ⟨rid, m, h⟩ | ⟨id, h⟩ <;> rw [h] <;> rfl

/-- it returned and left an `Allow` header `v` (set by itself or by an earlier stage): the preflight is approved with exactly `v` -/
theorem app_code_preflight_approved (c : Co.Cfg) (s : Site) (acts : Dp.Responder → Act) (tmpl : Option String)
    (hits : Dp.Kind × Nat → Bool) (r : Rq) (pre : Hdrs) (o v : String)
    (hr : (∃ rid m, s.responder tmpl hits r.method = .resource rid m) ∨ (∃ id, s.responder tmpl hits r.method = .sink id))
    (hret : (acts (s.responder tmpl hits r.method)).raises = false)
    (hv : get ((acts (s.responder tmpl hits r.method)).run pre) .allow = some v)
    (hm : r.method = "OPTIONS") (ho : r.origin = some o) (ha : c.allowOrigins.has o = true) (hq : Co.truthy r.acrm = true) :
    get (exchange c s acts tmpl hits r pre) .acam = some v ∧ get (exchange c s acts tmpl hits r pre) .allow = none := by
  rw [exchange_app_code c s acts tmpl hits r pre hr, hret]
  obtain ⟨h1, _, _, h4⟩ := Co.approved_preflight_exact c r.co _ o v ho ha (by simp [Rq.co, hm, hq]) hv
  exact ⟨h1, h4⟩

/-- it returned WITHOUT an `Allow` header: every grant is withdrawn - also `Access-Control-Allow-Origin`, also grant headers the
    application code had set itself -/
theorem app_code_preflight_denied (c : Co.Cfg) (s : Site) (acts : Dp.Responder → Act) (tmpl : Option String)
    (hits : Dp.Kind × Nat → Bool) (r : Rq) (pre : Hdrs) (o : String)
    (hr : (∃ rid m, s.responder tmpl hits r.method = .resource rid m) ∨ (∃ id, s.responder tmpl hits r.method = .sink id))
    (hret : (acts (s.responder tmpl hits r.method)).raises = false)
    (hv : get ((acts (s.responder tmpl hits r.method)).run pre) .allow = none)
    (hm : r.method = "OPTIONS") (ho : r.origin = some o) (ha : c.allowOrigins.has o = true) (hq : Co.truthy r.acrm = true) :
    (∀ k ∈ Co.grants, get (exchange c s acts tmpl hits r pre) k = none) ∧ get (exchange c s acts tmpl hits r pre) .allow = none := by
  rw [exchange_app_code c s acts tmpl hits r pre hr, hret]
  have hpre : (r.co.isOptions && Co.truthy r.co.acrm) = true := by simp [Rq.co, hm, hq]
  exact ⟨fun k hk => Co.denied_preflight_grants_nothing c r.co _ o k ho ha hpre hk hv,
         Co.preflight_removes_allow c r.co _ o ho ha hpre⟩

/-- it raised: the exchange is not a successful one, the preflight patch does not run - `Allow` and the preflight headers stay
    as the application code left them (the origin grant of the first stage is still made) -/
theorem app_code_raised (c : Co.Cfg) (s : Site) (acts : Dp.Responder → Act) (tmpl : Option String)
    (hits : Dp.Kind × Nat → Bool) (r : Rq) (pre : Hdrs) (k : H) (hk : k = .allow ∨ k = .acam ∨ k = .acah ∨ k = .acma)
    (hr : (∃ rid m, s.responder tmpl hits r.method = .resource rid m) ∨ (∃ id, s.responder tmpl hits r.method = .sink id))
    (hraise : (acts (s.responder tmpl hits r.method)).raises = true) :
    get (exchange c s acts tmpl hits r pre) k = get ((acts (s.responder tmpl hits r.method)).run pre) k := by
  rw [exchange_app_code c s acts tmpl hits r pre hr, hraise]
  generalize (acts (s.responder tmpl hits r.method)).run pre = h
  cases ho : r.co.origin with
  | none => rw [Co.noOriginF_untouched c r.co h _ ho]
  | some o =>
    cases ha : c.allowOrigins.has o with
    | false => rw [Co.disallowedF_untouched c r.co h _ o ho ha]
    | true =>
      rw [Co.processF_stages c r.co h _ o ho ha]
      simp only [Co.preflightStage, Bool.not_true, Bool.false_and, Bool.false_eq_true, if_false]
      rcases hk with rfl | rfl | rfl | rfl <;>
        rw [Co.exposeStage_get _ _ _ (by simp), Co.grantStage_get _ _ _ _ (by simp) (by simp)]

/-- a static route answers OPTIONS itself with `Allow: GET` (no look at the file system): the preflight is approved with `GET` -/
theorem static_preflight (c : Co.Cfg) (s : Site) (acts : Dp.Responder → Act) (tmpl : Option String)
    (hits : Dp.Kind × Nat → Bool) (r : Rq) (pre : Hdrs) (o : String) (id : Nat)
    (hr : s.responder tmpl hits r.method = .static id)
    (hm : r.method = "OPTIONS") (ho : r.origin = some o) (ha : c.allowOrigins.has o = true) (hq : Co.truthy r.acrm = true) :
    get (exchange c s acts tmpl hits r pre) .acam = some "GET" ∧ get (exchange c s acts tmpl hits r pre) .allow = none := by
  unfold exchange
  rw [hr]
  simp only [respond, hm, beq_self_eq_true, if_true]
  obtain ⟨h1, _, _, h4⟩ := Co.approved_preflight_exact c r.co _ o "GET" ho ha (by simp [Rq.co, hm, hq]) (get_allow_auto pre "GET")
  exact ⟨h1, h4⟩

/-! ### (2) an origin that is not granted -/

/-- **no Origin, or an Origin the configuration does not allow: the policy does nothing at all**, whatever the route - the final
    header map is the responder's, for every registration history, method and target -/
theorem ungranted_untouched (c : Co.Cfg) (s : Site) (acts : Dp.Responder → Act) (tmpl : Option String)
    (hits : Dp.Kind × Nat → Bool) (r : Rq) (pre : Hdrs)
    (hun : r.origin = none ∨ ∃ o, r.origin = some o ∧ c.allowOrigins.has o = false) :
    exchange c s acts tmpl hits r pre = (respond acts (r.method == "OPTIONS") pre (s.responder tmpl hits r.method)).1 := by
  unfold exchange
  rcases hun with h | ⟨o, h, hd⟩
  · exact Co.noOriginF_untouched c r.co _ _ h
  · exact Co.disallowedF_untouched c r.co _ _ o h hd

/-- ... so when falcon itself answers the OPTIONS request (generated responder, 404, a static route) the response carries
    exactly the grant headers earlier stages had put there - none on a fresh response -/
theorem ungranted_no_grants (c : Co.Cfg) (s : Site) (acts : Dp.Responder → Act) (tmpl : Option String)
    (hits : Dp.Kind × Nat → Bool) (r : Rq) (pre : Hdrs) (k : H) (hk : k ∈ Co.grants)
    (hun : r.origin = none ∨ ∃ o, r.origin = some o ∧ c.allowOrigins.has o = false)
    (hm : r.method = "OPTIONS")
    (hown : (s.responder tmpl hits r.method).isDefault = true ∨ ∃ id, s.responder tmpl hits r.method = .static id) :
    get (exchange c s acts tmpl hits r pre) k = get pre k := by
  rw [ungranted_untouched c s acts tmpl hits r pre hun]
  have : (r.method == "OPTIONS") = true := by simp [hm]
  rw [this]
  exact respond_own_grants acts pre _ k hk hown

/-- ... and the `Allow` header of the generated OPTIONS responder is then KEPT (it is removed only for granted origins) -/
theorem ungranted_keeps_allow (c : Co.Cfg) (s : Site) (acts : Dp.Responder → Act) (t : String) (b : Dp.Bound)
    (hits : Dp.Kind × Nat → Bool) (r : Rq) (pre : Hdrs)
    (hf : s.routes.find t = some b) (hno : b.mm.impl.contains "OPTIONS" = false) (hm : r.method = "OPTIONS")
    (hun : r.origin = none ∨ ∃ o, r.origin = some o ∧ c.allowOrigins.has o = false) :
    get (exchange c s acts (some t) hits r pre) .allow = some (", ".intercalate b.mm.allowed) := by
  rw [ungranted_untouched c s acts (some t) hits r pre hun, hm, responder_auto_options s t b hits hf hno]
  exact get_allow_auto pre _

/-! ### (3) an unrouted path -/

/-- **404 (no route, no sink, no static route matches)**: the framework raises HTTPNotFound, so the exchange is not a successful
    one and the preflight patch does not run. What the code really does for a granted origin: the first two stages only - the
    origin (and credentials) grant and Expose-Headers ARE added to the 404 response; `Allow` and the three preflight headers stay
    as earlier stages left them (absent on a fresh response). -/
theorem not_found_exchange (c : Co.Cfg) (s : Site) (acts : Dp.Responder → Act) (tmpl : Option String)
    (hits : Dp.Kind × Nat → Bool) (r : Rq) (pre : Hdrs) (o : String)
    (hr : s.responder tmpl hits r.method = .notFound) (ho : r.origin = some o) (ha : c.allowOrigins.has o = true) :
    exchange c s acts tmpl hits r pre = Co.exposeStage c (Co.grantStage c o pre) ∧
    (∀ k, k = .allow ∨ k = .acam ∨ k = .acah ∨ k = .acma → get (exchange c s acts tmpl hits r pre) k = get pre k) ∧
    (get pre .acao = none → get (exchange c s acts tmpl hits r pre) .acao =
        some (if c.allowCredentials.has o then o else match c.allowOrigins with | .any => "*" | .only _ => o)) := by
  have he : exchange c s acts tmpl hits r pre = Co.exposeStage c (Co.grantStage c o pre) := by
    unfold exchange
    rw [hr]
    simp only [respond]
    rw [Co.processF_stages c r.co pre false o ho ha]
    simp [Co.preflightStage]
  refine ⟨he, fun k hk => ?_, fun h0 => ?_⟩
  · rw [he]
    rcases hk with rfl | rfl | rfl | rfl <;>
      rw [Co.exposeStage_get _ _ _ (by simp), Co.grantStage_get _ _ _ _ (by simp) (by simp)]
  · rw [he, Co.exposeStage_get _ _ _ (by simp)]
    unfold Co.grantStage
    simp only [h0, Option.isNone_none, if_true]
    split
    · simp [Co.get_set_self]
    · rw [Co.get_set_self]; cases c.allowOrigins <;> rfl

end Cd
namespace Cd
open Co (H Hdrs get set del)

/-! ### `process_request` components in front of the policy -/

/-- for every HTTP method the theorems above apply with `pre` = the header map after the `process_request` stage -/
theorem exchangeMw_eq (c : Co.Cfg) (s : Site) (acts : Dp.Responder → Act) (tmpl : Option String) (hits : Dp.Kind × Nat → Bool)
    (r : Rq) (init : Hdrs) (mw : List (H × String)) (hm : r.method ≠ "WEBSOCKET") :
    exchangeMw c s acts tmpl hits r init mw = exchange c s acts tmpl hits r (({ sets := mw } : Act).run init) := by
  have hc : Dp.metaMethods.contains r.method = false := by simp [Dp.metaMethods, hm]
  simp only [exchangeMw, before, hc, Bool.false_eq_true, if_false]

/-- the meta method WEBSOCKET used as HTTP method: 400 is raised before any `process_request` ran - what they would have set is
    not on the response; the policy sees the response as constructed, in an exchange that did not succeed -/
theorem exchangeMw_meta (c : Co.Cfg) (s : Site) (acts : Dp.Responder → Act) (tmpl : Option String) (hits : Dp.Kind × Nat → Bool)
    (r : Rq) (init : Hdrs) (mw : List (H × String)) (hm : r.method = "WEBSOCKET") :
    exchangeMw c s acts tmpl hits r init mw = Co.processF c r.co init false := by
  have hc : Dp.metaMethods.contains r.method = true := by simp [Dp.metaMethods, hm]
  simp only [exchangeMw, before, hc, if_true, exchange, Site.responder, Dp.App.dispatchHttp, respond]

/-! ### concrete exchanges (each satisfies the hypotheses of the theorem named) -/

def exSite : Site :=
  { combined := ["GET", "POST", "DELETE", "OPTIONS", "WEBSOCKET"],
    hist := [⟨"/a", 0, [⟨"GET", none⟩, ⟨"DELETE", none⟩], none⟩,
             ⟨"/a", 1, [⟨"POST", none⟩, ⟨"GET", none⟩, ⟨"WEBSOCKET", none⟩, ⟨"DELETE", some "x"⟩], some ""⟩,
             ⟨"/a", 2, [⟨"DELETE", none⟩], some "nosuch"⟩,
             ⟨"/own", 3, [⟨"OPTIONS", none⟩, ⟨"GET", none⟩], none⟩],
    adds := [.sink 0, .static 1] }
def exCfg : Co.Cfg := ⟨.only ["http://a"], .only ["http://a"], some "X-One"⟩
/-- the values of the named headers -/
def pick (ks : List H) (h : Hdrs) : List (Option String) := ks.map (get h)
def exHits (only : Option (Dp.Kind × Nat)) : Dp.Kind × Nat → Bool := fun e => only == some e

/-- `preflight_methods_exact` / `preflight_methods_history`: `/a` registered three times (the second call wins, the third is
    rejected), a sink that would match, a bogus `Allow` and `Access-Control-Allow-Methods` pre-set by an earlier stage -/
example :
    pick [.acam, .acah, .acma, .allow, .acao, .acac, .aceh] (exchange exCfg exSite (fun _ => {}) (some "/a") (fun _ => true) ⟨"OPTIONS", some "http://a", some "POST", none⟩
      [(.allow, "BOGUS"), (.acam, "PATCH")])
     =
      [some "GET, POST", some "*", some "86400", none, some "http://a", some "true", some "X-One"] := by decide

/-- `ungranted_untouched` / `ungranted_keeps_allow`: the same request from `http://b` -/
example :
    exchange exCfg exSite (fun _ => {}) (some "/a") (fun _ => true) ⟨"OPTIONS", some "http://b", some "POST", none⟩ []
      = [(.allow, "GET, POST"), (contentLength, "0")] := by decide

/-- `app_code_preflight_denied`: `/own` has `on_options` which sets a grant header but no `Allow`: everything is withdrawn -/
example :
    exchange exCfg exSite (fun _ => { sets := [(.acam, "GET"), (.other 7, "x")] }) (some "/own") (fun _ => false)
      ⟨"OPTIONS", some "http://a", some "GET", some "X-Q"⟩ [] = [(.other 7, "x")] := by decide

/-- `app_code_preflight_approved`: a sink that sets `Allow: PUT` -/
example :
    pick [.acam, .acah, .allow] (exchange exCfg exSite (fun _ => { sets := [(.allow, "PUT")] }) none (exHits (some (.sink, 0)))
      ⟨"OPTIONS", some "http://a", some "GET", some "X-Q"⟩ [])
     = [some "PUT", some "X-Q", none] := by decide

/-- `exchangeMw_meta`: a `process_request` component that would pre-set `Allow` never runs for the meta method -/
example :
    exchangeMw exCfg exSite (fun _ => {}) (some "/a") (fun _ => true) ⟨"WEBSOCKET", some "http://a", some "GET", none⟩ [] [(.allow, "BOGUS")]
      = [(.acac, "true"), (.acao, "http://a"), (.aceh, "X-One")] := by decide

/-- `static_preflight` -/
example :
    pick [.acam, .allow] (exchange exCfg exSite (fun _ => {}) none (exHits (some (.static, 1))) ⟨"OPTIONS", some "http://a", some "GET", none⟩ [])
     = [some "GET", none] := by decide

/-- `not_found_exchange`: nothing matches - the 404 carries the origin grant and no preflight header -/
example :
    exchange exCfg exSite (fun _ => {}) none (exHits none) ⟨"OPTIONS", some "http://a", some "GET", none⟩ []
      = [(.acac, "true"), (.acao, "http://a"), (.aceh, "X-One")] := by decide

end Cd

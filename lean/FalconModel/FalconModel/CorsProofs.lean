import FalconModel.Cors
/-! C20: the policy theorems for `processF` — `CORSMiddleware.process_response` as it is in the tree (with the F12 repair).
    `Cors.lean` proves the first four statements for the pinned `process`; this file proves the whole statement for the
    repaired function by splitting it into its three stages (origin/credentials grant, expose-headers, preflight patch). -/
namespace Co

/-- stage 1: `Access-Control-Allow-Origin` / `-Credentials`, only when the responder has not set the former -/
def grantStage (c : Cfg) (origin : String) (h : Hdrs) : Hdrs :=
  if (get h .acao).isNone then
    if c.allowCredentials.has origin then set (set h .acac "true") .acao origin
    else set h .acao (match c.allowOrigins with | .any => "*" | .only _ => origin)
  else h

/-- stage 2: `Access-Control-Expose-Headers` -/
def exposeStage (c : Cfg) (h : Hdrs) : Hdrs :=
  match c.exposeHeaders with
  | some e => if !e.isEmpty then set h .aceh e else h
  | none => h

/-- stage 3: the preflight patch -/
def preflightStage (r : Req) (succeeded : Bool) (h : Hdrs) : Hdrs :=
  if succeeded && r.isOptions && truthy r.acrm then
    match get h .allow with
    | none => del (del (del (del (del (del (del h .allow) .acam) .acah) .acma) .aceh) .acao) .acac
    | some a => set (set (set (del h .allow) .acam a) .acah (r.acrh.getD "*")) .acma "86400"
  else h

theorem processF_stages (c : Cfg) (r : Req) (h : Hdrs) (s : Bool) (o : String)
    (ho : r.origin = some o) (ha : c.allowOrigins.has o = true) :
    processF c r h s = preflightStage r s (exposeStage c (grantStage c o h)) := by
  simp only [processF, ho, ha, Bool.not_true, Bool.false_eq_true, if_false]
  rfl

/-! ### what each stage can change -/
theorem grantStage_get (c : Cfg) (o : String) (h : Hdrs) (k : H) (h1 : k ≠ .acao) (h2 : k ≠ .acac) :
    get (grantStage c o h) k = get h k := by
  unfold grantStage
  repeat' split
  all_goals simp [get_set_ne, h1, h2]

theorem exposeStage_get (c : Cfg) (h : Hdrs) (k : H) (h1 : k ≠ .aceh) : get (exposeStage c h) k = get h k := by
  unfold exposeStage
  repeat' split
  all_goals simp [get_set_ne, h1]

theorem get_del_absent (h : Hdrs) (k k' : H) (hk : get h k' = none) : get (del h k) k' = none := by
  by_cases hne : k' = k
  · subst hne; exact get_del_self h k'
  · rw [get_del_ne h k k' hne]; exact hk

/-! ### no Origin / Origin not allowed: nothing is touched -/
theorem noOriginF_untouched (c : Cfg) (r : Req) (h : Hdrs) (s : Bool) (ho : r.origin = none) :
    processF c r h s = h := by simp [processF, ho]

theorem disallowedF_untouched (c : Cfg) (r : Req) (h : Hdrs) (s : Bool) (o : String)
    (ho : r.origin = some o) (hd : c.allowOrigins.has o = false) : processF c r h s = h := by
  simp [processF, ho, hd]

/-- **grants only for an allowed origin**: if the response differs in any header, the request carried an Origin that the
    configuration allows -/
theorem changed_only_for_allowed_origin (c : Cfg) (r : Req) (h : Hdrs) (s : Bool)
    (hne : processF c r h s ≠ h) : ∃ o, r.origin = some o ∧ c.allowOrigins.has o = true := by
  cases ho : r.origin with
  | none => exact absurd (noOriginF_untouched c r h s ho) hne
  | some o =>
    cases ha : c.allowOrigins.has o with
    | false => exact absurd (disallowedF_untouched c r h s o ho ha) hne
    | true => exact ⟨o, rfl, ha⟩

/-- headers other than the six grant headers and `Allow` are never touched -/
theorem others_untouched (c : Cfg) (r : Req) (h : Hdrs) (s : Bool) (n : Nat) :
    get (processF c r h s) (.other n) = get h (.other n) := by
  cases ho : r.origin with
  | none => rw [noOriginF_untouched c r h s ho]
  | some o =>
    cases ha : c.allowOrigins.has o with
    | false => rw [disallowedF_untouched c r h s o ho ha]
    | true =>
      rw [processF_stages c r h s o ho ha]
      have e1 : get (exposeStage c (grantStage c o h)) (.other n) = get h (.other n) := by
        rw [exposeStage_get _ _ _ (by simp), grantStage_get _ _ _ _ (by simp) (by simp)]
      unfold preflightStage
      repeat' split
      all_goals simp [get_set_ne, get_del_ne, e1]

/-- `Allow` is touched only by a successful preflight exchange -/
theorem allow_untouched_unless_preflight (c : Cfg) (r : Req) (h : Hdrs) (s : Bool)
    (hnp : (s && r.isOptions && truthy r.acrm) = false) : get (processF c r h s) .allow = get h .allow := by
  cases ho : r.origin with
  | none => rw [noOriginF_untouched c r h s ho]
  | some o =>
    cases ha : c.allowOrigins.has o with
    | false => rw [disallowedF_untouched c r h s o ho ha]
    | true =>
      rw [processF_stages c r h s o ho ha]
      unfold preflightStage
      simp only [hnp, Bool.false_eq_true, if_false]
      rw [exposeStage_get _ _ _ (by simp), grantStage_get _ _ _ _ (by simp) (by simp)]

/-! ### credentials -/
/-- credentials are granted by the middleware only to an allowed origin that is configured for credentials -/
theorem credentialsF_only_configured (c : Cfg) (r : Req) (h : Hdrs) (s : Bool)
    (h0 : get h .acac = none) (hres : (get (processF c r h s) .acac).isSome = true) :
    ∃ o, r.origin = some o ∧ c.allowOrigins.has o = true ∧ c.allowCredentials.has o = true := by
  cases ho : r.origin with
  | none => rw [noOriginF_untouched c r h s ho, h0] at hres; simp at hres
  | some o =>
    cases ha : c.allowOrigins.has o with
    | false => rw [disallowedF_untouched c r h s o ho ha, h0] at hres; simp at hres
    | true =>
      refine ⟨o, rfl, ha, ?_⟩
      cases hc : c.allowCredentials.has o with
      | true => rfl
      | false =>
        exfalso
        rw [processF_stages c r h s o ho ha] at hres
        have e1 : get (exposeStage c (grantStage c o h)) .acac = none := by
          rw [exposeStage_get _ _ _ (by simp)]
          unfold grantStage
          simp only [hc, Bool.false_eq_true, if_false]
          split
          · rw [get_set_ne _ _ _ _ (by simp)]; exact h0
          · exact h0
        revert hres
        unfold preflightStage
        repeat' split
        all_goals simp [get_set_ne, get_del_ne, get_del_self, e1]

/-- **echo, never a wildcard of the policy's own**: whenever the middleware grants credentials, the
    `Access-Control-Allow-Origin` it leaves is the request's own Origin (or none, after a denied preflight) -/
theorem credentialsF_imply_echo (c : Cfg) (r : Req) (h : Hdrs) (s : Bool)
    (h0 : get h .acac = none) (h1 : get h .acao = none)
    (hres : (get (processF c r h s) .acac).isSome = true) :
    ∃ o, r.origin = some o ∧ get (processF c r h s) .acao = some o := by
  obtain ⟨o, ho, ha, hc⟩ := credentialsF_only_configured c r h s h0 hres
  refine ⟨o, ho, ?_⟩
  rw [processF_stages c r h s o ho ha] at hres ⊢
  have e1 : get (exposeStage c (grantStage c o h)) .acao = some o := by
    rw [exposeStage_get _ _ _ (by simp)]
    simp [grantStage, h1, hc, get_set_self]
  revert hres
  unfold preflightStage
  repeat' split
  all_goals simp [get_set_ne, get_del_ne, get_del_self, e1]

/-- **the wildcard never coexists with a credentials grant of the middleware** (for a request Origin other than the
    literal `*`) -/
theorem wildcard_never_with_credentials (c : Cfg) (r : Req) (h : Hdrs) (s : Bool)
    (h0 : get h .acac = none) (h1 : get h .acao = none) (hstar : r.origin ≠ some "*")
    (hres : (get (processF c r h s) .acac).isSome = true) : get (processF c r h s) .acao ≠ some "*" := by
  obtain ⟨o, ho, he⟩ := credentialsF_imply_echo c r h s h0 h1 hres
  rw [he]
  intro hc
  apply hstar
  rw [ho, hc]

/-! ### preflight -/
/-- **a preflight is approved iff** the origin is allowed and the exchange is a successful OPTIONS carrying
    `Access-Control-Request-Method` whose response advertises an `Allow` (approved = `Access-Control-Allow-Methods` present;
    the responder is assumed not to have set that header itself) -/
theorem preflight_approved_iff (c : Cfg) (r : Req) (h : Hdrs) (s : Bool) (hm : get h .acam = none) :
    (get (processF c r h s) .acam).isSome = true ↔
      (∃ o, r.origin = some o ∧ c.allowOrigins.has o = true) ∧
        s = true ∧ r.isOptions = true ∧ truthy r.acrm = true ∧ (get h .allow).isSome = true := by
  cases ho : r.origin with
  | none => rw [noOriginF_untouched c r h s ho, hm]; simp
  | some o =>
    cases ha : c.allowOrigins.has o with
    | false => rw [disallowedF_untouched c r h s o ho ha, hm]; simp [ha]
    | true =>
      rw [processF_stages c r h s o ho ha]
      have e1 : get (exposeStage c (grantStage c o h)) .acam = none := by
        rw [exposeStage_get _ _ _ (by simp), grantStage_get _ _ _ _ (by simp) (by simp)]; exact hm
      have e2 : get (exposeStage c (grantStage c o h)) .allow = get h .allow := by
        rw [exposeStage_get _ _ _ (by simp), grantStage_get _ _ _ _ (by simp) (by simp)]
      unfold preflightStage
      cases hs : s <;> cases hopt : r.isOptions <;> cases ht : truthy r.acrm <;>
        simp [e1, e2]
      cases hal : get h .allow with
      | none => simp [get_del_ne, get_del_self, ha]
      | some a => simp [get_set_ne, get_set_self, ha]

/-- an approved preflight names exactly the advertised `Allow` as the permitted methods, echoes the requested headers
    (`*` when none were named), sets the 24 h max-age and removes `Allow` -/
theorem approved_preflight_exact (c : Cfg) (r : Req) (h : Hdrs) (o a : String)
    (ho : r.origin = some o) (ha : c.allowOrigins.has o = true)
    (hpre : (r.isOptions && truthy r.acrm) = true) (hal : get h .allow = some a) :
    get (processF c r h true) .acam = some a ∧
    get (processF c r h true) .acah = some (r.acrh.getD "*") ∧
    get (processF c r h true) .acma = some "86400" ∧
    get (processF c r h true) .allow = none := by
  rw [processF_stages c r h true o ho ha]
  have e2 : get (exposeStage c (grantStage c o h)) .allow = some a := by
    rw [exposeStage_get _ _ _ (by simp), grantStage_get _ _ _ _ (by simp) (by simp)]; exact hal
  unfold preflightStage
  simp only [Bool.true_and, hpre, if_true, e2]
  refine ⟨?_, ?_, ?_, ?_⟩
  · rw [get_set_ne _ _ _ _ (by simp), get_set_ne _ _ _ _ (by simp), get_set_self]
  · rw [get_set_ne _ _ _ _ (by simp), get_set_self]
  · rw [get_set_self]
  · rw [get_set_ne _ _ _ _ (by simp), get_set_ne _ _ _ _ (by simp), get_set_ne _ _ _ _ (by simp), get_del_self]

/-- a successful preflight always loses its `Allow` header, approved or not -/
theorem preflight_removes_allow (c : Cfg) (r : Req) (h : Hdrs) (o : String)
    (ho : r.origin = some o) (ha : c.allowOrigins.has o = true)
    (hpre : (r.isOptions && truthy r.acrm) = true) : get (processF c r h true) .allow = none := by
  cases hal : get h .allow with
  | some a => exact (approved_preflight_exact c r h o a ho ha hpre hal).2.2.2
  | none =>
    rw [processF_stages c r h true o ho ha]
    have e2 : get (exposeStage c (grantStage c o h)) .allow = none := by
      rw [exposeStage_get _ _ _ (by simp), grantStage_get _ _ _ _ (by simp) (by simp)]; exact hal
    unfold preflightStage
    simp only [Bool.true_and, hpre, if_true, e2]
    exact get_del_absent _ _ _ (get_del_absent _ _ _ (get_del_absent _ _ _ (get_del_absent _ _ _ (get_del_absent _ _ _
      (get_del_absent _ _ _ (get_del_self _ _))))))

end Co

/-! C02 prototype: `App.add_route` (method map with default responders), `add_sink`, `add_static_route`,
    `_update_sink_and_static_routes` and `App._get_responder`. Route lookup itself is C01's business and enters as an
    argument; `re.Pattern.match` / `StaticRoute.match` enter as a table. -/
namespace Dp

abbrev Method := String
def metaMethods : List Method := ["WEBSOCKET"]

def insertSorted (x : Method) : List Method → List Method
  | [] => [x]
  | y :: ys => if x ≤ y then x :: y :: ys else y :: insertSorted x ys
def sortM (l : List Method) : List Method := l.foldr insertSorted []

inductive Responder where
  | resource (rid : Nat) (method : Method)     -- the resource's own on_<method>[_suffix]
  | options (allow : List Method)              -- create_default_options
  | notAllowed (allow : List Method)           -- create_method_not_allowed
  | badRequest                                 -- method not in COMBINED_METHODS
  | sink (id : Nat)
  | static (id : Nat)
  | notFound
deriving DecidableEq, Repr

/-- the method map built by `add_route`: `map_http_methods` + `set_default_responders` -/
structure MethodMap where
  rid : Nat
  impl : List Method          -- methods for which the resource has a callable on_<m>[_suffix] (subset of COMBINED_METHODS)
  combined : List Method      -- constants.COMBINED_METHODS
deriving Repr

def MethodMap.allowed (mm : MethodMap) : List Method := sortM (mm.impl.filter (!metaMethods.contains ·))
def MethodMap.allow405 (mm : MethodMap) : List Method :=
  if mm.impl.contains "OPTIONS" then mm.allowed else mm.allowed ++ ["OPTIONS"]

def MethodMap.lookup (mm : MethodMap) (m : Method) : Responder :=
  if mm.impl.contains m then .resource mm.rid m
  else if m == "OPTIONS" then .options mm.allowed            -- only reached when OPTIONS is not implemented
  else if mm.combined.contains m then .notAllowed mm.allow405
  else .badRequest                                           -- KeyError in `method_map[method]`

inductive Kind where | sink | static
deriving DecidableEq, Repr

structure App where
  sinks : List Nat := []            -- `_sinks`, most recent first
  statics : List Nat := []          -- `_static_routes`, most recent first
  sinkFirst : Bool := true          -- `_sink_before_static_route`
  order : List (Kind × Nat) := []   -- `_sink_and_static_routes` (a snapshot, rebuilt by every add)
deriving Repr

def App.update (a : App) : App :=
  { a with order := if a.sinkFirst then a.sinks.map (Kind.sink, ·) ++ a.statics.map (Kind.static, ·)
                    else a.statics.map (Kind.static, ·) ++ a.sinks.map (Kind.sink, ·) }

def App.addSink (a : App) (id : Nat) : App := ({ a with sinks := id :: a.sinks }).update
def App.addStatic (a : App) (id : Nat) : App := ({ a with statics := id :: a.statics }).update

inductive Add where | sink (id : Nat) | static (id : Nat)
deriving DecidableEq, Repr
def App.add (a : App) : Add → App
  | .sink id => a.addSink id
  | .static id => a.addStatic id

/-- `_get_responder`: `route` is what the router returned for the path; `hits` is the table of
    `matcher.match(path)` for every registered sink / static route -/
def App.getResponder (a : App) (route : Option MethodMap) (method : Method) (hits : Kind × Nat → Bool) : Responder :=
  match route with
  | some mm => mm.lookup method
  | none =>
    match a.order.find? hits with
    | some (.sink, id) => .sink id
    | some (.static, id) => .static id
    | none => .notFound

/-! ### additions of the build round: `map_http_methods` with a suffix, the `params` element, the HTTP entry point -/

/-- a callable attribute `on_<method>` (`suffix = none`) or `on_<method>_<suffix>` of a resource object -/
structure Attr where
  method : Method
  suffix : Option String
deriving DecidableEq, Repr

/-- `map_http_methods(resource, suffix)`: the members of COMBINED_METHODS for which `on_<m>[_<suffix>]` is a callable attribute -/
def mapHttpMethods (combined : List Method) (attrs : List Attr) (suffix : Option String) : List Method :=
  combined.filter fun m => attrs.any fun a => a.method == m && a.suffix == suffix

/-- the method map `add_route(template, resource, suffix=…)` stores in the router -/
def mkMethodMap (rid : Nat) (combined : List Method) (attrs : List Attr) (suffix : Option String) : MethodMap :=
  { rid := rid, impl := mapHttpMethods combined attrs suffix, combined := combined }

/-- keyword arguments handed to the responder: name ↦ value, where the value of a sink's named group that did not
    participate in the match is Python's `None` (`Option.none`); template fields are always `some` text -/
abbrev Kw := List (String × Option String)

/-- the `params` element of `_get_responder`'s result: `fields` is what the router extracted for the matched template,
    `groups id` is `m.groupdict()` of sink `id` for this path -/
def App.getParams (a : App) (fields : Option Kw) (hits : Kind × Nat → Bool) (groups : Nat → Kw) : Kw :=
  match fields with
  | some f => f
  | none =>
    match a.order.find? hits with
    | some (.sink, id) => groups id
    | _ => []

/-- `App.__call__` up to the choice of the responder: a meta method used as HTTP method is answered 400 before routing -/
def App.dispatchHttp (a : App) (route : Option MethodMap) (method : Method) (hits : Kind × Nat → Bool) : Responder :=
  if metaMethods.contains method then .badRequest else a.getResponder route method hits

/-! ### additions of the strengthening round: the match object of a sink prefix, the constructor default -/

/-- what `prefix.match(path)` returned for one sink. `groupindex` is `re.Pattern.groupindex` — the named groups of the
    *pattern* (name ↦ group number), whether or not they took part in this match; `group i` is `m.group(i)`: the text the
    i-th group matched, `none` (Python `None`) when the group did not participate (an optional group, a group in the
    other branch of an alternation, a group nested in one of those). -/
structure Match where
  groupindex : List (String × Nat)
  group : Nat → Option String

/-- `re.Match.groupdict()` (default `None`): every named group of the pattern, participating or not -/
def Match.groupdict (m : Match) : Kw := m.groupindex.map fun (n, i) => (n, m.group i)

/-- `_get_responder`'s `params` with the sink table given as match objects: `params = m.groupdict()` for the chosen sink -/
def App.getParamsM (a : App) (fields : Option Kw) (hits : Kind × Nat → Bool) (mtab : Nat → Match) : Kw :=
  a.getParams fields hits fun id => (mtab id).groupdict

/-- `App.__init__` as far as dispatch is concerned: `sink_before_static_route: bool = True`, no sinks, no static routes,
    empty search order. `falcon.API.__init__(*args, **kwargs)` and `falcon.asgi.App.__init__` (which forwards all eight
    options positionally) reduce to the same call; `none` = the option was not given. -/
def App.init (sinkBeforeStaticRoute : Option Bool) : App := { sinkFirst := sinkBeforeStaticRoute.getD true }

/-! ### additions of the fourth strengthening round: the HISTORY of `add_route` calls (a template registered again, the same
    resource object with another suffix or after it gained / lost responders), `suffix=''`, rejected registrations -/

/-- `if suffix:` in `map_http_methods`: `None` and the empty string both mean "no suffix". The suffix is otherwise used
    verbatim (`'on_' + method.lower() + '_' + suffix`): letter case, digits and underscores are significant. -/
def effSuffix : Option String → Option String
  | some s => if s.isEmpty then none else some s
  | none => none

/-- one call `add_route(uri_template, resource, suffix=…)`; `attrs` are the callable `on_*` attributes the resource object has
    AT THE MOMENT OF THE CALL (the method map is built inside the call, `CompiledRouter.add_route`) -/
structure RouteReg where
  tmpl : String
  rid : Nat
  attrs : List Attr
  suffix : Option String      -- as passed by the caller
deriving Repr

/-- what a router node carries after a registration: the method map; `suffix` is a ghost field (the effective suffix the
    responders of `mm` carry) so that the driver can print which responder family ran -/
structure Bound where
  mm : MethodMap
  suffix : Option String
deriving Repr

def bind (combined : List Method) (r : RouteReg) : Bound :=
  { mm := mkMethodMap r.rid combined r.attrs (effSuffix r.suffix), suffix := effSuffix r.suffix }

/-- the router's nodes that carry a resource, keyed by `uri_template` (the tree itself is C01's subject) -/
abbrev Routes := List (String × Bound)

/-- `insert()` in `CompiledRouter.add_route`: the first node that matches is overridden ("Override previous node":
    `method_map`, `resource`, `uri_template` are replaced unconditionally - also when the resource object is the one already
    stored there); otherwise a new node is appended -/
def addRoute (combined : List Method) : Routes → RouteReg → Routes
  | [], r => [(r.tmpl, bind combined r)]
  | e :: rest, r => if e.1 == r.tmpl then (e.1, bind combined r) :: rest else e :: addRoute combined rest r

/-- `if suffix and not method_map: raise SuffixedMethodNotFoundError` -/
def accepted (combined : List Method) (r : RouteReg) : Bool :=
  (effSuffix r.suffix).isNone || !(mapHttpMethods combined r.attrs (effSuffix r.suffix)).isEmpty

/-- one `add_route` call: the error is raised before the tree is touched -/
def addRouteCall (combined : List Method) (rs : Routes) (r : RouteReg) : Routes :=
  if accepted combined r then addRoute combined rs r else rs

def Routes.find (rs : Routes) (t : String) : Option Bound := (rs.find? (·.1 == t)).map (·.2)

/-- the router after a history of `add_route` calls on a fresh app -/
def routesOf (combined : List Method) (hist : List RouteReg) : Routes := hist.foldl (addRouteCall combined) []

/-! ### addition of the fifth strengthening round: what the framework's own answers do to the response object that EARLIER STAGES
    (the `response_type` initializer, `process_request` / `process_resource` middleware) hand them -/

/-- the two fields of the response object that dispatch's own answers touch: `resp.status` (as a code) and the value of the
    `Allow` header, if any -/
structure Resp where
  status : Nat := 200
  allow : Option String := none
deriving DecidableEq, Repr

/-- the response after the chosen responder ran on `pre` (and, for the three that raise, after `_compose_error_response`):
    * `create_default_options` (both flavours): `resp.status = HTTP_200`, `resp.set_header('Allow', ', '.join(allowed))`;
    * `create_method_not_allowed`: raises `HTTPMethodNotAllowed(allowed)` whose headers are `{'Allow': ', '.join(allowed)}`;
      `_compose_error_response`: `resp.status = error.status`, `resp.set_headers(error.headers)` (replaces a present `Allow`);
    * `bad_request` / `path_not_found`: the raised error has no headers: only the status is assigned;
    * a resource responder / sink / static route: the application's business (the generated ones touch neither field). -/
def answer (pre : Resp) : Responder → Resp
  | .options al => { status := 200, allow := some (", ".intercalate al) }
  | .notAllowed al => { status := 405, allow := some (", ".intercalate al) }
  | .badRequest => { pre with status := 400 }
  | .notFound => { pre with status := 404 }
  | _ => pre

/-- the responders that are falcon's own answer -/
def Responder.isDefault : Responder → Bool
  | .options _ | .notAllowed _ | .badRequest | .notFound => true
  | _ => false

end Dp

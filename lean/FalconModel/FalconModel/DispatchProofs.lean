import FalconModel.Dispatch
/-! C02: theorems about the dispatch model. -/
namespace Dp

/-! ### a route always masks sinks and static routes -/
theorem route_masks (a : App) (mm : MethodMap) (m : Method) (hits : Kind × Nat → Bool) :
    a.getResponder (some mm) m hits = mm.lookup m := rfl

theorem lookup_never_sink_or_static (mm : MethodMap) (m : Method) :
    (∀ id, mm.lookup m ≠ .sink id) ∧ (∀ id, mm.lookup m ≠ .static id) ∧ mm.lookup m ≠ .notFound := by
  unfold MethodMap.lookup
  refine ⟨fun id => ?_, fun id => ?_, ?_⟩ <;> (repeat' split) <;> simp

/-- the resource's own responder runs exactly for the methods it implements -/
theorem lookup_resource_iff (mm : MethodMap) (m : Method) :
    mm.lookup m = .resource mm.rid m ↔ mm.impl.contains m = true := by
  unfold MethodMap.lookup
  constructor
  · intro h
    split at h
    · assumption
    · split at h
      · simp at h
      · split at h <;> simp at h
  · intro h; simp only [h, if_true]

/-! ### without a route: the first matching entry of the configured order, else 404 -/
theorem first_match (a : App) (m : Method) (hits : Kind × Nat → Bool) (e : Kind × Nat) :
    a.order.find? hits = some e →
      a.getResponder none m hits = (match e with | (.sink, id) => .sink id | (.static, id) => .static id) ∧
      hits e = true ∧ ∃ pre post, a.order = pre ++ e :: post ∧ ∀ x ∈ pre, hits x = false := by
  intro h
  refine ⟨?_, List.find?_some h, ?_⟩
  · unfold App.getResponder
    simp only [h]
    obtain ⟨k, id⟩ := e
    cases k <;> rfl
  · obtain ⟨pre, post, h1, h2⟩ := List.find?_eq_some_iff_append.mp h |>.2
    exact ⟨pre, post, h1, fun x hx => by simpa using h2 x hx⟩

theorem not_found_iff (a : App) (m : Method) (hits : Kind × Nat → Bool) :
    a.getResponder none m hits = .notFound ↔ ∀ x ∈ a.order, hits x = false := by
  unfold App.getResponder
  constructor
  · intro h
    cases hf : a.order.find? hits with
    | none => intro x hx; have := List.find?_eq_none.mp hf x hx; simpa using this
    | some e =>
      rw [hf] at h
      obtain ⟨k, id⟩ := e
      cases k <;> simp at h
  · intro h
    have : a.order.find? hits = none := by
      rw [List.find?_eq_none]; intro x hx; simp [h x hx]
    simp [this]

/-! ### the configured order after any registration history: by recency within a kind, kinds by the option -/
def sinkIds : List Add → List Nat
  | [] => []
  | .sink id :: r => id :: sinkIds r
  | .static _ :: r => sinkIds r
def staticIds : List Add → List Nat
  | [] => []
  | .static id :: r => id :: staticIds r
  | .sink _ :: r => staticIds r

def orderOf (a : App) : List (Kind × Nat) :=
  if a.sinkFirst then a.sinks.map (Kind.sink, ·) ++ a.statics.map (Kind.static, ·)
  else a.statics.map (Kind.static, ·) ++ a.sinks.map (Kind.sink, ·)

theorem history_spec (ops : List Add) : ∀ (a : App), a.order = orderOf a →
    let a' := ops.foldl App.add a
    a'.sinks = (sinkIds ops).reverse ++ a.sinks ∧ a'.statics = (staticIds ops).reverse ++ a.statics ∧
    a'.sinkFirst = a.sinkFirst ∧ a'.order = orderOf a' := by
  induction ops with
  | nil => intro a h; exact ⟨by simp [sinkIds], by simp [staticIds], rfl, h⟩
  | cons op rest ih =>
    intro a h
    cases op with
    | sink id =>
      have := ih (a.addSink id) rfl
      simp only [List.foldl_cons, App.add]
      obtain ⟨h1, h2, h3, h4⟩ := this
      refine ⟨?_, ?_, h3, h4⟩
      · rw [h1]; simp [sinkIds, App.addSink, App.update]
      · rw [h2]; simp [staticIds, App.addSink, App.update]
    | static id =>
      have := ih (a.addStatic id) rfl
      simp only [List.foldl_cons, App.add]
      obtain ⟨h1, h2, h3, h4⟩ := this
      refine ⟨?_, ?_, h3, h4⟩
      · rw [h1]; simp [sinkIds, App.addStatic, App.update]
      · rw [h2]; simp [staticIds, App.addStatic, App.update]

/-- **C02 `sink_static_order`**: after any history of `add_sink` / `add_static_route` calls on a fresh app, the search
    order is: sinks most-recent-first then static routes most-recent-first (or the two blocks swapped when
    `sink_before_static_route` is false) -/
theorem sink_static_order (ops : List Add) (sinkFirst : Bool) :
    (ops.foldl App.add { sinkFirst := sinkFirst }).order =
      if sinkFirst then (sinkIds ops).reverse.map (Kind.sink, ·) ++ (staticIds ops).reverse.map (Kind.static, ·)
      else (staticIds ops).reverse.map (Kind.static, ·) ++ (sinkIds ops).reverse.map (Kind.sink, ·) := by
  have := history_spec ops { sinkFirst := sinkFirst } (by cases sinkFirst <;> rfl)
  obtain ⟨h1, h2, h3, h4⟩ := this
  rw [h4]; unfold orderOf
  rw [h1, h2, h3]; simp

/-! ### Allow headers -/
theorem mem_insertSorted (x y : Method) (l : List Method) : y ∈ insertSorted x l ↔ y = x ∨ y ∈ l := by
  induction l with
  | nil => simp [insertSorted]
  | cons z zs ih =>
    unfold insertSorted
    split
    · simp
    · simp only [List.mem_cons, ih]
      constructor
      · rintro (h | h | h)
        · exact Or.inr (Or.inl h)
        · exact Or.inl h
        · exact Or.inr (Or.inr h)
      · rintro (h | h | h)
        · exact Or.inr (Or.inl h)
        · exact Or.inl h
        · exact Or.inr (Or.inr h)

theorem mem_sortM (y : Method) (l : List Method) : y ∈ sortM l ↔ y ∈ l := by
  unfold sortM
  induction l with
  | nil => simp
  | cons x xs ih => simp only [List.foldr_cons, mem_insertSorted, ih, List.mem_cons]

/-- the automatic OPTIONS responder advertises exactly the implemented HTTP methods -/
theorem options_allow_exact (mm : MethodMap) (m : Method) :
    m ∈ mm.allowed ↔ m ∈ mm.impl ∧ m ≠ "WEBSOCKET" := by
  unfold MethodMap.allowed
  rw [mem_sortM, List.mem_filter]
  simp [metaMethods]

/-- the 405 responder advertises exactly the implemented HTTP methods plus OPTIONS -/
theorem allow405_exact (mm : MethodMap) (m : Method) :
    m ∈ mm.allow405 ↔ (m ∈ mm.impl ∧ m ≠ "WEBSOCKET") ∨ m = "OPTIONS" := by
  unfold MethodMap.allow405
  split
  · rename_i h
    rw [options_allow_exact]
    constructor
    · exact Or.inl
    · rintro (h1 | h1)
      · exact h1
      · subst h1; exact ⟨by simpa using h, by decide⟩
  · rw [List.mem_append, options_allow_exact]; simp

#print axioms sink_static_order
#print axioms allow405_exact
#print axioms first_match

/-! ### suffixed routes, keyword arguments, meta methods (build round) -/

/-- **suffix isolation**: through a route added with `suffix` the resource's own responder runs exactly for the methods
    `m` of COMBINED_METHODS that have a callable `on_<m>_<suffix>` (`on_<m>` when no suffix was given) — an attribute
    with any other suffix is never reached -/
theorem suffix_isolation (rid : Nat) (combined : List Method) (attrs : List Attr) (suffix : Option String) (m : Method) :
    (mkMethodMap rid combined attrs suffix).lookup m = .resource rid m ↔
      (m ∈ combined ∧ ∃ a ∈ attrs, a.method = m ∧ a.suffix = suffix) := by
  have h := lookup_resource_iff (mkMethodMap rid combined attrs suffix) m
  simp only [mkMethodMap] at h ⊢
  rw [h]
  simp [mapHttpMethods, List.mem_filter, List.any_eq_true]

/-- a method that is not in COMBINED_METHODS is answered 400 on every route (never 405, never a responder) -/
theorem unknown_method_400 (rid : Nat) (combined : List Method) (attrs : List Attr) (suffix : Option String) (m : Method)
    (hm : m ∉ combined) (ho : m ≠ "OPTIONS") : (mkMethodMap rid combined attrs suffix).lookup m = .badRequest := by
  have h1 : (mapHttpMethods combined attrs suffix).contains m = false := by
    simp [mapHttpMethods, List.mem_filter, hm]
  have h2 : combined.contains m = false := by simpa using hm
  have h3 : (m == "OPTIONS") = false := by simpa using ho
  simp only [MethodMap.lookup, mkMethodMap, h1, h2, h3]; rfl

/-- **kwargs**: a routed request gets the template fields; a request that fell through to sink `id` gets exactly that sink's
    named groups; a static route and the 404 responder get none -/
theorem kwargs_are_fields_or_groups (a : App) (m : Method) (hits : Kind × Nat → Bool) (groups : Nat → Kw) :
    (∀ f, a.getParams (some f) hits groups = f) ∧
    (∀ id, a.getResponder none m hits = .sink id → a.getParams none hits groups = groups id) ∧
    (∀ id, a.getResponder none m hits = .static id → a.getParams none hits groups = []) ∧
    (a.getResponder none m hits = .notFound → a.getParams none hits groups = []) := by
  unfold App.getResponder App.getParams
  refine ⟨fun f => rfl, fun id => ?_, fun id => ?_, ?_⟩
  all_goals
    cases hf : a.order.find? hits with
    | none => simp
    | some e =>
      obtain ⟨k, i⟩ := e
      cases k <;> simp
      try (intro h; rw [h])

/-- **WEBSOCKET is not an HTTP method**: whatever is registered, an HTTP request using it is answered 400 -/
theorem websocket_meta_is_400 (a : App) (route : Option MethodMap) (hits : Kind × Nat → Bool) :
    a.dispatchHttp route "WEBSOCKET" hits = .badRequest := by
  simp [App.dispatchHttp, metaMethods]

/-- for every other method the HTTP entry point is `_get_responder` -/
theorem dispatchHttp_eq (a : App) (route : Option MethodMap) (m : Method) (hits : Kind × Nat → Bool)
    (hm : m ≠ "WEBSOCKET") : a.dispatchHttp route m hits = a.getResponder route m hits := by
  have hc : metaMethods.contains m = false := by simp [metaMethods, hm]
  unfold App.dispatchHttp
  rw [hc]; rfl

/-! ### strengthening round: sink kwargs are `groupdict()` of the match object — every named group of the pattern, also
    those that did not participate (value `None`); the constructor default of `sink_before_static_route` -/

/-- the keys of `groupdict()` are the pattern's named groups: a property of the pattern, not of the individual match -/
theorem groupdict_keys (m : Match) : m.groupdict.map Prod.fst = m.groupindex.map Prod.fst := by
  simp [Match.groupdict, List.map_map, Function.comp_def]

/-- **sink kwargs, exact**: when dispatch falls through to sink `id`, the keyword arguments are `groupdict()` of that sink's
    match: their key list is the pattern's `groupindex` (whatever participated), and each named group `n` (number `i`)
    arrives with the value `m.group(i)` — `None` when it did not participate -/
theorem sink_kwargs_exact (a : App) (meth : Method) (hits : Kind × Nat → Bool) (mtab : Nat → Match) (id : Nat)
    (h : a.getResponder none meth hits = .sink id) :
    a.getParamsM none hits mtab = (mtab id).groupdict ∧
    (a.getParamsM none hits mtab).map Prod.fst = (mtab id).groupindex.map Prod.fst ∧
    ∀ n i, (n, i) ∈ (mtab id).groupindex → (n, (mtab id).group i) ∈ a.getParamsM none hits mtab := by
  have h1 : a.getParamsM none hits mtab = (mtab id).groupdict :=
    (kwargs_are_fields_or_groups a meth hits fun id => (mtab id).groupdict).2.1 id h
  refine ⟨h1, by rw [h1, groupdict_keys], fun n i hm => ?_⟩
  rw [h1]
  exact List.mem_map.mpr ⟨(n, i), hm, rfl⟩

/-- **no group participated** (`m.lastindex is None`): the sink still receives one keyword argument per named group, all `None` -/
theorem sink_kwargs_nonparticipating (a : App) (meth : Method) (hits : Kind × Nat → Bool) (mtab : Nat → Match) (id : Nat)
    (h : a.getResponder none meth hits = .sink id) (hn : ∀ i, (mtab id).group i = none) :
    a.getParamsM none hits mtab = (mtab id).groupindex.map (fun ni => (ni.1, none)) ∧
    (a.getParamsM none hits mtab).length = (mtab id).groupindex.length := by
  have h1 := (sink_kwargs_exact a meth hits mtab id h).1
  rw [h1]
  refine ⟨?_, by simp [Match.groupdict]⟩
  simp [Match.groupdict, hn]

/-- with match objects as the table: static routes and 404 get no kwargs, a routed request gets the template fields -/
theorem non_sink_kwargs_empty (a : App) (meth : Method) (hits : Kind × Nat → Bool) (mtab : Nat → Match) :
    (∀ id, a.getResponder none meth hits = .static id → a.getParamsM none hits mtab = []) ∧
    (a.getResponder none meth hits = .notFound → a.getParamsM none hits mtab = []) ∧
    (∀ f, a.getParamsM (some f) hits mtab = f) := by
  have := kwargs_are_fields_or_groups a meth hits fun id => (mtab id).groupdict
  exact ⟨this.2.2.1, this.2.2.2, this.1⟩

/-- an app constructed without `sink_before_static_route` is the app constructed with `True` -/
theorem init_default : App.init none = App.init (some true) := rfl

/-- `sink_static_order` for an app built by the constructor (`falcon.App`, `falcon.API`, `falcon.asgi.App`), option given or not -/
theorem sink_static_order_init (ops : List Add) (o : Option Bool) :
    (ops.foldl App.add (App.init o)).order =
      if o.getD true then (sinkIds ops).reverse.map (Kind.sink, ·) ++ (staticIds ops).reverse.map (Kind.static, ·)
      else (staticIds ops).reverse.map (Kind.static, ·) ++ (sinkIds ops).reverse.map (Kind.sink, ·) :=
  sink_static_order ops (o.getD true)

/-- a sink prefix `/s(?:/(?P<rest>[a-z]+))?(?P<tail>x)?` matched against `/s`: no group participates, both names arrive as `None` -/
example : ((App.init none).addSink 0).getParamsM none (fun _ => true)
    (fun _ => { groupindex := [("rest", 1), ("tail", 2)], group := fun _ => none }) = [("rest", none), ("tail", none)] := by decide

end Dp

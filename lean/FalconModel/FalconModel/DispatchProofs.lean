import FalconModel.Dispatch
/-! C02: theorems about the dispatch model. -/
namespace Dp

/-! ### a route always masks sinks and static routes -/
theorem route_masks (a : App) (mm : MethodMap) (m : Method) (hits : Kind × Nat → Bool) :
    a.getResponder (some mm) m hits = mm.lookup m := rfl

theorem lookup_never_sink_or_static (mm : MethodMap) (m : Method) :
    (∀ id, mm.lookup m ≠ .sink id) ∧ (∀ id, mm.lookup m ≠ .static id) ∧ mm.lookup m ≠ .notFound := by
  unfold MethodMap.lookup
  refine ⟨fun id => ?_, fun id => ?_, ?_⟩ <;> (repeat' split) <;> simp

/-- the resource's own responder runs exactly for the methods it implements -/
theorem lookup_resource_iff (mm : MethodMap) (m : Method) :
    mm.lookup m = .resource mm.rid m ↔ mm.impl.contains m = true := by
  unfold MethodMap.lookup
  constructor
  · intro h
    split at h
    · assumption
    · split at h
      · simp at h
      · split at h <;> simp at h
  · intro h; simp only [h, if_true]

/-! ### without a route: the first matching entry of the configured order, else 404 -/
theorem first_match (a : App) (m : Method) (hits : Kind × Nat → Bool) (e : Kind × Nat) :
    a.order.find? hits = some e →
      a.getResponder none m hits = (match e with | (.sink, id) => .sink id | (.static, id) => .static id) ∧
      hits e = true ∧ ∃ pre post, a.order = pre ++ e :: post ∧ ∀ x ∈ pre, hits x = false := by
  intro h
  refine ⟨?_, List.find?_some h, ?_⟩
  · unfold App.getResponder
    simp only [h]
    obtain ⟨k, id⟩ := e
    cases k <;> rfl
  · obtain ⟨pre, post, h1, h2⟩ := List.find?_eq_some_iff_append.mp h |>.2
    exact ⟨pre, post, h1, fun x hx => by simpa using h2 x hx⟩

theorem not_found_iff (a : App) (m : Method) (hits : Kind × Nat → Bool) :
    a.getResponder none m hits = .notFound ↔ ∀ x ∈ a.order, hits x = false := by
  unfold App.getResponder
  constructor
  · intro h
    cases hf : a.order.find? hits with
    | none => intro x hx; have := List.find?_eq_none.mp hf x hx; simpa using this
    | some e =>
      rw [hf] at h
      obtain ⟨k, id⟩ := e
      cases k <;> simp at h
  · intro h
    have : a.order.find? hits = none := by
      rw [List.find?_eq_none]; intro x hx; simp [h x hx]
    simp [this]

/-! ### the configured order after any registration history: by recency within a kind, kinds by the option -/
def sinkIds : List Add → List Nat
  | [] => []
  | .sink id :: r => id :: sinkIds r
  | .static _ :: r => sinkIds r
def staticIds : List Add → List Nat
  | [] => []
  | .static id :: r => id :: staticIds r
  | .sink _ :: r => staticIds r

def orderOf (a : App) : List (Kind × Nat) :=
  if a.sinkFirst then a.sinks.map (Kind.sink, ·) ++ a.statics.map (Kind.static, ·)
  else a.statics.map (Kind.static, ·) ++ a.sinks.map (Kind.sink, ·)

theorem history_spec (ops : List Add) : ∀ (a : App), a.order = orderOf a →
    let a' := ops.foldl App.add a
    a'.sinks = (sinkIds ops).reverse ++ a.sinks ∧ a'.statics = (staticIds ops).reverse ++ a.statics ∧
    a'.sinkFirst = a.sinkFirst ∧ a'.order = orderOf a' := by
  induction ops with
  | nil => intro a h; exact ⟨by simp [sinkIds], by simp [staticIds], rfl, h⟩
  | cons op rest ih =>
    intro a h
    cases op with
    | sink id =>
      have := ih (a.addSink id) rfl
      simp only [List.foldl_cons, App.add]
      obtain ⟨h1, h2, h3, h4⟩ := this
      refine ⟨?_, ?_, h3, h4⟩
      · rw [h1]; simp [sinkIds, App.addSink, App.update]
      · rw [h2]; simp [staticIds, App.addSink, App.update]
    | static id =>
      have := ih (a.addStatic id) rfl
      simp only [List.foldl_cons, App.add]
      obtain ⟨h1, h2, h3, h4⟩ := this
      refine ⟨?_, ?_, h3, h4⟩
      · rw [h1]; simp [sinkIds, App.addStatic, App.update]
      · rw [h2]; simp [staticIds, App.addStatic, App.update]

/-- **C02 `sink_static_order`**: after any history of `add_sink` / `add_static_route` calls on a fresh app, the search
    order is: sinks most-recent-first then static routes most-recent-first (or the two blocks swapped when
    `sink_before_static_route` is false) -/
theorem sink_static_order (ops : List Add) (sinkFirst : Bool) :
    (ops.foldl App.add { sinkFirst := sinkFirst }).order =
      if sinkFirst then (sinkIds ops).reverse.map (Kind.sink, ·) ++ (staticIds ops).reverse.map (Kind.static, ·)
      else (staticIds ops).reverse.map (Kind.static, ·) ++ (sinkIds ops).reverse.map (Kind.sink, ·) := by
  have := history_spec ops { sinkFirst := sinkFirst } (by cases sinkFirst <;> rfl)
  obtain ⟨h1, h2, h3, h4⟩ := this
  rw [h4]; unfold orderOf
  rw [h1, h2, h3]; simp

/-! ### Allow headers -/
theorem mem_insertSorted (x y : Method) (l : List Method) : y ∈ insertSorted x l ↔ y = x ∨ y ∈ l := by
  induction l with
  | nil => simp [insertSorted]
  | cons z zs ih =>
    unfold insertSorted
    split
    · simp
    · simp only [List.mem_cons, ih]
      constructor
      · rintro (h | h | h)
        · exact Or.inr (Or.inl h)
        · exact Or.inl h
        · exact Or.inr (Or.inr h)
      · rintro (h | h | h)
        · exact Or.inr (Or.inl h)
        · exact Or.inl h
        · exact Or.inr (Or.inr h)

theorem mem_sortM (y : Method) (l : List Method) : y ∈ sortM l ↔ y ∈ l := by
  unfold sortM
  induction l with
  | nil => simp
  | cons x xs ih => simp only [List.foldr_cons, mem_insertSorted, ih, List.mem_cons]

/-- the automatic OPTIONS responder advertises exactly the implemented HTTP methods -/
theorem options_allow_exact (mm : MethodMap) (m : Method) :
    m ∈ mm.allowed ↔ m ∈ mm.impl ∧ m ≠ "WEBSOCKET" := by
  unfold MethodMap.allowed
  rw [mem_sortM, List.mem_filter]
  simp [metaMethods]

/-- the 405 responder advertises exactly the implemented HTTP methods plus OPTIONS -/
theorem allow405_exact (mm : MethodMap) (m : Method) :
    m ∈ mm.allow405 ↔ (m ∈ mm.impl ∧ m ≠ "WEBSOCKET") ∨ m = "OPTIONS" := by
  unfold MethodMap.allow405
  split
  · rename_i h
    rw [options_allow_exact]
    constructor
    · exact Or.inl
    · rintro (h1 | h1)
      · exact h1
      · subst h1; exact ⟨by simpa using h, by decide⟩
  · rw [List.mem_append, options_allow_exact]; simp

#print axioms sink_static_order
#print axioms allow405_exact
#print axioms first_match

/-! ### suffixed routes, keyword arguments, meta methods (build round) -/

/-- **suffix isolation**: through a route added with `suffix` the resource's own responder runs exactly for the methods
    `m` of COMBINED_METHODS that have a callable `on_<m>_<suffix>` (`on_<m>` when no suffix was given) — an attribute
    with any other suffix is never reached -/
theorem suffix_isolation (rid : Nat) (combined : List Method) (attrs : List Attr) (suffix : Option String) (m : Method) :
    (mkMethodMap rid combined attrs suffix).lookup m = .resource rid m ↔
      (m ∈ combined ∧ ∃ a ∈ attrs, a.method = m ∧ a.suffix = suffix) := by
  have h := lookup_resource_iff (mkMethodMap rid combined attrs suffix) m
  simp only [mkMethodMap] at h ⊢
  rw [h]
  simp [mapHttpMethods, List.mem_filter, List.any_eq_true]

/-- a method that is not in COMBINED_METHODS is answered 400 on every route (never 405, never a responder) -/
theorem unknown_method_400 (rid : Nat) (combined : List Method) (attrs : List Attr) (suffix : Option String) (m : Method)
    (hm : m ∉ combined) (ho : m ≠ "OPTIONS") : (mkMethodMap rid combined attrs suffix).lookup m = .badRequest := by
  have h1 : (mapHttpMethods combined attrs suffix).contains m = false := by
    simp [mapHttpMethods, List.mem_filter, hm]
  have h2 : combined.contains m = false := by simpa using hm
  have h3 : (m == "OPTIONS") = false := by simpa using ho
  simp only [MethodMap.lookup, mkMethodMap, h1, h2, h3]; rfl

/-- **kwargs**: a routed request gets the template fields; a request that fell through to sink `id` gets exactly that sink's
    named groups; a static route and the 404 responder get none -/
theorem kwargs_are_fields_or_groups (a : App) (m : Method) (hits : Kind × Nat → Bool) (groups : Nat → Kw) :
    (∀ f, a.getParams (some f) hits groups = f) ∧
    (∀ id, a.getResponder none m hits = .sink id → a.getParams none hits groups = groups id) ∧
    (∀ id, a.getResponder none m hits = .static id → a.getParams none hits groups = []) ∧
    (a.getResponder none m hits = .notFound → a.getParams none hits groups = []) := by
  unfold App.getResponder App.getParams
  refine ⟨fun f => rfl, fun id => ?_, fun id => ?_, ?_⟩
  all_goals
    cases hf : a.order.find? hits with
    | none => simp
    | some e =>
      obtain ⟨k, i⟩ := e
      cases k <;> simp
      try (intro h; rw [h])

/-- **WEBSOCKET is not an HTTP method**: whatever is registered, an HTTP request using it is answered 400 -/
theorem websocket_meta_is_400 (a : App) (route : Option MethodMap) (hits : Kind × Nat → Bool) :
    a.dispatchHttp route "WEBSOCKET" hits = .badRequest := by
  simp [App.dispatchHttp, metaMethods]

/-- for every other method the HTTP entry point is `_get_responder` -/
theorem dispatchHttp_eq (a : App) (route : Option MethodMap) (m : Method) (hits : Kind × Nat → Bool)
    (hm : m ≠ "WEBSOCKET") : a.dispatchHttp route m hits = a.getResponder route m hits := by
  have hc : metaMethods.contains m = false := by simp [metaMethods, hm]
  unfold App.dispatchHttp
  rw [hc]; rfl

/-! ### strengthening round: sink kwargs are `groupdict()` of the match object — every named group of the pattern, also
    those that did not participate (value `None`); the constructor default of `sink_before_static_route` -/

/-- the keys of `groupdict()` are the pattern's named groups: a property of the pattern, not of the individual match -/
theorem groupdict_keys (m : Match) : m.groupdict.map Prod.fst = m.groupindex.map Prod.fst := by
  simp [Match.groupdict, List.map_map, Function.comp_def]

/-- **sink kwargs, exact**: when dispatch falls through to sink `id`, the keyword arguments are `groupdict()` of that sink's
    match: their key list is the pattern's `groupindex` (whatever participated), and each named group `n` (number `i`)
    arrives with the value `m.group(i)` — `None` when it did not participate -/
theorem sink_kwargs_exact (a : App) (meth : Method) (hits : Kind × Nat → Bool) (mtab : Nat → Match) (id : Nat)
    (h : a.getResponder none meth hits = .sink id) :
    a.getParamsM none hits mtab = (mtab id).groupdict ∧
    (a.getParamsM none hits mtab).map Prod.fst = (mtab id).groupindex.map Prod.fst ∧
    ∀ n i, (n, i) ∈ (mtab id).groupindex → (n, (mtab id).group i) ∈ a.getParamsM none hits mtab := by
  have h1 : a.getParamsM none hits mtab = (mtab id).groupdict :=
    (kwargs_are_fields_or_groups a meth hits fun id => (mtab id).groupdict).2.1 id h
  refine ⟨h1, by rw [h1, groupdict_keys], fun n i hm => ?_⟩
  rw [h1]
  exact List.mem_map.mpr ⟨(n, i), hm, rfl⟩

/-- **no group participated** (`m.lastindex is None`): the sink still receives one keyword argument per named group, all `None` -/
theorem sink_kwargs_nonparticipating (a : App) (meth : Method) (hits : Kind × Nat → Bool) (mtab : Nat → Match) (id : Nat)
    (h : a.getResponder none meth hits = .sink id) (hn : ∀ i, (mtab id).group i = none) :
    a.getParamsM none hits mtab = (mtab id).groupindex.map (fun ni => (ni.1, none)) ∧
    (a.getParamsM none hits mtab).length = (mtab id).groupindex.length := by
  have h1 := (sink_kwargs_exact a meth hits mtab id h).1
  rw [h1]
  refine ⟨?_, by simp [Match.groupdict]⟩
  simp [Match.groupdict, hn]

/-- with match objects as the table: static routes and 404 get no kwargs, a routed request gets the template fields -/
theorem non_sink_kwargs_empty (a : App) (meth : Method) (hits : Kind × Nat → Bool) (mtab : Nat → Match) :
    (∀ id, a.getResponder none meth hits = .static id → a.getParamsM none hits mtab = []) ∧
    (a.getResponder none meth hits = .notFound → a.getParamsM none hits mtab = []) ∧
    (∀ f, a.getParamsM (some f) hits mtab = f) := by
  have := kwargs_are_fields_or_groups a meth hits fun id => (mtab id).groupdict
  exact ⟨this.2.2.1, this.2.2.2, this.1⟩

/-- an app constructed without `sink_before_static_route` is the app constructed with `True` -/
theorem init_default : App.init none = App.init (some true) := rfl

/-- `sink_static_order` for an app built by the constructor (`falcon.App`, `falcon.API`, `falcon.asgi.App`), option given or not -/
theorem sink_static_order_init (ops : List Add) (o : Option Bool) :
    (ops.foldl App.add (App.init o)).order =
      if o.getD true then (sinkIds ops).reverse.map (Kind.sink, ·) ++ (staticIds ops).reverse.map (Kind.static, ·)
      else (staticIds ops).reverse.map (Kind.static, ·) ++ (sinkIds ops).reverse.map (Kind.sink, ·) :=
  sink_static_order ops (o.getD true)

/-- a sink prefix `/s(?:/(?P<rest>[a-z]+))?(?P<tail>x)?` matched against `/s`: no group participates, both names arrive as `None` -/
example : ((App.init none).addSink 0).getParamsM none (fun _ => true)
    (fun _ => { groupindex := [("rest", 1), ("tail", 2)], group := fun _ => none }) = [("rest", none), ("tail", none)] := by decide

/-! ### fourth strengthening round: registration histories of routes - the LATEST accepted `add_route` call for a template
    defines its method map (responder identity, 405 Allow, OPTIONS Allow), whatever was registered there before and whichever
    resource object it was; `suffix=''` is no suffix; suffixes are compared verbatim -/

theorem find_addRoute (c : List Method) (rs : Routes) (r : RouteReg) (t : String) :
    Routes.find (addRoute c rs r) t = if r.tmpl = t then some (bind c r) else Routes.find rs t := by
  induction rs with
  | nil =>
    simp only [addRoute, Routes.find, List.find?_cons, List.find?_nil]
    by_cases h : r.tmpl = t
    · simp [h]
    · have : (r.tmpl == t) = false := by simpa using h
      simp [h, this]
  | cons e rest ih =>
    unfold addRoute
    by_cases he : e.1 = r.tmpl
    · simp only [he, beq_self_eq_true, if_true]
      by_cases h : r.tmpl = t
      · simp [Routes.find, h]
      · simp [Routes.find, h, he]
    · have he' : (e.1 == r.tmpl) = false := by simpa using he
      simp only [he', Bool.false_eq_true, if_false]
      by_cases h : r.tmpl = t
      · have : (e.1 == t) = false := by subst h; exact he'
        simp only [Routes.find, List.find?_cons, this] at ih ⊢
        simpa [h] using ih
      · by_cases h2 : e.1 = t
        · simp [Routes.find, h2, h]
        · have : (e.1 == t) = false := by simpa using h2
          simp only [Routes.find, List.find?_cons, this] at ih ⊢
          simpa [h] using ih

theorem history_find (c : List Method) (t : String) (hist : List RouteReg) : ∀ rs : Routes,
    Routes.find (hist.foldl (addRouteCall c) rs) t =
      match ((hist.filter (accepted c)).reverse.find? (·.tmpl == t)) with
      | some r => some (bind c r)
      | none => Routes.find rs t := by
  induction hist with
  | nil => intro rs; simp
  | cons r rest ih =>
    intro rs
    rw [List.foldl_cons, ih]
    by_cases ha : accepted c r = true
    · simp only [List.filter_cons, ha, if_true, List.reverse_cons, List.find?_append]
      cases hf : (List.filter (accepted c) rest).reverse.find? (·.tmpl == t) with
      | some x => simp
      | none =>
        simp only [addRouteCall, ha, if_true, find_addRoute, Option.none_or, List.find?_cons, List.find?_nil]
        by_cases h : r.tmpl = t
        · simp [h]
        · have : (r.tmpl == t) = false := by simpa using h
          simp [h, this]
    · simp only [List.filter_cons, ha, addRouteCall]
      simp

theorem latest_registration_wins (c : List Method) (hist : List RouteReg) (t : String) :
    Routes.find (routesOf c hist) t = (((hist.filter (accepted c)).reverse.find? (·.tmpl == t))).map (bind c) := by
  unfold routesOf
  rw [history_find]
  cases (List.filter (accepted c) hist).reverse.find? (·.tmpl == t) <;> simp [Routes.find]


theorem effSuffix_empty : effSuffix (some "") = none := rfl
theorem effSuffix_none : effSuffix none = none := rfl
theorem effSuffix_nonempty (s : String) (h : s ≠ "") : effSuffix (some s) = some s := by
  have : s.isEmpty = false := by
    cases hs : s.isEmpty with
    | false => rfl
    | true => exact absurd (String.isEmpty_iff.mp hs) h
  simp [effSuffix, this]

theorem accepted_iff (c : List Method) (r : RouteReg) :
    accepted c r = true ↔ effSuffix r.suffix = none ∨ ∃ m ∈ c, ∃ a ∈ r.attrs, a.method = m ∧ a.suffix = effSuffix r.suffix := by
  unfold accepted
  rw [Bool.or_eq_true]
  constructor
  · rintro (h | h)
    · exact Or.inl (by simpa using h)
    · right
      have h' : mapHttpMethods c r.attrs (effSuffix r.suffix) ≠ [] := by simpa using h
      obtain ⟨m, hm⟩ := List.exists_mem_of_ne_nil _ h'
      simp only [mapHttpMethods, List.mem_filter, List.any_eq_true, Bool.and_eq_true, beq_iff_eq] at hm
      exact ⟨m, hm.1, hm.2⟩
  · rintro (h | ⟨m, hm, a, ha, h1, h2⟩)
    · exact Or.inl (by simp [h])
    · right
      have : m ∈ mapHttpMethods c r.attrs (effSuffix r.suffix) := by
        simp only [mapHttpMethods, List.mem_filter, List.any_eq_true, Bool.and_eq_true, beq_iff_eq]
        exact ⟨hm, a, ha, h1, h2⟩
      cases hl : mapHttpMethods c r.attrs (effSuffix r.suffix) with
      | nil => rw [hl] at this; cases this
      | cons _ _ => rfl

theorem rejected_call_is_noop (c : List Method) (rs : Routes) (r : RouteReg) (h : accepted c r = false) :
    addRouteCall c rs r = rs := by simp [addRouteCall, h]

theorem accepted_call_rebinds (c : List Method) (rs : Routes) (r : RouteReg) (h : accepted c r = true) :
    Routes.find (addRouteCall c rs r) r.tmpl = some (bind c r) ∧
    ∀ t, t ≠ r.tmpl → Routes.find (addRouteCall c rs r) t = Routes.find rs t := by
  simp only [addRouteCall, h, if_true, find_addRoute]
  refine ⟨by simp, fun t ht => ?_⟩
  have : ¬ r.tmpl = t := fun e => ht e.symm
  simp [this]

theorem reregistered_route_exact (c : List Method) (hist : List RouteReg) (t : String) (r : RouteReg)
    (h : (hist.filter (accepted c)).reverse.find? (·.tmpl == t) = some r) :
    ∃ b, Routes.find (routesOf c hist) t = some b ∧ b.suffix = effSuffix r.suffix ∧ b.mm.rid = r.rid ∧
      (∀ m, b.mm.lookup m = .resource r.rid m ↔ (m ∈ c ∧ ∃ a ∈ r.attrs, a.method = m ∧ a.suffix = effSuffix r.suffix)) ∧
      (∀ m, m ∈ b.mm.allowed ↔ ((m ∈ c ∧ ∃ a ∈ r.attrs, a.method = m ∧ a.suffix = effSuffix r.suffix) ∧ m ≠ "WEBSOCKET")) ∧
      (∀ m, m ∈ b.mm.allow405 ↔ (((m ∈ c ∧ ∃ a ∈ r.attrs, a.method = m ∧ a.suffix = effSuffix r.suffix) ∧ m ≠ "WEBSOCKET") ∨ m = "OPTIONS")) := by
  have himpl : ∀ m, m ∈ (bind c r).mm.impl ↔ (m ∈ c ∧ ∃ a ∈ r.attrs, a.method = m ∧ a.suffix = effSuffix r.suffix) := by
    intro m
    simp [bind, mkMethodMap, mapHttpMethods, List.mem_filter, List.any_eq_true]
  refine ⟨bind c r, by rw [latest_registration_wins, h]; rfl, rfl, rfl, fun m => ?_, fun m => ?_, fun m => ?_⟩
  · exact suffix_isolation r.rid c r.attrs (effSuffix r.suffix) m
  · rw [options_allow_exact, himpl]
  · rw [allow405_exact, himpl]

theorem unregistered_template (c : List Method) (hist : List RouteReg) (t : String)
    (h : ∀ r ∈ hist, accepted c r = true → r.tmpl ≠ t) : Routes.find (routesOf c hist) t = none := by
  rw [latest_registration_wins]
  have : (hist.filter (accepted c)).reverse.find? (·.tmpl == t) = none := by
    rw [List.find?_eq_none]
    intro x hx
    have hx' := List.mem_filter.mp (List.mem_reverse.mp hx)
    simpa using h x hx'.1 hx'.2
  rw [this]; rfl

/-- the same resource object (rid 0: `on_get_collection`, `on_post_collection`, `on_get_item`, `on_delete_item`) registered for
    `/things` with suffix `collection` and then again with suffix `item`: POST is 405 with Allow DELETE, GET, OPTIONS -/
example : ((Routes.find (routesOf ["GET", "POST", "DELETE", "OPTIONS"]
    [⟨"/things", 0, [⟨"GET", some "collection"⟩, ⟨"POST", some "collection"⟩, ⟨"GET", some "item"⟩, ⟨"DELETE", some "item"⟩], some "collection"⟩,
     ⟨"/things", 0, [⟨"GET", some "collection"⟩, ⟨"POST", some "collection"⟩, ⟨"GET", some "item"⟩, ⟨"DELETE", some "item"⟩], some "item"⟩])
    "/things").map fun b => (b.mm.lookup "POST", b.mm.lookup "DELETE")) =
    some (.notAllowed ["DELETE", "GET", "OPTIONS"], .resource 0 "DELETE") := by decide

/-- twin responder families that differ in letter case only: `suffix='byId'` reaches `on_get_byId`, never `on_put_byid` -/
example : ((Routes.find (routesOf ["GET", "PUT", "OPTIONS"]
    [⟨"/t/{id}", 3, [⟨"GET", some "byId"⟩, ⟨"PUT", some "byid"⟩], some "byId"⟩]) "/t/{id}").map fun b => (b.mm.lookup "GET", b.mm.lookup "PUT")) =
    some (.resource 3 "GET", .notAllowed ["GET", "OPTIONS"]) := by decide

/-- `suffix=''` is no suffix: the route reaches `on_get`, not `on_get_` -/
example : ((Routes.find (routesOf ["GET", "PUT", "OPTIONS"]
    [⟨"/a", 1, [⟨"GET", none⟩, ⟨"PUT", some ""⟩], some ""⟩]) "/a").map fun b => (b.mm.lookup "GET", b.mm.lookup "PUT", b.suffix)) =
    some (.resource 1 "GET", .notAllowed ["GET", "OPTIONS"], none) := by decide

/-! ### the framework's own answers are exact whatever earlier stages left on the response -/

/-- the status of falcon's own answers: 200 for the automatic OPTIONS responder, 405, 400, 404 - for EVERY state `pre` of the
    response (a status preset by `process_request` / `process_resource` middleware or by the `response_type` initializer) -/
theorem answer_status_exact (pre : Resp) (r : Responder) :
    (answer pre r).status = match r with
      | .options _ => 200 | .notAllowed _ => 405 | .badRequest => 400 | .notFound => 404 | _ => pre.status := by
  cases r <;> rfl

/-- falcon's own answers do not depend on the status the response carried before -/
theorem answer_status_independent (pre pre' : Resp) (r : Responder) (h : r.isDefault = true) :
    (answer pre r).status = (answer pre' r).status := by
  cases r <;> first | rfl | (simp [Responder.isDefault] at h)

/-- the Allow header of the automatic OPTIONS answer and of the 405 answer is the responder's own list, whatever `Allow` value
    an earlier stage had put on the response; 400 and 404 leave the header alone -/
theorem answer_allow_exact (pre : Resp) (r : Responder) :
    (answer pre r).allow = match r with
      | .options al => some (", ".intercalate al) | .notAllowed al => some (", ".intercalate al) | _ => pre.allow := by
  cases r <;> rfl

/-- on a matched route whose resource has no `on_options`: OPTIONS is answered 200 with `Allow` = exactly the implemented HTTP
    methods (sorted, without WEBSOCKET), for every state of the response before -/
theorem options_answer_exact (mm : MethodMap) (pre : Resp) (h : mm.impl.contains "OPTIONS" = false) :
    answer pre (mm.lookup "OPTIONS") = { status := 200, allow := some (", ".intercalate mm.allowed) } := by
  unfold MethodMap.lookup
  rw [if_neg (by rw [h]; decide), if_pos (by decide)]
  rfl

/-- ... and a method of COMBINED_METHODS the resource does not implement is answered 405 with `Allow` = those methods plus OPTIONS -/
theorem not_allowed_answer_exact (mm : MethodMap) (pre : Resp) (m : Method)
    (h1 : mm.impl.contains m = false) (h2 : (m == "OPTIONS") = false) (h3 : mm.combined.contains m = true) :
    answer pre (mm.lookup m) = { status := 405, allow := some (", ".intercalate mm.allow405) } := by
  unfold MethodMap.lookup
  rw [if_neg (by rw [h1]; decide), if_neg (by rw [h2]; decide), if_pos h3]
  rfl

/-- a process_request middleware preset `501` and a bogus `Allow`: OPTIONS on a GET/PUT resource is still `200`, `Allow: GET, PUT` -/
example : answer { status := 501, allow := some "BOGUS" } (({ rid := 0, impl := ["PUT", "GET"], combined := ["GET", "PUT", "OPTIONS"] } : MethodMap).lookup "OPTIONS")
    = { status := 200, allow := some "GET, PUT" } := by decide

end Dp

import FalconModel.ErrHandle
/-! C04: which body is SENT after `_handle_exception` when a stream was attached to the response before the raise.
    `_handle_exception` (falcon/app.py, falcon/asgi/app.py) resets `text`, `data` and `media` but never touches `resp.stream`;
    `App._get_body` (WSGI) returns `render_body()` if it is not `None` and only otherwise the stream, and
    `falcon.asgi.App.__call__` sends `data` if it is not `None` and only otherwise iterates `resp.stream`.
    So a stale stream can only be sent when the handler defines no body at all.
    `resp.sse` (ASGI only; on WSGI the attribute does not exist = always `none`) is consulted BEFORE `data` by
    `falcon.asgi.App.__call__`; since fix 4582e3b the ASGI `_handle_exception` sets `resp.sse = None` together with text / data / media
    and, since 53e3725, again when the handler raises (`handleSPinned`, `handleSPinned2`: the code before these fixes).
    Tokens as in `ErrHandle.lean`. -/
namespace Eb
open Eh

/-- what the chosen error handler does to `resp.stream` (before it returns or raises) -/
inductive StreamAct where
  | keep                 -- does not touch it (all built-in handlers)
  | set (tok : Nat)      -- `resp.stream = <its own stream>`
  | clear                -- `resp.stream = None`
deriving Repr, DecidableEq

/-- `falcon.Response` with its `stream` attribute -/
structure RespS where
  r : Resp
  stream : Option Nat
  sse : Option Nat := none
deriving Repr, DecidableEq

def applyAct (a : StreamAct) (s : Option Nat) : Option Nat :=
  match a with
  | .keep => s
  | .set t => some t
  | .clear => none

/-- does the handler end by raising an HTTPError / HTTPStatus (rendered in turn)? -/
def behRaises : Beh → Bool
  | .raisesHttp _ | .raisesStatus _ | .draftRaisesHttp .. | .draftRaisesStatus .. => true
  | _ => false

/-- `_handle_exception` on a response that carries a stream / an emitter: text / data / media as in `Eh.handle`; the stream is only
    changed by the handler itself (`sact h` for the handler found for the MRO); `resp.sse` is set to `None` before the handler runs
    (4582e3b) and again when the handler raises an HTTPError / HTTPStatus (53e3725), so afterwards it is the emitter the handler
    assigned (`eact h`) if the handler returned normally, nothing otherwise -/
def handleS (reg : Reg) (beh : Handler → Beh) (sact : Handler → StreamAct) (eact : Handler → Option Nat) (mro : List Cls)
    (raisedStatus : Nat) (x : RespS) : Option RespS :=
  match find reg mro, handle reg beh mro raisedStatus x.r with
  | some h, some r' => some { r := r', stream := applyAct (sact h) x.stream, sse := if behRaises (beh h) then none else eact h }
  | _, _ => none

/-- the ASGI `_handle_exception` before fix 4582e3b: an emitter set before the raise survives (unless the handler assigns its own) -/
def handleSPinned (reg : Reg) (beh : Handler → Beh) (sact : Handler → StreamAct) (eact : Handler → Option Nat) (mro : List Cls)
    (raisedStatus : Nat) (x : RespS) : Option RespS :=
  (handleS reg beh sact eact mro raisedStatus x).map fun y => { y with sse := y.sse <|> x.sse }

/-- ... and between 4582e3b and 53e3725: the emitter a handler assigned before raising survives -/
def handleSPinned2 (reg : Reg) (beh : Handler → Beh) (sact : Handler → StreamAct) (eact : Handler → Option Nat) (mro : List Cls)
    (raisedStatus : Nat) (x : RespS) : Option RespS :=
  match find reg mro, handle reg beh mro raisedStatus x.r with
  | some h, some r' => some { r := r', stream := applyAct (sact h) x.stream, sse := eact h }
  | _, _ => none

/-- `App._get_body` / the body part of `falcon.asgi.App.__call__`: the server-sent events if an emitter is set (ASGI), else the rendered
    body, else the stream, else nothing -/
def sent (x : RespS) : Option Nat := x.sse <|> body x.r <|> x.stream

/-- the order of seeded change C04_11 (stream first), for the witness below -/
def sentStreamFirst (x : RespS) : Option Nat := x.stream <|> body x.r

end Eb

import FalconModel.ErrBody
import FalconModel.ErrHandleProofs
/-! C04: the body sent after `_handle_exception` is the one the handler defines, never a stream or a server-sent events emitter
    attached before the raise. -/
namespace Eb
open Eh

theorem handleS_some_iff (reg : Reg) (beh : Handler → Beh) (sact : Handler → StreamAct) (eact : Handler → Option Nat) (mro : List Cls)
    (st : Nat) (x : RespS) :
    (handleS reg beh sact eact mro st x).isSome = (handle reg beh mro st x.r).isSome := by
  unfold handleS
  cases hf : find reg mro with
  | none => simp [handle, hf]
  | some h => cases hh : handle reg beh mro st x.r <;> simp

/-- `handleS` spelled out: the handler found, the `Eh.handle` result, the stream action, the emitter -/
theorem handleS_eq (reg : Reg) (beh : Handler → Beh) (sact : Handler → StreamAct) (eact : Handler → Option Nat) (mro : List Cls)
    (st : Nat) (x y : RespS) (h : handleS reg beh sact eact mro st x = some y) :
    ∃ hd, find reg mro = some hd ∧ handle reg beh mro st x.r = some y.r ∧ y.stream = applyAct (sact hd) x.stream ∧
      y.sse = (if behRaises (beh hd) then none else eact hd) := by
  unfold handleS at h
  cases hf : find reg mro with
  | none => simp [hf] at h
  | some hd =>
    cases hh : handle reg beh mro st x.r with
    | none => simp [hf, hh] at h
    | some r' => simp [hf, hh] at h; subst h; exact ⟨hd, rfl, rfl, rfl, rfl⟩

/-- the text / data / media part of `handleS` is `Eh.handle` -/
theorem handleS_resp (reg : Reg) (beh : Handler → Beh) (sact : Handler → StreamAct) (eact : Handler → Option Nat) (mro : List Cls)
    (st : Nat) (x y : RespS) (h : handleS reg beh sact eact mro st x = some y) : handle reg beh mro st x.r = some y.r := by
  obtain ⟨_, _, h2, _⟩ := handleS_eq _ _ _ _ _ _ _ _ h; exact h2

/-- **a body defined by the handler is what is sent** when no emitter is pending, whatever stream the response carries -/
theorem defined_body_is_sent (x : RespS) (b : Nat) (hs : x.sse = none) (hb : body x.r = some b) : sent x = some b := by
  simp [sent, hs, hb]

/-- **an emitter set before the raise is discarded** (fix 4582e3b): the result of `_handle_exception` does not depend on it, and what is
    pending afterwards can only be an emitter that the handler itself assigned before returning normally -/
theorem stale_sse_discarded (reg : Reg) (beh : Handler → Beh) (sact : Handler → StreamAct) (eact : Handler → Option Nat) (mro : List Cls)
    (st : Nat) (r : Resp) (s e e' : Option Nat) :
    handleS reg beh sact eact mro st ⟨r, s, e⟩ = handleS reg beh sact eact mro st ⟨r, s, e'⟩ := by
  simp [handleS]

/-- with handlers that do not assign `resp.sse`: nothing is pending afterwards, what is sent is the rendered body, else the stream -/
theorem no_sse_after (reg : Reg) (beh : Handler → Beh) (sact : Handler → StreamAct) (eact : Handler → Option Nat) (mro : List Cls)
    (st : Nat) (x y : RespS) (he : ∀ hd, eact hd = none) (h : handleS reg beh sact eact mro st x = some y) :
    y.sse = none ∧ sent y = (body y.r <|> y.stream) := by
  obtain ⟨hd, _, _, _, h4⟩ := handleS_eq _ _ _ _ _ _ _ _ h
  have : y.sse = none := by rw [h4, he]; simp
  simp [sent, this]

/-- **an emitter the handler assigned before RAISING is discarded** (fix 53e3725): the raised HTTPError / HTTPStatus is what is sent -/
theorem handler_raised_discards_its_sse (reg : Reg) (beh : Handler → Beh) (sact : Handler → StreamAct) (eact : Handler → Option Nat)
    (mro : List Cls) (st : Nat) (x y : RespS) (hd : Handler) (hf : find reg mro = some hd) (hr : behRaises (beh hd) = true)
    (h : handleS reg beh sact eact mro st x = some y) : y.sse = none ∧ ∃ b, sent y = some b ∧ (b = errBody ∨ b = statusText) := by
  obtain ⟨hd', hf', h2, _, h4⟩ := handleS_eq _ _ _ _ _ _ _ _ h
  rw [hf] at hf'; injection hf' with hf'; subst hf'
  have hs : y.sse = none := by rw [h4, hr]; simp
  refine ⟨hs, ?_⟩
  cases hb : beh hd <;> simp [hb, behRaises] at hr <;>
    · simp [handle, hf, hb, reset, composeError, composeStatus] at h2
      simp [sent, hs, body, ← h2, errBody, statusText]

/-- a handler that assigns its own emitter and returns: its events are what is sent (the response it defines) -/
theorem handler_sse_is_sent (reg : Reg) (beh : Handler → Beh) (sact : Handler → StreamAct) (eact : Handler → Option Nat)
    (mro : List Cls) (st : Nat) (x : RespS) (hd : Handler) (s t d m : Option Nat) (k : Nat) (hf : find reg mro = some hd)
    (hb : beh hd = .sets s t d m) (he : eact hd = some k) :
    (handleS reg beh sact eact mro st x).map sent = some (some k) := by
  simp [handleS, handle, hf, hb, he, behRaises, sent]

/-- **the stale stream / emitter never replaces the handler's body**: if the response produced by `_handle_exception` has a rendered
    body, what is sent does not depend on the stream, the emitter, or the text / data / media attached before the raise -/
theorem sent_independent_of_stale_stream (reg : Reg) (beh : Handler → Beh) (sact : Handler → StreamAct) (eact : Handler → Option Nat)
    (mro : List Cls) (st : Nat) (r : Resp) (s s' e e' : Option Nat) (t d m : Option Nat) (y : RespS)
    (h : handleS reg beh sact eact mro st ⟨r, s, e⟩ = some y) (hb : (body y.r).isSome) :
    ∃ y', handleS reg beh sact eact mro st ⟨{ r with text := t, data := d, media := m }, s', e'⟩ = some y' ∧ sent y' = sent y := by
  have h1 := handleS_resp _ _ _ _ _ _ _ _ h
  have h2 : handle reg beh mro st { r with text := t, data := d, media := m } = some y.r := by
    rw [body_reset_before_handler]; exact h1
  unfold handleS at h ⊢
  cases hf : find reg mro with
  | none => simp [hf] at h
  | some hd =>
    simp only [hf, h1, h2] at h ⊢
    refine ⟨_, rfl, ?_⟩
    injection h with h
    cases hbb : body y.r with
    | none => simp [hbb] at hb
    | some b =>
      rw [← h]; simp only [sent, hbb]
      cases (if behRaises (beh hd) then none else eact hd) <;> simp

section NoHandlerEmitter
variable (reg : Reg) (beh : Handler → Beh) (sact : Handler → StreamAct) (mro : List Cls) (st : Nat) (x : RespS) (h : Handler)

/-- default HTTPError handler: the serialized error is sent, whatever stream / emitter was attached before the raise -/
theorem default_http_sends_error_body (eact : Handler → Option Nat) (hf : find reg mro = some h) (hb : beh h = .defaultHttp) (he : eact h = none) :
    (handleS reg beh sact eact mro st x).map sent = some (some errBody) := by
  simp [handleS, handle, hf, hb, he, behRaises, reset, composeError, sent, body]

/-- default Exception handler: the serialized 500 is sent -/
theorem default_exception_sends_error_body (eact : Handler → Option Nat) (hf : find reg mro = some h) (hb : beh h = .defaultException) (he : eact h = none) :
    (handleS reg beh sact eact mro st x).map sent = some (some errBody) ∧ (handleS reg beh sact eact mro st x).map (·.r.status) = some 500 := by
  simp [handleS, handle, hf, hb, he, behRaises, reset, composeError, sent, body]

/-- default HTTPStatus handler (a status that carries a text): its text is sent -/
theorem default_status_sends_text (eact : Handler → Option Nat) (hf : find reg mro = some h) (hb : beh h = .defaultStatus) (he : eact h = none) :
    (handleS reg beh sact eact mro st x).map sent = some (some statusText) := by
  simp [handleS, handle, hf, hb, he, behRaises, reset, composeStatus, sent, body]

/-- an HTTPError raised by the handler (after assigning anything, a stream or an emitter included) is sent as the serialized error -/
theorem handler_raised_http_sends_error_body (eact : Handler → Option Nat) (t d m : Option Nat) (s : Nat) (hf : find reg mro = some h)
    (hb : beh h = .draftRaisesHttp t d m s ∨ beh h = .raisesHttp s) :
    (handleS reg beh sact eact mro st x).map sent = some (some errBody) := by
  rcases hb with hb | hb <;> simp [handleS, handle, hf, hb, behRaises, reset, composeError, sent, body]

theorem handler_raised_status_sends_text (eact : Handler → Option Nat) (t d m : Option Nat) (s : Nat) (hf : find reg mro = some h)
    (hb : beh h = .draftRaisesStatus t d m s ∨ beh h = .raisesStatus s) :
    (handleS reg beh sact eact mro st x).map sent = some (some statusText) := by
  rcases hb with hb | hb <;> simp [handleS, handle, hf, hb, behRaises, reset, composeStatus, sent, body]

/-- a handler that assigns text / data / media (and no emitter): that is sent (text before data before media) -/
theorem handler_set_body_is_sent (eact : Handler → Option Nat) (s t d m : Option Nat) (hf : find reg mro = some h) (hb : beh h = .sets s t d m)
    (he : eact h = none) (hne : (t <|> d <|> m).isSome) :
    (handleS reg beh sact eact mro st x).map sent = some (t <|> d <|> m) := by
  cases t <;> cases d <;> cases m <;> simp_all [handleS, handle, behRaises, reset, sent, body]

/-- a handler that attaches its own stream and no text / data / media: its stream is sent -/
theorem handler_stream_is_sent (eact : Handler → Option Nat) (s : Option Nat) (k : Nat) (hf : find reg mro = some h) (hb : beh h = .sets s none none none)
    (he : eact h = none) (ha : sact h = .set k) :
    (handleS reg beh sact eact mro st x).map sent = some (some k) := by
  simp [handleS, handle, hf, hb, he, ha, behRaises, reset, sent, body, applyAct]
end NoHandlerEmitter

/-- **exactly when the stale stream is sent**: the handler returned normally (or the response was composed) without any
    text / data / media and did not touch the stream -/
theorem stale_stream_sent_only_if_no_body (reg : Reg) (beh : Handler → Beh) (sact : Handler → StreamAct) (eact : Handler → Option Nat)
    (mro : List Cls) (st : Nat)
    (x y : RespS) (k : Nat) (hx : x.stream = some k) (h : handleS reg beh sact eact mro st x = some y)
    (hs : sent y = some k) (hfresh : ∀ hd, sact hd ≠ .set k) (hk : body y.r ≠ some k) (hke : y.sse ≠ some k) :
    body y.r = none ∧ ∃ hd, find reg mro = some hd ∧ sact hd = .keep := by
  obtain ⟨hd, hf, _, h3, _⟩ := handleS_eq _ _ _ _ _ _ _ _ h
  cases he : y.sse with
  | some e => simp [sent, he] at hs; subst hs; exact absurd he hke
  | none =>
    cases hb : body y.r with
    | some b => simp [sent, he, hb] at hs; subst hs; exact absurd hb hk
    | none =>
      refine ⟨rfl, hd, hf, ?_⟩
      simp [sent, he, hb, h3, hx] at hs
      cases ha : sact hd with
      | keep => rfl
      | set t => simp [ha, applyAct] at hs; subst hs; exact absurd ha (hfresh hd)
      | clear => simp [ha, applyAct] at hs

/-- without a stream and an emitter `sent` is `Eh.body` -/
theorem sent_no_stream (r : Resp) : sent ⟨r, none, none⟩ = body r := by
  simp [sent]

/-- witness for seeded change C04_11 (stream checked first): an HTTPError raised after a stream (token 6) was attached is answered
    with the stream by the changed order, with the serialized error by the real order -/
theorem stream_first_witness :
    (handleS [(2, 9002)] (fun _ => .defaultHttp) (fun _ => .keep) (fun _ => none) [1, 2] 403 ⟨⟨200, none, none, none⟩, some 6, none⟩).map sentStreamFirst = some (some 6)
    ∧ (handleS [(2, 9002)] (fun _ => .defaultHttp) (fun _ => .keep) (fun _ => none) [1, 2] 403 ⟨⟨200, none, none, none⟩, some 6, none⟩).map sent = some (some errBody) := by
  decide

/-- regression witness for fix 4582e3b: before it, an emitter (token 8) set before the raise was what the client received -/
theorem sse_pinned_witness :
    (handleSPinned [(2, 9002)] (fun _ => .defaultHttp) (fun _ => .keep) (fun _ => none) [1, 2] 403 ⟨⟨200, none, none, none⟩, none, some 8⟩).map sent = some (some 8)
    ∧ (handleS [(2, 9002)] (fun _ => .defaultHttp) (fun _ => .keep) (fun _ => none) [1, 2] 403 ⟨⟨200, none, none, none⟩, none, some 8⟩).map sent = some (some errBody) := by
  decide

/-- regression witness for fix 53e3725: before it, the emitter (token 10) a handler assigned before raising an HTTPError was sent -/
theorem handler_sse_pinned_witness :
    (handleSPinned2 [(1, 7)] (fun _ => .draftRaisesHttp none none none 410) (fun _ => .keep) (fun _ => some 10) [1] 0 ⟨⟨200, none, none, none⟩, none, none⟩).map sent = some (some 10)
    ∧ (handleS [(1, 7)] (fun _ => .draftRaisesHttp none none none 410) (fun _ => .keep) (fun _ => some 10) [1] 0 ⟨⟨200, none, none, none⟩, none, none⟩).map sent = some (some errBody) := by
  decide

example : (handleS [(4, 9001)] (fun _ => .defaultException) (fun _ => .keep) (fun _ => none) [1, 4, 5] 0 ⟨⟨200, some 9, none, some 9⟩, some 6, some 8⟩).map sent = some (some errBody) := by decide

end Eb

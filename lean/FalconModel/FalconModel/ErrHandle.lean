import FalconModel.ErrHandlers
/-! C04: model of `App._handle_exception` (falcon/app.py, falcon/asgi/app.py) on top of the handler registry of
    `ErrHandlers.lean`.  Body contents are opaque tokens; only *which* field ends up being rendered matters. -/
namespace Eh

/-- the part of `falcon.Response` that `_handle_exception` and body rendering touch -/
structure Resp where
  status : Nat
  text : Option Nat
  data : Option Nat
  media : Option Nat
deriving Repr, DecidableEq

/-- token of the body produced by the default error serializer (`resp.data = exception.to_json()`) -/
def errBody : Nat := 4
/-- token of `HTTPStatus.text` -/
def statusText : Nat := 5

/-- what an error handler does when called -/
inductive Beh where
  | sets (status : Option Nat) (text data media : Option Nat)   -- assigns (some of) status / text / data / media, returns
  | raisesHttp (status : Nat)           -- raises an HTTPError
  | raisesStatus (status : Nat)         -- raises an HTTPStatus
  | raisesOther                         -- raises anything else
  | draftRaisesHttp (text data media : Option Nat) (status : Nat)    -- assigns text / data / media, THEN raises an HTTPError
  | draftRaisesStatus (text data media : Option Nat) (status : Nat)  -- assigns text / data / media, THEN raises an HTTPStatus
  | defaultException                    -- `_python_error_handler`: compose HTTPInternalServerError
  | defaultHttp                         -- `_http_error_handler`: compose the raised HTTPError
  | defaultStatus                       -- `_http_status_handler`: compose the raised HTTPStatus
deriving Repr

/-- `resp.text = resp.data = resp.media = None` -/
def reset (r : Resp) : Resp := { r with text := none, data := none, media := none }

/-- `_compose_error_response` with the default serializer (JSON into `resp.data`) -/
def composeError (r : Resp) (status : Nat) : Resp := { r with status := status, data := some errBody }

/-- `_compose_status_response` -/
def composeStatus (r : Resp) (status : Nat) : Resp := { r with status := status, text := some statusText }

/-- `_handle_exception`: `none` = returns False, the caller re-raises (the exception reaches the server);
    also `none` when the handler raises something that is neither HTTPStatus nor HTTPError.
    `raisedStatus` is the status carried by the raised object when it is an HTTPError / HTTPStatus. -/
def handle (reg : Reg) (beh : Handler → Beh) (mro : List Cls) (raisedStatus : Nat) (r : Resp) : Option Resp :=
  let r := reset r
  match find reg mro with
  | none => none
  | some h =>
    match beh h with
    | .sets st t d m =>
      some { status := st.getD r.status, text := t <|> r.text, data := d <|> r.data, media := m <|> r.media }
    | .raisesHttp st => some (composeError r st)
    | .raisesStatus st => some (composeStatus r st)
    | .raisesOther => none
    -- `except HTTPError as error: resp.text = resp.data = resp.media = None; _compose_error_response` (after fix 07d5278)
    | .draftRaisesHttp t d m st => some (composeError (reset { r with text := t, data := d, media := m }) st)
    | .draftRaisesStatus t d m st => some (composeStatus (reset { r with text := t, data := d, media := m }) st)
    | .defaultException => some (composeError r 500)
    | .defaultHttp => some (composeError r raisedStatus)
    | .defaultStatus => some (composeStatus r raisedStatus)

/-- the pinned `_handle_exception` (before fix 07d5278): what the handler assigned before raising stays on the response -/
def handlePinned (reg : Reg) (beh : Handler → Beh) (mro : List Cls) (raisedStatus : Nat) (r : Resp) : Option Resp :=
  let r := reset r
  match find reg mro with
  | none => none
  | some h =>
    match beh h with
    | .draftRaisesHttp t d m st => some (composeError { r with text := t, data := d, media := m } st)
    | .draftRaisesStatus t d m st => some (composeStatus { r with text := t, data := d, media := m } st)
    | _ => handle reg beh mro raisedStatus r

/-- `Response.render_body`: text, else data, else media -/
def body (r : Resp) : Option Nat := r.text <|> r.data <|> r.media

/-- the registrations made by `App.__init__`, in that order -/
def defaults (cExc cHttp cStatus : Cls) (dExc dHttp dStatus : Handler) : Reg :=
  [(cExc, dExc), (cHttp, dHttp), (cStatus, dStatus)]

end Eh

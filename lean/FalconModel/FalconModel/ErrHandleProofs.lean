import FalconModel.ErrHandle
/-! C04: `_handle_exception` discards the body set so far, renders what the handler raises, and with the default
    registrations never lets an Exception-derived error escape. -/
namespace Eh

/-- **body reset**: whatever text / data / media were set before the raise, the outcome is the same -/
theorem body_reset_before_handler (reg : Reg) (beh : Handler → Beh) (mro : List Cls) (st : Nat) (r : Resp)
    (t d m : Option Nat) :
    handle reg beh mro st { r with text := t, data := d, media := m } = handle reg beh mro st r := by
  simp [handle, reset]

/-- a handler that sets no body leaves an empty body -/
theorem handler_runs_on_clean_body (reg : Reg) (beh : Handler → Beh) (mro : List Cls) (st : Nat) (r : Resp)
    (h : Handler) (s : Option Nat) (hf : find reg mro = some h) (hb : beh h = .sets s none none none) :
    ∃ r', handle reg beh mro st r = some r' ∧ r'.text = none ∧ r'.data = none ∧ r'.media = none ∧ body r' = none := by
  simp [handle, hf, hb, reset, body]

/-- an HTTPError raised by the handler is rendered in turn: its status, its serialized body -/
theorem handler_raised_http_rendered (reg : Reg) (beh : Handler → Beh) (mro : List Cls) (st : Nat) (r : Resp)
    (h : Handler) (s : Nat) (hf : find reg mro = some h) (hb : beh h = .raisesHttp s) :
    ∃ r', handle reg beh mro st r = some r' ∧ r'.status = s ∧ body r' = some errBody := by
  simp [handle, hf, hb, reset, composeError, body]

/-- an HTTPStatus raised by the handler is rendered in turn: its status, its text -/
theorem handler_raised_status_rendered (reg : Reg) (beh : Handler → Beh) (mro : List Cls) (st : Nat) (r : Resp)
    (h : Handler) (s : Nat) (hf : find reg mro = some h) (hb : beh h = .raisesStatus s) :
    ∃ r', handle reg beh mro st r = some r' ∧ r'.status = s ∧ body r' = some statusText := by
  simp [handle, hf, hb, reset, composeStatus, body]

/-- the exception reaches the server iff no class of the MRO is registered, or the chosen handler raises
    something other than HTTPError / HTTPStatus -/
theorem escape_iff (reg : Reg) (beh : Handler → Beh) (mro : List Cls) (st : Nat) (r : Resp) :
    handle reg beh mro st r = none ↔
      find reg mro = none ∨ ∃ h, find reg mro = some h ∧ beh h = .raisesOther := by
  unfold handle
  cases hf : find reg mro with
  | none => simp
  | some h =>
    cases hb : beh h <;> simp [hb]

/-! ### the default registrations -/

theorem lookup_append (a b : Reg) (c : Cls) :
    lookup (a ++ b) c = match lookup b c with
      | some h => some h
      | none => lookup a c := by
  induction a with
  | nil => cases h : lookup b c <;> simp [lookup, h]
  | cons x xs ih =>
    obtain ⟨cx, hx⟩ := x
    simp only [List.cons_append, lookup, ih]
    cases h : lookup b c <;> simp

theorem lookup_none_of_not_registered (reg : Reg) (c : Cls) (h : ∀ p ∈ reg, p.1 ≠ c) : lookup reg c = none := by
  induction reg with
  | nil => rfl
  | cons x xs ih =>
    obtain ⟨cx, hx⟩ := x
    have h1 : cx ≠ c := h (cx, hx) (by simp)
    have h2 := ih (fun p hp => h p (List.mem_cons_of_mem _ hp))
    simp [lookup, h2, h1]

/-- if `c0` is the only registered class of the MRO, its handler is found -/
theorem find_of_only (reg : Reg) (c0 : Cls) (h : Handler) (hl : lookup reg c0 = some h) :
    ∀ (mro : List Cls), c0 ∈ mro → (∀ c ∈ mro, c ≠ c0 → lookup reg c = none) → find reg mro = some h := by
  intro mro
  induction mro with
  | nil => intro hm; cases hm
  | cons c rest ih =>
    intro hm ho
    unfold find
    by_cases hc : c = c0
    · subst hc; simp [hl]
    · have hn := ho c (by simp) hc
      rw [hn]
      simp only
      apply ih
      · rcases List.mem_cons.mp hm with e | e
        · exact absurd e.symm hc
        · exact e
      · intro c' hc' hne; exact ho c' (List.mem_cons_of_mem _ hc') hne

/-- **default 500, never escapes**: the registry is the three default registrations followed by any later ones; the
    raised class is Exception-derived but neither HTTPError- nor HTTPStatus-derived, and no later registration concerns a
    class of its MRO.  Then the exception is handled and the response is a 500 carrying the serialized error. -/
theorem default_exception_is_500_and_never_escapes
    (cExc cHttp cStatus : Cls) (dExc dHttp dStatus : Handler) (later : Reg) (beh : Handler → Beh)
    (mro : List Cls) (st : Nat) (r : Resp)
    (hbeh : beh dExc = .defaultException)
    (hE : cExc ∈ mro) (hH : cHttp ∉ mro) (hS : cStatus ∉ mro)
    (hlater : ∀ c ∈ mro, ∀ p ∈ later, p.1 ≠ c) :
    ∃ r', handle (defaults cExc cHttp cStatus dExc dHttp dStatus ++ later) beh mro st r = some r' ∧
      r'.status = 500 ∧ body r' = some errBody := by
  have hne1 : cHttp ≠ cExc := fun e => hH (e ▸ hE)
  have hne2 : cStatus ≠ cExc := fun e => hS (e ▸ hE)
  have hl0 : lookup (defaults cExc cHttp cStatus dExc dHttp dStatus ++ later) cExc = some dExc := by
    rw [lookup_append, lookup_none_of_not_registered later cExc (hlater cExc hE)]
    simp [defaults, lookup, hne1, hne2]
  have hf : find (defaults cExc cHttp cStatus dExc dHttp dStatus ++ later) mro = some dExc := by
    apply find_of_only _ cExc dExc hl0 mro hE
    intro c hc hne
    rw [lookup_append, lookup_none_of_not_registered later c (hlater c hc)]
    have h1 : cHttp ≠ c := fun e => hH (e ▸ hc)
    have h2 : cStatus ≠ c := fun e => hS (e ▸ hc)
    have h3 : cExc ≠ c := fun e => hne e.symm
    simp [defaults, lookup, h1, h2, h3]
  simp [handle, hf, hbeh, reset, composeError, body]

/-- **default HTTPError rendering**: HTTPError is the nearest registered class of the MRO (nothing before it is
    registered, no later registration for it).  Then the response carries the error's own status and serialized body. -/
theorem default_httperror_keeps_status
    (cExc cHttp cStatus : Cls) (dExc dHttp dStatus : Handler) (later : Reg) (beh : Handler → Beh)
    (pre post : List Cls) (st : Nat) (r : Resp)
    (hbeh : beh dHttp = .defaultHttp)
    (hne : cStatus ≠ cHttp)
    (hpre : ∀ c ∈ pre, c ≠ cExc ∧ c ≠ cHttp ∧ c ≠ cStatus)
    (hlater : ∀ c ∈ pre ++ [cHttp], ∀ p ∈ later, p.1 ≠ c) :
    ∃ r', handle (defaults cExc cHttp cStatus dExc dHttp dStatus ++ later) beh (pre ++ cHttp :: post) st r = some r' ∧
      r'.status = st ∧ body r' = some errBody := by
  have hf : find (defaults cExc cHttp cStatus dExc dHttp dStatus ++ later) (pre ++ cHttp :: post) = some dHttp := by
    rw [find_most_specific]
    refine ⟨pre, cHttp, post, rfl, ?_, ?_⟩
    · rw [lookup_append, lookup_none_of_not_registered later cHttp (hlater cHttp (by simp))]
      simp [defaults, lookup, hne]
    · intro c hc
      obtain ⟨h1, h2, h3⟩ := hpre c hc
      rw [lookup_append, lookup_none_of_not_registered later c (hlater c (by simp [hc]))]
      simp [defaults, lookup, Ne.symm h1, Ne.symm h2, Ne.symm h3]
  simp [handle, hf, hbeh, reset, composeError, body]

end Eh

/-! ### what a handler assigned before raising is discarded (fix 07d5278) -/
namespace Eh

/-- An HTTPError raised by the handler is rendered exactly as if the handler had assigned nothing first. -/
theorem draft_then_http_eq_http (reg : Reg) (beh : Handler → Beh) (mro : List Cls) (rs : Nat) (r : Resp)
    (h : Handler) (t d m : Option Nat) (s : Nat) (hf : find reg mro = some h) (hb : beh h = .draftRaisesHttp t d m s) :
    handle reg beh mro rs r = some (composeError (reset r) s) := by
  simp [handle, hf, hb, reset, composeError]

theorem draft_then_status_eq_status (reg : Reg) (beh : Handler → Beh) (mro : List Cls) (rs : Nat) (r : Resp)
    (h : Handler) (t d m : Option Nat) (s : Nat) (hf : find reg mro = some h) (hb : beh h = .draftRaisesStatus t d m s) :
    handle reg beh mro rs r = some (composeStatus (reset r) s) := by
  simp [handle, hf, hb, reset, composeStatus]

/-- The body sent for a handler-raised HTTPError is the serialized error, whatever the handler (or anything before it) had assigned. -/
theorem draft_http_body_is_error (reg : Reg) (beh : Handler → Beh) (mro : List Cls) (rs : Nat) (r : Resp)
    (h : Handler) (t d m : Option Nat) (s : Nat) (hf : find reg mro = some h) (hb : beh h = .draftRaisesHttp t d m s) :
    (handle reg beh mro rs r).map body = some (some errBody) := by
  simp [handle, hf, hb, reset, composeError, body]

theorem draft_status_body_is_status_text (reg : Reg) (beh : Handler → Beh) (mro : List Cls) (rs : Nat) (r : Resp)
    (h : Handler) (t d m : Option Nat) (s : Nat) (hf : find reg mro = some h) (hb : beh h = .draftRaisesStatus t d m s) :
    (handle reg beh mro rs r).map body = some (some statusText) := by
  simp [handle, hf, hb, reset, composeStatus, body]

/-- regression witness: on the pinned code the handler's draft text (token 1) was sent as the body of the error response -/
theorem draft_leaks_pinned_witness :
    (handlePinned [(1, 7)] (fun _ => .draftRaisesHttp (some 1) none none 410) [1] 0 ⟨200, none, none, none⟩).map body = some (some 1)
    ∧ (handle [(1, 7)] (fun _ => .draftRaisesHttp (some 1) none none 410) [1] 0 ⟨200, none, none, none⟩).map body = some (some errBody) := by
  decide

end Eh

/-! C04 prototype: `App.add_error_handler` / `_find_error_handler` — the handler of the nearest class in the exception's MRO,
    latest registration per class winning. Classes and handlers are identifiers; the MRO of the raised exception's
    type (without `object`) is supplied by the harness from `type(ex).__mro__[:-1]`. -/
namespace Eh

abbrev Cls := Nat
abbrev Handler := Nat

/-- `self._error_handlers` as the list of registrations, oldest first -/
abbrev Reg := List (Cls × Handler)

/-- dict lookup after the registrations were applied in order: the last one for the class -/
def lookup : Reg → Cls → Option Handler
  | [], _ => none
  | (c', h) :: rest, c => match lookup rest c with
    | some h' => some h'
    | none => if c' = c then some h else none

def register (reg : Reg) (c : Cls) (h : Handler) : Reg := reg ++ [(c, h)]

/-- `_find_error_handler`: walk the MRO, return the first registered handler -/
def find (reg : Reg) : List Cls → Option Handler
  | [] => none
  | c :: rest => match lookup reg c with
    | some h => some h
    | none => find reg rest

theorem lookup_append_single (reg : Reg) (c c' : Cls) (h : Handler) :
    lookup (reg ++ [(c, h)]) c' = if c = c' then some h else lookup reg c' := by
  induction reg with
  | nil => simp [lookup]
  | cons x xs ih =>
    obtain ⟨cx, hx⟩ := x
    simp only [List.cons_append, lookup, ih]
    by_cases hc : c = c'
    · simp [hc]
    · simp [hc]

/-- the latest registration for a class wins -/
theorem latest_registration_wins (reg : Reg) (c : Cls) (h : Handler) : lookup (register reg c h) c = some h := by
  unfold register; rw [lookup_append_single]; simp

/-- … and does not disturb any other class -/
theorem other_class_unaffected (reg : Reg) (c c' : Cls) (h : Handler) (hne : c ≠ c') :
    lookup (register reg c h) c' = lookup reg c' := by
  unfold register; rw [lookup_append_single]; simp [hne]

/-- **the nearest class in the MRO decides**: `find` returns `h` iff some class of the MRO is registered with `h` and
    no class before it in the MRO is registered at all -/
theorem find_most_specific (reg : Reg) (mro : List Cls) (h : Handler) :
    find reg mro = some h ↔
      ∃ pre c post, mro = pre ++ c :: post ∧ lookup reg c = some h ∧ ∀ c' ∈ pre, lookup reg c' = none := by
  induction mro with
  | nil => simp [find]
  | cons c rest ih =>
    unfold find
    cases hl : lookup reg c with
    | some h' =>
      constructor
      · intro e; injection e with e; subst e
        exact ⟨[], c, rest, rfl, hl, fun _ hc => by cases hc⟩
      · rintro ⟨pre, c0, post, hm, hl0, hpre⟩
        cases pre with
        | nil => simp at hm; obtain ⟨rfl, _⟩ := hm; rw [hl] at hl0; exact hl0
        | cons p ps =>
          simp at hm; obtain ⟨rfl, _⟩ := hm
          have := hpre c (by simp); rw [hl] at this; cases this
    | none =>
      simp only
      rw [ih]
      constructor
      · rintro ⟨pre, c0, post, hm, hl0, hpre⟩
        refine ⟨c :: pre, c0, post, by simp [hm], hl0, ?_⟩
        intro c' hc'
        rcases List.mem_cons.mp hc' with rfl | h'
        · exact hl
        · exact hpre c' h'
      · rintro ⟨pre, c0, post, hm, hl0, hpre⟩
        cases pre with
        | nil => simp at hm; obtain ⟨rfl, _⟩ := hm; rw [hl] at hl0; cases hl0
        | cons p ps =>
          simp at hm; obtain ⟨rfl, rfl⟩ := hm
          exact ⟨ps, c0, post, rfl, hl0, fun c' hc' => hpre c' (List.mem_cons_of_mem _ hc')⟩

/-- no handler is found iff no class of the MRO is registered (then the exception propagates to the server) -/
theorem find_none_iff (reg : Reg) (mro : List Cls) : find reg mro = none ↔ ∀ c ∈ mro, lookup reg c = none := by
  induction mro with
  | nil => simp [find]
  | cons c rest ih =>
    unfold find
    cases hl : lookup reg c with
    | some h' => simp [hl]
    | none => simp only; rw [ih]; simp [hl]

#print axioms find_most_specific
end Eh

import FalconModel.ErrSerialize
import FalconModel.UriStr
/-! C04: the `link` of an `HTTPError` with the REAL encoder.  `Es.mkError` is parametric in `enc`; `falcon/http_error.py::HTTPError.__init__`
    passes `uri.encode` (NOT `uri.encode_check_escaped`), which the C10 model `Us.encode` transcribes at the `str` level (code points).
    Here the two are put together: `Ek.mkError` is `__init__` with `enc := uri.encode`, so that the content of `href` is visible to the
    correspondence (esdriver op `link`) and to the theorems of `ErrLinkProofs`. -/
namespace Ek

/-- a Python `str` as code points -/
def toCp (s : Es.Str) : Us.Str := s.map Char.toNat
def ofCp (s : Us.Str) : Es.Str := s.map Char.ofNat

/-- `uri.encode(href)` -/
def encHref (s : Es.Str) : Es.Str := ofCp (Us.encode (toCp s))

/-- `HTTPError.__init__` as it is in falcon/http_error.py: `'href': uri.encode(href)` -/
def mkError (status : Nat) (statusLine : Es.Str) (title description : Option Es.Str)
    (headers : Option (List (Es.Str × Es.Str))) (href hrefText : Option Es.Str) (code : Option Int) : Es.HttpError :=
  Es.mkError encHref status statusLine title description headers href hrefText code

end Ek

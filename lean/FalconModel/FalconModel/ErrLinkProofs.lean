import FalconModel.ErrLink
import FalconModel.ErrSerializeProofs
import FalconModel.UriStrProofs
namespace Ek
open Us (ValidStr)

theorem validStr_toCp (s : Es.Str) : ValidStr (toCp s) := by
  intro c hc
  obtain ⟨ch, _, rfl⟩ := List.mem_map.mp hc
  have h := ch.valid
  unfold U8.ValidScalar
  simp only [Char.toNat, UInt32.isValidChar, Nat.isValidChar] at *
  omega

theorem toNat_ofNat_ascii (c : Nat) (h : c < 0x80) : (Char.ofNat c).toNat = c := by
  have hv : c.isValidChar := by unfold Nat.isValidChar; omega
  simp [Char.ofNat, hv, Char.toNat, Char.ofNatAux]

theorem toCp_ofCp_ascii (x : Us.Str) (h : ∀ c ∈ x, c < 0x80) : toCp (ofCp x) = x := by
  induction x with
  | nil => rfl
  | cons a t ih =>
    simp only [toCp, ofCp, List.map_cons, List.map_map] at *
    rw [toNat_ofNat_ascii a (h a (by simp))]
    congr 1
    exact ih (fun c hc => h c (by simp [hc]))

theorem toCp_injective : ∀ (a b : Es.Str), toCp a = toCp b → a = b
  | [], [], _ => rfl
  | [], _ :: _, h => by simp [toCp] at h
  | _ :: _, [], h => by simp [toCp] at h
  | x :: xs, y :: ys, h => by
    simp only [toCp, List.map_cons, List.cons.injEq] at h
    have hxy : x = y := Char.ext (UInt32.toNat_inj.mp h.1)
    rw [hxy, toCp_injective xs ys h.2]

theorem toCp_encHref (s : Es.Str) : toCp (encHref s) = Us.encode (toCp s) :=
  toCp_ofCp_ascii _ (fun c hc => (Us.encode_charset _ (validStr_toCp s) c hc).1)

/-- the link an `HTTPError` stores for ANY non-empty href (a `str` of Unicode scalar values): its href is `uri.encode(href)`, it consists of
    ASCII characters that are RFC 3986 unreserved / reserved characters, '%' or upper-case hex digits only, and percent-decoding it
    (`uri.decode(…, unquote_plus=False)`) gives back exactly the href the application passed -/
theorem link_href_faithful (status : Nat) (line : Es.Str) (title desc : Option Es.Str) (hs : Option (List (Es.Str × Es.Str)))
    (href : Es.Str) (hrefText : Option Es.Str) (code : Option Int) (l : Es.Link)
    (hl : (mkError status line title desc hs (some href) hrefText code).link = some l) :
    toCp l.href = Us.encode (toCp href) ∧
    Us.decode false (toCp l.href) = toCp href ∧
    (∀ c ∈ toCp l.href, c < 0x80 ∧ (Uri.allowedUri c.toUInt8 = true ∨ c = 37 ∨ Uri.upperHex c.toUInt8 = true)) := by
  have h := (Es.mk_error_fields encHref status line title desc hs (some href) hrefText code).2.2.2.2.2.2 l hl
  have e : toCp l.href = Us.encode (toCp href) := by rw [h.1]; exact toCp_encHref href
  refine ⟨e, ?_, ?_⟩
  · rw [e]; exact Us.decode_encode_uri_str _ (validStr_toCp href)
  · rw [e]; exact Us.encode_charset _ (validStr_toCp href)

/-- two different hrefs never get the same link (the encoding is injective) -/
theorem encHref_injective (a b : Es.Str) (h : encHref a = encHref b) : a = b := by
  have h1 : Us.encode (toCp a) = Us.encode (toCp b) := by rw [← toCp_encHref, ← toCp_encHref, h]
  have h2 : toCp a = toCp b := by
    rw [← Us.decode_encode_uri_str _ (validStr_toCp a), ← Us.decode_encode_uri_str _ (validStr_toCp b), h1]
  exact toCp_injective a b h2

/-- a well-formed `%XX` in the href is NOT taken for an escape (what `encode_check_escaped` would do): "100%25" becomes "100%2525" -/
example : encHref "100%25".toList = "100%2525".toList := by decide
example : (mkError 400 [] none none none (some "/wiki/%c3%a9 é".toList) none none).link.map (·.href) = some "/wiki/%25c3%25a9%20%C3%A9".toList := by decide
end Ek

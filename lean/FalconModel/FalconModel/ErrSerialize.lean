import FalconModel.MediaType
/-! C04 (default rendering): transcription of

    * `falcon/app_helpers.py::default_serialize_error` (content negotiation of the default error serializer, with fix 571f254:
      the request-only form media types are not offered) on top of `Mt.bestMatch` (= `falcon.util.mediatypes.best_match`),
      `Request.accept` / `Request.client_prefers`, and the part of `media.Handlers._create_resolver.resolve` the serializer uses
      (`_resolve(preferred, MEDIA_JSON, raise_not_found=False)`);
    * `falcon/http_error.py::HTTPError.__init__` (title / link defaults) and `HTTPError.to_dict` (field presence and order);
    * `falcon/app.py::_compose_error_response` / `_compose_status_response` with `Response.set_headers`,
      `Response.append_header('Vary', 'Accept')` and the `content_type` header property over the `_headers` dict.

    Strings are `List Char` (`Mt.Str`).  Restrictions (inputs outside them answer `unsupported`, never a wrong value): the Accept
    header is ASCII (`str.lower` is modelled for ASCII) and inside the fragment of `MediaType.lean`; header names are lower-cased
    with the ASCII `lower`.  The bodies themselves (`json.dumps`, ElementTree, the media handler) are not modelled: a choice only
    says *which* encoder is given *which* document (`toDict`). -/
namespace Es

abbrev Str := Mt.Str

def JSON : Str := ['a','p','p','l','i','c','a','t','i','o','n','/','j','s','o','n']
def XMLT : Str := ['t','e','x','t','/','x','m','l']
def XMLA : Str := ['a','p','p','l','i','c','a','t','i','o','n','/','x','m','l']
def MULTI : Str := ['m','u','l','t','i','p','a','r','t','/','f','o','r','m','-','d','a','t','a']
def URLENC : Str :=
  ['a','p','p','l','i','c','a','t','i','o','n','/','x','-','w','w','w','-','f','o','r','m','-','u','r','l','e','n','c','o','d','e','d']
def STAR : Str := ['*','/','*']
def plusJson : Str := ['+','j','s','o','n']
def plusXml : Str := ['+','x','m','l']

/-- `resp.options`: `xml_error_serialization` and `media_handlers` (a dict: media type ↦ handler) in mapping order; the `Bool`
    is the truth value of the handler object (`if not handler` / `elif handler`), `true` for every real handler -/
structure Opts where
  xml : Bool
  handlers : List (Str × Bool)
deriving Repr

/-- what `default_serialize_error` leaves on the response (besides `Vary`) -/
inductive Choice where
  | json                 -- `resp.data = exception.to_json(handler)`, `Content-Type: application/json`
  | xml (ct : Str)       -- `resp.data = exception._to_xml()`, `Content-Type: ct`
  | media (ct : Str)     -- `resp.media = exception.to_dict()`, `Content-Type: ct` (rendered by the configured handler)
  | typeOnly (ct : Str)  -- no body; only `Content-Type: ct` (preferred type without handler while XML is disabled)
  | none                 -- nothing set: status and headers only
  | unsupported          -- outside the modelled fragment
deriving Repr, DecidableEq

/-- the `Content-Type` the serializer leaves on the response, if it sets one -/
def Choice.ctype : Choice → Option Str
  | .json => some JSON
  | .xml ct => some ct
  | .media ct => some ct
  | .typeOnly ct => some ct
  | .none => Option.none
  | .unsupported => Option.none

/-- does the serializer set a body? -/
def Choice.hasBody : Choice → Bool
  | .json => true
  | .xml _ => true
  | .media _ => true
  | _ => false

/-- `predefined` -/
def predefined (xml : Bool) : List Str := if xml then [JSON, XMLT, XMLA] else [JSON]

/-- `unsuitable = (MEDIA_MULTIPART, MEDIA_URLENCODED)` -/
def unsuitable : List Str := [MULTI, URLENC]

/-- `[mt for mt in options.media_handlers if mt not in predefined and mt not in unsuitable]` -/
def mediaHandlers (o : Opts) : List Str :=
  (o.handlers.map (·.1)).filter (fun mt => !(predefined o.xml).contains mt && !unsuitable.contains mt)

/-- `predefined + media_handlers`: what is offered to the client, in negotiation order -/
def offered (o : Opts) : List Str := predefined o.xml ++ mediaHandlers o

/-- `Request.accept`: the header, or `*/*` when it is missing or empty -/
def reqAccept : Option Str → Str
  | none => STAR
  | some [] => STAR
  | some s => s

/-- result of `Request.client_prefers` -/
inductive Pref where
  | some (mt : Str) | none | unsupported
deriving Repr, DecidableEq

/-- `Request.client_prefers(media_types)`: `best_match`, any `ValueError` (InvalidMediaType / InvalidMediaRange) and `''` are `None` -/
def clientPrefers (cands : List Str) (accept : Str) : Pref :=
  match Mt.bestMatch cands accept with
  | .ok [] => .none
  | .ok m => .some m
  | .error .unsupported => .unsupported
  | .error _ => .none

/-- `pat in s` -/
def hasSub (pat : Str) : Str → Bool
  | [] => pat.isEmpty
  | c :: cs => pat.isPrefixOf (c :: cs) || hasSub pat cs

/-- the `'+json' in accept` / `'+xml' in accept` heuristic on `req.accept.lower()` -/
def heuristic (accept : Str) : Option Str :=
  let a := Mt.lower accept
  if hasSub plusJson a then some JSON else if hasSub plusXml a then some XMLA else none

/-- `self.data[k]` of the handlers mapping: truth value of the handler, `none` = KeyError -/
def hget (hs : List (Str × Bool)) (k : Str) : Option Bool := (hs.find? (·.1 == k)).map (·.2)

inductive Resolved where
  | handler | nothing | unsupported
deriving Repr, DecidableEq

/-- `options.media_handlers._resolve(media_type, default, raise_not_found=False)[0]` as a truth value: exact key first; a missing
    or falsy handler falls back to `best_match(keys, media_type)` (`ValueError` = no match) -/
def resolve (hs : List (Str × Bool)) (mt0 dflt : Str) : Resolved :=
  let mt := if mt0 == STAR || mt0 == [] then dflt else mt0
  if hget hs mt == some true then .handler else
  match Mt.bestMatch (hs.map (·.1)) mt with
  | .error .unsupported => .unsupported
  | .error _ => .nothing
  | .ok [] => .nothing
  | .ok m => if hget hs m == some true then .handler else .nothing

/-- `preferred` after the negotiation and the heuristic -/
def preferredOf (o : Opts) (accept : Str) : Pref :=
  match clientPrefers (offered o) accept with
  | .unsupported => .unsupported
  | .some m => .some m
  | .none =>
    match heuristic accept with
    | some m => .some m
    | none => .none

/-- the `if preferred is not None:` block -/
def render (o : Opts) (preferred : Str) : Choice :=
  if preferred == JSON then .json
  else match resolve o.handlers preferred JSON with
    | .unsupported => .unsupported
    | .handler => .media preferred
    | .nothing => if o.xml then .xml preferred else .typeOnly preferred

/-- `default_serialize_error(req, resp, exception)` up to the encoders; `hdr` is the raw Accept header (`none` = absent) -/
def serializeChoice (o : Opts) (hdr : Option Str) : Choice :=
  let accept := reqAccept hdr
  if !Mt.isAscii accept then .unsupported else
  match preferredOf o accept with
  | .unsupported => .unsupported
  | .none => .none
  | .some m => render o m

/-! ### `HTTPError.__init__` and `to_dict` -/

/-- `HTTPError.link` -/
structure Link where
  text : Str
  href : Str
  rel : Str
deriving Repr, DecidableEq

/-- the attributes of an `HTTPError` instance (`status` is an opaque token: the int / status line / enum given by the caller) -/
structure HttpError where
  status : Nat
  title : Str
  description : Option Str
  headers : Option (List (Str × Str))
  link : Option Link
  code : Option Int
deriving Repr

def defaultLinkText : Str := "Documentation related to this error".toList
def relHelp : Str := ['h','e','l','p']

/-- `HTTPError.__init__(status, title=, description=, headers=, href=, href_text=, code=)`; `statusLine` is
    `code_to_http_status(status)` and `enc` is `uri.encode` (both modelled elsewhere: C05 / C08) -/
def mkError (enc : Str → Str) (status : Nat) (statusLine : Str) (title description : Option Str)
    (headers : Option (List (Str × Str))) (href hrefText : Option Str) (code : Option Int) : HttpError :=
  { status := status
    title := match title with          -- `title or code_to_http_status(status)`
      | some (c :: cs) => c :: cs
      | _ => statusLine
    description := description
    headers := headers
    code := code
    link := match href with            -- `if href:`
      | some (c :: cs) =>
        some { text := match hrefText with   -- `href_text or 'Documentation related to this error'`
                 | some (t :: ts) => t :: ts
                 | _ => defaultLinkText
               href := enc (c :: cs), rel := relHelp }
      | _ => none }

/-- a value of the error document -/
inductive Val where
  | str (s : Str) | int (n : Int) | link (l : Link)
deriving Repr, DecidableEq

def kTitle : Str := ['t','i','t','l','e']
def kDescription : Str := ['d','e','s','c','r','i','p','t','i','o','n']
def kCode : Str := ['c','o','d','e']
def kLink : Str := ['l','i','n','k']

/-- `HTTPError.to_dict()`: the insertion-ordered dict -/
def toDict (e : HttpError) : List (Str × Val) :=
  let obj := [(kTitle, Val.str e.title)]
  let obj := match e.description with
    | some d => obj ++ [(kDescription, Val.str d)]
    | none => obj
  let obj := match e.code with
    | some c => obj ++ [(kCode, Val.int c)]
    | none => obj
  match e.link with
  | some l => obj ++ [(kLink, Val.link l)]
  | none => obj

/-! ### `_compose_error_response` / `_compose_status_response` -/

abbrev Headers := List (Str × Str)      -- `Response._headers`: lower-cased name ↦ value, insertion-ordered dict

def hfind (h : Headers) (k : Str) : Option Str := (h.find? (·.1 == k)).map (·.2)

/-- `_headers[k] = v`: an existing name keeps its position -/
def hset (h : Headers) (k v : Str) : Headers :=
  if h.any (·.1 == k) then h.map (fun kv => if kv.1 == k then (k, v) else kv) else h ++ [(k, v)]

def kSetCookie : Str := ['s','e','t','-','c','o','o','k','i','e']
def kVary : Str := ['v','a','r','y']
def kContentType : Str := ['c','o','n','t','e','n','t','-','t','y','p','e']
def vAccept : Str := ['A','c','c','e','p','t']

/-- `Response.set_headers(headers)`; `none` = `HeaderNotSupported` (a `Set-Cookie` item) -/
def setHeaders (h : Headers) : List (Str × Str) → Option Headers
  | [] => some h
  | (name, value) :: rest =>
    let name := Mt.lower name
    if name == kSetCookie then none else setHeaders (hset h name value) rest

/-- `Response.append_header(name, value)` for a name other than Set-Cookie -/
def appendHeader (h : Headers) (name value : Str) : Headers :=
  let name := Mt.lower name
  match hfind h name with
  | some old => hset h name (old ++ [',', ' '] ++ value)
  | none => hset h name value

/-- which attribute of the response carries the body afterwards -/
inductive BodySrc where
  | untouched            -- text / data / media as `_handle_exception` reset them (all `None`)
  | dataJson             -- `resp.data = to_json()`
  | dataXml              -- `resp.data = _to_xml()`
  | mediaDict            -- `resp.media = to_dict()`
  | text (t : Option Str)   -- `resp.text = http_status.text`
deriving Repr, DecidableEq

structure Resp where
  status : Nat
  headers : Headers
  body : BodySrc
deriving Repr

/-- effect of the chosen rendering on the response: body attribute and `resp.content_type = preferred` -/
def applyChoice (r : Resp) : Choice → Option Resp
  | .json => some { r with body := .dataJson, headers := hset r.headers kContentType JSON }
  | .xml ct => some { r with body := .dataXml, headers := hset r.headers kContentType ct }
  | .media ct => some { r with body := .mediaDict, headers := hset r.headers kContentType ct }
  | .typeOnly ct => some { r with headers := hset r.headers kContentType ct }
  | .none => some r
  | .unsupported => none

inductive Outcome where
  | done (r : Resp)
  | headerNotSupported        -- `set_headers` raised (escapes `_handle_exception`)
  | unsupported
deriving Repr

/-- `App._compose_error_response(req, resp, error)` with `_serialize_error = default_serialize_error` -/
def composeError (o : Opts) (hdr : Option Str) (r : Resp) (e : HttpError) : Outcome :=
  let r := { r with status := e.status }
  let hs := match e.headers with
    | some hs => setHeaders r.headers hs
    | none => some r.headers
  match hs with
  | none => .headerNotSupported
  | some h =>
    match applyChoice { r with headers := h } (serializeChoice o hdr) with
    | none => .unsupported
    | some r => .done { r with headers := appendHeader r.headers kVary vAccept }

/-- an `HTTPStatus` instance -/
structure HttpStatus where
  status : Nat
  headers : Option (List (Str × Str))
  text : Option Str
deriving Repr

/-- `App._compose_status_response(req, resp, http_status)` -/
def composeStatus (r : Resp) (s : HttpStatus) : Outcome :=
  let r := { r with status := s.status }
  let hs := match s.headers with
    | some hs => setHeaders r.headers hs
    | none => some r.headers
  match hs with
  | none => .headerNotSupported
  | some h => .done { r with headers := h, body := .text s.text }

end Es

import FalconModel.ErrSerialize
import FalconModel.MediaTypeProofs
/-! C04 (default rendering), theorems about the transcription of `default_serialize_error`, `HTTPError.to_dict`,
    `_compose_error_response` and `_compose_status_response` (`ErrSerialize.lean`), on top of the theorems about
    `falcon.util.mediatypes` (`Mt.bestMatch_is_first_max`, `Mt.bestMatch_never_q0_or_unmatched`). -/
namespace Es

/-! ### the offered list -/

theorem offered_head (o : Opts) : ∃ tl, offered o = JSON :: tl := by
  unfold offered predefined
  cases o.xml <;> simp

theorem mem_predefined {xml : Bool} {c : Str} (h : c ∈ predefined xml) : c = JSON ∨ (xml = true ∧ (c = XMLT ∨ c = XMLA)) := by
  unfold predefined at h
  cases xml <;> simp at h ⊢ <;> grind

theorem mem_mediaHandlers {o : Opts} {c : Str} (h : c ∈ mediaHandlers o) :
    c ∈ o.handlers.map (·.1) ∧ c ∉ predefined o.xml ∧ c ∉ unsuitable := by
  unfold mediaHandlers at h
  have h2 := List.mem_filter.mp h
  refine ⟨h2.1, ?_, ?_⟩
  · intro hc
    have := h2.2
    simp [hc] at this
  · intro hc
    have := h2.2
    simp [hc] at this

/-- every offered type is JSON, one of the two XML types (only when XML is enabled) or a key of `media_handlers` that is not a form type -/
theorem mem_offered {o : Opts} {c : Str} (h : c ∈ offered o) :
    c = JSON ∨ (o.xml = true ∧ (c = XMLT ∨ c = XMLA)) ∨
    (c ∈ o.handlers.map (·.1) ∧ c ∉ predefined o.xml ∧ c ∉ unsuitable) := by
  unfold offered at h
  rcases List.mem_append.mp h with h | h
  · rcases mem_predefined h with h | h
    · exact Or.inl h
    · exact Or.inr (Or.inl h)
  · exact Or.inr (Or.inr (mem_mediaHandlers h))

theorem offered_not_form {o : Opts} {c : Str} (h : c ∈ offered o) : c ≠ MULTI ∧ c ≠ URLENC := by
  rcases mem_offered h with h | ⟨_, h | h⟩ | ⟨_, _, h⟩
  · subst h; exact ⟨by decide, by decide⟩
  · subst h; exact ⟨by decide, by decide⟩
  · subst h; exact ⟨by decide, by decide⟩
  · constructor
    · intro hc; apply h; subst hc; simp [unsuitable]
    · intro hc; apply h; subst hc; simp [unsuitable]

/-! ### `client_prefers` and the heuristic -/

theorem clientPrefers_some {cands : List Str} {a m : Str} (h : clientPrefers cands a = .some m) :
    Mt.bestMatch cands a = .ok m ∧ m ≠ [] := by
  unfold clientPrefers at h
  split at h
  · cases h
  · rename_i m' hne hm
    cases h
    exact ⟨hm, fun he => hne he⟩
  · cases h
  · cases h

theorem clientPrefers_none {cands : List Str} {a : Str} (h : clientPrefers cands a = .none) :
    Mt.bestMatch cands a = .ok [] ∨ Mt.bestMatch cands a = .error .type ∨ Mt.bestMatch cands a = .error .range := by
  unfold clientPrefers at h
  split at h
  · rename_i hm; exact Or.inl hm
  · cases h
  · cases h
  · rename_i e hne he
    cases e with
    | type => exact Or.inr (Or.inl he)
    | range => exact Or.inr (Or.inr he)
    | unsupported => exact absurd rfl hne

theorem clientPrefers_none_iff (cands : List Str) (a : Str) : clientPrefers cands a = .none ↔
    (Mt.bestMatch cands a = .ok [] ∨ Mt.bestMatch cands a = .error .type ∨ Mt.bestMatch cands a = .error .range) := by
  constructor
  · exact clientPrefers_none
  · intro h
    unfold clientPrefers
    rcases h with h | h | h <;> rw [h]

theorem heuristic_some {a m : Str} (h : heuristic a = some m) :
    (hasSub plusJson (Mt.lower a) = true ∧ m = JSON) ∨
    (hasSub plusJson (Mt.lower a) = false ∧ hasSub plusXml (Mt.lower a) = true ∧ m = XMLA) := by
  unfold heuristic at h
  simp only at h
  split at h
  · rename_i hj; cases h; exact Or.inl ⟨hj, rfl⟩
  · rename_i hj
    split at h
    · rename_i hx; cases h; exact Or.inr ⟨by simpa using hj, hx, rfl⟩
    · cases h

theorem heuristic_none_iff (a : Str) : heuristic a = none ↔
    (hasSub plusJson (Mt.lower a) = false ∧ hasSub plusXml (Mt.lower a) = false) := by
  unfold heuristic
  simp only
  cases hasSub plusJson (Mt.lower a) <;> cases hasSub plusXml (Mt.lower a) <;> simp

/-- how `preferred` comes about: the negotiated type, or (only when nothing is negotiated) the suffix heuristic -/
theorem preferredOf_some {o : Opts} {a m : Str} (h : preferredOf o a = .some m) :
    (Mt.bestMatch (offered o) a = .ok m ∧ m ≠ []) ∨
    (clientPrefers (offered o) a = .none ∧ heuristic a = some m) := by
  unfold preferredOf at h
  split at h
  · cases h
  · rename_i m' hm; cases h; exact Or.inl (clientPrefers_some hm)
  · rename_i hn
    split at h
    · rename_i m' hm; cases h; exact Or.inr ⟨hn, hm⟩
    · cases h

theorem preferredOf_none_iff (o : Opts) (a : Str) : preferredOf o a = .none ↔
    (clientPrefers (offered o) a = .none ∧ heuristic a = none) := by
  unfold preferredOf
  constructor
  · intro h
    split at h
    · cases h
    · cases h
    · rename_i hn
      split at h
      · cases h
      · rename_i hh; exact ⟨hn, hh⟩
  · intro ⟨h1, h2⟩
    rw [h1]; simp only; rw [h2]

/-! ### the rendering block -/

theorem render_ne_none (o : Opts) (m : Str) : render o m ≠ .none := by
  unfold render
  split
  · simp
  · split
    · simp
    · simp
    · split <;> simp

/-- a choice other than `none` / `unsupported` is `render` of the preferred type -/
theorem serialize_is_render {o : Opts} {hdr : Option Str} {c : Choice} (h : serializeChoice o hdr = c)
    (h1 : c ≠ .none) (h2 : c ≠ .unsupported) :
    Mt.isAscii (reqAccept hdr) = true ∧ ∃ m, preferredOf o (reqAccept hdr) = .some m ∧ render o m = c := by
  unfold serializeChoice at h
  simp only at h
  split at h
  · exact absurd h.symm h2
  · rename_i hasc
    refine ⟨by simpa using hasc, ?_⟩
    split at h
    · exact absurd h.symm h2
    · exact absurd h.symm h1
    · rename_i m hm; exact ⟨m, hm, h⟩

theorem render_ctype {o : Opts} {m ct : Str} (h : (render o m).ctype = some ct) : ct = m := by
  unfold render at h
  split at h
  · rename_i hj; simp [Choice.ctype] at h; rw [← h]; exact (by simpa using hj : m = JSON).symm
  · split at h
    · simp [Choice.ctype] at h
    · simp [Choice.ctype] at h; exact h.symm
    · split at h <;> simp [Choice.ctype] at h <;> exact h.symm

/-- the Content-Type the serializer sets is the preferred type -/
theorem serialize_ctype_preferred {o : Opts} {hdr : Option Str} {ct : Str} (h : (serializeChoice o hdr).ctype = some ct) :
    preferredOf o (reqAccept hdr) = .some ct := by
  have h1 : serializeChoice o hdr ≠ .none := by intro he; rw [he] at h; simp [Choice.ctype] at h
  have h2 : serializeChoice o hdr ≠ .unsupported := by intro he; rw [he] at h; simp [Choice.ctype] at h
  obtain ⟨_, m, hm, hr⟩ := serialize_is_render rfl h1 h2
  rw [← hr] at h
  rw [render_ctype h]; exact hm

/-! ### the main theorems about the negotiation -/

theorem bestLoop_total (hdr : Str) : ∀ (cs : List Str) (acc : Option (Str × Nat)),
    (∀ c ∈ cs, ∃ qc, Mt.quality c hdr = .ok qc) → ∃ res, Mt.bestLoop hdr cs acc = .ok res := by
  intro cs
  induction cs with
  | nil => intro acc _; exact ⟨acc, rfl⟩
  | cons c rest ih =>
    intro acc hall
    obtain ⟨qc, hq⟩ := hall c List.mem_cons_self
    have hrest : ∀ c ∈ rest, ∃ qc, Mt.quality c hdr = .ok qc := fun x hx => hall x (List.mem_cons_of_mem _ hx)
    simp only [Mt.bestLoop, hq]
    cases acc with
    | none => exact ih _ hrest
    | some p => exact ih _ hrest

theorem bestMatch_total (cands : List Str) (hdr : Str) (hall : ∀ c ∈ cands, ∃ qc, Mt.quality c hdr = .ok qc) :
    ∃ m, Mt.bestMatch cands hdr = .ok m := by
  obtain ⟨res, hres⟩ := bestLoop_total hdr cands none hall
  unfold Mt.bestMatch
  rw [hres]
  cases res with
  | none => exact ⟨_, rfl⟩
  | some p => exact ⟨_, rfl⟩

/-- a negotiated type whose quality equals that of JSON *is* JSON (JSON is first in the offered list and `best_match` takes the
    first maximum) -/
theorem negotiated_tie_is_json (o : Opts) (a m : Str) (q : Nat) (hm : Mt.bestMatch (offered o) a = .ok m) (hne : m ≠ [])
    (hq : Mt.quality m a = .ok q) (hj : Mt.quality JSON a = .ok q) : m = JSON := by
  obtain ⟨pre, post, q', hc, hq', hpre, _⟩ := (Mt.bestMatch_is_first_max _ _ _ hm).1 hne
  obtain ⟨tl, htl⟩ := offered_head o
  rw [htl] at hc
  cases pre with
  | nil => simp at hc; exact hc.1.symm
  | cons p ps =>
    simp at hc
    obtain ⟨qc, h1, h2⟩ := hpre p List.mem_cons_self
    rw [← hc.1, hj] at h1
    rw [hq] at hq'
    cases h1; cases hq'; omega

/-- **JSON wins every tie**: when the Accept header gives JSON a positive quality that no offered type exceeds, the error is
    rendered as JSON — whatever else is configured or enabled -/
theorem serialize_json_on_tie (o : Opts) (hdr : Option Str) (q : Nat)
    (hasc : Mt.isAscii (reqAccept hdr) = true)
    (hj : Mt.quality JSON (reqAccept hdr) = .ok q) (hpos : q > 0)
    (hmax : ∀ c ∈ offered o, ∃ qc, Mt.quality c (reqAccept hdr) = .ok qc ∧ qc ≤ q) :
    serializeChoice o hdr = .json := by
  obtain ⟨m, hm⟩ := bestMatch_total (offered o) (reqAccept hdr) (fun c hc => by obtain ⟨qc, h, _⟩ := hmax c hc; exact ⟨qc, h⟩)
  obtain ⟨tl, htl⟩ := offered_head o
  have hjmem : JSON ∈ offered o := by rw [htl]; exact List.mem_cons_self
  have hne : m ≠ [] := by
    intro he
    have := (Mt.bestMatch_is_first_max _ _ _ hm).2 he JSON hjmem
    rw [hj] at this; cases this; omega
  obtain ⟨pre, post, q', hc, hq', hpre, _⟩ := (Mt.bestMatch_is_first_max _ _ _ hm).1 hne
  have hmj : m = JSON := by
    have hmmem : m ∈ offered o := by rw [hc]; simp
    obtain ⟨qm, h1, h2⟩ := hmax m hmmem
    rw [hq'] at h1; cases h1
    rw [htl] at hc
    cases pre with
    | nil => simp at hc; exact hc.1.symm
    | cons p ps =>
      simp at hc
      obtain ⟨qc, h3, h4⟩ := hpre p List.mem_cons_self
      rw [← hc.1, hj] at h3
      cases h3; omega
  subst hmj
  have hcp : clientPrefers (offered o) (reqAccept hdr) = .some JSON := by
    unfold clientPrefers; rw [hm]; rfl
  unfold serializeChoice
  simp only [hasc, Bool.not_true, Bool.false_eq_true, if_false]
  unfold preferredOf
  rw [hcp]
  simp [render]

example : serializeChoice { xml := true, handlers := [(JSON, true), (MULTI, true), (URLENC, true)] }
    (some "application/xml;q=0.9, */*;q=0.9".toList) = .json := by decide
/-- the hypotheses hold on that input: JSON and both XML types tie at 0.9 -/
example : Mt.quality JSON "application/xml;q=0.9, */*;q=0.9".toList = .ok 9000 ∧
    Mt.quality XMLA "application/xml;q=0.9, */*;q=0.9".toList = .ok 9000 ∧
    Mt.quality XMLT "application/xml;q=0.9, */*;q=0.9".toList = .ok 9000 := ⟨by rfl, by rfl, by rfl⟩

/-- **XML only if preferred and enabled**: the built-in XML rendering is used only when `xml_error_serialization` is on, no
    configured handler resolves the type, and either the client's negotiated type (strictly better than JSON, quality > 0) or —
    when nothing at all is negotiated and there is no `+json` in the header — the `+xml` heuristic asks for it -/
theorem serialize_xml_only_if_preferred_and_enabled (o : Opts) (hdr : Option Str) (ct : Str)
    (h : serializeChoice o hdr = .xml ct) :
    o.xml = true ∧ ct ≠ JSON ∧ resolve o.handlers ct JSON = .nothing ∧
    ((Mt.bestMatch (offered o) (reqAccept hdr) = .ok ct ∧ ct ≠ [] ∧
        ∃ q qj, Mt.quality ct (reqAccept hdr) = .ok q ∧ Mt.quality JSON (reqAccept hdr) = .ok qj ∧ qj < q) ∨
     (clientPrefers (offered o) (reqAccept hdr) = .none ∧ hasSub plusJson (Mt.lower (reqAccept hdr)) = false ∧
        hasSub plusXml (Mt.lower (reqAccept hdr)) = true ∧ ct = XMLA)) := by
  obtain ⟨_, m, hm, hr⟩ := serialize_is_render h (by simp) (by simp)
  unfold render at hr
  split at hr
  · cases hr
  · rename_i hnj
    have hnj' : m ≠ JSON := by simpa using hnj
    split at hr
    · cases hr
    · cases hr
    · rename_i hres
      split at hr
      · rename_i hx
        cases hr
        refine ⟨hx, hnj', hres, ?_⟩
        rcases preferredOf_some hm with ⟨hb, hne⟩ | ⟨hn, hh⟩
        · left
          refine ⟨hb, hne, ?_⟩
          obtain ⟨pre, post, q, hc, hq, hpre, _⟩ := (Mt.bestMatch_is_first_max _ _ _ hb).1 hne
          obtain ⟨tl, htl⟩ := offered_head o
          rw [htl] at hc
          cases pre with
          | nil => simp at hc; exact absurd hc.1.symm hnj'
          | cons p ps =>
            simp at hc
            obtain ⟨qc, h3, h4⟩ := hpre p List.mem_cons_self
            rw [← hc.1] at h3
            exact ⟨q, qc, hq, h3, h4⟩
        · right
          rcases heuristic_some hh with ⟨_, hj⟩ | ⟨h1, h2, h3⟩
          · exact absurd hj hnj'
          · exact ⟨hn, h1, h2, h3⟩
      · cases hr

example : serializeChoice { xml := true, handlers := [(JSON, true)] } (some "text/xml, application/json;q=0.9".toList) = .xml XMLT := by decide
example : serializeChoice { xml := true, handlers := [(JSON, true)] } (some "application/vnd.acme+xml".toList) = .xml XMLA := by decide

theorem hget_of_mem_truthy {hs : List (Str × Bool)} (htr : ∀ kv ∈ hs, kv.2 = true) {k : Str} (hk : k ∈ hs.map (·.1)) :
    hget hs k = some true := by
  unfold hget
  cases hf : hs.find? (·.1 == k) with
  | none =>
    obtain ⟨kv, hkv, hk1⟩ := List.mem_map.mp hk
    have := List.find?_eq_none.mp hf kv hkv
    simp [hk1] at this
  | some kv =>
    have := List.mem_of_find?_eq_some hf
    simp [htr kv this]

/-- a registered (truthy) handler other than `*/*` is resolved by its exact key -/
theorem resolve_of_key {hs : List (Str × Bool)} (htr : ∀ kv ∈ hs, kv.2 = true) {k d : Str} (hk : k ∈ hs.map (·.1))
    (hstar : k ≠ STAR) (hne : k ≠ []) : resolve hs k d = .handler := by
  unfold resolve
  have h1 : (k == STAR || k == []) = false := by simp [hstar, hne]
  simp only [h1, Bool.false_eq_true, if_false, hget_of_mem_truthy htr hk, beq_self_eq_true, if_true]

/-- with real (truthy) handlers the built-in XML body is only ever labelled `text/xml` or `application/xml` -/
theorem serialize_xml_type (o : Opts) (hdr : Option Str) (ct : Str) (htr : ∀ kv ∈ o.handlers, kv.2 = true)
    (hstar : STAR ∉ o.handlers.map (·.1)) (h : serializeChoice o hdr = .xml ct) : ct = XMLT ∨ ct = XMLA := by
  obtain ⟨_, hnj, hres, hpref⟩ := serialize_xml_only_if_preferred_and_enabled o hdr ct h
  rcases hpref with ⟨hb, hne, _⟩ | ⟨_, _, _, hx⟩
  · have hmem := (Mt.bestMatch_never_q0_or_unmatched _ _ _ hb hne).1
    rcases mem_offered hmem with hj | ⟨_, hx⟩ | ⟨hk, _, _⟩
    · exact absurd hj hnj
    · exact hx
    · have hs : ct ≠ STAR := fun he => hstar (he ▸ hk)
      rw [resolve_of_key htr hk hs hne] at hres; cases hres
  · exact Or.inr hx

/-- **the form media types are never chosen** (F31, fix 571f254): whatever Content-Type the serializer sets, it is neither
    `multipart/form-data` nor `application/x-www-form-urlencoded` — even when the client asks exactly for them -/
theorem serialize_never_form_types (o : Opts) (hdr : Option Str) (ct : Str)
    (h : (serializeChoice o hdr).ctype = some ct) : ct ≠ MULTI ∧ ct ≠ URLENC := by
  rcases preferredOf_some (serialize_ctype_preferred h) with ⟨hb, hne⟩ | ⟨_, hh⟩
  · exact offered_not_form (Mt.bestMatch_never_q0_or_unmatched _ _ _ hb hne).1
  · rcases heuristic_some hh with ⟨_, hj⟩ | ⟨_, _, hx⟩
    · subst hj; exact ⟨by decide, by decide⟩
    · subst hx; exact ⟨by decide, by decide⟩

example : serializeChoice { xml := false, handlers := [(JSON, true), (MULTI, true), (URLENC, true)] }
    (some "multipart/form-data, application/x-www-form-urlencoded;q=0.9".toList) = .none := by decide

/-- the negotiated Content-Type is an offered type the client gives a positive quality, maximal among the offered ones; only
    when nothing is negotiated can the suffix heuristic choose (JSON or `application/xml`) -/
theorem serialize_ctype_negotiated (o : Opts) (hdr : Option Str) (ct : Str) (h : (serializeChoice o hdr).ctype = some ct) :
    (ct ∈ offered o ∧ ∃ q, Mt.quality ct (reqAccept hdr) = .ok q ∧ q > 0 ∧
        ∀ c ∈ offered o, ∃ qc, Mt.quality c (reqAccept hdr) = .ok qc ∧ qc ≤ q) ∨
    (clientPrefers (offered o) (reqAccept hdr) = .none ∧ heuristic (reqAccept hdr) = some ct) := by
  rcases preferredOf_some (serialize_ctype_preferred h) with ⟨hb, hne⟩ | hh
  · left
    obtain ⟨hmem, q0, hq0, hpos⟩ := Mt.bestMatch_never_q0_or_unmatched _ _ _ hb hne
    obtain ⟨pre, post, q, hc, hq, hpre, hpost⟩ := (Mt.bestMatch_is_first_max _ _ _ hb).1 hne
    rw [hq0] at hq; cases hq
    refine ⟨hmem, q0, hq0, hpos, fun c hc' => ?_⟩
    rw [hc] at hc'
    rcases List.mem_append.mp hc' with hx | hx
    · obtain ⟨qc, h1, h2⟩ := hpre c hx; exact ⟨qc, h1, by omega⟩
    · rcases List.mem_cons.mp hx with rfl | hx
      · exact ⟨q0, hq0, by omega⟩
      · exact hpost c hx
  · exact Or.inr hh

/-- **no rendering at all** iff the client accepts none of the offered types (every offered type has quality 0, or the header /
    a configured type is malformed: `ValueError` -> `None`) and neither `+json` nor `+xml` occurs in the lower-cased header -/
theorem serialize_none_iff (o : Opts) (hdr : Option Str) : serializeChoice o hdr = .none ↔
    (Mt.isAscii (reqAccept hdr) = true ∧
     (Mt.bestMatch (offered o) (reqAccept hdr) = .ok [] ∨ Mt.bestMatch (offered o) (reqAccept hdr) = .error .type ∨
        Mt.bestMatch (offered o) (reqAccept hdr) = .error .range) ∧
     hasSub plusJson (Mt.lower (reqAccept hdr)) = false ∧ hasSub plusXml (Mt.lower (reqAccept hdr)) = false) := by
  rw [← clientPrefers_none_iff, ← heuristic_none_iff, ← preferredOf_none_iff]
  unfold serializeChoice
  simp only
  constructor
  · intro h
    split at h
    · cases h
    · rename_i hasc
      refine ⟨by simpa using hasc, ?_⟩
      split at h
      · cases h
      · rename_i hp; exact hp
      · exact absurd h (render_ne_none o _)
  · intro ⟨h1, h2⟩
    simp [h1, h2]

/-- ... and when the header is well formed that means: every offered type has quality 0 for this client -/
theorem serialize_none_accepts_nothing (o : Opts) (hdr : Option Str) (m : Str) (h : serializeChoice o hdr = .none)
    (hwf : Mt.bestMatch (offered o) (reqAccept hdr) = .ok m) : ∀ c ∈ offered o, Mt.quality c (reqAccept hdr) = .ok 0 := by
  obtain ⟨_, hb, _, _⟩ := (serialize_none_iff o hdr).mp h
  rcases hb with hb | hb | hb
  · exact (Mt.bestMatch_is_first_max _ _ _ hb).2 rfl
  · rw [hwf] at hb; cases hb
  · rw [hwf] at hb; cases hb

/-- conversely, a positive quality for an offered type (all offered types being well formed) always produces a rendering -/
theorem serialize_some_if_accepted (o : Opts) (hdr : Option Str) (c : Str) (q : Nat) (hc : c ∈ offered o)
    (hq : Mt.quality c (reqAccept hdr) = .ok q) (hpos : q > 0)
    (hall : ∀ c ∈ offered o, ∃ qc, Mt.quality c (reqAccept hdr) = .ok qc) : serializeChoice o hdr ≠ .none := by
  intro h
  obtain ⟨m, hm⟩ := bestMatch_total _ _ hall
  have := serialize_none_accepts_nothing o hdr m h hm c hc
  rw [hq] at this; cases this; omega

/-- **a Content-Type without a body** happens only when XML is disabled and the preferred (non-JSON) type has no handler; with
    real handlers this is exactly the `+xml` heuristic firing while `xml_error_serialization` is off -/
theorem serialize_typeOnly_only (o : Opts) (hdr : Option Str) (ct : Str) (h : serializeChoice o hdr = .typeOnly ct) :
    o.xml = false ∧ ct ≠ JSON ∧ resolve o.handlers ct JSON = .nothing ∧
    ((∀ kv ∈ o.handlers, kv.2 = true) → STAR ∉ o.handlers.map (·.1) →
      clientPrefers (offered o) (reqAccept hdr) = .none ∧ hasSub plusJson (Mt.lower (reqAccept hdr)) = false ∧
        hasSub plusXml (Mt.lower (reqAccept hdr)) = true ∧ ct = XMLA) := by
  obtain ⟨_, m, hm, hr⟩ := serialize_is_render h (by simp) (by simp)
  unfold render at hr
  split at hr
  · cases hr
  · rename_i hnj
    have hnj' : m ≠ JSON := by simpa using hnj
    split at hr
    · cases hr
    · cases hr
    · rename_i hres
      split at hr
      · cases hr
      · rename_i hx
        cases hr
        refine ⟨by simpa using hx, hnj', hres, fun htr hstar => ?_⟩
        rcases preferredOf_some hm with ⟨hb, hne⟩ | ⟨hn, hh⟩
        · exfalso
          have hmem := (Mt.bestMatch_never_q0_or_unmatched _ _ _ hb hne).1
          rcases mem_offered hmem with hj | ⟨hx', _⟩ | ⟨hk, _, _⟩
          · exact hnj' hj
          · rw [hx'] at hx; exact hx rfl
          · have hs : ct ≠ STAR := fun he => hstar (he ▸ hk)
            rw [resolve_of_key htr hk hs hne] at hres; cases hres
        · rcases heuristic_some hh with ⟨_, hj⟩ | ⟨h1, h2, h3⟩
          · exact absurd hj hnj'
          · exact ⟨hn, h1, h2, h3⟩

/-- a configured media type is used only if it is preferred, is not JSON, and a handler resolves it -/
theorem serialize_media_only_if_handler (o : Opts) (hdr : Option Str) (ct : Str) (h : serializeChoice o hdr = .media ct) :
    preferredOf o (reqAccept hdr) = .some ct ∧ ct ≠ JSON ∧ resolve o.handlers ct JSON = .handler := by
  refine ⟨serialize_ctype_preferred (by rw [h]; rfl), ?_⟩
  obtain ⟨_, m, _, hr⟩ := serialize_is_render h (by simp) (by simp)
  unfold render at hr
  split at hr
  · cases hr
  · rename_i hnj
    split at hr
    · cases hr
    · rename_i hres; cases hr; exact ⟨by simpa using hnj, hres⟩
    · split at hr <;> cases hr

/-! ### `HTTPError.__init__` / `to_dict` -/

/-- **the error document has exactly these fields, in this order**: `title` always; `description`, `code`, `link` iff the
    attribute is not `None` (an empty description and code 0 are kept), each with the attribute's value -/
theorem to_dict_fields_exact (e : HttpError) :
    toDict e = [(kTitle, Val.str e.title)] ++ (e.description.toList.map fun d => (kDescription, Val.str d)) ++
      (e.code.toList.map fun c => (kCode, Val.int c)) ++ (e.link.toList.map fun l => (kLink, Val.link l)) := by
  unfold toDict
  cases e.description <;> cases e.code <;> cases e.link <;> rfl

example : (toDict (mkError id 404 "404 Not Found".toList none (some []) none (some "http://x/".toList) none (some 0))).map (·.1) =
    [kTitle, kDescription, kCode, kLink] := by decide

theorem to_dict_keys (e : HttpError) :
    (toDict e).map (·.1) = [kTitle] ++ (if e.description.isSome then [kDescription] else []) ++
      (if e.code.isSome then [kCode] else []) ++ (if e.link.isSome then [kLink] else []) := by
  rw [to_dict_fields_exact]
  cases e.description <;> cases e.code <;> cases e.link <;> rfl

/-- what `__init__` stores: the title falls back to the status line exactly when it is missing or empty, the link exists exactly
    when `href` is non-empty and then carries the encoded href, `rel = help` and the given or default text -/
theorem mk_error_fields (enc : Str → Str) (status : Nat) (line : Str) (title desc : Option Str) (hs : Option (List (Str × Str)))
    (href hrefText : Option Str) (code : Option Int) :
    let e := mkError enc status line title desc hs href hrefText code
    e.status = status ∧ e.description = desc ∧ e.code = code ∧ e.headers = hs ∧
    e.title = (if title = none ∨ title = some [] then line else title.getD []) ∧
    (e.link.isSome ↔ (href ≠ none ∧ href ≠ some [])) ∧
    (∀ l, e.link = some l → l.href = enc (href.getD []) ∧ l.rel = relHelp ∧
        l.text = (if hrefText = none ∨ hrefText = some [] then defaultLinkText else hrefText.getD [])) := by
  intro e
  refine ⟨rfl, rfl, rfl, rfl, ?_, ?_, ?_⟩
  · cases title with
    | none => simp [e, mkError]
    | some t => cases t <;> simp [e, mkError]
  · cases href with
    | none => simp [e, mkError]
    | some t => cases t <;> simp [e, mkError]
  · intro l hl
    cases href with
    | none => simp [e, mkError] at hl
    | some t =>
      cases t with
      | nil => simp [e, mkError] at hl
      | cons c cs =>
        simp only [e, mkError, Option.some.injEq] at hl
        subst hl
        refine ⟨rfl, rfl, ?_⟩
        cases hrefText with
        | none => simp
        | some t => cases t <;> simp

/-! ### the `_headers` dict -/

theorem hfind_map_same (h : Headers) (k v : Str) (hany : h.any (·.1 == k) = true) :
    hfind (h.map fun kv => if kv.1 == k then (k, v) else kv) k = some v := by
  induction h with
  | nil => simp at hany
  | cons x rest ih =>
    cases hx : (x.1 == k) with
    | true => simp only [hfind, List.map_cons, hx, if_true, List.find?_cons, beq_self_eq_true, Option.map_some]
    | false =>
      have hr : rest.any (·.1 == k) = true := by simpa [hx] using hany
      have := ih hr
      simp only [hfind] at this
      simp only [hfind, List.map_cons, hx, Bool.false_eq_true, if_false, List.find?_cons]
      exact this

theorem hfind_append_new (h : Headers) (k v : Str) (hany : h.any (·.1 == k) = false) :
    hfind (h ++ [(k, v)]) k = some v := by
  induction h with
  | nil => simp only [hfind, List.nil_append, List.find?_cons, beq_self_eq_true, Option.map_some]
  | cons x rest ih =>
    cases hx : (x.1 == k) with
    | true => simp [hx] at hany
    | false =>
      have hr : rest.any (·.1 == k) = false := by simpa [hx] using hany
      have := ih hr
      simp only [hfind] at this
      simp only [hfind, List.cons_append, List.find?_cons, hx]
      exact this

/-- `d[k] = v; d[k]` -/
theorem hfind_hset_same (h : Headers) (k v : Str) : hfind (hset h k v) k = some v := by
  unfold hset
  cases hany : h.any (·.1 == k) with
  | true => simp only [if_true]; exact hfind_map_same h k v hany
  | false => simp only [Bool.false_eq_true, if_false]; exact hfind_append_new h k v hany

theorem hfind_map_other (h : Headers) (k v k' : Str) (hne : k' ≠ k) :
    hfind (h.map fun kv => if kv.1 == k then (k, v) else kv) k' = hfind h k' := by
  have hk' : (k == k') = false := by
    cases hb : (k == k') with
    | false => rfl
    | true => exact absurd (by simpa using hb : k = k').symm hne
  induction h with
  | nil => rfl
  | cons x rest ih =>
    simp only [hfind] at ih
    cases hx : (x.1 == k) with
    | true =>
      have hxk : x.1 = k := by simpa using hx
      have hx' : (x.1 == k') = false := by rw [hxk]; exact hk'
      simp only [hfind, List.map_cons, hx, if_true, List.find?_cons, hk', hx']
      exact ih
    | false =>
      simp only [hfind, List.map_cons, hx, Bool.false_eq_true, if_false, List.find?_cons]
      cases (x.1 == k') with
      | true => rfl
      | false => exact ih

theorem hfind_append_other (h : Headers) (k v k' : Str) (hne : k' ≠ k) : hfind (h ++ [(k, v)]) k' = hfind h k' := by
  have hk' : (k == k') = false := by
    cases hb : (k == k') with
    | false => rfl
    | true => exact absurd (by simpa using hb : k = k').symm hne
  induction h with
  | nil => simp only [hfind, List.nil_append, List.find?_cons, hk', List.find?_nil]
  | cons x rest ih =>
    simp only [hfind] at ih
    simp only [hfind, List.cons_append, List.find?_cons]
    cases (x.1 == k') with
    | true => rfl
    | false => exact ih

/-- `d[k] = v` does not change `d[k']` -/
theorem hfind_hset_other (h : Headers) (k v k' : Str) (hne : k' ≠ k) : hfind (hset h k v) k' = hfind h k' := by
  unfold hset
  split
  · exact hfind_map_other h k v k' hne
  · exact hfind_append_other h k v k' hne

/-- names that do not occur (case-insensitively) in the argument of `set_headers` keep their value -/
theorem setHeaders_other : ∀ (hs : List (Str × Str)) (h h' : Headers) (k : Str), setHeaders h hs = some h' →
    (∀ kv ∈ hs, Mt.lower kv.1 ≠ k) → hfind h' k = hfind h k := by
  intro hs
  induction hs with
  | nil => intro h h' k he _; simp [setHeaders] at he; rw [he]
  | cons x rest ih =>
    intro h h' k he hno
    obtain ⟨name, value⟩ := x
    simp only [setHeaders] at he
    split at he
    · cases he
    · have h1 := ih _ _ k he (fun kv hkv => hno kv (List.mem_cons_of_mem _ hkv))
      rw [h1]
      exact hfind_hset_other _ _ _ _ (fun hk => hno (name, value) List.mem_cons_self hk.symm)

/-- `set_headers`: the last item for a (lower-cased) name decides its value -/
theorem setHeaders_last_wins : ∀ (pre : List (Str × Str)) (h h' : Headers) (name value : Str) (post : List (Str × Str)),
    setHeaders h (pre ++ (name, value) :: post) = some h' → (∀ kv ∈ post, Mt.lower kv.1 ≠ Mt.lower name) →
    hfind h' (Mt.lower name) = some value := by
  intro pre
  induction pre with
  | nil =>
    intro h h' name value post he hno
    simp only [List.nil_append, setHeaders] at he
    split at he
    · cases he
    · rw [setHeaders_other post _ _ _ he hno]
      exact hfind_hset_same _ _ _
  | cons x rest ih =>
    intro h h' name value post he hno
    obtain ⟨n0, v0⟩ := x
    simp only [List.cons_append, setHeaders] at he
    split at he
    · cases he
    · exact ih _ _ _ _ _ he hno

/-- `set_headers` raises `HeaderNotSupported` iff some item is a Set-Cookie header -/
theorem setHeaders_none_iff : ∀ (hs : List (Str × Str)) (h : Headers),
    setHeaders h hs = none ↔ ∃ kv ∈ hs, Mt.lower kv.1 = kSetCookie := by
  intro hs
  induction hs with
  | nil => intro h; simp [setHeaders]
  | cons x rest ih =>
    intro h
    obtain ⟨name, value⟩ := x
    simp only [setHeaders]
    by_cases hc : Mt.lower name = kSetCookie
    · simp [hc]
    · have hb : (Mt.lower name == kSetCookie) = false := by simpa using hc
      simp only [hb, Bool.false_eq_true, if_false, ih, List.mem_cons, exists_eq_or_imp, hc, false_or]

/-! ### `append_header('Vary', 'Accept')` -/

theorem splitOn_ne_nil (sep : Char) (s : Str) : Mt.splitOn sep s ≠ [] := by
  induction s with
  | nil => simp [Mt.splitOn]
  | cons c cs ih =>
    simp only [Mt.splitOn]
    split
    · simp
    · split <;> simp

theorem splitOn_append_sep (sep : Char) (s : Str) : ∀ (p : Str),
    Mt.splitOn sep (p ++ sep :: s) = Mt.splitOn sep p ++ Mt.splitOn sep s := by
  intro p
  induction p with
  | nil => simp [Mt.splitOn]
  | cons c cs ih =>
    simp only [List.cons_append, Mt.splitOn]
    by_cases hc : (c == sep) = true
    · simp only [hc, if_true, ih, List.cons_append]
    · simp only [hc, Bool.false_eq_true, if_false, ih]
      cases hp : Mt.splitOn sep cs with
      | nil => exact absurd hp (splitOn_ne_nil sep cs)
      | cons a as => simp

theorem accept_token_listed (p : Str) :
    vAccept ∈ (Mt.splitOn ',' (p ++ [',', ' '] ++ vAccept)).map Mt.strip := by
  have h1 : p ++ [',', ' '] ++ vAccept = p ++ ',' :: (' ' :: vAccept) := by simp
  rw [h1, splitOn_append_sep]
  have h2 : Mt.splitOn ',' (' ' :: vAccept) = [' ' :: vAccept] := by decide
  rw [h2, List.map_append]
  apply List.mem_append_right
  have h3 : Mt.strip (' ' :: vAccept) = vAccept := by decide
  simp [h3]

/-- `append_header`: the new value is the old one, a comma and the appended value -- or just the appended value -/
theorem appendHeader_vary (h : Headers) :
    hfind (appendHeader h kVary vAccept) kVary =
      some (match hfind h kVary with | some old => old ++ [',', ' '] ++ vAccept | none => vAccept) := by
  have hl : Mt.lower kVary = kVary := by decide
  unfold appendHeader
  simp only [hl]
  cases hfind h kVary with
  | some old => exact hfind_hset_same _ _ _
  | none => exact hfind_hset_same _ _ _

theorem appendHeader_other (h : Headers) (k : Str) (hk : k ≠ kVary) :
    hfind (appendHeader h kVary vAccept) k = hfind h k := by
  have hl : Mt.lower kVary = kVary := by decide
  unfold appendHeader
  simp only [hl]
  cases hfind h kVary with
  | some old => exact hfind_hset_other _ _ _ _ hk
  | none => exact hfind_hset_other _ _ _ _ hk

/-! ### `_compose_error_response` -/

theorem applyChoice_spec {r r' : Resp} {c : Choice} (h : applyChoice r c = some r') :
    r'.status = r.status ∧ hfind r'.headers kVary = hfind r.headers kVary ∧
    (∀ k, k ≠ kContentType → hfind r'.headers k = hfind r.headers k) ∧
    hfind r'.headers kContentType = (match c.ctype with | some ct => some ct | none => hfind r.headers kContentType) := by
  have hvc : kVary ≠ kContentType := by decide
  cases c <;> simp only [applyChoice, Option.some.injEq] at h <;> try (subst h)
  all_goals first
    | exact ⟨rfl, hfind_hset_other _ _ _ _ hvc, fun k hk => hfind_hset_other _ _ _ _ hk, hfind_hset_same _ _ _⟩
    | exact ⟨rfl, rfl, fun _ _ => rfl, rfl⟩
    | cases h

/-- what `_compose_error_response` does, in one statement: `h1` is `resp._headers` after `set_headers(error.headers)` -/
theorem composeError_spec {o : Opts} {hdr : Option Str} {r r' : Resp} {e : HttpError} (h : composeError o hdr r e = .done r') :
    ∃ h1, (match e.headers with | some hs => setHeaders r.headers hs | none => some r.headers) = some h1 ∧
      r'.status = e.status ∧
      hfind r'.headers kVary = some (match hfind h1 kVary with | some old => old ++ [',', ' '] ++ vAccept | none => vAccept) ∧
      hfind r'.headers kContentType =
        (match (serializeChoice o hdr).ctype with | some ct => some ct | none => hfind h1 kContentType) ∧
      (∀ k, k ≠ kVary → k ≠ kContentType → hfind r'.headers k = hfind h1 k) := by
  unfold composeError at h
  simp only at h
  split at h
  · cases h
  · rename_i h1 hh1
    refine ⟨h1, hh1, ?_⟩
    split at h
    · cases h
    · rename_i r2 hr2
      cases h
      obtain ⟨hs, hv, ho, hc⟩ := applyChoice_spec hr2
      have hcv : kContentType ≠ kVary := by decide
      refine ⟨hs, ?_, ?_, ?_⟩
      · simp only; rw [appendHeader_vary, hv]
      · simp only; rw [appendHeader_other _ _ hcv, hc]
      · intro k hk1 hk2
        simp only; rw [appendHeader_other _ _ hk1, ho k hk2]

/-- **`Vary: Accept` is always appended**: after the default rendering of any HTTPError the `Vary` header exists, ends with the
    appended `Accept` (after whatever the response or the error's own headers put there), and `Accept` is one of its
    comma-separated members -/
theorem vary_accept_always_appended (o : Opts) (hdr : Option Str) (r r' : Resp) (e : HttpError)
    (h : composeError o hdr r e = .done r') :
    ∃ v, hfind r'.headers kVary = some v ∧ (v = vAccept ∨ ∃ p, v = p ++ [',', ' '] ++ vAccept) ∧
      vAccept ∈ (Mt.splitOn ',' v).map Mt.strip := by
  obtain ⟨h1, _, _, hv, _, _⟩ := composeError_spec h
  cases hold : hfind h1 kVary with
  | none =>
    rw [hold] at hv
    exact ⟨_, hv, Or.inl rfl, by decide⟩
  | some old =>
    rw [hold] at hv
    exact ⟨_, hv, Or.inr ⟨old, rfl⟩, accept_token_listed old⟩

/-- **an HTTPError keeps its status and headers**: the response status is the error's; every header of the error (the last item
    per case-insensitive name) is on the response, except that `Vary` gets `, Accept` appended and `Content-Type` is replaced
    when a rendering is chosen; headers the error does not mention keep the value the response already had -/
theorem httperror_status_headers_kept (o : Opts) (hdr : Option Str) (r r' : Resp) (e : HttpError)
    (h : composeError o hdr r e = .done r') :
    r'.status = e.status ∧
    (∀ hs pre name value post, e.headers = some hs → hs = pre ++ (name, value) :: post →
      (∀ kv ∈ post, Mt.lower kv.1 ≠ Mt.lower name) →
      (Mt.lower name ≠ kVary → Mt.lower name ≠ kContentType → hfind r'.headers (Mt.lower name) = some value) ∧
      (Mt.lower name = kVary → hfind r'.headers kVary = some (value ++ [',', ' '] ++ vAccept)) ∧
      (Mt.lower name = kContentType → (serializeChoice o hdr).ctype = none → hfind r'.headers kContentType = some value)) ∧
    (∀ k, k ≠ kVary → k ≠ kContentType → (∀ hs, e.headers = some hs → ∀ kv ∈ hs, Mt.lower kv.1 ≠ k) →
      hfind r'.headers k = hfind r.headers k) := by
  obtain ⟨h1, hh1, hst, hv, hct, hoth⟩ := composeError_spec h
  refine ⟨hst, ?_, ?_⟩
  · intro hs pre name value post hhs hsplit hlast
    rw [hhs] at hh1
    simp only at hh1
    rw [hsplit] at hh1
    have hval := setHeaders_last_wins pre _ _ name value post hh1 hlast
    refine ⟨fun n1 n2 => ?_, fun n1 => ?_, fun n1 n2 => ?_⟩
    · rw [hoth _ n1 n2]; exact hval
    · rw [n1] at hval; rw [hv, hval]
    · rw [n1] at hval; rw [hct, n2]; exact hval
  · intro k k1 k2 hno
    rw [hoth k k1 k2]
    cases hhs : e.headers with
    | none => rw [hhs] at hh1; simp only at hh1; cases hh1; rfl
    | some hs =>
      rw [hhs] at hh1
      simp only at hh1
      exact setHeaders_other hs _ _ k hh1 (hno hs hhs)

/-- the only way `_compose_error_response` raises is a Set-Cookie item among the error's headers -/
theorem composeError_header_not_supported_iff (o : Opts) (hdr : Option Str) (r : Resp) (e : HttpError) :
    composeError o hdr r e = .headerNotSupported ↔ ∃ hs, e.headers = some hs ∧ ∃ kv ∈ hs, Mt.lower kv.1 = kSetCookie := by
  unfold composeError
  simp only
  cases hh : e.headers with
  | none =>
    simp only
    constructor
    · intro h; split at h <;> cases h
    · intro ⟨hs, h1, _⟩; cases h1
  | some hs =>
    simp only
    cases hset : setHeaders r.headers hs with
    | none =>
      simp only
      constructor
      · intro _; exact ⟨hs, rfl, (setHeaders_none_iff hs _).mp hset⟩
      · intro _; trivial
    | some h1 =>
      simp only
      constructor
      · intro h; split at h <;> cases h
      · intro ⟨hs', h1', hex⟩
        cases h1'
        have := (setHeaders_none_iff hs r.headers).mpr hex
        rw [hset] at this; cases this

/-! ### `_compose_status_response` -/

/-- **an HTTPStatus keeps its status, text and headers**: status and text are the raised object's, its headers (last item per
    name) are set, every other header keeps its value -- in particular no `Vary` is added and Content-Type is not touched -/
theorem httpstatus_text_headers_kept (r r' : Resp) (s : HttpStatus) (h : composeStatus r s = .done r') :
    r'.status = s.status ∧ r'.body = .text s.text ∧
    (∀ hs pre name value post, s.headers = some hs → hs = pre ++ (name, value) :: post →
      (∀ kv ∈ post, Mt.lower kv.1 ≠ Mt.lower name) → hfind r'.headers (Mt.lower name) = some value) ∧
    (∀ k, (∀ hs, s.headers = some hs → ∀ kv ∈ hs, Mt.lower kv.1 ≠ k) → hfind r'.headers k = hfind r.headers k) := by
  unfold composeStatus at h
  simp only at h
  split at h
  · cases h
  · rename_i h1 hh1
    cases h
    refine ⟨rfl, rfl, ?_, ?_⟩
    · intro hs pre name value post hhs hsplit hlast
      rw [hhs] at hh1
      simp only at hh1
      rw [hsplit] at hh1
      exact setHeaders_last_wins pre _ _ name value post hh1 hlast
    · intro k hno
      cases hhs : s.headers with
      | none => rw [hhs] at hh1; simp only at hh1; cases hh1; rfl
      | some hs =>
        rw [hhs] at hh1
        simp only at hh1
        exact setHeaders_other hs _ _ k hh1 (hno hs hhs)

example : (match composeError { xml := true, handlers := [(JSON, true)] } (some "text/xml".toList)
      { status := 200, headers := [(kVary, "Origin".toList)], body := .untouched }
      { status := 429, title := [], description := none, headers := some [("Retry-After".toList, "5".toList)], link := none, code := none } with
    | .done r' => r'.status == 429 && hfind r'.headers kVary == some "Origin, Accept".toList &&
        hfind r'.headers "retry-after".toList == some "5".toList && hfind r'.headers kContentType == some XMLT && r'.body == .dataXml
    | _ => false) = true := by decide

example : (match composeStatus { status := 200, headers := [(kVary, "Origin".toList)], body := .untouched }
      { status := 299, headers := some [("X-A".toList, "1".toList), ("x-a".toList, "2".toList)], text := some "t".toList } with
    | .done r' => r'.status == 299 && hfind r'.headers kVary == some "Origin".toList && hfind r'.headers "x-a".toList == some "2".toList &&
        hfind r'.headers kContentType == none && r'.body == .text (some "t".toList)
    | _ => false) = true := by decide

#print axioms serialize_json_on_tie
#print axioms serialize_xml_only_if_preferred_and_enabled
#print axioms serialize_never_form_types
#print axioms serialize_none_iff
#print axioms vary_accept_always_appended
#print axioms to_dict_fields_exact
#print axioms httperror_status_headers_kept
#print axioms httpstatus_text_headers_kept
end Es

/-! C05/C06 prototype: what `App.__call__` (WSGI) and `asgi.App.__call__` do with a finished `Response`:
    body selection (`render_body`: text, then data, then media; else stream), HEAD and bodiless statuses,
    Content-Length and default Content-Type, and the chunks handed to the server. -/
namespace Fz
abbrev Bytes := List UInt8

inductive StreamKind where | fileLike | iter
deriving DecidableEq, Repr

/-- dict assignment on an association list (insertion order kept, overwrite in place) -/
def setKey (m : List (String × String)) (k v : String) : List (String × String) :=
  if m.any (·.1 == k) then m.map (fun e => if e.1 == k then (k, v) else e) else m ++ [(k, v)]
def hasKey (m : List (String × String)) (k : String) : Bool := m.any (·.1 == k)

structure Resp where
  status : Nat
  text : Option Bytes            -- already encoded
  data : Option Bytes
  media : Option Bytes           -- what the resolved handler's `serialize` returns
  stream : Option (StreamKind × List Bytes)
  streamFail : Option Nat        -- index of the `read()` / `next()` call that raises
  headers : List (String × String)   -- `resp._headers`: lower-case names, dict order
  cookies : List String          -- rendered Set-Cookie values
deriving Repr

structure Cfg where
  head : Bool
  appDefaultType : Option String      -- app.resp_options.default_media_type
  respDefaultType : Option String     -- resp.options.default_media_type (same object in practice)
  fileWrapper : Bool
deriving Repr

def bodiless (s : Nat) : Bool := s == 100 || s == 101 || s == 204 || s == 304
def typeless (s : Nat) : Bool := s == 204 || s == 304

/-- `Response.render_body()`: returns the bytes and the response, whose Content-Type may have been defaulted
    as a side effect of rendering media -/
def renderBody (r : Resp) (c : Cfg) : Option Bytes × Resp :=
  match r.text with
  | some t => (some t, r)
  | none =>
    match r.data with
    | some d => (some d, r)
    | none =>
      match r.media with
      | some m =>
        let r := if hasKey r.headers "content-type" then r else
          match c.respDefaultType with
          | some t => { r with headers := setKey r.headers "content-type" t }
          | none => r
        (some m, r)
      | none => (none, r)

/-- reading a stream to its end: the chunks delivered and whether the walk ended with an exception -/
def drainFile : Nat → List Bytes → Option Nat → Nat → List Bytes × Bool
  | 0, _, _, _ => ([], false)
  | fuel + 1, chunks, fail, i =>
    if fail == some i then ([], true) else
    match chunks with
    | [] => ([], false)
    | c :: rest =>
      if c.isEmpty then ([], false) else      -- `read()` returned b'': end of file
      let (out, e) := drainFile fuel rest fail (i + 1)
      (c :: out, e)

def drainIter : List Bytes → Option Nat → Nat → List Bytes × Bool
  | [], fail, i => ([], fail == some i)        -- the failing call may be the one that would have stopped
  | c :: rest, fail, i =>
    if fail == some i then ([], true) else
    let (out, e) := drainIter rest fail (i + 1)
    (c :: out, e)

structure Out where
  status : Nat
  headers : List (String × String)
  body : List Bytes       -- WSGI: the chunks of the returned iterable; ASGI: the `body` of each body event
  iterErr : Bool          -- the stream raised while the server (WSGI) / the app (ASGI) was draining it
deriving Repr, DecidableEq

def emitHeaders (r : Resp) (defaultType : Option String) : List (String × String) :=
  let h := match defaultType with
    | some t => if hasKey r.headers "content-type" then r.headers else r.headers ++ [("content-type", t)]
    | none => r.headers
  h ++ r.cookies.map fun c => ("set-cookie", c)

/-- tail of `falcon.App.__call__` -/
def wsgi (r : Resp) (c : Cfg) : Out :=
  let (data, r) := renderBody r c
  -- `_get_body`
  let (body, iterErr, length) : List Bytes × Bool × Option Nat :=
    match data with
    | some d => ([d], false, some d.length)
    | none =>
      match r.stream with
      | some (.fileLike, chunks) => let (o, e) := drainFile (chunks.length + 1) chunks r.streamFail 0; (o, e, none)
      | some (.iter, chunks) => let (o, e) := drainIter chunks r.streamFail 0; (o, e, none)
      | none => ([], false, some 0)
  if c.head || bodiless r.status then
    let dflt := if typeless r.status then none else c.appDefaultType
    let r := match length with
      | some n =>
        if !typeless r.status && c.head && !bodiless r.status && !hasKey r.headers "content-length"
        then { r with headers := setKey r.headers "content-length" (toString n) } else r
      | none => r
    { status := r.status, headers := emitHeaders r dflt, body := [], iterErr := false }
  else
    let r := match length with
      | some n => { r with headers := setKey r.headers "content-length" (toString n) }
      | none => r
    { status := r.status, headers := emitHeaders r c.appDefaultType, body := body, iterErr := iterErr }

/-- tail of `falcon.asgi.App.__call__` (no SSE) -/
def asgi (r : Resp) (c : Cfg) : Out :=
  let (data, r) := renderBody r c
  let hasStream := match r.stream with | some _ => true | none => false
  if c.head || bodiless r.status then
    let dflt := if typeless r.status then none else c.appDefaultType
    let r :=
      if !typeless r.status && (data.isSome || !hasStream) && c.head && !bodiless r.status
          && !hasKey r.headers "content-length"
      then
        let v := match data with | some d => if d.isEmpty then "0" else toString d.length | none => "0"
        { r with headers := setKey r.headers "content-length" v }
      else r
    { status := r.status, headers := emitHeaders r dflt, body := [[]], iterErr := false }
  else
    match data with
    | some d =>
      let r := { r with headers := setKey r.headers "content-length" (toString d.length) }
      { status := r.status, headers := emitHeaders r c.appDefaultType, body := [d], iterErr := false }
    | none =>
      match r.stream with
      | none =>
        let r := { r with headers := setKey r.headers "content-length" "0" }
        { status := r.status, headers := emitHeaders r c.appDefaultType, body := [[]], iterErr := false }
      | some (.fileLike, chunks) =>
        let (o, e) := drainFile (chunks.length + 1) chunks r.streamFail 0
        { status := r.status, headers := emitHeaders r c.appDefaultType, body := if e then o else o ++ [[]], iterErr := e }
      | some (.iter, chunks) =>
        let (o, e) := drainIter chunks r.streamFail 0
        { status := r.status, headers := emitHeaders r c.appDefaultType, body := if e then o else o ++ [[]], iterErr := e }

end Fz

import FalconModel.FinalizeNone
/-! C05: the ASGI streaming block of `falcon.asgi.App.__call__` when **`close()` itself fails**.

    ```
    try:     <streaming loop>                      # Fn.streamLoopN
    finally: if hasattr(stream, 'close'): await stream.close()
    await send(_EVT_RESP_EOF)
    ```
    `finally` runs however the loop ended - normally, with an exception of any class (an `Exception`, or a
    `BaseException` such as `asyncio.CancelledError`, which is how an ASGI server stops the application when the client
    goes away: to this model "raises" has no class) - so `close()` is called in every case.  When that call raises
    (or the application's task is cancelled while it is suspended in it) the call has still been made, its exception
    leaves `__call__` (replacing one that was already propagating) and the final body event is not sent.

    `asgiTraceC` is `Fn.asgiTraceN` with that fault as one more input (`cf`); `asgiTraceC_nofault` is the bridge. -/
namespace Fc
open Fz Fn

/-- everything `falcon.asgi.App.__call__` hands to `send`; `cf`: `stream.close()` raises when it is called -/
def asgiTraceC (r : Resp) (items : List Item) (c : Cfg) (hasClose : Bool) (xf : Option Nat) (cf : Bool) : Trace :=
  let o := asgi r c
  let st := Ev.start o.status o.headers
  let (data, r1) := renderBody r c
  if c.head || bodiless r1.status then twoEvents st (Ev.body [] false) xf
  else
    match data with
    | some d => twoEvents st (Ev.body d false) xf
    | none =>
      match r1.stream with
      | none => twoEvents st (Ev.body [] false) xf
      | some (kind, _) =>
        if xf == some 0 then { events := [], closes := 0, raised := true }     -- not begun: the stream is not touched
        else
          let (evs, failed, k) := streamLoopN kind items r1.streamFail 1 xf
          let closes := if hasClose then 1 else 0                              -- `finally: await stream.close()`
          if hasClose && cf then { events := st :: evs, closes := closes, raised := true }   -- ... and that call raises
          else if failed then { events := st :: evs, closes := closes, raised := true }
          else if xf == some k then { events := st :: evs, closes := closes, raised := true }
          else { events := st :: evs ++ [Ev.body [] false], closes := closes, raised := false }

end Fc

import FalconModel.FinalizeClose
import FalconModel.FinalizeNoneProofs
/-! C05: theorems about `Fc.asgiTraceC` (FinalizeClose.lean) - the ASGI emission when `stream.close()` itself raises, on top
    of every hand-out sequence, failing stream call and failing `send` index of `Fn.asgiTraceN`:
    * `asgiTraceC_nofault` / `asgiTraceC_noclose`   without the fault (or without a close() method) the model is `Fn.asgiTraceN`;
    * `traceC_wellformed`            the framing statement of `Fn.traceN_wellformed` holds with the fault as well;
    * `traceC_closed_exactly_once`   once streaming has begun close() is called exactly once - also when that very call fails,
                                     alone or on top of a stream / send failure;
    * `traceC_closes_zero_otherwise` and never when streaming did not begin;
    * `traceC_close_fault`           a failing close() always ends `__call__` with an exception, after exactly one call, the
                                     server having received the start event and open body events only. -/
namespace Fc
open Fz Fn

/-- without a close() fault the model is `Fn.asgiTraceN` (so every Fn / Fz theorem applies) -/
theorem asgiTraceC_nofault (r : Resp) (items : List Item) (c : Cfg) (hasClose : Bool) (xf : Option Nat) :
    asgiTraceC r items c hasClose xf false = asgiTraceN r items c hasClose xf := by
  unfold asgiTraceC asgiTraceN
  simp only [Bool.and_false, Bool.false_eq_true, if_false]
  rfl

/-- a stream object without close() cannot fail in it -/
theorem asgiTraceC_noclose (r : Resp) (items : List Item) (c : Cfg) (xf : Option Nat) (cf : Bool) :
    asgiTraceC r items c false xf cf = asgiTraceN r items c false xf := by
  unfold asgiTraceC asgiTraceN
  simp only [Bool.false_and, Bool.false_eq_true, if_false]
  rfl

theorem traceC_wellformed (r : Resp) (items : List Item) (c : Cfg) (hasClose : Bool) (xf : Option Nat) (cf : Bool) :
    ((asgiTraceC r items c hasClose xf cf).raised = false → Complete (asgiTraceC r items c hasClose xf cf).events) ∧
    ((asgiTraceC r items c hasClose xf cf).raised = true → CutShort (asgiTraceC r items c hasClose xf cf).events) := by
  unfold asgiTraceC
  rcases hrb : renderBody r c with ⟨data, r1⟩
  simp only
  split
  · exact twoEvents_wf _ _ _ _
  · cases data with
    | some d => exact twoEvents_wf _ _ _ _
    | none =>
      cases hs : r1.stream with
      | none => exact twoEvents_wf _ _ _ _
      | some s =>
        obtain ⟨kind, chunks⟩ := s
        simp only
        split
        · exact ⟨fun hh => (by cases hh), fun _ => Or.inl rfl⟩
        · have hopen := streamLoopN_open kind items r1.streamFail 1 xf
          rcases hl : streamLoopN kind items r1.streamFail 1 xf with ⟨evs, failed, k⟩
          rw [hl] at hopen
          simp only at hopen ⊢
          split
          · exact ⟨fun hh => (by cases hh), fun _ => Or.inr ⟨_, _, evs, rfl, hopen⟩⟩
          · split
            · exact ⟨fun hh => (by cases hh), fun _ => Or.inr ⟨_, _, evs, rfl, hopen⟩⟩
            · split
              · exact ⟨fun hh => (by cases hh), fun _ => Or.inr ⟨_, _, evs, rfl, hopen⟩⟩
              · exact ⟨fun _ => ⟨_, _, evs, [], rfl, hopen⟩, fun hh => by cases hh⟩

theorem traceC_closed_exactly_once (r : Resp) (items : List Item) (c : Cfg) (hasClose : Bool) (xf : Option Nat) (cf : Bool)
    (hb : Begun r c xf) : (asgiTraceC r items c hasClose xf cf).closes = if hasClose then 1 else 0 := by
  obtain ⟨hh, hbl, hrd, hst, hx⟩ := hb
  obtain ⟨f1, f2, _, _⟩ := renderBody_frame r c
  have fd := renderBody_fst r c
  unfold asgiTraceC
  rcases hrb : renderBody r c with ⟨data, r1⟩
  rw [hrb] at f1 f2 fd
  simp only at f1 f2 fd
  have hbb : (c.head || bodiless r1.status) = false := by rw [f1, hh, hbl]; rfl
  simp only [hbb, Bool.false_eq_true, if_false]
  have hd : data = none := by rw [fd]; exact hrd
  subst hd
  simp only
  cases hs : r1.stream with
  | none => rw [f2] at hs; rw [hs] at hst; cases hst
  | some s =>
    obtain ⟨kind, chunks⟩ := s
    simp only
    have hx0 : (xf == some 0) = false := by
      cases xf with
      | none => rfl
      | some n =>
        have : n ≠ 0 := fun h => hx (by rw [h])
        simp [this]
    simp only [hx0, Bool.false_eq_true, if_false]
    rcases streamLoopN kind items r1.streamFail 1 xf with ⟨evs, failed, k⟩
    simp only
    split
    · rfl
    · split
      · rfl
      · split <;> rfl

/-- and never when streaming did not begin - whatever close() would have done -/
theorem traceC_closes_zero_otherwise (r : Resp) (items : List Item) (c : Cfg) (hasClose : Bool) (xf : Option Nat) (cf : Bool)
    (hb : ¬ Begun r c xf) : (asgiTraceC r items c hasClose xf cf).closes = 0 := by
  obtain ⟨f1, f2, _, _⟩ := renderBody_frame r c
  have fd := renderBody_fst r c
  unfold asgiTraceC
  rcases hrb : renderBody r c with ⟨data, r1⟩
  rw [hrb] at f1 f2 fd
  simp only at f1 f2 fd
  simp only
  split
  · exact twoEvents_closes _ _ _
  · rename_i hnb
    cases data with
    | some d => exact twoEvents_closes _ _ _
    | none =>
      cases hs : r1.stream with
      | none => exact twoEvents_closes _ _ _
      | some s =>
        obtain ⟨kind, chunks⟩ := s
        simp only
        split
        · rfl
        · rename_i hx0
          exfalso
          apply hb
          have hnb' : (c.head || bodiless r.status) = false := by
            rw [← f1]; simpa using hnb
          have h1 : c.head = false := by
            cases hc : c.head with
            | false => rfl
            | true => rw [hc] at hnb'; simp at hnb'
          have h2 : bodiless r.status = false := by
            cases hbs : bodiless r.status with
            | false => rfl
            | true => rw [hbs] at hnb'; simp at hnb'
          refine ⟨h1, h2, fd.symm, ?_, ?_⟩
          · rw [← f2, hs]; rfl
          · intro hxe; rw [hxe] at hx0; simp at hx0

/-- **a failing close()**: once streaming has begun on a stream object that has close(), a close() that raises ends
    `__call__` with an exception - whatever happened before (the loop completed, the stream raised, send failed) -, the
    call was made exactly once, and what the server got is the start event followed only by body events with
    `more_body = true` (the final event is not sent) -/
theorem traceC_close_fault (r : Resp) (items : List Item) (c : Cfg) (xf : Option Nat) (hb : Begun r c xf) :
    (asgiTraceC r items c true xf true).raised = true ∧ (asgiTraceC r items c true xf true).closes = 1 ∧
    ∃ s h bs, (asgiTraceC r items c true xf true).events = Ev.start s h :: bs ∧ bodiesOpen bs := by
  have hc := traceC_closed_exactly_once r items c true xf true hb
  obtain ⟨hh, hbl, hrd, hst, hx⟩ := hb
  obtain ⟨f1, f2, _, _⟩ := renderBody_frame r c
  have fd := renderBody_fst r c
  refine ⟨?_, by simpa using hc, ?_⟩
  all_goals
    unfold asgiTraceC
    rcases hrb : renderBody r c with ⟨data, r1⟩
    rw [hrb] at f1 f2 fd
    simp only at f1 f2 fd
    have hbb : (c.head || bodiless r1.status) = false := by rw [f1, hh, hbl]; rfl
    simp only [hbb, Bool.false_eq_true, if_false]
    have hd : data = none := by rw [fd]; exact hrd
    subst hd
    simp only
    cases hs : r1.stream with
    | none => rw [f2] at hs; rw [hs] at hst; cases hst
    | some s =>
      obtain ⟨kind, chunks⟩ := s
      simp only
      have hx0 : (xf == some 0) = false := by
        cases xf with
        | none => rfl
        | some n =>
          have : n ≠ 0 := fun h => hx (by rw [h])
          simp [this]
      simp only [hx0, Bool.false_eq_true, if_false, Bool.and_self, if_true]
      try first
        | rfl
        | (have hopen := streamLoopN_open kind items r1.streamFail 1 xf
           rcases hl : streamLoopN kind items r1.streamFail 1 xf with ⟨evs, failed, k⟩
           rw [hl] at hopen
           exact ⟨_, _, evs, rfl, hopen⟩)

def exResp : Resp := { status := 200, text := none, data := none, media := none, stream := some (StreamKind.fileLike, []),
                       streamFail := none, headers := [], cookies := [] }
def exCfg : Cfg := { head := false, appDefaultType := none, respDefaultType := none, fileWrapper := false }

/-- the hypotheses of `traceC_close_fault` are satisfiable: a streamed 200, no send fault -/
example : Begun exResp exCfg none := by
  refine ⟨rfl, rfl, rfl, ?_, ?_⟩ <;> decide

/-- two chunks are streamed, close() raises: start + two open body events, no final event, one close(), exception -/
example : asgiTraceC exResp [some [97], some [98]] exCfg true none true
    = { events := [Ev.start 200 [], Ev.body [97] true, Ev.body [98] true], closes := 1, raised := true } := by decide

/-- send fails at the second body event AND close() raises: still exactly one close() -/
example : asgiTraceC exResp [some [97], some [98]] exCfg true (some 2) true
    = { events := [Ev.start 200 [], Ev.body [97] true], closes := 1, raised := true } := by decide

end Fc

import FalconModel.Finalize
/-! C05: response finalization when **rendering the body raises** (`falcon.App.__call__` lines 457-473 and
    `falcon.asgi.App.__call__` lines 543-599, fix 492d3f9).

    `render_body()` raises when `media` is the source that gets rendered and either no handler exists for the
    response's content type (`HTTPUnsupportedMediaType`) or the handler's `serialize` raises.  The exception goes to
    `_handle_exception`: text, data and media are reset, the error handler edits the response; then the body is
    rendered **again** - so that what the handler put on the response is what gets sent -; if that raises too, the
    response goes out with an empty body (`body, length = [], 0` on WSGI, `data = b''` on ASGI).

    `tailW` / `tailA` are the parts of `Fz.wsgi` / `Fz.asgi` after the body has been rendered
    (`wsgi_eq_tail` / `asgi_eq_tail`: definitional). -/
namespace Fe
open Fz

/-- `render_body()` raises: media is what gets rendered and resolving / running its handler raises -/
def raises (r : Resp) (mediaRaises : Bool) : Bool :=
  mediaRaises && r.text.isNone && r.data.isNone && r.media.isSome

/-- `render_body()` with a failing handler: `none` = raised.  The Content-Type has been defaulted on the response
    *before* the handler is looked up, so that side effect is there in both outcomes. -/
def renderE (r : Resp) (mediaRaises : Bool) (c : Cfg) : Option (Option Bytes) × Resp :=
  let (d, r1) := renderBody r c
  if raises r mediaRaises then (none, r1) else (some d, r1)

/-- `_handle_exception`: "reset body, data and media before calling the handler" (the stream stays) -/
def reset (r : Resp) : Resp := { r with text := none, data := none, media := none }

/-- `App._get_body` once `render_body()` has returned: (chunks the server will take, the stream raises, length) -/
def getBodyW (data : Option Bytes) (r : Resp) : List Bytes × Bool × Option Nat :=
  match data with
  | some d => ([d], false, some d.length)
  | none =>
    match r.stream with
    | some (.fileLike, chunks) => let (o, e) := drainFile (chunks.length + 1) chunks r.streamFail 0; (o, e, none)
    | some (.iter, chunks) => let (o, e) := drainIter chunks r.streamFail 0; (o, e, none)
    | none => ([], false, some 0)

/-- `falcon.App.__call__` from `resp_status = code_to_http_status(resp.status)` on -/
def tailW (body : List Bytes) (iterErr : Bool) (length : Option Nat) (r : Resp) (c : Cfg) : Out :=
  if c.head || bodiless r.status then
    let dflt := if typeless r.status then none else c.appDefaultType
    let r := match length with
      | some n =>
        if !typeless r.status && c.head && !bodiless r.status && !hasKey r.headers "content-length"
        then { r with headers := setKey r.headers "content-length" (toString n) } else r
      | none => r
    { status := r.status, headers := emitHeaders r dflt, body := [], iterErr := false }
  else
    let r := match length with
      | some n => { r with headers := setKey r.headers "content-length" (toString n) }
      | none => r
    { status := r.status, headers := emitHeaders r c.appDefaultType, body := body, iterErr := iterErr }

/-- `falcon.asgi.App.__call__` from `resp_status = resp.status_code` on (no SSE) -/
def tailA (data : Option Bytes) (r : Resp) (c : Cfg) : Out :=
  let hasStream := match r.stream with | some _ => true | none => false
  if c.head || bodiless r.status then
    let dflt := if typeless r.status then none else c.appDefaultType
    let r :=
      if !typeless r.status && (data.isSome || !hasStream) && c.head && !bodiless r.status
          && !hasKey r.headers "content-length"
      then
        let v := match data with | some d => if d.isEmpty then "0" else toString d.length | none => "0"
        { r with headers := setKey r.headers "content-length" v }
      else r
    { status := r.status, headers := emitHeaders r dflt, body := [[]], iterErr := false }
  else
    match data with
    | some d =>
      let r := { r with headers := setKey r.headers "content-length" (toString d.length) }
      { status := r.status, headers := emitHeaders r c.appDefaultType, body := [d], iterErr := false }
    | none =>
      match r.stream with
      | none =>
        let r := { r with headers := setKey r.headers "content-length" "0" }
        { status := r.status, headers := emitHeaders r c.appDefaultType, body := [[]], iterErr := false }
      | some (.fileLike, chunks) =>
        let (o, e) := drainFile (chunks.length + 1) chunks r.streamFail 0
        { status := r.status, headers := emitHeaders r c.appDefaultType, body := if e then o else o ++ [[]], iterErr := e }
      | some (.iter, chunks) =>
        let (o, e) := drainIter chunks r.streamFail 0
        { status := r.status, headers := emitHeaders r c.appDefaultType, body := if e then o else o ++ [[]], iterErr := e }

/-- an error handler as `_handle_exception` runs it: from the response (after the reset) to the response it leaves and
    whether rendering *that* one's media raises; `none`: the handler itself raised something that is neither an
    `HTTPError` nor an `HTTPStatus`, which then leaves `__call__` -/
abbrev Handler := Resp → Option (Resp × Bool)

/-- `falcon.App.__call__` from `body, length = self._get_body(...)` on; `none`: an exception leaves `__call__` -/
def wsgiE (r : Resp) (mediaRaises : Bool) (h : Handler) (c : Cfg) : Option Out :=
  match renderE r mediaRaises c with
  | (some d, r1) => let (b, e, l) := getBodyW d r1; some (tailW b e l r1 c)
  | (none, r1) =>
    match h (reset r1) with                       -- `if not self._handle_exception(req, resp, ex, params): raise`
    | none => none
    | some (r2, mr2) =>
      match renderE r2 mr2 c with                 -- `try: body, length = self._get_body(...)`
      | (some d, r3) => let (b, e, l) := getBodyW d r3; some (tailW b e l r3 c)
      | (none, r3) => some (tailW [] false (some 0) r3 c)      -- `except Exception: body, length = [], 0`

/-- `falcon.asgi.App.__call__` from `data = b''; try: …render_body…` on -/
def asgiE (r : Resp) (mediaRaises : Bool) (h : Handler) (c : Cfg) : Option Out :=
  match renderE r mediaRaises c with
  | (some d, r1) => some (tailA d r1 c)
  | (none, r1) =>
    match h (reset r1) with
    | none => none
    | some (r2, mr2) =>
      match renderE r2 mr2 c with                 -- `try: data = await resp.render_body()`
      | (some d, r3) => some (tailA d r3 c)
      | (none, r3) => some (tailA (some []) r3 c)              -- `except Exception: data = b''`

end Fe

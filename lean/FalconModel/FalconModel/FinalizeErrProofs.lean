import FalconModel.FinalizeErr
import FalconModel.FinalizeProofs2
/-! C05: theorems about finalization when rendering the body raises (`FinalizeErr.lean`): every path of the
    `try … except … try … except` reduces to the ordinary finalization (`Fz.wsgi` / `Fz.asgi`) of an explicit response
    state, hence `render_error_body_is_sent`, `render_error_twice_empty_body`, `err_content_length_exact` and
    `err_wsgi_asgi_agree` on both stacks. -/
namespace Fe
open Fz

theorem wsgi_eq_tail (r : Resp) (c : Cfg) :
    wsgi r c = (let (b, e, l) := getBodyW (renderBody r c).1 (renderBody r c).2; tailW b e l (renderBody r c).2 c) := by
  rfl

theorem asgi_eq_tail (r : Resp) (c : Cfg) : asgi r c = tailA (renderBody r c).1 (renderBody r c).2 c := by
  rfl

theorem wsgi_status (r : Resp) (c : Cfg) : (wsgi r c).status = r.status := by
  obtain ⟨f1, _, _, _⟩ := renderBody_frame r c
  unfold wsgi
  rcases hrb : renderBody r c with ⟨data, r1⟩
  rw [hrb] at f1
  simp only at f1 ⊢
  split
  · cases data with
    | some d => simp only; split <;> exact f1
    | none =>
      cases hs : r1.stream with
      | none => simp only; split <;> exact f1
      | some s => obtain ⟨k, ch⟩ := s; cases k <;> exact f1
  · cases data with
    | some d => exact f1
    | none =>
      cases hs : r1.stream with
      | none => exact f1
      | some s => obtain ⟨k, ch⟩ := s; cases k <;> exact f1

/-- what is left of a response whose second rendering failed, WSGI: `body, length = [], 0` -/
def bare (r : Resp) : Resp := { r with text := none, data := none, media := none, stream := none }
/-- … ASGI: `data = b''` -/
def emptyData (r : Resp) : Resp := { r with text := none, data := some [], media := none }

/-- no render-time error: the ordinary finalization (all `Fz` theorems apply) -/
theorem wsgiE_ok (r : Resp) (mr : Bool) (h : Handler) (c : Cfg) (hr : raises r mr = false) :
    wsgiE r mr h c = some (wsgi r c) := by
  unfold wsgiE renderE
  simp only [hr, Bool.false_eq_true, if_false]
  rfl

theorem asgiE_ok (r : Resp) (mr : Bool) (h : Handler) (c : Cfg) (hr : raises r mr = false) :
    asgiE r mr h c = some (asgi r c) := by
  unfold asgiE renderE
  simp only [hr, Bool.false_eq_true, if_false]
  rfl

/-- the error handler's response renders: it is finalized like any other response -/
theorem wsgiE_handled (r : Resp) (mr : Bool) (h : Handler) (c : Cfg) (r2 : Resp) (mr2 : Bool)
    (hr : raises r mr = true) (hh : h (reset (renderBody r c).2) = some (r2, mr2)) (h2 : raises r2 mr2 = false) :
    wsgiE r mr h c = some (wsgi r2 c) := by
  unfold wsgiE renderE
  simp only [hr, if_true, hh, h2, Bool.false_eq_true, if_false]
  rfl

theorem asgiE_handled (r : Resp) (mr : Bool) (h : Handler) (c : Cfg) (r2 : Resp) (mr2 : Bool)
    (hr : raises r mr = true) (hh : h (reset (renderBody r c).2) = some (r2, mr2)) (h2 : raises r2 mr2 = false) :
    asgiE r mr h c = some (asgi r2 c) := by
  unfold asgiE renderE
  simp only [hr, if_true, hh, h2, Bool.false_eq_true, if_false]
  rfl

theorem renderBody_bare (r : Resp) (c : Cfg) : renderBody (bare r) c = (none, bare r) := rfl
theorem renderBody_emptyData (r : Resp) (c : Cfg) : renderBody (emptyData r) c = (some [], emptyData r) := rfl

theorem tailW_bare (r : Resp) (c : Cfg) : tailW [] false (some 0) r c = wsgi (bare r) c := by
  rw [wsgi_eq_tail, renderBody_bare]
  unfold getBodyW tailW bare
  simp only
  split
  · split <;> rfl
  · rfl

theorem tailA_emptyData (r : Resp) (c : Cfg) : tailA (some []) r c = asgi (emptyData r) c := by
  rw [asgi_eq_tail, renderBody_emptyData]
  unfold tailA emptyData
  simp only
  by_cases hc : (c.head || bodiless r.status) = true
  · simp only [hc, if_true]
    cases r.stream <;> simp only <;> split <;> rfl
  · simp only [hc, Bool.false_eq_true, if_false]
    rfl

/-- rendering what the handler left raises too: the response goes out as if it had no body source at all -/
theorem wsgiE_twice (r : Resp) (mr : Bool) (h : Handler) (c : Cfg) (r2 : Resp) (mr2 : Bool)
    (hr : raises r mr = true) (hh : h (reset (renderBody r c).2) = some (r2, mr2)) (h2 : raises r2 mr2 = true) :
    wsgiE r mr h c = some (wsgi (bare (renderBody r2 c).2) c) := by
  unfold wsgiE renderE
  simp only [hr, if_true, hh, h2]
  rw [tailW_bare]

theorem asgiE_twice (r : Resp) (mr : Bool) (h : Handler) (c : Cfg) (r2 : Resp) (mr2 : Bool)
    (hr : raises r mr = true) (hh : h (reset (renderBody r c).2) = some (r2, mr2)) (h2 : raises r2 mr2 = true) :
    asgiE r mr h c = some (asgi (emptyData (renderBody r2 c).2) c) := by
  unfold asgiE renderE
  simp only [hr, if_true, hh, h2]
  rw [tailA_emptyData]

/-- the handler raised something unhandled: the exception leaves `__call__` on both stacks, nothing is sent -/
theorem unhandled (r : Resp) (mr : Bool) (h : Handler) (c : Cfg)
    (hr : raises r mr = true) (hh : h (reset (renderBody r c).2) = none) :
    wsgiE r mr h c = none ∧ asgiE r mr h c = none := by
  unfold wsgiE asgiE renderE
  simp only [hr, if_true, hh, and_self]

/-- the handler sees the response with text, data and media reset, the Content-Type possibly defaulted by the failed
    rendering, everything else as the responder left it -/
theorem handler_input (r : Resp) (c : Cfg) :
    (reset (renderBody r c).2).text = none ∧ (reset (renderBody r c).2).data = none ∧
    (reset (renderBody r c).2).media = none ∧ (reset (renderBody r c).2).stream = r.stream ∧
    (reset (renderBody r c).2).status = r.status ∧ (reset (renderBody r c).2).cookies = r.cookies := by
  obtain ⟨f1, f2, _, f4⟩ := renderBody_frame r c
  exact ⟨rfl, rfl, rfl, f2, f1, f4⟩

/-- **F17 repaired: after an exception in body rendering the error handler's body is what gets sent** (both stacks):
    the payload is the one the handler's response state provides by the usual precedence -/
theorem render_error_body_is_sent (r : Resp) (mr : Bool) (h : Handler) (c : Cfg) (r2 : Resp) (mr2 : Bool)
    (hr : raises r mr = true) (hh : h (reset (renderBody r c).2) = some (r2, mr2)) (h2 : raises r2 mr2 = false)
    (hhd : c.head = false) (hb : bodiless r2.status = false) :
    ∃ ow oa, wsgiE r mr h c = some ow ∧ asgiE r mr h c = some oa ∧
      ow.payload = expectedPayload r2 ∧ oa.payload = expectedPayload r2 ∧ ow.status = r2.status ∧ oa.status = r2.status := by
  refine ⟨_, _, wsgiE_handled r mr h c r2 mr2 hr hh h2, asgiE_handled r mr h c r2 mr2 hr hh h2,
    body_precedence r2 c hhd hb, asgi_body_precedence r2 c hhd hb, ?_, ?_⟩
  · exact wsgi_status r2 c
  · rw [← (wsgi_asgi_agree r2 c).1]; exact wsgi_status r2 c

/-- **… and if rendering the handler's response raises too, the response has an empty body** - with a
    Content-Length of 0 when the response is one that carries a Content-Length -/
theorem render_error_twice_empty_body (r : Resp) (mr : Bool) (h : Handler) (c : Cfg) (r2 : Resp) (mr2 : Bool)
    (hr : raises r mr = true) (hh : h (reset (renderBody r c).2) = some (r2, mr2)) (h2 : raises r2 mr2 = true) :
    ∃ ow oa, wsgiE r mr h c = some ow ∧ asgiE r mr h c = some oa ∧ ow.payload = [] ∧ oa.payload = [] ∧
      ow.iterErr = false ∧ oa.iterErr = false ∧ ow.status = r2.status ∧ oa.status = r2.status ∧
      (c.head = false → bodiless r2.status = false →
        getKey ow.headers "content-length" = some "0" ∧ getKey oa.headers "content-length" = some "0") := by
  obtain ⟨f1, _, _, _⟩ := renderBody_frame r2 c
  have hw := wsgiE_twice r mr h c r2 mr2 hr hh h2
  have ha := asgiE_twice r mr h c r2 mr2 hr hh h2
  have hwp : (wsgi (bare (renderBody r2 c).2) c).payload = [] := by
    rw [wsgi_eq_tail, renderBody_bare]
    unfold getBodyW tailW bare Out.payload
    simp only
    split <;> rfl
  have hap : (asgi (emptyData (renderBody r2 c).2) c).payload = [] := by
    rw [asgi_eq_tail, renderBody_emptyData]
    unfold tailA emptyData Out.payload
    simp only
    split <;> rfl
  have hwe : (wsgi (bare (renderBody r2 c).2) c).iterErr = false := by
    rw [wsgi_eq_tail, renderBody_bare]
    unfold getBodyW tailW bare
    simp only
    split <;> rfl
  have hae : (asgi (emptyData (renderBody r2 c).2) c).iterErr = false := by
    rw [asgi_eq_tail, renderBody_emptyData]
    unfold tailA emptyData
    simp only
    split <;> rfl
  refine ⟨_, _, hw, ha, hwp, hap, hwe, hae, ?_, ?_, ?_⟩
  · rw [wsgi_status]; exact f1
  · rw [← (wsgi_asgi_agree _ c).1, wsgi_status]; exact f1
  · intro hhd hb
    have hb' : bodiless (bare (renderBody r2 c).2).status = false := by
      show bodiless (renderBody r2 c).2.status = false
      rw [f1]; exact hb
    have hb'' : bodiless (emptyData (renderBody r2 c).2).status = false := hb'
    have e1 := content_length_exact (bare (renderBody r2 c).2) c hhd hb' (Or.inl rfl)
    have e2 := asgi_content_length_exact (emptyData (renderBody r2 c).2) c hhd hb'' (Or.inr (Or.inr (Or.inl rfl)))
    rw [hwp] at e1
    rw [hap] at e2
    exact ⟨e1, e2⟩

/-- **Content-Length is exact on the render-error path as well** (both stacks): non-HEAD, body-bearing status of
    the handler's response, and the body not taken from a stream (rendering failed twice, or the handler's response
    has a rendered source or no stream) -/
theorem err_content_length_exact (r : Resp) (mr : Bool) (h : Handler) (c : Cfg) (r2 : Resp) (mr2 : Bool)
    (hr : raises r mr = true) (hh : h (reset (renderBody r c).2) = some (r2, mr2))
    (hhd : c.head = false) (hb : bodiless r2.status = false)
    (hs : raises r2 mr2 = true ∨ r2.stream = none ∨ r2.text.isSome ∨ r2.data.isSome ∨ r2.media.isSome) :
    ∃ ow oa, wsgiE r mr h c = some ow ∧ asgiE r mr h c = some oa ∧
      getKey ow.headers "content-length" = some (toString ow.payload.length) ∧
      getKey oa.headers "content-length" = some (toString oa.payload.length) := by
  cases h2 : raises r2 mr2 with
  | true =>
    obtain ⟨ow, oa, a, b, pw, pa, _, _, _, _, cl⟩ := render_error_twice_empty_body r mr h c r2 mr2 hr hh h2
    obtain ⟨c1, c2⟩ := cl hhd hb
    refine ⟨ow, oa, a, b, ?_, ?_⟩
    · rw [pw, c1]; rfl
    · rw [pa, c2]; rfl
  | false =>
    have hs' : r2.stream = none ∨ r2.text.isSome ∨ r2.data.isSome ∨ r2.media.isSome := by
      rcases hs with h | h
      · rw [h2] at h; cases h
      · exact h
    exact ⟨_, _, wsgiE_handled r mr h c r2 mr2 hr hh h2, asgiE_handled r mr h c r2 mr2 hr hh h2,
      content_length_exact r2 c hhd hb hs', asgi_content_length_exact r2 c hhd hb hs'⟩

example : raises { status := 200, text := none, data := none, media := some [1], stream := none, streamFail := none,
                   headers := [], cookies := [] } true = true := rfl

/-- **both stacks agree on the render-error path too**: an exception leaves both or neither, and status, header
    list, payload and stream-error propagation are the same -/
theorem err_wsgi_asgi_agree (r : Resp) (mr : Bool) (h : Handler) (c : Cfg) :
    (wsgiE r mr h c = none ∧ asgiE r mr h c = none) ∨
    ∃ ow oa, wsgiE r mr h c = some ow ∧ asgiE r mr h c = some oa ∧ ow.status = oa.status ∧
      ow.headers = oa.headers ∧ ow.payload = oa.payload ∧ ow.iterErr = oa.iterErr := by
  cases hr : raises r mr with
  | false =>
    exact Or.inr ⟨_, _, wsgiE_ok r mr h c hr, asgiE_ok r mr h c hr, wsgi_asgi_agree r c⟩
  | true =>
    cases hh : h (reset (renderBody r c).2) with
    | none => exact Or.inl (unhandled r mr h c hr hh)
    | some p =>
      obtain ⟨r2, mr2⟩ := p
      cases h2 : raises r2 mr2 with
      | false =>
        exact Or.inr ⟨_, _, wsgiE_handled r mr h c r2 mr2 hr hh h2, asgiE_handled r mr h c r2 mr2 hr hh h2,
          wsgi_asgi_agree r2 c⟩
      | true =>
        refine Or.inr ⟨_, _, wsgiE_twice r mr h c r2 mr2 hr hh h2, asgiE_twice r mr h c r2 mr2 hr hh h2, ?_⟩
        generalize (renderBody r2 c).2 = r3
        rw [wsgi_eq_tail, renderBody_bare, asgi_eq_tail, renderBody_emptyData]
        have h0 : Nat.repr 0 = "0" := by decide
        unfold getBodyW tailW tailA bare emptyData Out.payload
        simp only
        by_cases hc : (c.head || bodiless r3.status) = true
        · simp only [hc, if_true]
          cases r3.stream <;> simp [h0] <;> split <;> exact ⟨rfl, rfl⟩
        · simp [hc, h0]
          rfl

end Fe

import FalconModel.FinalizeErr
/-! C05: **histories** on one response.  A responder, hook or middleware component does not fill in a response in one
    shot: `text`, `data` and `media` are assigned in any order, re-assigned, reset to `None`, and the public
    `resp.render_body()` is called in between (to look at the outgoing bytes: ETag, logging, compression) before the
    framework renders the body a last time.

    `render_body()` (falcon/response.py, falcon/asgi/response.py, and its inlined copy in `asgi.App.__call__`) is not a
    pure function of the three attributes: serialised media is **cached** in `_media_rendered` (`_UNSET` until media has
    been serialised; reset by the `media` setter only), and rendering media stores the default Content-Type on the
    response.  `Fz.renderBody` (Finalize.lean) is the cache-free function of a finished response; this file has the cache,
    the setters and the header dict assignments as operations, `run` folds a history, and `wsgiH` / `asgiH` are the
    tails of the two `__call__`s on what the history left (`Fe.getBodyW`, `Fe.tailW`, `Fe.tailA`: FinalizeErr.lean). -/
namespace Fh
open Fz

/-- the response while it is being filled in: the attributes of `Fz.Resp` + `_media_rendered` (`none` = `_UNSET`) -/
structure St where
  r : Resp
  cache : Option Bytes
deriving Repr

inductive Op where
  | setText (v : Option Bytes)        -- `resp.text = v` (already encoded)
  | setData (v : Option Bytes)        -- `resp.data = v`
  | setMedia (v : Option Bytes)       -- `resp.media = v`; as in `Fz.Resp`: what the resolved handler's `serialize` returns
  | render (mediaRaises : Bool)       -- `resp.render_body()`; the flag: resolving / running the media handler would raise
  | setHeader (k v : String)          -- `resp._headers[k] = v` (set_header, content_type, content_length, …)
deriving Repr

/-- `Response.render_body()` with the cache.  First component: `none` = it raised, `some d` = it returned `d`. -/
def renderC (s : St) (mr : Bool) (c : Cfg) : Option (Option Bytes) × St :=
  match s.r.text with
  | some t => (some (some t), s)
  | none =>
    match s.r.data with
    | some d => (some (some d), s)
    | none =>
      match s.r.media with
      | none => (some none, s)
      | some m =>
        match s.cache with
        | some x => (some (some x), s)                 -- `data = self._media_rendered`
        | none =>                                      -- `if self._media_rendered is _UNSET:`
          let r1 := if hasKey s.r.headers "content-type" then s.r else
            match c.respDefaultType with
            | some t => { s.r with headers := setKey s.r.headers "content-type" t }
            | none => s.r
          -- the Content-Type is defaulted before the handler is resolved: that side effect stays when it raises
          if mr then (none, { s with r := r1 }) else (some (some m), { r := r1, cache := some m })

def step (c : Cfg) (s : St) : Op → St
  | .setText v => { s with r := { s.r with text := v } }
  | .setData v => { s with r := { s.r with data := v } }
  | .setMedia v => { r := { s.r with media := v }, cache := none }     -- the setter resets `_media_rendered`
  | .render mr => (renderC s mr c).2
  | .setHeader k v => { s with r := { s.r with headers := setKey s.r.headers k v } }

def run (c : Cfg) (s : St) (ops : List Op) : St := ops.foldl (step c) s

/-- what the `render_body()` calls of the history returned, in order -/
def outputs (c : Cfg) : St → List Op → List (Option (Option Bytes))
  | _, [] => []
  | s, .render mr :: ops => (renderC s mr c).1 :: outputs c (step c s (.render mr)) ops
  | s, .setText v :: ops => outputs c (step c s (.setText v)) ops
  | s, .setData v :: ops => outputs c (step c s (.setData v)) ops
  | s, .setMedia v :: ops => outputs c (step c s (.setMedia v)) ops
  | s, .setHeader k v :: ops => outputs c (step c s (.setHeader k v)) ops

/-- tail of `falcon.App.__call__` on what the history left; `none`: the final rendering raised (continues in `Fe.wsgiE`) -/
def wsgiH (c : Cfg) (s : St) (mr : Bool) : Option Out :=
  match renderC s mr c with
  | (some d, s1) => let (b, e, l) := Fe.getBodyW d s1.r; some (Fe.tailW b e l s1.r c)
  | (none, _) => none

/-- tail of `falcon.asgi.App.__call__` (no SSE) on what the history left -/
def asgiH (c : Cfg) (s : St) (mr : Bool) : Option Out :=
  match renderC s mr c with
  | (some d, s1) => some (Fe.tailA d s1.r c)
  | (none, _) => none

/-- the value an attribute has after the history: its last assignment, else what it was -/
def lastText : List Op → Option Bytes → Option Bytes
  | [], t => t
  | .setText v :: ops, _ => lastText ops v
  | .setData _ :: ops, t => lastText ops t
  | .setMedia _ :: ops, t => lastText ops t
  | .render _ :: ops, t => lastText ops t
  | .setHeader _ _ :: ops, t => lastText ops t
def lastData : List Op → Option Bytes → Option Bytes
  | [], t => t
  | .setData v :: ops, _ => lastData ops v
  | .setText _ :: ops, t => lastData ops t
  | .setMedia _ :: ops, t => lastData ops t
  | .render _ :: ops, t => lastData ops t
  | .setHeader _ _ :: ops, t => lastData ops t
def lastMedia : List Op → Option Bytes → Option Bytes
  | [], t => t
  | .setMedia v :: ops, _ => lastMedia ops v
  | .setText _ :: ops, t => lastMedia ops t
  | .setData _ :: ops, t => lastMedia ops t
  | .render _ :: ops, t => lastMedia ops t
  | .setHeader _ _ :: ops, t => lastMedia ops t

end Fh

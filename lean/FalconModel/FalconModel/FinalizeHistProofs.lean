import FalconModel.FinalizeHist
import FalconModel.FinalizeErrProofs
/-! C05: theorems about histories on one response (`FinalizeHist.lean`), for **every** sequence of assignments of
    text / data / media (values and None), header assignments and `render_body()` calls (returning or raising):
    * `inv_run`                  the `_media_rendered` cache is `_UNSET` or the serialised form of the media currently
                                 assigned (and then the response is typed) - an invariant of every operation;
    * `renderC_eq`, `renderC_fst`   with such a cache `render_body()` is the cache-free `Fz.renderBody`: every call that
                                 returns, returns text, else data, else the serialised media *as assigned at that moment*;
    * `history_wsgi`, `history_asgi`   what the two `__call__`s hand to the server after the history is `Fz.wsgi` /
                                 `Fz.asgi` of the state it left: all `Fz` theorems apply to it;
    * `run_attrs`                last assignment wins; `render_body()` and header assignments do not touch the attributes;
    * `history_body_precedence`  the payload is text > data > media > stream of the values assigned last. -/
namespace Fh
open Fz

theorem hasKey_setKey_self (m : List (String × String)) (k v : String) : hasKey (setKey m k v) k = true := by
  unfold setKey hasKey
  split
  · rename_i hany
    induction m with
    | nil => simp at hany
    | cons x xs ih =>
      simp only [List.map_cons, List.any_cons]
      cases hx : x.1 == k with
      | true => simp
      | false =>
        simp only [Bool.false_eq_true, if_false, hx, Bool.false_or]
        apply ih
        simpa [hx] using hany
  · simp

theorem any_replace_mono (m : List (String × String)) (k v k' : String) (h : (m.any (·.1 == k')) = true) :
    ((m.map fun e => if e.1 == k then (k, v) else e).any (·.1 == k')) = true := by
  induction m with
  | nil => simp at h
  | cons x xs ih =>
    simp only [List.map_cons, List.any_cons, Bool.or_eq_true] at h ⊢
    rcases h with h | h
    · left
      by_cases hx : (x.1 == k) = true
      · simp only [hx, if_true]
        have : x.1 = k := by simpa using hx
        rw [← this]; exact h
      · simp only [hx, Bool.false_eq_true, if_false]; exact h
    · right; exact ih h

theorem hasKey_setKey_mono (m : List (String × String)) (k v k' : String) (h : hasKey m k' = true) :
    hasKey (setKey m k v) k' = true := by
  unfold setKey hasKey at *
  split
  · exact any_replace_mono m k v k' h
  · simp only [List.any_append, Bool.or_eq_true]; left; exact h

/-- the cache is `_UNSET` or holds the serialised form of the media currently assigned, and in the latter case the
    response is typed (or there is no default type to store) -/
def Inv (c : Cfg) (s : St) : Prop :=
  ∀ x, s.cache = some x → s.r.media = some x ∧ (hasKey s.r.headers "content-type" = true ∨ c.respDefaultType = none)

theorem inv_init (c : Cfg) (r : Resp) : Inv c { r := r, cache := none } := by
  intro x hx; cases hx

theorem inv_step (c : Cfg) (s : St) (op : Op) (h : Inv c s) : Inv c (step c s op) := by
  cases op with
  | setText v => intro x hx; exact h x hx
  | setData v => intro x hx; exact h x hx
  | setMedia v => intro x hx; cases hx
  | setHeader k v =>
    intro x hx
    obtain ⟨h1, h2⟩ := h x hx
    refine ⟨h1, ?_⟩
    rcases h2 with h2 | h2
    · left; exact hasKey_setKey_mono _ _ _ _ h2
    · right; exact h2
  | render mr =>
    unfold step renderC
    cases ht : s.r.text with
    | some t => exact h
    | none =>
      cases hd : s.r.data with
      | some d => exact h
      | none =>
        cases hm : s.r.media with
        | none => exact h
        | some m =>
          cases hc : s.cache with
          | some x => exact h
          | none =>
            simp only
            cases mr with
            | true =>
              simp only [if_true]
              intro x hx
              cases hx
            | false =>
              simp only [Bool.false_eq_true, if_false]
              intro x hx
              simp only [Option.some.injEq] at hx
              subst hx
              by_cases hk : hasKey s.r.headers "content-type" = true
              · rw [if_pos hk]
                exact ⟨hm, Or.inl hk⟩
              · rw [if_neg hk]
                cases hdt : c.respDefaultType with
                | none => exact ⟨hm, Or.inr rfl⟩
                | some t => exact ⟨hm, Or.inl (hasKey_setKey_self _ _ _)⟩

theorem inv_run (c : Cfg) (ops : List Op) : ∀ s, Inv c s → Inv c (run c s ops) := by
  induction ops with
  | nil => intro s h; exact h
  | cons op rest ih => intro s h; exact ih _ (inv_step c s op h)

/-- **with a sound cache `render_body()` is the cache-free function of the attributes**: it returns what
    `Fz.renderBody` returns for the response as it stands and leaves the response `Fz.renderBody` leaves
    (`false`: serialising the media currently assigned does not raise) -/
theorem renderC_eq (c : Cfg) (s : St) (h : Inv c s) :
    (renderC s false c).1 = some (renderBody s.r c).1 ∧ (renderC s false c).2.r = (renderBody s.r c).2 := by
  obtain ⟨⟨status, text, data, media, stream, sf, headers, cookies⟩, cache⟩ := s
  unfold renderC renderBody
  cases text with
  | some t => exact ⟨rfl, rfl⟩
  | none =>
    cases data with
    | some d => exact ⟨rfl, rfl⟩
    | none =>
      cases media with
      | none => exact ⟨rfl, rfl⟩
      | some m =>
        cases cache with
        | none => exact ⟨rfl, rfl⟩
        | some x =>
          obtain ⟨h1, h2⟩ := h x rfl
          simp only [Option.some.injEq] at h1
          subst h1
          refine ⟨rfl, ?_⟩
          simp only at h2 ⊢
          rcases h2 with h2 | h2
          · rw [if_pos h2]
          · rw [h2]; split <;> rfl

/-- whatever the flag: a `render_body()` call that returns, returns the attributes' value by precedence
    text > data > media (the cache never shadows an attribute assigned later) -/
theorem renderC_fst (c : Cfg) (s : St) (mr : Bool) (h : Inv c s) :
    (renderC s mr c).1 = none ∨ (renderC s mr c).1 = some (rendered s.r) := by
  unfold renderC rendered
  cases ht : s.r.text with
  | some t => exact Or.inr rfl
  | none =>
    cases hd : s.r.data with
    | some d => exact Or.inr rfl
    | none =>
      cases hm : s.r.media with
      | none => exact Or.inr rfl
      | some m =>
        cases hc : s.cache with
        | none =>
          cases mr with
          | true => exact Or.inl rfl
          | false => exact Or.inr rfl
        | some x =>
          obtain ⟨h1, _⟩ := h x hc
          rw [hm] at h1
          simp only [Option.some.injEq] at h1
          subst h1
          exact Or.inr rfl

theorem wsgiH_eq (c : Cfg) (s : St) (h : Inv c s) : wsgiH c s false = some (wsgi s.r c) := by
  obtain ⟨h1, h2⟩ := renderC_eq c s h
  unfold wsgiH
  rcases hr : renderC s false c with ⟨d, s1⟩
  rw [hr] at h1 h2
  simp only at h1 h2
  subst h1
  simp only
  rw [h2, Fe.wsgi_eq_tail]

theorem asgiH_eq (c : Cfg) (s : St) (h : Inv c s) : asgiH c s false = some (asgi s.r c) := by
  obtain ⟨h1, h2⟩ := renderC_eq c s h
  unfold asgiH
  rcases hr : renderC s false c with ⟨d, s1⟩
  rw [hr] at h1 h2
  simp only at h1 h2
  subst h1
  simp only
  rw [h2, Fe.asgi_eq_tail]

/-- **after any history the framework finalizes the attributes' final values**: for every sequence of assignments of
    text / data / media (values and None, in any order, repeated), header assignments and `render_body()` calls
    (returning or raising) on a fresh response, what `falcon.App.__call__` hands to the server is `Fz.wsgi` of the
    response state the history left - so every `Fz` theorem (precedence, Content-Length, bodiless, Content-Type) holds
    for it, judged on the values assigned last -/
theorem history_wsgi (c : Cfg) (r0 : Resp) (ops : List Op) :
    wsgiH c (run c { r := r0, cache := none } ops) false = some (wsgi (run c { r := r0, cache := none } ops).r c) :=
  wsgiH_eq c _ (inv_run c ops _ (inv_init c r0))

theorem history_asgi (c : Cfg) (r0 : Resp) (ops : List Op) :
    asgiH c (run c { r := r0, cache := none } ops) false = some (asgi (run c { r := r0, cache := none } ops).r c) :=
  asgiH_eq c _ (inv_run c ops _ (inv_init c r0))

theorem renderC_frame (c : Cfg) (s : St) (mr : Bool) :
    (renderC s mr c).2.r.text = s.r.text ∧ (renderC s mr c).2.r.data = s.r.data ∧ (renderC s mr c).2.r.media = s.r.media ∧
    (renderC s mr c).2.r.status = s.r.status ∧ (renderC s mr c).2.r.stream = s.r.stream ∧
    (renderC s mr c).2.r.streamFail = s.r.streamFail ∧ (renderC s mr c).2.r.cookies = s.r.cookies := by
  obtain ⟨⟨status, text, data, media, stream, sf, headers, cookies⟩, cache⟩ := s
  unfold renderC
  cases text with
  | some t => exact ⟨rfl, rfl, rfl, rfl, rfl, rfl, rfl⟩
  | none =>
    cases data with
    | some d => exact ⟨rfl, rfl, rfl, rfl, rfl, rfl, rfl⟩
    | none =>
      cases media with
      | none => exact ⟨rfl, rfl, rfl, rfl, rfl, rfl, rfl⟩
      | some m =>
        cases cache with
        | some x => exact ⟨rfl, rfl, rfl, rfl, rfl, rfl, rfl⟩
        | none =>
          simp only
          cases mr with
          | true =>
            simp only [if_true]
            split
            · exact ⟨rfl, rfl, rfl, rfl, rfl, rfl, rfl⟩
            · split <;> exact ⟨rfl, rfl, rfl, rfl, rfl, rfl, rfl⟩
          | false =>
            simp only [Bool.false_eq_true, if_false]
            split
            · exact ⟨rfl, rfl, rfl, rfl, rfl, rfl, rfl⟩
            · split <;> exact ⟨rfl, rfl, rfl, rfl, rfl, rfl, rfl⟩

/-- last assignment wins: the attributes the history leaves are the values assigned last (`render_body()` and header
    assignments never touch them), and status, stream and cookies are untouched -/
theorem run_attrs (c : Cfg) (ops : List Op) : ∀ s : St,
    (run c s ops).r.text = lastText ops s.r.text ∧ (run c s ops).r.data = lastData ops s.r.data ∧
    (run c s ops).r.media = lastMedia ops s.r.media ∧ (run c s ops).r.status = s.r.status ∧
    (run c s ops).r.stream = s.r.stream ∧ (run c s ops).r.streamFail = s.r.streamFail ∧
    (run c s ops).r.cookies = s.r.cookies := by
  induction ops with
  | nil => intro s; exact ⟨rfl, rfl, rfl, rfl, rfl, rfl, rfl⟩
  | cons op rest ih =>
    intro s
    have h := ih (step c s op)
    unfold run at h ⊢
    simp only [List.foldl_cons]
    cases op with
    | setText v => simpa [step, lastText, lastData, lastMedia] using h
    | setData v => simpa [step, lastText, lastData, lastMedia] using h
    | setMedia v => simpa [step, lastText, lastData, lastMedia] using h
    | setHeader k v => simpa [step, lastText, lastData, lastMedia] using h
    | render mr =>
      obtain ⟨f1, f2, f3, f4, f5, f6, f7⟩ := renderC_frame c s mr
      simp only [step] at h ⊢
      rw [f1, f2, f3, f4, f5, f6, f7] at h
      simpa [lastText, lastData, lastMedia] using h

/-- **body precedence over histories**: non-HEAD, body-bearing status: after any history the payload the server receives
    is the text assigned last if that is not None, else the data assigned last, else the serialised media assigned last,
    else what the stream delivers - whatever `render_body()` calls happened in between -/
theorem history_body_precedence (c : Cfg) (r0 : Resp) (ops : List Op) (hh : c.head = false)
    (hb : bodiless r0.status = false) :
    ∃ o, wsgiH c (run c { r := r0, cache := none } ops) false = some o ∧
      o.payload = expectedPayload { r0 with text := lastText ops r0.text, data := lastData ops r0.data,
                                            media := lastMedia ops r0.media } := by
  refine ⟨_, history_wsgi c r0 ops, ?_⟩
  obtain ⟨f1, f2, f3, f4, f5, f6, _⟩ := run_attrs c ops { r := r0, cache := none }
  rw [body_precedence _ c hh (by rw [f4]; exact hb)]
  unfold expectedPayload rendered
  simp only [f1, f2, f3, f5, f6]

/-- the seeded defect as a history: media, render_body(), then data - data is the payload -/
example : (wsgiH { head := false, appDefaultType := none, respDefaultType := none, fileWrapper := false }
    (run { head := false, appDefaultType := none, respDefaultType := none, fileWrapper := false }
      { r := { status := 200, text := none, data := none, media := none, stream := none, streamFail := none,
               headers := [], cookies := [] }, cache := none }
      [.setMedia (some [109]), .render false, .setData (some [100])]) false).map (·.body) = some [[100]] := by decide

end Fh

import FalconModel.FinalizeTrace
/-! C05: the ASGI streaming loops of `falcon.asgi.App.__call__` over what an async stream can hand out **call by
    call**: a byte string or `None`.

    `falcon.asgi.Response.stream` documents two ways for an async iterator / generator to end the body: exhaustion
    (`StopAsyncIteration`, the generator returns) or the marker `None` ("Falcon will assume the body is complete when the
    iterable is exhausted or as soon as it yields `None`"; "async iterators must return `None` instead of raising
    StopIteration"); the code is `async for data in stream: if data is None: break`.  For an async file-like object the code
    tolerates a `read()` that returns `None` (`'body': data or b''`): an empty body event goes out and reading continues.

    `Fz.loopIter` / `Fz.loopFile` (FinalizeTrace.lean) are the special case in which every item is a byte string
    (`loopIterN_some`, `loopFileN_some`, `asgiTraceN_some`).  `asgiTraceN` is `Fz.asgiTrace` with the items handed out by
    the stream object as an explicit input. -/
namespace Fn
open Fz

/-- what the stream hands out at one call: `some b` = the byte string `b`, `none` = `None` -/
abbrev Item := Option Bytes

/-- `async for data in stream: if data is None: break; await send(body data, more_body=True)` from call index `i`,
    send index `k`; returns the events sent, whether an exception ended the loop, and the next send index -/
def loopIterN : List Item → Nat → Option Nat → Nat → Option Nat → List Ev × Bool × Nat
  | [], i, sf, k, _ => ([], sf == some i, k)          -- the call that would have raised StopAsyncIteration may fail
  | none :: _, i, sf, k, _ => ([], sf == some i, k)   -- the call hands out `None` (unless it is the failing one): `break`
  | some c :: rest, i, sf, k, xf =>
    if sf == some i then ([], true, k) else
    if xf == some k then ([], true, k + 1) else
    let (evs, r, k') := loopIterN rest (i + 1) sf (k + 1) xf
    (Ev.body c true :: evs, r, k')

/-- `while True: data = await stream.read(n); if data == b'': break; await send(body = data or b'', more_body=True)` -/
def loopFileN : List Item → Nat → Option Nat → Nat → Option Nat → List Ev × Bool × Nat
  | [], i, sf, k, _ => ([], sf == some i, k)          -- `read()` returns b'' at the end of the data
  | it :: rest, i, sf, k, xf =>
    if sf == some i then ([], true, k) else
    if it == some [] then ([], false, k) else          -- `if data == b'': break`  (`None == b''` is false)
    if xf == some k then ([], true, k + 1) else
    let (evs, r, k') := loopFileN rest (i + 1) sf (k + 1) xf
    (Ev.body (it.getD []) true :: evs, r, k')          -- `'body': data or b''`

def streamLoopN (kind : StreamKind) (items : List Item) (sf : Option Nat) (k : Nat) (xf : Option Nat) :
    List Ev × Bool × Nat :=
  match kind with
  | .fileLike => loopFileN items 0 sf k xf
  | .iter => loopIterN items 0 sf k xf

/-- `Fz.asgiTrace` with the hand-out sequence of the stream object given explicitly (`r.stream` only says that a stream
    is assigned and of which kind; its chunk list is not looked at) -/
def asgiTraceN (r : Resp) (items : List Item) (c : Cfg) (hasClose : Bool) (xf : Option Nat) : Trace :=
  let o := asgi r c
  let st := Ev.start o.status o.headers
  let (data, r1) := renderBody r c
  if c.head || bodiless r1.status then twoEvents st (Ev.body [] false) xf
  else
    match data with
    | some d => twoEvents st (Ev.body d false) xf
    | none =>
      match r1.stream with
      | none => twoEvents st (Ev.body [] false) xf
      | some (kind, _) =>
        if xf == some 0 then { events := [], closes := 0, raised := true }     -- not begun: the stream is not touched
        else
          let (evs, failed, k) := streamLoopN kind items r1.streamFail 1 xf
          let closes := if hasClose then 1 else 0                              -- `finally: await stream.close()`
          if failed then { events := st :: evs, closes := closes, raised := true }
          else if xf == some k then { events := st :: evs, closes := closes, raised := true }
          else { events := st :: evs ++ [Ev.body [] false], closes := closes, raised := false }

/-- the byte strings an iterator hands out before its first `None` -/
def cutNone : List Item → List Bytes
  | [] => []
  | none :: _ => []
  | some c :: rest => c :: cutNone rest

end Fn

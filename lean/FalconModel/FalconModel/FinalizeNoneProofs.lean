import FalconModel.FinalizeNone
import FalconModel.FinalizeTraceProofs
/-! C05: theorems about the ASGI streaming loops over hand-out sequences that may contain `None` (`FinalizeNone.lean`):
    * `asgiTraceN_some`            the model of FinalizeTrace.lean is the special case without `None`;
    * `loopIterN_cut`, `asgiTraceN_iter`   for an async iterator / generator the `None` marker is exhaustion at that
                                   point: the exchange is `Fz.asgiTrace` of the chunks handed out before it (the chunks
                                   behind it are never asked for);
    * `traceN_wellformed`          start, body events with `more_body`, one final body event - or a prefix when an
                                   exception ended the run - for **every** hand-out sequence, stream fault and send fault;
    * `traceN_closed_exactly_once`, `traceN_closes_zero_otherwise`   the close() count;
    * `traceN_iter_payload`        the fault-free exchange of a `None`-terminated iterator. -/
namespace Fn
open Fz

theorem cutNone_some (chunks : List Bytes) : cutNone (chunks.map some) = chunks := by
  induction chunks with
  | nil => rfl
  | cons c rest ih => simp only [List.map_cons, cutNone, ih]

theorem loopIterN_cut (items : List Item) : ∀ (i : Nat) (sf : Option Nat) (k : Nat) (xf : Option Nat),
    loopIterN items i sf k xf = loopIter (cutNone items) i sf k xf := by
  induction items with
  | nil => intro i sf k xf; rfl
  | cons it rest ih =>
    intro i sf k xf
    cases it with
    | none => rfl
    | some c =>
      unfold loopIterN cutNone loopIter
      rw [ih (i + 1) sf (k + 1) xf]

theorem loopIterN_some (chunks : List Bytes) (i : Nat) (sf : Option Nat) (k : Nat) (xf : Option Nat) :
    loopIterN (chunks.map some) i sf k xf = loopIter chunks i sf k xf := by
  rw [loopIterN_cut, cutNone_some]

theorem loopFileN_some (chunks : List Bytes) : ∀ (i : Nat) (sf : Option Nat) (k : Nat) (xf : Option Nat),
    loopFileN (chunks.map some) i sf k xf = loopFile chunks i sf k xf := by
  induction chunks with
  | nil => intro i sf k xf; rfl
  | cons c rest ih =>
    intro i sf k xf
    simp only [List.map_cons]
    unfold loopFileN loopFile
    rw [ih (i + 1) sf (k + 1) xf]
    have he : (some c == some ([] : Bytes)) = c.isEmpty := by
      cases c with
      | nil => rfl
      | cons a b => simp
    simp only [he, Option.getD_some]

theorem streamLoopN_some (kind : StreamKind) (chunks : List Bytes) (sf : Option Nat) (k : Nat) (xf : Option Nat) :
    streamLoopN kind (chunks.map some) sf k xf = streamLoop kind chunks sf k xf := by
  unfold streamLoopN streamLoop
  cases kind
  · exact loopFileN_some chunks 0 sf k xf
  · exact loopIterN_some chunks 0 sf k xf

/-- **the old model is the special case without `None`**: when the stream hands out exactly its chunk list, the
    generalised trace is `Fz.asgiTrace` -/
theorem asgiTraceN_some (r : Resp) (c : Cfg) (hasClose : Bool) (xf : Option Nat) (kind : StreamKind) (chunks : List Bytes)
    (hs : r.stream = some (kind, chunks)) :
    asgiTraceN r (chunks.map some) c hasClose xf = asgiTrace r c hasClose xf := by
  obtain ⟨_, f2, _, _⟩ := renderBody_frame r c
  unfold asgiTraceN asgiTrace
  rcases hrb : renderBody r c with ⟨data, r1⟩
  rw [hrb] at f2
  simp only at f2 ⊢
  rw [f2, hs]
  simp only [streamLoopN_some]
  rfl

/-- **the `None` marker of an async iterator is exhaustion at that point**: when the response state records, as the
    chunks its iterator delivers, the byte strings handed out before the first `None`, the exchange is exactly
    `Fz.asgiTrace` of that state (so every `Fz` theorem applies: the final body event is sent, `close()` once, …) -/
theorem asgiTraceN_iter (r : Resp) (items : List Item) (c : Cfg) (hasClose : Bool) (xf : Option Nat)
    (hs : r.stream = some (.iter, cutNone items)) :
    asgiTraceN r items c hasClose xf = asgiTrace r c hasClose xf := by
  obtain ⟨_, f2, _, _⟩ := renderBody_frame r c
  unfold asgiTraceN asgiTrace
  rcases hrb : renderBody r c with ⟨data, r1⟩
  rw [hrb] at f2
  simp only at f2 ⊢
  rw [f2, hs]
  simp only [streamLoopN, streamLoop, loopIterN_cut]
  rfl

theorem loopIterN_open (items : List Item) (i : Nat) (sf : Option Nat) (k : Nat) (xf : Option Nat) :
    bodiesOpen (loopIterN items i sf k xf).1 := by
  rw [loopIterN_cut]; exact loopIter_open _ i sf k xf

theorem loopFileN_open (items : List Item) : ∀ (i : Nat) (sf : Option Nat) (k : Nat) (xf : Option Nat),
    bodiesOpen (loopFileN items i sf k xf).1 := by
  induction items with
  | nil => intro i sf k xf; exact bodiesOpen_nil
  | cons c rest ih =>
    intro i sf k xf
    unfold loopFileN
    split
    · exact bodiesOpen_nil
    · split
      · exact bodiesOpen_nil
      · split
        · exact bodiesOpen_nil
        · exact bodiesOpen_cons _ _ (ih (i + 1) sf (k + 1) xf)

theorem streamLoopN_open (kind : StreamKind) (items : List Item) (sf : Option Nat) (k : Nat) (xf : Option Nat) :
    bodiesOpen (streamLoopN kind items sf k xf).1 := by
  unfold streamLoopN
  cases kind
  · exact loopFileN_open items 0 sf k xf
  · exact loopIterN_open items 0 sf k xf

/-- **ASGI framing for every hand-out sequence** (byte strings and `None` in any order, either kind of stream), every
    failing stream call and every failing `send` index: one start event first, then body events of which only the last
    has `more_body = false`, nothing afterwards; a run ended by an exception sent nothing or the start event followed
    only by body events with `more_body = true`.  In particular a stream that ends with the `None` marker gets its final
    body event. -/
theorem traceN_wellformed (r : Resp) (items : List Item) (c : Cfg) (hasClose : Bool) (xf : Option Nat) :
    ((asgiTraceN r items c hasClose xf).raised = false → Complete (asgiTraceN r items c hasClose xf).events) ∧
    ((asgiTraceN r items c hasClose xf).raised = true → CutShort (asgiTraceN r items c hasClose xf).events) := by
  unfold asgiTraceN
  rcases hrb : renderBody r c with ⟨data, r1⟩
  simp only
  split
  · exact twoEvents_wf _ _ _ _
  · cases data with
    | some d => exact twoEvents_wf _ _ _ _
    | none =>
      cases hs : r1.stream with
      | none => exact twoEvents_wf _ _ _ _
      | some s =>
        obtain ⟨kind, chunks⟩ := s
        simp only
        split
        · exact ⟨fun hh => (by cases hh), fun _ => Or.inl rfl⟩
        · have hopen := streamLoopN_open kind items r1.streamFail 1 xf
          rcases hl : streamLoopN kind items r1.streamFail 1 xf with ⟨evs, failed, k⟩
          rw [hl] at hopen
          simp only at hopen ⊢
          split
          · exact ⟨fun hh => (by cases hh), fun _ => Or.inr ⟨_, _, evs, rfl, hopen⟩⟩
          · split
            · exact ⟨fun hh => (by cases hh), fun _ => Or.inr ⟨_, _, evs, rfl, hopen⟩⟩
            · exact ⟨fun _ => ⟨_, _, evs, [], rfl, hopen⟩, fun hh => by cases hh⟩

/-- **close() exactly once, once streaming has begun** - for every hand-out sequence, `None` items included -/
theorem traceN_closed_exactly_once (r : Resp) (items : List Item) (c : Cfg) (hasClose : Bool) (xf : Option Nat)
    (hb : Begun r c xf) : (asgiTraceN r items c hasClose xf).closes = if hasClose then 1 else 0 := by
  obtain ⟨hh, hbl, hrd, hst, hx⟩ := hb
  obtain ⟨f1, f2, _, _⟩ := renderBody_frame r c
  have fd := renderBody_fst r c
  unfold asgiTraceN
  rcases hrb : renderBody r c with ⟨data, r1⟩
  rw [hrb] at f1 f2 fd
  simp only at f1 f2 fd
  have hbb : (c.head || bodiless r1.status) = false := by rw [f1, hh, hbl]; rfl
  simp only [hbb, Bool.false_eq_true, if_false]
  have hd : data = none := by rw [fd]; exact hrd
  subst hd
  simp only
  cases hs : r1.stream with
  | none => rw [f2] at hs; rw [hs] at hst; cases hst
  | some s =>
    obtain ⟨kind, chunks⟩ := s
    simp only
    have hx0 : (xf == some 0) = false := by
      cases xf with
      | none => rfl
      | some n =>
        have : n ≠ 0 := fun h => hx (by rw [h])
        simp [this]
    simp only [hx0, Bool.false_eq_true, if_false]
    rcases streamLoopN kind items r1.streamFail 1 xf with ⟨evs, failed, k⟩
    simp only
    split
    · rfl
    · split <;> rfl

/-- and never when streaming did not begin -/
theorem traceN_closes_zero_otherwise (r : Resp) (items : List Item) (c : Cfg) (hasClose : Bool) (xf : Option Nat)
    (hb : ¬ Begun r c xf) : (asgiTraceN r items c hasClose xf).closes = 0 := by
  obtain ⟨f1, f2, _, _⟩ := renderBody_frame r c
  have fd := renderBody_fst r c
  unfold asgiTraceN
  rcases hrb : renderBody r c with ⟨data, r1⟩
  rw [hrb] at f1 f2 fd
  simp only at f1 f2 fd
  simp only
  split
  · exact twoEvents_closes _ _ _
  · rename_i hnb
    cases data with
    | some d => exact twoEvents_closes _ _ _
    | none =>
      cases hs : r1.stream with
      | none => exact twoEvents_closes _ _ _
      | some s =>
        obtain ⟨kind, chunks⟩ := s
        simp only
        split
        · rfl
        · rename_i hx0
          exfalso
          apply hb
          have hnb' : (c.head || bodiless r.status) = false := by
            rw [← f1]; simpa using hnb
          have h1 : c.head = false := by
            cases hc : c.head with
            | false => rfl
            | true => rw [hc] at hnb'; simp at hnb'
          have h2 : bodiless r.status = false := by
            cases hbs : bodiless r.status with
            | false => rfl
            | true => rw [hbs] at hnb'; simp at hnb'
          refine ⟨h1, h2, fd.symm, ?_, ?_⟩
          · rw [← f2, hs]; rfl
          · intro hxe; rw [hxe] at hx0; simp at hx0

theorem drainIter_nofail (chunks : List Bytes) : ∀ i, drainIter chunks none i = (chunks, false) := by
  induction chunks with
  | nil => intro i; rfl
  | cons c rest ih =>
    intro i
    unfold drainIter
    rw [ih (i + 1)]
    rfl

/-- the exchange of a `None`-terminated iterator without faults: the byte strings handed out before the marker, one
    body event each, then the final empty body event; no exception -/
theorem traceN_iter_payload (r : Resp) (items : List Item) (c : Cfg) (hasClose : Bool)
    (hh : c.head = false) (hbl : bodiless r.status = false) (hrd : rendered r = none)
    (hs : r.stream = some (.iter, cutNone items)) (hf : r.streamFail = none) :
    evBodies (asgiTraceN r items c hasClose none).events = cutNone items ++ [[]] ∧
    (asgiTraceN r items c hasClose none).raised = false := by
  rw [asgiTraceN_iter r items c hasClose none hs]
  obtain ⟨h1, h2⟩ := trace_refines_asgi r c hasClose
  rw [h1, h2]
  obtain ⟨f1, f2, f3, _⟩ := renderBody_frame r c
  have fd := renderBody_fst r c
  unfold asgi
  rcases hrb : renderBody r c with ⟨data, r1⟩
  rw [hrb] at f1 f2 f3 fd
  simp only at f1 f2 f3 fd
  have hbb : (c.head || bodiless r1.status) = false := by rw [f1, hh, hbl]; rfl
  simp only [hbb, Bool.false_eq_true, if_false]
  have hd : data = none := by rw [fd]; exact hrd
  subst hd
  simp only [f2, hs, f3, hf, drainIter_nofail]
  simp

def exResp : Resp := { status := 200, text := none, data := none, media := none, stream := some (StreamKind.iter, []),
                       streamFail := none, headers := [], cookies := [] }
def exCfg : Cfg := { head := false, appDefaultType := none, respDefaultType := none, fileWrapper := false }

/-- an async generator that yields b"a", then None, and would have yielded b"b": start, one body event, the final event -/
example : (asgiTraceN exResp [some [97], none, some [98]] exCfg true none).events
    = [Ev.start 200 [], Ev.body [97] true, Ev.body [] false] := by decide

/-- a `read()` that returns None: an empty body event with more_body, reading goes on -/
example : (asgiTraceN { exResp with stream := some (StreamKind.fileLike, []) } [some [97], none, some [98]] exCfg true none).events
    = [Ev.start 200 [], Ev.body [97] true, Ev.body [] true, Ev.body [98] true, Ev.body [] false] := by decide

end Fn

import FalconModel.Finalize
/-! C05/C06: theorems about the response finalization model. -/
namespace Fz

def getKey (m : List (String × String)) (k : String) : Option String := (m.find? (·.1 == k)).map (·.2)

theorem getKey_append_left (m e : List (String × String)) (k v : String) (h : getKey m k = some v) :
    getKey (m ++ e) k = some v := by
  unfold getKey at h ⊢
  rw [List.find?_append]
  cases hf : m.find? (·.1 == k) with
  | none => rw [hf] at h; simp at h
  | some x => rw [hf] at h; simpa using h

theorem getKey_setKey (m : List (String × String)) (k v : String) : getKey (setKey m k v) k = some v := by
  unfold setKey
  split
  · rename_i hany
    unfold getKey
    induction m with
    | nil => simp at hany
    | cons x xs ih =>
      simp only [List.map_cons, List.find?_cons]
      cases hx : x.1 == k with
      | true => simp
      | false =>
        simp only [Bool.false_eq_true, if_false, hx]
        apply ih
        simpa [hx] using hany
  · rename_i hany
    unfold getKey
    rw [List.find?_append]
    have : m.find? (·.1 == k) = none := by
      rw [List.find?_eq_none]
      intro x hx hk
      exact hany (List.any_eq_true.mpr ⟨x, hx, hk⟩)
    rw [this]; simp

/-- bytes the client receives -/
def Out.payload (o : Out) : Bytes := o.body.flatten

/-- **C06 core: both stacks finalize a response identically** — same status, same header list (order included), same
    payload bytes, same propagation of a failing stream — for every response state and configuration. -/
theorem wsgi_asgi_agree (r : Resp) (c : Cfg) :
    (wsgi r c).status = (asgi r c).status ∧ (wsgi r c).headers = (asgi r c).headers ∧
    (wsgi r c).payload = (asgi r c).payload ∧ (wsgi r c).iterErr = (asgi r c).iterErr := by
  have h0 : Nat.repr 0 = "0" := by decide
  unfold wsgi asgi Out.payload
  rcases hrb : renderBody r c with ⟨data, r1⟩
  simp only
  by_cases hb : (c.head || bodiless r1.status) = true
  · simp only [hb, if_true]
    cases data with
    | some d =>
      simp only [Option.isSome_some, Bool.true_or, Bool.and_true, Bool.true_and]
      by_cases hd : d.isEmpty
      · have : d.length = 0 := by simpa using hd
        simp [hd, this, h0]
      · simp [hd]
    | none =>
      cases hs : r1.stream with
      | none => simp [h0]
      | some s =>
        obtain ⟨k, chunks⟩ := s
        cases k <;> simp
  · simp only [hb, Bool.false_eq_true, if_false]
    cases data with
    | some d => simp
    | none =>
      cases hs : r1.stream with
      | none => simp [h0]
      | some s =>
        obtain ⟨k, chunks⟩ := s
        cases k
        · simp only
          rcases drainFile (chunks.length + 1) chunks r1.streamFail 0 with ⟨o, e⟩
          cases e <;> simp
        · simp only
          rcases drainIter chunks r1.streamFail 0 with ⟨o, e⟩
          cases e <;> simp

#print axioms wsgi_asgi_agree

/-- HEAD requests and 1xx/204/304 responses never carry payload bytes -/
theorem bodiless_no_payload (r : Resp) (c : Cfg) (h : c.head = true ∨ bodiless r.status = true) :
    (wsgi r c).payload = [] := by
  unfold wsgi Out.payload
  rcases hrb : renderBody r c with ⟨data, r1⟩
  have hst : r1.status = r.status := by
    unfold renderBody at hrb
    split at hrb
    · obtain ⟨_, rfl⟩ := Prod.mk.inj hrb; rfl
    · split at hrb
      · obtain ⟨_, rfl⟩ := Prod.mk.inj hrb; rfl
      · split at hrb
        · obtain ⟨_, rfl⟩ := Prod.mk.inj hrb
          split
          · rfl
          · split <;> rfl
        · obtain ⟨_, rfl⟩ := Prod.mk.inj hrb; rfl
  simp only
  have hb : (c.head || bodiless r1.status) = true := by
    rw [hst]; rcases h with h | h <;> simp [h]
  simp [hb]

/-- whenever the body does not come from a stream, the Content-Length the server sees is the exact payload length,
    whatever the application had put there -/
theorem content_length_exact (r : Resp) (c : Cfg) (hh : c.head = false) (hb : bodiless r.status = false)
    (hs : r.stream = none ∨ r.text.isSome ∨ r.data.isSome ∨ r.media.isSome) :
    getKey (wsgi r c).headers "content-length" = some (toString (wsgi r c).payload.length) := by
  unfold wsgi Out.payload
  rcases hrb : renderBody r c with ⟨data, r1⟩
  have hfacts : r1.status = r.status ∧ r1.stream = r.stream ∧
      (data = none → r.text = none ∧ r.data = none ∧ r.media = none) := by
    unfold renderBody at hrb
    split at hrb
    · obtain ⟨rfl, rfl⟩ := Prod.mk.inj hrb; exact ⟨rfl, rfl, fun h => by simp at h⟩
    · split at hrb
      · obtain ⟨rfl, rfl⟩ := Prod.mk.inj hrb; exact ⟨rfl, rfl, fun h => by simp at h⟩
      · split at hrb
        · obtain ⟨rfl, rfl⟩ := Prod.mk.inj hrb
          refine ⟨?_, ?_, fun h => by simp at h⟩
          · split
            · rfl
            · split <;> rfl
          · split
            · rfl
            · split <;> rfl
        · obtain ⟨rfl, rfl⟩ := Prod.mk.inj hrb
          exact ⟨rfl, rfl, fun _ => ⟨by assumption, by assumption, by assumption⟩⟩
  obtain ⟨f1, f2, f3⟩ := hfacts
  simp only
  have hbb : (c.head || bodiless r1.status) = false := by rw [f1, hh, hb]; rfl
  simp only [hbb, Bool.false_eq_true, if_false]
  have emit : ∀ (r2 : Resp) (n : Nat) (t : Option String),
      getKey (emitHeaders { r2 with headers := setKey r2.headers "content-length" (toString n) } t) "content-length"
        = some (toString n) := by
    intro r2 n t
    unfold emitHeaders
    apply getKey_append_left
    cases t with
    | none => exact getKey_setKey _ _ _
    | some t =>
      simp only
      split
      · exact getKey_setKey _ _ _
      · exact getKey_append_left _ _ _ _ (getKey_setKey _ _ _)
  cases data with
  | some d =>
    simp only [List.flatten_cons, List.flatten_nil, List.append_nil]
    exact emit r1 d.length _
  | none =>
    obtain ⟨g1, g2, g3⟩ := f3 rfl
    have hsn : r1.stream = none := by
      rw [f2]
      rcases hs with h | h | h | h
      · exact h
      · rw [g1] at h; simp at h
      · rw [g2] at h; simp at h
      · rw [g3] at h; simp at h
    simp only [hsn, List.flatten_nil, List.length_nil]
    exact emit r1 0 _

#print axioms content_length_exact

/-- F16 as a theorem about the pinned code: a 204 whose body was given as `media` carries a Content-Type that the
    application never set -/
theorem f16_witness :
    hasKey (wsgi { status := 204, text := none, data := none, media := some [123, 125], stream := none,
                   streamFail := none, headers := [], cookies := [] }
                 { head := false, appDefaultType := some "application/json",
                   respDefaultType := some "application/json", fileWrapper := false }).headers
      "content-type" = true := by decide

end Fz
#print axioms Fz.bodiless_no_payload
#print axioms Fz.f16_witness

import FalconModel.FinalizeProofs
/-! C05: further theorems about the response finalization model (`Finalize.lean`):
    body precedence, Content-Type presence / absence (with the F16 exception explicit), and the ASGI twins of the
    WSGI statements (obtained through `wsgi_asgi_agree`). -/
namespace Fz

/-- what `render_body()` returns: text, else data, else the rendered media -/
def rendered (r : Resp) : Option Bytes :=
  match r.text with
  | some t => some t
  | none => match r.data with
    | some d => some d
    | none => r.media

theorem renderBody_fst (r : Resp) (c : Cfg) : (renderBody r c).1 = rendered r := by
  unfold renderBody rendered
  cases r.text with
  | some t => rfl
  | none =>
    cases r.data with
    | some d => rfl
    | none =>
      cases r.media with
      | some m => rfl
      | none => rfl

/-- rendering never touches status, stream, failing call or cookies -/
theorem renderBody_frame (r : Resp) (c : Cfg) :
    (renderBody r c).2.status = r.status ∧ (renderBody r c).2.stream = r.stream ∧
    (renderBody r c).2.streamFail = r.streamFail ∧ (renderBody r c).2.cookies = r.cookies := by
  unfold renderBody
  cases r.text with
  | some t => exact ⟨rfl, rfl, rfl, rfl⟩
  | none =>
    cases r.data with
    | some d => exact ⟨rfl, rfl, rfl, rfl⟩
    | none =>
      cases r.media with
      | none => exact ⟨rfl, rfl, rfl, rfl⟩
      | some m =>
        simp only
        split
        · exact ⟨rfl, rfl, rfl, rfl⟩
        · split <;> exact ⟨rfl, rfl, rfl, rfl⟩

/-- rendering leaves the header dict alone unless media is the source that gets rendered -/
theorem renderBody_headers (r : Resp) (c : Cfg) (h : r.media = none ∨ r.text.isSome = true ∨ r.data.isSome = true) :
    (renderBody r c).2.headers = r.headers := by
  unfold renderBody
  cases ht : r.text with
  | some t => rfl
  | none =>
    cases hd : r.data with
    | some d => rfl
    | none =>
      cases hm : r.media with
      | none => rfl
      | some m =>
        rcases h with h | h | h
        · rw [hm] at h; cases h
        · rw [ht] at h; cases h
        · rw [hd] at h; cases h

theorem hasKey_append (a b : List (String × String)) (k : String) :
    hasKey (a ++ b) k = (hasKey a k || hasKey b k) := by
  unfold hasKey; simp [List.any_append]

theorem hasKey_cookies (cs : List String) : hasKey (cs.map fun c => ("set-cookie", c)) "content-type" = false := by
  unfold hasKey
  induction cs with
  | nil => rfl
  | cons x xs ih =>
    simp only [List.map_cons, List.any_cons, ih, Bool.or_false]
    decide

/-- **every response that is not 204/304 carries a Content-Type** (when the app has a default media type) -/
theorem otherwise_has_content_type (r : Resp) (c : Cfg) (t : String) (ht : typeless r.status = false)
    (hd : c.appDefaultType = some t) : hasKey (wsgi r c).headers "content-type" = true := by
  have emit : ∀ r2 : Resp, hasKey (emitHeaders r2 (some t)) "content-type" = true := by
    intro r2
    unfold emitHeaders
    rw [hasKey_append]
    simp only
    by_cases hk : hasKey r2.headers "content-type" = true
    · simp [hk]
    · simp only [hk, Bool.false_eq_true, if_false]
      rw [hasKey_append]
      have : hasKey [("content-type", t)] "content-type" = true := by
        unfold hasKey; simp
      simp [this]
  obtain ⟨f1, _, _, _⟩ := renderBody_frame r c
  unfold wsgi
  rcases hrb : renderBody r c with ⟨data, r1⟩
  rw [hrb] at f1
  simp only at f1
  have ht1 : typeless r1.status = false := by rw [f1]; exact ht
  simp only
  split
  · simp only [ht1, Bool.false_eq_true, if_false, hd]
    exact emit _
  · simp only [hd]
    exact emit _

/-- **a 204/304 carries no Content-Type unless the application set one — provided media is not the source that gets
    rendered** (that exception is F16, see `f16_witness`): nothing the framework does on the way out adds the header -/
theorem typeless_no_default_content_type_partial (r : Resp) (c : Cfg) (ht : typeless r.status = true)
    (hk : hasKey r.headers "content-type" = false)
    (hm : r.media = none ∨ r.text.isSome = true ∨ r.data.isSome = true) :
    hasKey (wsgi r c).headers "content-type" = false := by
  obtain ⟨f1, _, _, _⟩ := renderBody_frame r c
  have fh := renderBody_headers r c hm
  unfold wsgi
  rcases hrb : renderBody r c with ⟨data, r1⟩
  rw [hrb] at f1 fh
  simp only at f1 fh
  have ht1 : typeless r1.status = true := by rw [f1]; exact ht
  have hb1 : bodiless r1.status = true := by
    unfold typeless at ht1; unfold bodiless
    simp only [Bool.or_eq_true] at ht1 ⊢
    rcases ht1 with h | h
    · exact Or.inl (Or.inr h)
    · exact Or.inr h
  simp only
  have hcond : (c.head || bodiless r1.status) = true := by simp [hb1]
  simp only [hcond, if_true, ht1, Bool.not_true, Bool.false_and]
  have noset : ∀ (o : Option Nat),
      (match o with
        | some n => if false = true then ({ r1 with headers := setKey r1.headers "content-length" (toString n) } : Resp) else r1
        | none => r1) = r1 := by
    intro o; cases o <;> simp
  have emitNone : hasKey (emitHeaders r1 none) "content-type" = false := by
    unfold emitHeaders
    simp only
    rw [hasKey_append, hasKey_cookies, fh, hk]; rfl
  cases data with
  | some d => simpa using emitNone
  | none =>
    cases hs : r1.stream with
    | none => simpa using emitNone
    | some s =>
      obtain ⟨k, chunks⟩ := s
      cases k <;> simpa using emitNone

/-- the payload a non-HEAD, body-bearing response hands to the server, by source -/
def expectedPayload (r : Resp) : Bytes :=
  match rendered r with
  | some d => d
  | none =>
    match r.stream with
    | some (.fileLike, chunks) => (drainFile (chunks.length + 1) chunks r.streamFail 0).1.flatten
    | some (.iter, chunks) => (drainIter chunks r.streamFail 0).1.flatten
    | none => []

/-- **body precedence text > data > media > stream** -/
theorem body_precedence (r : Resp) (c : Cfg) (hh : c.head = false) (hb : bodiless r.status = false) :
    (wsgi r c).payload = expectedPayload r := by
  obtain ⟨f1, f2, f3, _⟩ := renderBody_frame r c
  have fd := renderBody_fst r c
  unfold wsgi Out.payload expectedPayload
  rcases hrb : renderBody r c with ⟨data, r1⟩
  rw [hrb] at f1 f2 f3 fd
  simp only at f1 f2 f3 fd
  have hbb : (c.head || bodiless r1.status) = false := by rw [f1, hh, hb]; rfl
  simp only [hbb, Bool.false_eq_true, if_false]
  rw [← fd]
  cases data with
  | some d => simp
  | none =>
    rw [← f2, ← f3]
    cases hs : r1.stream with
    | none => simp
    | some s =>
      obtain ⟨k, chunks⟩ := s
      cases k <;> simp

/-- ASGI twin of `bodiless_no_payload` -/
theorem asgi_bodiless_no_payload (r : Resp) (c : Cfg) (h : c.head = true ∨ bodiless r.status = true) :
    (asgi r c).payload = [] := by
  rw [← (wsgi_asgi_agree r c).2.2.1]; exact bodiless_no_payload r c h

/-- ASGI twin of `content_length_exact` -/
theorem asgi_content_length_exact (r : Resp) (c : Cfg) (hh : c.head = false) (hb : bodiless r.status = false)
    (hs : r.stream = none ∨ r.text.isSome ∨ r.data.isSome ∨ r.media.isSome) :
    getKey (asgi r c).headers "content-length" = some (toString (asgi r c).payload.length) := by
  rw [← (wsgi_asgi_agree r c).2.2.1, ← (wsgi_asgi_agree r c).2.1]; exact content_length_exact r c hh hb hs

/-- ASGI twin of `body_precedence` -/
theorem asgi_body_precedence (r : Resp) (c : Cfg) (hh : c.head = false) (hb : bodiless r.status = false) :
    (asgi r c).payload = expectedPayload r := by
  rw [← (wsgi_asgi_agree r c).2.2.1]; exact body_precedence r c hh hb

end Fz

import FalconModel.Finalize
import FalconModel.ErrSerialize
/-! C05: finalization of the response a **raise** leaves behind (namespace `Fx`): a responder, hook or middleware method
    raises an `HTTPError` (any subclass, any status incl. 204 / 304 / 1xx, any `headers=` incl. Content-Length /
    Content-Type / Content-Range) or an `HTTPStatus` (text, headers) while text / data / media / a stream / an SSE emitter
    may already sit on the response.

    `_handle_exception` (`falcon/app.py`, `falcon/asgi/app.py`): `resp.text = resp.data = resp.media = None` (ASGI also
    `resp.sse = None`; on WSGI the attribute is never read); `resp.stream`, the status, the headers and the cookies are NOT
    touched; then the stock handler runs `_compose_error_response` / `_compose_status_response` (= `Es.composeError` /
    `Es.composeStatus`, proved under C04), and the tail of `__call__` (= `Fz.wsgi` / `Fz.asgi`) finalizes what is left.

    The encoders (`to_json`, `_to_xml`, the media handler's `serialize(to_dict())`, `str.encode`) are parameters (`Enc`):
    the theorems hold for whatever bytes they return (the media handler is assumed to return; when it raises the render
    error path `Fe` applies). -/
namespace Fx
open Fz

/-- the response at the moment of the raise -/
structure Pre where
  status : Nat
  headers : Es.Headers
  text : Option Bytes
  data : Option Bytes
  media : Option Bytes
  stream : Option (StreamKind × List Bytes)
  streamFail : Option Nat
  sse : Option (List Bytes)            -- `resp.sse` (ASGI): the events an emitter would yield
  cookies : List String
deriving Repr

/-- what was raised -/
inductive Raise where
  | error (e : Es.HttpError)           -- `HTTPError` or a subclass (rendered by `_compose_error_response`)
  | status (s : Es.HttpStatus)         -- `HTTPStatus` (rendered by `_compose_status_response`)
deriving Repr

/-- results of the encoders that may run while the response is composed / rendered -/
structure Enc where
  json : Bytes                         -- `exception.to_json(handler)`
  xml : Bytes                          -- `exception._to_xml()`
  media : Bytes                        -- `handler.serialize(exception.to_dict(), content_type)`
  utf8 : Es.Str → Bytes                -- `text.encode()`

/-- `_handle_exception` before the handler runs: text / data / media / sse are reset; the stream stays -/
def reset (p : Pre) : Pre := { p with text := none, data := none, media := none, sse := none }

/-- the view `Es` has of the response after the reset -/
def esView (p : Pre) : Es.Resp := { status := p.status, headers := p.headers, body := .untouched }

/-- `_compose_error_response` / `_compose_status_response` on the reset response -/
def compose (o : Es.Opts) (accept : Option Es.Str) (p : Pre) : Raise → Es.Outcome
  | .error e => Es.composeError o accept (esView (reset p)) e
  | .status s => Es.composeStatus (esView (reset p)) s

def strs (h : Es.Headers) : List (String × String) := h.map fun kv => (String.ofList kv.1, String.ofList kv.2)

def textOf (enc : Enc) : Es.BodySrc → Option Bytes
  | .text (some t) => some (enc.utf8 t)
  | _ => none
def dataOf (enc : Enc) : Es.BodySrc → Option Bytes
  | .dataJson => some enc.json
  | .dataXml => some enc.xml
  | _ => none
def mediaOf (enc : Enc) : Es.BodySrc → Option Bytes
  | .mediaDict => some enc.media
  | _ => none

/-- does the composed response define a body of its own? -/
def hasBody : Es.BodySrc → Bool
  | .untouched => false
  | .text none => false
  | _ => true

/-- the response object the tail of `__call__` sees: what `Es` composed, plus what `_handle_exception` left alone
    (stream, cookies).  `p` is the response *after* the reset. -/
def toFz (enc : Enc) (p : Pre) (r : Es.Resp) : Fz.Resp :=
  { status := r.status, text := textOf enc r.body, data := dataOf enc r.body, media := mediaOf enc r.body,
    stream := p.stream, streamFail := p.streamFail, headers := strs r.headers, cookies := p.cookies }

/-- `none`: `set_headers` raised `HeaderNotSupported` inside the handler (not an `HTTPError`: leaves `__call__`), or the
    Accept header is outside the `Es` fragment -/
def wsgiR (o : Es.Opts) (accept : Option Es.Str) (enc : Enc) (p : Pre) (x : Raise) (c : Cfg) : Option Out :=
  match compose o accept p x with
  | .done r => some (wsgi (toFz enc (reset p) r) c)
  | _ => none

/-- ASGI: `resp.sse` is consulted first by `falcon.asgi.App.__call__`; after the reset it is `None`, so the
    non-SSE tail `Fz.asgi` runs.  `sseTail` stands for the SSE branch (never taken here). -/
def asgiR (sseTail : List Bytes → Fz.Resp → Cfg → Out) (o : Es.Opts) (accept : Option Es.Str) (enc : Enc) (p : Pre)
    (x : Raise) (c : Cfg) : Option Out :=
  match compose o accept p x with
  | .done r =>
    let p1 := reset p
    match p1.sse with
    | some evs => some (sseTail evs (toFz enc p1 r) c)
    | none => some (asgi (toFz enc p1 r) c)
  | _ => none

/-- the raised status -/
def Raise.code : Raise → Nat
  | .error e => e.status
  | .status s => s.status

end Fx

import FalconModel.FinalizeRaise
import FalconModel.FinalizeProofs
import FalconModel.ErrSerializeProofs
import FalconModel.FinalizeErrProofs
import FalconModel.FinalizeProofs2
/-! C05: the C05 guarantees for EVERY error response (`FinalizeRaise.lean`), by composing the `Fz` theorems
    (`content_length_exact`, `bodiless_no_payload`, `wsgi_asgi_agree`) with the `Es` theorems about what
    `_compose_error_response` / `_compose_status_response` leave on the response. -/
namespace Fx
open Fz

/-- the status that is finalized is the raised one -/
theorem compose_status {o : Es.Opts} {a : Option Es.Str} {p : Pre} {x : Raise} {r : Es.Resp}
    (h : compose o a p x = .done r) : r.status = x.code := by
  cases x with
  | error e => exact (Es.composeError_spec h).choose_spec.2.1
  | status s => exact (Es.httpstatus_text_headers_kept _ _ _ h).1

/-- which body attribute an `HTTPError` leaves: exactly the serializer's choice -/
theorem compose_error_body {o : Es.Opts} {a : Option Es.Str} {p : Pre} {e : Es.HttpError} {r : Es.Resp}
    (h : compose o a p (.error e) = .done r) :
    r.body = (match Es.serializeChoice o a with
      | .json => .dataJson | .xml _ => .dataXml | .media _ => .mediaDict | _ => .untouched) := by
  unfold compose Es.composeError at h
  simp only at h
  split at h
  · cases h
  · split at h
    · cases h
    · rename_i r1 hr1
      cases h
      cases hc : Es.serializeChoice o a <;> rw [hc] at hr1 <;> simp only [Es.applyChoice, Option.some.injEq] at hr1
        <;> first | (subst hr1; rfl) | cases hr1

theorem compose_error_hasBody {o : Es.Opts} {a : Option Es.Str} {p : Pre} {e : Es.HttpError} {r : Es.Resp}
    (h : compose o a p (.error e) = .done r) : hasBody r.body = (Es.serializeChoice o a).hasBody := by
  rw [compose_error_body h]
  cases Es.serializeChoice o a <;> rfl

theorem compose_status_body {o : Es.Opts} {a : Option Es.Str} {p : Pre} {s : Es.HttpStatus} {r : Es.Resp}
    (h : compose o a p (.status s) = .done r) : r.body = .text s.text :=
  (Es.httpstatus_text_headers_kept _ _ _ h).2.1

/-- a composed body is a `text` / `data` / `media` of the finalized response (so it wins over any stream) -/
theorem toFz_has_source (enc : Enc) (p : Pre) (r : Es.Resp) (hb : hasBody r.body = true) :
    (toFz enc p r).text.isSome ∨ (toFz enc p r).data.isSome ∨ (toFz enc p r).media.isSome := by
  unfold toFz
  cases hbd : r.body with
  | untouched => rw [hbd] at hb; cases hb
  | dataJson => right; left; rfl
  | dataXml => right; left; rfl
  | mediaDict => right; right; rfl
  | text t =>
    cases t with
    | none => rw [hbd] at hb; cases hb
    | some t => left; rfl

/-- the ASGI tail after a raise never takes the SSE branch -/
theorem asgiR_eq (st : List Bytes → Fz.Resp → Cfg → Out) (o : Es.Opts) (a : Option Es.Str) (enc : Enc) (p : Pre)
    (x : Raise) (c : Cfg) :
    asgiR st o a enc p x c = (match compose o a p x with
      | .done r => some (asgi (toFz enc (reset p) r) c) | _ => none) := by
  unfold asgiR
  cases compose o a p x <;> rfl

/-- **(3) both stacks emit the same response for the same raise**: an exception leaves both or neither; status, header
    list (order included), payload bytes and propagation of a failing (stale) stream coincide -/
theorem raise_wsgi_asgi_agree (st : List Bytes → Fz.Resp → Cfg → Out) (o : Es.Opts) (a : Option Es.Str) (enc : Enc)
    (p : Pre) (x : Raise) (c : Cfg) :
    match wsgiR o a enc p x c, asgiR st o a enc p x c with
    | some w, some z => w.status = z.status ∧ w.headers = z.headers ∧ w.payload = z.payload ∧ w.iterErr = z.iterErr
    | none, none => True
    | _, _ => False := by
  rw [asgiR_eq]
  unfold wsgiR
  cases compose o a p x with
  | done r => exact wsgi_asgi_agree _ c
  | headerNotSupported => trivial
  | unsupported => trivial

/-- **(2) HEAD and bodiless raised statuses (100 / 101 / 204 / 304, as `HTTPError` or `HTTPStatus`) carry no payload**,
    on both stacks - whatever body the serializer rendered, whatever stream was left on the response -/
theorem raise_bodiless_no_payload (st : List Bytes → Fz.Resp → Cfg → Out) (o : Es.Opts) (a : Option Es.Str) (enc : Enc)
    (p : Pre) (x : Raise) (c : Cfg) (h : c.head = true ∨ bodiless x.code = true) (w z : Out)
    (hw : wsgiR o a enc p x c = some w) (hz : asgiR st o a enc p x c = some z) :
    w.payload = [] ∧ z.payload = [] ∧ w.status = x.code := by
  rw [asgiR_eq] at hz
  unfold wsgiR at hw
  cases hc : compose o a p x with
  | done r =>
    rw [hc] at hw hz
    simp only [Option.some.injEq] at hw hz
    have hs := compose_status hc
    have hb : c.head = true ∨ bodiless (toFz enc (reset p) r).status = true := by
      rcases h with h | h
      · exact Or.inl h
      · right; show bodiless r.status = true; rw [hs]; exact h
    have h1 := bodiless_no_payload _ c hb
    have h2 := wsgi_asgi_agree (toFz enc (reset p) r) c
    subst hw; subst hz
    refine ⟨h1, ?_, ?_⟩
    · rw [← h2.2.2.1]; exact h1
    · rw [Fe.wsgi_status]; exact hs
  | headerNotSupported => rw [hc] at hw; cases hw
  | unsupported => rw [hc] at hw; cases hw


/-- does the raise define a body of its own?  an `HTTPError` iff the serializer renders one (`Es.Choice.hasBody`: the client
    accepts JSON, XML while enabled, or a type with a media handler); an `HTTPStatus` iff `text` is not `None` -/
def definesBody (o : Es.Opts) (a : Option Es.Str) : Raise → Bool
  | .error _ => (Es.serializeChoice o a).hasBody
  | .status s => s.text.isSome

theorem compose_hasBody {o : Es.Opts} {a : Option Es.Str} {p : Pre} {x : Raise} {r : Es.Resp}
    (h : compose o a p x = .done r) : hasBody r.body = definesBody o a x := by
  cases x with
  | error e => exact compose_error_hasBody h
  | status s =>
    rw [compose_status_body h]
    show hasBody (.text s.text) = s.text.isSome
    cases s.text <;> rfl

/-- **(1) Content-Length is exact on every error response** (both stacks): non-HEAD, body-bearing raised status, and the
    raise defines a body or no stream was left on the response - whatever `Content-Length` the error's own `headers=` or the
    responder had put on the response, it is overwritten with the number of payload bytes -/
theorem raise_content_length_exact (st : List Bytes → Fz.Resp → Cfg → Out) (o : Es.Opts) (a : Option Es.Str) (enc : Enc)
    (p : Pre) (x : Raise) (c : Cfg) (hh : c.head = false) (hb : bodiless x.code = false)
    (hs : p.stream = none ∨ definesBody o a x = true) (w z : Out)
    (hw : wsgiR o a enc p x c = some w) (hz : asgiR st o a enc p x c = some z) :
    getKey w.headers "content-length" = some (toString w.payload.length) ∧
    getKey z.headers "content-length" = some (toString z.payload.length) := by
  rw [asgiR_eq] at hz
  unfold wsgiR at hw
  cases hc : compose o a p x with
  | done r =>
    rw [hc] at hw hz
    simp only [Option.some.injEq] at hw hz
    have hst := compose_status hc
    have hsrc : (toFz enc (reset p) r).stream = none ∨ (toFz enc (reset p) r).text.isSome ∨
        (toFz enc (reset p) r).data.isSome ∨ (toFz enc (reset p) r).media.isSome := by
      rcases hs with hs | hs
      · exact Or.inl hs
      · exact Or.inr (toFz_has_source enc _ r (by rw [compose_hasBody hc]; exact hs))
    have h1 := content_length_exact (toFz enc (reset p) r) c hh (by show bodiless r.status = false; rw [hst]; exact hb) hsrc
    have h2 := wsgi_asgi_agree (toFz enc (reset p) r) c
    subst hw; subst hz
    refine ⟨h1, ?_⟩
    rw [← h2.2.1, ← h2.2.2.1]; exact h1
  | headerNotSupported => rw [hc] at hw; cases hw
  | unsupported => rw [hc] at hw; cases hw

/-- the bytes of the composed body -/
def composedBytes (enc : Enc) : Es.BodySrc → Bytes
  | .dataJson => enc.json
  | .dataXml => enc.xml
  | .mediaDict => enc.media
  | .text (some t) => enc.utf8 t
  | _ => []

theorem rendered_toFz (enc : Enc) (p : Pre) (r : Es.Resp) (hb : hasBody r.body = true) :
    rendered (toFz enc p r) = some (composedBytes enc r.body) := by
  unfold rendered toFz composedBytes
  cases hbd : r.body with
  | untouched => rw [hbd] at hb; cases hb
  | dataJson => rfl
  | dataXml => rfl
  | mediaDict => rfl
  | text t =>
    cases t with
    | none => rw [hbd] at hb; cases hb
    | some t => rfl

/-- **(4a) a stale stream never contributes payload bytes when the raise defines a body**: the payload of a non-HEAD,
    body-bearing error response is exactly the rendered error body, on both stacks -/
theorem raise_payload_is_error_body (st : List Bytes → Fz.Resp → Cfg → Out) (o : Es.Opts) (a : Option Es.Str) (enc : Enc)
    (p : Pre) (x : Raise) (c : Cfg) (hh : c.head = false) (hb : bodiless x.code = false)
    (hd : definesBody o a x = true) (r : Es.Resp) (hc : compose o a p x = .done r) :
    ∃ w z, wsgiR o a enc p x c = some w ∧ asgiR st o a enc p x c = some z ∧
      w.payload = composedBytes enc r.body ∧ z.payload = composedBytes enc r.body := by
  rw [asgiR_eq]
  unfold wsgiR
  rw [hc]
  refine ⟨_, _, rfl, rfl, ?_⟩
  have hst := compose_status hc
  have h1 := body_precedence (toFz enc (reset p) r) c hh (by show bodiless r.status = false; rw [hst]; exact hb)
  have h2 := wsgi_asgi_agree (toFz enc (reset p) r) c
  have h3 : expectedPayload (toFz enc (reset p) r) = composedBytes enc r.body := by
    unfold expectedPayload
    rw [rendered_toFz enc _ r (by rw [compose_hasBody hc]; exact hd)]
  exact ⟨h1.trans h3, by rw [← h2.2.2.1]; exact h1.trans h3⟩

/-- the response with everything stale removed: text / data / media / the SSE emitter always, the stream as well when the
    raise defines a body -/
def scrub (o : Es.Opts) (a : Option Es.Str) (x : Raise) (p : Pre) : Pre :=
  if definesBody o a x then { reset p with stream := none, streamFail := none } else reset p


theorem tailW_congr (b : List Bytes) (e : Bool) (l : Option Nat) (r r' : Fz.Resp) (c : Cfg)
    (h1 : r.status = r'.status) (h2 : r.headers = r'.headers) (h3 : r.cookies = r'.cookies) :
    Fe.tailW b e l r c = Fe.tailW b e l r' c := by
  obtain ⟨st, tx, dt, md, sm, sf, hd, ck⟩ := r
  obtain ⟨st', tx', dt', md', sm', sf', hd', ck'⟩ := r'
  simp only at h1 h2 h3
  subst h1; subst h2; subst h3
  unfold Fe.tailW emitHeaders
  cases l <;> simp only <;> split <;> (try split) <;> rfl

theorem tailA_congr (d : Bytes) (r r' : Fz.Resp) (c : Cfg)
    (h1 : r.status = r'.status) (h2 : r.headers = r'.headers) (h3 : r.cookies = r'.cookies) :
    Fe.tailA (some d) r c = Fe.tailA (some d) r' c := by
  obtain ⟨st, tx, dt, md, sm, sf, hd, ck⟩ := r
  obtain ⟨st', tx', dt', md', sm', sf', hd', ck'⟩ := r'
  simp only at h1 h2 h3
  subst h1; subst h2; subst h3
  unfold Fe.tailA emitHeaders
  simp only [Option.isSome_some, Bool.true_or]
  split <;> (try split) <;> rfl

/-- rendering a response that has a text / data / media source does not look at the stream -/
theorem renderBody_strip (r : Fz.Resp) (c : Cfg) (h : r.text.isSome ∨ r.data.isSome ∨ r.media.isSome) :
    ∃ d r1 r1', renderBody r c = (some d, r1) ∧
      renderBody { r with stream := none, streamFail := none } c = (some d, r1') ∧
      r1.status = r1'.status ∧ r1.headers = r1'.headers ∧ r1.cookies = r1'.cookies := by
  obtain ⟨st, tx, dt, md, sm, sf, hd, ck⟩ := r
  simp only at h
  unfold renderBody
  cases tx with
  | some t => exact ⟨t, _, _, rfl, rfl, rfl, rfl, rfl⟩
  | none =>
    cases dt with
    | some d => exact ⟨d, _, _, rfl, rfl, rfl, rfl, rfl⟩
    | none =>
      cases md with
      | some m =>
        simp only
        refine ⟨m, _, _, rfl, rfl, ?_⟩
        split
        · exact ⟨rfl, rfl, rfl⟩
        · split <;> exact ⟨rfl, rfl, rfl⟩
      | none => simp at h

theorem wsgi_stream_irrelevant (r : Fz.Resp) (c : Cfg) (h : r.text.isSome ∨ r.data.isSome ∨ r.media.isSome) :
    wsgi r c = wsgi { r with stream := none, streamFail := none } c := by
  obtain ⟨d, r1, r1', e1, e2, h1, h2, h3⟩ := renderBody_strip r c h
  rw [Fe.wsgi_eq_tail, Fe.wsgi_eq_tail, e1, e2]
  exact tailW_congr _ _ _ _ _ c h1 h2 h3

theorem asgi_stream_irrelevant (r : Fz.Resp) (c : Cfg) (h : r.text.isSome ∨ r.data.isSome ∨ r.media.isSome) :
    asgi r c = asgi { r with stream := none, streamFail := none } c := by
  obtain ⟨d, r1, r1', e1, e2, h1, h2, h3⟩ := renderBody_strip r c h
  rw [Fe.asgi_eq_tail, Fe.asgi_eq_tail, e1, e2]
  exact tailA_congr _ _ _ c h1 h2 h3
theorem compose_scrub (o : Es.Opts) (a : Option Es.Str) (x y : Raise) (p : Pre) :
    compose o a (scrub o a y p) x = compose o a p x := by
  unfold scrub
  split <;> cases x <;> rfl

/-- **(4) nothing stale is sent**: the response to a raise is the one the same raise gives on a response from which text,
    data, media and the SSE emitter set before the raise have been removed - and, when the raise defines a body, the
    stream too.  (When the raise defines no body - `HTTPStatus` without text, an `HTTPError` for which the serializer
    renders nothing - `_handle_exception` leaves `resp.stream` in place and it IS sent: `stale_stream_sent_witness`.) -/
theorem stale_never_sent (st : List Bytes → Fz.Resp → Cfg → Out) (o : Es.Opts) (a : Option Es.Str) (enc : Enc)
    (p : Pre) (x : Raise) (c : Cfg) :
    wsgiR o a enc p x c = wsgiR o a enc (scrub o a x p) x c ∧
    asgiR st o a enc p x c = asgiR st o a enc (scrub o a x p) x c := by
  rw [asgiR_eq, asgiR_eq]
  unfold wsgiR
  rw [compose_scrub]
  cases hc : compose o a p x with
  | done r =>
    simp only
    unfold scrub
    split
    · rename_i hd
      have hsrc := toFz_has_source enc (reset p) r (by rw [compose_hasBody hc]; exact hd)
      exact ⟨congrArg some (wsgi_stream_irrelevant _ c hsrc), congrArg some (asgi_stream_irrelevant _ c hsrc)⟩
    · exact ⟨rfl, rfl⟩
  | headerNotSupported => exact ⟨rfl, rfl⟩
  | unsupported => exact ⟨rfl, rfl⟩


/-! ### concrete inputs -/

def exOpts : Es.Opts := { xml := false, handlers := [(Es.JSON, true)] }
def exEnc : Enc := { json := [123, 125], xml := [60, 62], media := [91, 93], utf8 := fun s => s.map fun ch => ch.toNat.toUInt8 }
def exCfg : Cfg := { head := false, appDefaultType := some "application/json", respDefaultType := some "application/json",
                     fileWrapper := false }
/-- a responder that set text, a stream and an emitter and then raised -/
def exPre : Pre := { status := 200, headers := [("x-a".toList, "1".toList)], text := some [1, 2, 3], data := none, media := none,
                     stream := some (.iter, [[7, 7], [8]]), streamFail := none, sse := some [[9]], cookies := ["c=1"] }
/-- `raise HTTPError(416, headers={'Content-Range': 'bytes */9', 'Content-Length': '999', 'Content-Type': 'text/plain'})` -/
def exErrHeaders : List (Es.Str × Es.Str) :=
  [("Content-Range".toList, "bytes */9".toList), ("Content-Length".toList, "999".toList),
   ("Content-Type".toList, "text/plain".toList)]
def exErr : Raise :=
  Raise.error { status := 416, title := [], description := none, headers := some exErrHeaders, link := none, code := none }
def noSse : List Bytes → Fz.Resp → Cfg → Out := fun _ r _ => { status := r.status, headers := [], body := [[0]], iterErr := true }

/-- the error's own `Content-Length: 999` is overwritten by the length of the JSON document; the stale text, stream
    and emitter are gone; `Content-Type` is the negotiated one, not the error's -/
example : wsgiR exOpts none exEnc exPre exErr exCfg =
    some { status := 416, body := [[123, 125]], iterErr := false,
           headers := [("x-a", "1"), ("content-range", "bytes */9"), ("content-length", "2"),
                       ("content-type", "application/json"), ("vary", "Accept"), ("set-cookie", "c=1")] } := by decide
example : (asgiR noSse exOpts none exEnc exPre exErr exCfg).map (·.payload) = some [123, 125] := by decide
example : definesBody exOpts none exErr = true ∧ bodiless exErr.code = false ∧ exCfg.head = false := by decide

def ex204 : Raise := Raise.status { status := 204, headers := some [("Content-Length".toList, "4".toList)], text := some "gone".toList }
def ex200 : Raise := Raise.status { status := 200, headers := none, text := none }

/-- `raise HTTPStatus(204, text='gone', headers={'Content-Length': '4'})`: no payload, the caller's Content-Length is
    emitted as given (what the code does), no Content-Type -/
example : wsgiR exOpts none exEnc exPre ex204 exCfg =
    some { status := 204, body := [], iterErr := false,
           headers := [("x-a", "1"), ("content-length", "4"), ("set-cookie", "c=1")] } := by decide

/-- **what the code does when the raise defines no body**: `raise HTTPStatus(200)` (text `None`) after `resp.stream = …`:
    `_handle_exception` never touches `resp.stream`, so the stale stream IS the payload (both stacks), without Content-Length -/
theorem stale_stream_sent_witness :
    (wsgiR exOpts none exEnc exPre ex200 exCfg).map (·.payload) = some [7, 7, 8] ∧
    (asgiR noSse exOpts none exEnc exPre ex200 exCfg).map (·.payload) = some [7, 7, 8] ∧
    ((wsgiR exOpts none exEnc exPre ex200 exCfg).map fun w => getKey w.headers "content-length") = some none := by decide

end Fx

#print axioms Fx.raise_wsgi_asgi_agree
#print axioms Fx.raise_bodiless_no_payload
#print axioms Fx.raise_content_length_exact
#print axioms Fx.raise_payload_is_error_body
#print axioms Fx.stale_never_sent
#print axioms Fx.stale_stream_sent_witness
#print axioms Fx.compose_status
#print axioms Fx.compose_hasBody

import FalconModel.Finalize
/-! C06 (response side): a **file-like `resp.stream` by its read contract**.  `read(n)` returns *up to* `n` bytes - only
    `b''` means end of file.  A regular file or `BytesIO` returns full blocks until the end; a pipe, socket, decompressor
    or `read1`-style wrapper returns short blocks in the middle of the data.  The object is modelled as its remaining
    content plus the number of `read` calls made; its `i`-th call returns at most `cap i` bytes whatever is asked for
    (`caps[i]`, or `tail` once the list is used up).

    The three loops that pump such an object to the server ask for `_STREAM_BLOCK_SIZE` bytes per call and stop at the
    first `b''`:

      falcon.app_helpers.CloseableStreamIterator.__next__   data = self._stream.read(self._block_size)
                                                            if data == b'': raise StopIteration  else: return data
      the server's wsgi.file_wrapper (PEP 3333)             data = self.filelike.read(self.blksize)
                                                            if data: return data;  raise StopIteration
      falcon.asgi.App.__call__                              while True: data = await stream.read(self._STREAM_BLOCK_SIZE)
                                                                if data == b'': break  else: await send(... data ...)

    `Fz.drainFile` (Finalize.lean) is that loop over the list of what the calls return; `handouts` derives that list from
    the object, `pump` is the loop run on the object itself. -/
namespace Fr
abbrev Bytes := List UInt8

/-- the content of a generated stream of `size` bytes (`lib_respspace.reader_data`) -/
def content (size : Nat) : Bytes := (List.range size).map fun i => ((i * 7 + 13) % 251).toUInt8

/-- how much the `i`-th `read` call returns at most -/
def capAt (caps : List Nat) (tail : Nat) (i : Nat) : Nat := caps.getD i tail

/-- one `read(n)` call, the `i`-th, on an object with `rest` still to come: what it returns and what remains -/
def read (caps : List Nat) (tail : Nat) (rest : Bytes) (i n : Nat) : Bytes × Bytes :=
  let k := min n (capAt caps tail i)
  (rest.take k, rest.drop k)

/-- what successive `read(n)` calls return, from call `i` on, up to and including the first `b''` -/
def handouts (n : Nat) (caps : List Nat) (tail : Nat) : Nat → Bytes → Nat → List Bytes
  | 0, _, _ => [[]]
  | fuel + 1, rest, i =>
    let (c, rest') := read caps tail rest i n
    if c.isEmpty then [[]] else c :: handouts n caps tail fuel rest' (i + 1)

/-- the pump loop run on the object: `read(n)` until `b''`; `fail` = the index of the call that raises.
    Returns the blocks delivered and whether the loop ended with the exception. -/
def pump (n : Nat) (caps : List Nat) (tail : Nat) (fail : Option Nat) : Nat → Bytes → Nat → List Bytes × Bool
  | 0, _, _ => ([], false)
  | fuel + 1, rest, i =>
    if fail == some i then ([], true) else
    let (c, rest') := read caps tail rest i n
    if c.isEmpty then ([], false) else
    let (out, e) := pump n caps tail fail fuel rest' (i + 1)
    (c :: out, e)

/-- falcon's `_STREAM_BLOCK_SIZE` (both `falcon.App` and `falcon.asgi.App`; also what is passed to `wsgi.file_wrapper`) -/
def blockSize : Nat := 8 * 1024

/-- the hand-out list of a whole object read in `blockSize` blocks -/
def blocks (data : Bytes) (caps : List Nat) (tail : Nat) : List Bytes :=
  handouts blockSize caps tail (data.length + 1) data 0

/-- the response whose stream is that object (nothing else set) -/
def respOf (status : Nat) (data : Bytes) (caps : List Nat) (tail : Nat) (fail : Option Nat)
    (headers : List (String × String)) (cookies : List String) : Fz.Resp :=
  { status := status, text := none, data := none, media := none,
    stream := some (.fileLike, blocks data caps tail), streamFail := fail, headers := headers, cookies := cookies }

end Fr

import FalconModel.FinalizeReader
import FalconModel.FinalizeProofs
/-! C06 (response side): a file-like `resp.stream` with **short reads** is delivered completely, and identically, by both
    stacks - for every content, every short-read pattern (`caps`, `tail`, all positive) and every block size. -/
namespace Fr
open Fz (drainFile)

/-- every `read` call returns at least one byte while data is left (only `b''` means end of file) -/
def capsPos (caps : List Nat) (tail : Nat) : Bool := caps.all (fun c => decide (0 < c)) && decide (0 < tail)

theorem capAt_pos {caps : List Nat} {tail : Nat} (h : capsPos caps tail = true) (i : Nat) : 0 < capAt caps tail i := by
  unfold capsPos at h
  simp only [Bool.and_eq_true, List.all_eq_true, decide_eq_true_eq] at h
  unfold capAt
  rw [List.getD_eq_getElem?_getD]
  cases hi : caps[i]? with
  | none => simpa using h.2
  | some c => simpa using h.1 c (List.mem_of_getElem? hi)

/-- a non-empty result consumes at least one byte -/
theorem read_progress (caps : List Nat) (tail : Nat) (rest : Bytes) (i n : Nat)
    (h : (read caps tail rest i n).1.isEmpty = false) :
    (read caps tail rest i n).2.length < rest.length := by
  unfold read at *
  simp only at *
  have hk : 0 < min n (capAt caps tail i) := by
    rcases Nat.eq_zero_or_pos (min n (capAt caps tail i)) with h0 | h0
    · rw [h0] at h; simp at h
    · exact h0
  have hr : 0 < rest.length := by
    rcases Nat.eq_zero_or_pos rest.length with h0 | h0
    · have : rest = [] := List.eq_nil_of_length_eq_zero h0
      subst this; simp at h
    · exact h0
  rw [List.length_drop]; omega

/-- `read` returns a prefix and keeps the rest: nothing is lost or reordered -/
theorem read_append (caps : List Nat) (tail : Nat) (rest : Bytes) (i n : Nat) :
    (read caps tail rest i n).1 ++ (read caps tail rest i n).2 = rest := by
  unfold read; simp

/-- with positive caps and a positive block size an empty result means that nothing is left -/
theorem read_empty_end {caps : List Nat} {tail : Nat} (hc : capsPos caps tail = true) {n : Nat} (hn : 0 < n)
    (rest : Bytes) (i : Nat) (h : (read caps tail rest i n).1.isEmpty = true) : rest = [] := by
  unfold read at h
  simp only at h
  have hk : 0 < min n (capAt caps tail i) := by have := capAt_pos hc i; omega
  cases rest with
  | nil => rfl
  | cons x xs =>
    obtain ⟨k, hk'⟩ : ∃ k, min n (capAt caps tail i) = k + 1 := ⟨min n (capAt caps tail i) - 1, by omega⟩
    rw [hk'] at h; simp at h

/-- **the hand-outs of the object concatenate to its content**, whatever the short-read pattern and the block size -/
theorem handouts_flatten {caps : List Nat} {tail : Nat} (hc : capsPos caps tail = true) {n : Nat} (hn : 0 < n) :
    ∀ (fuel : Nat) (rest : Bytes) (i : Nat), rest.length < fuel → (handouts n caps tail fuel rest i).flatten = rest := by
  intro fuel
  induction fuel with
  | zero => intro rest i h; omega
  | succ f ih =>
    intro rest i h
    unfold handouts
    simp only
    cases he : (read caps tail rest i n).1.isEmpty with
    | true =>
      simp only [if_true]
      have := read_empty_end hc hn rest i he
      subst this; simp
    | false =>
      simp only [Bool.false_eq_true, if_false, List.flatten_cons]
      have hp := read_progress caps tail rest i n he
      rw [ih _ _ (by omega)]
      exact read_append caps tail rest i n

/-- the loop on the object = `Fz.drainFile` on the list of its hand-outs (any failing call, any fuel that suffices) -/
theorem pump_eq_drainFile (n : Nat) (caps : List Nat) (tail : Nat) (fail : Option Nat) :
    ∀ (fuel : Nat) (rest : Bytes) (i F : Nat), rest.length < fuel → (handouts n caps tail fuel rest i).length ≤ F →
      pump n caps tail fail fuel rest i = drainFile F (handouts n caps tail fuel rest i) fail i := by
  intro fuel
  induction fuel with
  | zero => intro rest i F h; omega
  | succ f ih =>
    intro rest i F h hF
    unfold handouts at hF ⊢
    unfold pump
    simp only at hF ⊢
    cases he : (read caps tail rest i n).1.isEmpty with
    | true =>
      simp only [he, if_true, List.length_cons, List.length_nil] at hF ⊢
      obtain ⟨F', rfl⟩ : ∃ F', F = F' + 1 := ⟨F - 1, by omega⟩
      unfold drainFile
      by_cases hf : (fail == some i) = true
      · simp [hf]
      · simp [hf]
    | false =>
      simp only [he, Bool.false_eq_true, if_false, List.length_cons] at hF ⊢
      obtain ⟨F', rfl⟩ : ∃ F', F = F' + 1 := ⟨F - 1, by omega⟩
      have hp := read_progress caps tail rest i n he
      unfold drainFile
      by_cases hf : (fail == some i) = true
      · simp [hf]
      · simp only [hf, Bool.false_eq_true, if_false, he]
        rw [ih _ _ F' (by omega) (by omega)]

/-- **completeness of the pump**: without a failing call the loop delivers exactly the content and ends normally -/
theorem pump_complete {caps : List Nat} {tail : Nat} (hc : capsPos caps tail = true) {n : Nat} (hn : 0 < n) :
    ∀ (fuel : Nat) (rest : Bytes) (i : Nat), rest.length < fuel →
      (pump n caps tail none fuel rest i).1.flatten = rest ∧ (pump n caps tail none fuel rest i).2 = false := by
  intro fuel
  induction fuel with
  | zero => intro rest i h; omega
  | succ f ih =>
    intro rest i h
    unfold pump
    simp only [show ((none : Option Nat) == some i) = false from rfl, Bool.false_eq_true, if_false]
    cases he : (read caps tail rest i n).1.isEmpty with
    | true =>
      have := read_empty_end hc hn rest i he
      subst this; simp
    | false =>
      simp only [Bool.false_eq_true, if_false, List.flatten_cons]
      have hp := read_progress caps tail rest i n he
      obtain ⟨h1, h2⟩ := ih (read caps tail rest i n).2 (i + 1) (by omega)
      refine ⟨?_, h2⟩
      rw [h1]; exact read_append caps tail rest i n

/-- with a failing call (or a reader that declares the end early) what was delivered is a prefix of the content -/
theorem pump_prefix (n : Nat) (caps : List Nat) (tail : Nat) (fail : Option Nat) :
    ∀ (fuel : Nat) (rest : Bytes) (i : Nat), ∃ t, (pump n caps tail fail fuel rest i).1.flatten ++ t = rest := by
  intro fuel
  induction fuel with
  | zero => intro rest i; exact ⟨rest, by simp [pump]⟩
  | succ f ih =>
    intro rest i
    unfold pump
    by_cases hf : (fail == some i) = true
    · exact ⟨rest, by simp [hf]⟩
    · simp only [hf, Bool.false_eq_true, if_false]
      cases he : (read caps tail rest i n).1.isEmpty with
      | true => exact ⟨rest, by simp⟩
      | false =>
        simp only [Bool.false_eq_true, if_false, List.flatten_cons]
        obtain ⟨t, ht⟩ := ih (read caps tail rest i n).2 (i + 1)
        refine ⟨t, ?_⟩
        rw [List.append_assoc, ht]; exact read_append caps tail rest i n

/-- the block size does not matter: two pumps with different (positive) block sizes deliver the same bytes -/
theorem pump_block_size_irrelevant {caps : List Nat} {tail : Nat} (hc : capsPos caps tail = true) {n m : Nat} (hn : 0 < n) (hm : 0 < m)
    (data : Bytes) :
    (pump n caps tail none (data.length + 1) data 0).1.flatten = (pump m caps tail none (data.length + 1) data 0).1.flatten := by
  rw [(pump_complete hc hn _ data 0 (by omega)).1, (pump_complete hc hm _ data 0 (by omega)).1]

theorem blockSize_pos : 0 < blockSize := by decide

/-- what `Fz.wsgi` / `Fz.asgi` drain for a reader stream is the pump run on the object -/
theorem drain_blocks (data : Bytes) (caps : List Nat) (tail : Nat) (fail : Option Nat) :
    drainFile ((blocks data caps tail).length + 1) (blocks data caps tail) fail 0
      = pump blockSize caps tail fail (data.length + 1) data 0 := by
  unfold blocks
  exact (pump_eq_drainFile blockSize caps tail fail (data.length + 1) data 0
    ((handouts blockSize caps tail (data.length + 1) data 0).length + 1) (by omega) (by omega)).symm

/-- **WSGI delivers a file-like stream completely**, whatever its short-read pattern: the chunks of the iterable
    `falcon.App.__call__` returns concatenate to the content of the object, and the iteration ends normally -/
theorem wsgi_payload_complete (status : Nat) (data : Bytes) {caps : List Nat} {tail : Nat} (hc : capsPos caps tail = true)
    (headers : List (String × String)) (cookies : List String) (c : Fz.Cfg)
    (hh : c.head = false) (hb : Fz.bodiless status = false) :
    (Fz.wsgi (respOf status data caps tail none headers cookies) c).payload = data ∧
    (Fz.wsgi (respOf status data caps tail none headers cookies) c).iterErr = false := by
  have hp := pump_complete hc blockSize_pos (data.length + 1) data 0 (by omega)
  unfold Fz.wsgi Fz.Out.payload respOf Fz.renderBody
  simp only [hh, hb, Bool.or_self, Bool.false_eq_true, if_false, drain_blocks]
  rcases hq : pump blockSize caps tail none (data.length + 1) data 0 with ⟨o, e⟩
  rw [hq] at hp
  simpa using hp

/-- **ASGI delivers it completely too**: the `body` fields of the events concatenate to the content -/
theorem asgi_payload_complete (status : Nat) (data : Bytes) {caps : List Nat} {tail : Nat} (hc : capsPos caps tail = true)
    (headers : List (String × String)) (cookies : List String) (c : Fz.Cfg)
    (hh : c.head = false) (hb : Fz.bodiless status = false) :
    (Fz.asgi (respOf status data caps tail none headers cookies) c).payload = data ∧
    (Fz.asgi (respOf status data caps tail none headers cookies) c).iterErr = false := by
  have hp := pump_complete hc blockSize_pos (data.length + 1) data 0 (by omega)
  unfold Fz.asgi Fz.Out.payload respOf Fz.renderBody
  simp only [hh, hb, Bool.or_self, Bool.false_eq_true, if_false, drain_blocks]
  rcases hq : pump blockSize caps tail none (data.length + 1) data 0 with ⟨o, e⟩
  rw [hq] at hp
  obtain ⟨h1, h2⟩ := hp
  simp only at h1 h2
  subst h2
  simp [h1]

/-- a failing `read` call: both stacks have delivered the same prefix of the content when the exception surfaces -/
theorem failing_reader_prefix (status : Nat) (data : Bytes) (caps : List Nat) (tail : Nat) (fail : Option Nat)
    (headers : List (String × String)) (cookies : List String) (c : Fz.Cfg) :
    (Fz.wsgi (respOf status data caps tail fail headers cookies) c).payload
      = (Fz.asgi (respOf status data caps tail fail headers cookies) c).payload ∧
    ∃ t, (Fz.wsgi (respOf status data caps tail fail headers cookies) c).payload ++ t = data := by
  have hag := Fz.wsgi_asgi_agree (respOf status data caps tail fail headers cookies) c
  refine ⟨hag.2.2.1, ?_⟩
  unfold Fz.wsgi Fz.Out.payload respOf Fz.renderBody
  simp only [drain_blocks]
  obtain ⟨t, ht⟩ := pump_prefix blockSize caps tail fail (data.length + 1) data 0
  rcases hq : pump blockSize caps tail fail (data.length + 1) data 0 with ⟨o, e⟩
  rw [hq] at ht
  by_cases hx : (c.head || Fz.bodiless status) = true
  · exact ⟨data, by simp [hx]⟩
  · exact ⟨t, by simpa [hx] using ht⟩

/-- the hypotheses are satisfiable by a stream that is short in the middle: 12000 bytes in bursts of 5000, 5000, 2000 -/
example : capsPos [5000, 5000] 2000 = true := by decide
/-- ... and the statement is not vacuous: the same reader, pumped by a loop that stops at the first short block, loses data -/
example : ((blocks (content 20) [5, 5] 2).map List.length) = [5, 5, 2, 2, 2, 2, 2, 0] := by decide

/-- regression witness for the class of defect "stop at the first short block": that loop would deliver 5 of the 12 bytes -/
def pumpUntilShort (n : Nat) : List Bytes → List Bytes
  | [] => []
  | c :: rest => if c.isEmpty then [] else if c.length < n then [c] else c :: pumpUntilShort n rest
theorem short_block_stop_witness :
    (pumpUntilShort 8 (handouts 8 [5, 5] 2 13 (content 12) 0)).flatten.length = 5 ∧
    (pump 8 [5, 5] 2 none 13 (content 12) 0).1.flatten = content 12 := by decide

end Fr

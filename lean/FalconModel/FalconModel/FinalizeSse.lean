import FalconModel.FinalizeTrace
/-! C05: Server-Sent Events on ASGI.

    * `serialize`  - `falcon.asgi.structures.SSEvent.serialize` (lines 129-175): comment, event, id, retry in that
      order, then the `data` field taken from `data` (must decode as UTF-8), else `text`, else `json`
      (what the JSON handler returns); the `: ping` comment for an event without any field; a blank line at the end.
    * `sseTrace`   - the SSE branch of `falcon.asgi.App.__call__` (lines 654-719): one start event typed
      `text/event-stream` unless the response already has a Content-Type, one body event with `more_body` true per
      event the emitter yields (`None` → `SSEvent()`), the loop left early when the disconnect watcher is done, then
      the final body event; with a fault point for the emitter, for `serialize` and for `send`.
      HEAD requests and bodiless statuses never reach that branch (`Fz.asgiTrace`). -/
namespace Sse
open Fz

/-! ### `bytes.decode()` accepts exactly well-formed UTF-8 (Unicode table 3-7) -/

def inR (b : UInt8) (lo hi : Nat) : Bool := lo ≤ b.toNat && b.toNat ≤ hi

def validUtf8 : List UInt8 → Bool
  | [] => true
  | b0 :: rest =>
    if b0.toNat < 0x80 then validUtf8 rest
    else if inR b0 0xC2 0xDF then
      match rest with
      | b1 :: r => inR b1 0x80 0xBF && validUtf8 r
      | _ => false
    else if inR b0 0xE0 0xEF then
      match rest with
      | b1 :: b2 :: r =>
        (if b0.toNat == 0xE0 then inR b1 0xA0 0xBF else if b0.toNat == 0xED then inR b1 0x80 0x9F else inR b1 0x80 0xBF)
          && inR b2 0x80 0xBF && validUtf8 r
      | _ => false
    else if inR b0 0xF0 0xF4 then
      match rest with
      | b1 :: b2 :: b3 :: r =>
        (if b0.toNat == 0xF0 then inR b1 0x90 0xBF else if b0.toNat == 0xF4 then inR b1 0x80 0x8F else inR b1 0x80 0xBF)
          && inR b2 0x80 0xBF && inR b3 0x80 0xBF && validUtf8 r
      | _ => false
    else false

/-! ### `SSEvent.serialize` -/

/-- `handler.serialize(self.json, MEDIA_JSON)` -/
inductive JsonR where
  | ok (b : Bytes)
  | raises
deriving Repr, DecidableEq

/-- an `SSEvent`; `str` attributes are given UTF-8 encoded (`(a + b).encode() = a.encode() + b.encode()`) -/
structure SSEvent where
  data : Option Bytes := none
  text : Option Bytes := none
  json : Option JsonR := none
  event : Option Bytes := none
  eventId : Option Bytes := none
  retry : Option Int := none
  comment : Option Bytes := none
deriving Repr, DecidableEq

def decNat (n : Nat) : Bytes := (Nat.toDigits 10 n).map fun c => c.toNat.toUInt8
/-- `f'{retry}'` -/
def decInt : Int → Bytes
  | .ofNat n => decNat n
  | .negSucc n => 45 :: decNat (n + 1)

def kComment : Bytes := [58, 32]                                  -- ": "
def kEvent : Bytes := [101, 118, 101, 110, 116, 58, 32]           -- "event: "
def kId : Bytes := [105, 100, 58, 32]                             -- "id: "
def kRetry : Bytes := [114, 101, 116, 114, 121, 58, 32]           -- "retry: "
def kData : Bytes := [100, 97, 116, 97, 58, 32]                   -- "data: "
def kPing : Bytes := [58, 32, 112, 105, 110, 103, 10, 10]         -- ": ping\n\n"

/-- `block` before the data field is looked at -/
def blockHead (e : SSEvent) : Bytes :=
  let block := match e.comment with | some c => kComment ++ c ++ [10] | none => []
  let block := match e.event with | some v => block ++ (kEvent ++ v ++ [10]) | none => block
  let block := match e.eventId with | some v => block ++ (kId ++ v ++ [10]) | none => block
  match e.retry with | some n => block ++ (kRetry ++ decInt n ++ [10]) | none => block

/-- `SSEvent.serialize(handler)`; `none`: it raises (`data` is not UTF-8, or the JSON handler raises) -/
def serialize (e : SSEvent) : Option Bytes :=
  let block := blockHead e
  match e.data with
  | some d => if validUtf8 d then some ((block ++ (kData ++ d ++ [10])) ++ [10]) else none
  | none =>
    match e.text with
    | some t => some ((block ++ (kData ++ t ++ [10])) ++ [10])
    | none =>
      match e.json with
      | some (.ok j) => some ((block ++ kData) ++ j ++ [10, 10])
      | some .raises => none
      | none => if block.isEmpty then some kPing else some (block ++ [10])

/-! ### the SSE branch of `falcon.asgi.App.__call__` -/

/-- `async for event in sse_emitter: …` from emitter index `i`, send index `k`.
    `ef`: index of the `__anext__` call that raises; `disc`: the disconnect watcher is done when it is looked at
    after the event with that index has been sent; `xf`: index of the `send` call that raises.
    Returns the events sent, whether an exception ended the loop, and the next send index. -/
def sseLoop : List (Option SSEvent) → Nat → Option Nat → Option Nat → Nat → Option Nat → List Ev × Bool × Nat
  | [], i, ef, _, k, _ => ([], ef == some i, k)
  | e :: rest, i, ef, disc, k, xf =>
    if ef == some i then ([], true, k) else
    match serialize (e.getD {}) with                 -- `if not event: event = SSEvent()`
    | none => ([], true, k)
    | some b =>
      if xf == some k then ([], true, k + 1) else
      if disc == some i then ([Ev.body b true], false, k + 1) else     -- `if watcher.done(): break`
      let (evs, r, k') := sseLoop rest (i + 1) ef disc (k + 1) xf
      (Ev.body b true :: evs, r, k')

/-- everything handed to `send` for a response whose `sse` attribute is set -/
def sseTrace (r : Resp) (c : Cfg) (hasClose : Bool) (evs : List (Option SSEvent)) (ef disc xf : Option Nat) : Trace :=
  let (_, r1) := renderBody r c
  if c.head || bodiless r1.status then asgiTrace r c hasClose xf
  else
    let st := Ev.start r1.status (emitHeaders r1 (some "text/event-stream"))
    if xf == some 0 then { events := [], closes := 0, raised := true }
    else
      let (bs, failed, k) := sseLoop evs 0 ef disc 1 xf
      if failed then { events := st :: bs, closes := 0, raised := true }
      else if xf == some k then { events := st :: bs, closes := 0, raised := true }
      else { events := st :: bs ++ [Ev.body [] false], closes := 0, raised := false }

/-! ### reading an event back (the event stream format of the HTML standard, LF line ends) -/

/-- the LF-terminated lines of a chunk and the unterminated rest -/
def splitLF : Bytes → List Bytes × Bytes
  | [] => ([], [])
  | b :: rest =>
    let (ls, rem) := splitLF rest
    if b == 10 then ([] :: ls, rem) else
    match ls with
    | [] => ([], b :: rem)
    | l :: ls' => ((b :: l) :: ls', rem)

/-- one field line: the name up to the first colon, the value after it less one leading space (a comment line has
    the empty name; a line without a colon is a name with an empty value) -/
def parseLine (l : Bytes) : Bytes × Bytes :=
  let name := l.takeWhile (· != 58)
  match l.dropWhile (· != 58) with
  | [] => (name, [])
  | _ :: v => (name, match v with | 32 :: v' => v' | _ => v)

/-- the fields of a chunk that is exactly one event block: non-empty field lines, one blank line, nothing after -/
def parseBlock (bs : Bytes) : Option (List (Bytes × Bytes)) :=
  let (ls, rem) := splitLF bs
  if rem.isEmpty && ls.getLast? == some [] && ls.dropLast.all (fun l => !l.isEmpty) then
    some (ls.dropLast.map parseLine)
  else none

end Sse

import FalconModel.FinalizeSse
import FalconModel.FinalizeTraceProofs
/-! C05: theorems about the SSE model (`FinalizeSse.lean`): `sse_serialize_fields_exact` (what `SSEvent.serialize`
    writes reads back as exactly the attributes set, in order), `sse_frames_wellformed` (framing under every fault),
    `sse_one_body_per_event`, `sse_closes_zero`, `sse_start_content_type`. -/
namespace Sse
open Fz

/-! ### `SSEvent.serialize`: the fields read back are exactly the fields set -/

def nEvent : Bytes := [101, 118, 101, 110, 116]
def nId : Bytes := [105, 100]
def nRetry : Bytes := [114, 101, 116, 114, 121]
def nData : Bytes := [100, 97, 116, 97]
def vPing : Bytes := [112, 105, 110, 103]

/-- the value of the `data` field: `data` takes precedence over `text`, `text` over `json` -/
def dataValue (e : SSEvent) : Option Bytes :=
  match e.data with
  | some d => some d
  | none =>
    match e.text with
    | some t => some t
    | none =>
      match e.json with
      | some (.ok j) => some j
      | _ => none

def headFields (e : SSEvent) : List (Bytes × Bytes) :=
  e.comment.toList.map (fun v => ([], v)) ++ e.event.toList.map (fun v => (nEvent, v)) ++
  e.eventId.toList.map (fun v => (nId, v)) ++ e.retry.toList.map (fun n => (nRetry, decInt n))

/-- the fields of the event in the order they are written: comment, event, id, retry, data; the `ping` comment
    when no attribute is set at all -/
def fieldsOf (e : SSEvent) : List (Bytes × Bytes) :=
  let fs := headFields e ++ (dataValue e).toList.map (fun v => (nData, v))
  if fs.isEmpty then [([], vPing)] else fs

/-- no value that is written contains a line feed -/
def Clean (e : SSEvent) : Prop :=
  (∀ v, e.comment = some v → (10 : UInt8) ∉ v) ∧ (∀ v, e.event = some v → (10 : UInt8) ∉ v) ∧
  (∀ v, e.eventId = some v → (10 : UInt8) ∉ v) ∧ (∀ v, dataValue e = some v → (10 : UInt8) ∉ v)

def headLines (e : SSEvent) : List Bytes :=
  e.comment.toList.map (fun v => kComment ++ v) ++ e.event.toList.map (fun v => kEvent ++ v) ++
  e.eventId.toList.map (fun v => kId ++ v) ++ e.retry.toList.map (fun n => kRetry ++ decInt n)

def flat (ls : List Bytes) : Bytes := (ls.map (· ++ [10])).flatten
def joinLF (ls : List Bytes) : Bytes := flat ls ++ [10]

theorem flat_append (a b : List Bytes) : flat (a ++ b) = flat a ++ flat b := by
  unfold flat; simp

theorem blockHead_eq (e : SSEvent) : blockHead e = flat (headLines e) := by
  unfold blockHead headLines flat
  cases e.comment <;> cases e.event <;> cases e.eventId <;> cases e.retry <;> simp

theorem splitLF_line (l : Bytes) (h : (10 : UInt8) ∉ l) (rest : Bytes) :
    splitLF (l ++ 10 :: rest) = (l :: (splitLF rest).1, (splitLF rest).2) := by
  induction l with
  | nil => simp [splitLF]
  | cons b l ih =>
    have hb : (b == 10) = false := by
      cases hbb : b == 10 with
      | false => rfl
      | true => exact absurd (by rw [eq_of_beq hbb]; exact List.mem_cons_self) h
    have hl : (10 : UInt8) ∉ l := fun hm => h (List.mem_cons_of_mem _ hm)
    have := ih hl
    simp only [List.cons_append, splitLF, this, hb, Bool.false_eq_true, if_false]

theorem splitLF_join (ls : List Bytes) (h : ∀ l ∈ ls, (10 : UInt8) ∉ l) : splitLF (joinLF ls) = (ls ++ [[]], []) := by
  induction ls with
  | nil => rfl
  | cons l ls ih =>
    have h1 := h l List.mem_cons_self
    have h2 : ∀ l' ∈ ls, (10 : UInt8) ∉ l' := fun l' hl' => h l' (List.mem_cons_of_mem _ hl')
    have e : joinLF (l :: ls) = l ++ 10 :: joinLF ls := by
      unfold joinLF flat; simp
    rw [e, splitLF_line l h1, ih h2]
    rfl

theorem parseBlock_join (ls : List Bytes) (h : ∀ l ∈ ls, (10 : UInt8) ∉ l) (hne : ∀ l ∈ ls, l ≠ []) :
    parseBlock (joinLF ls) = some (ls.map parseLine) := by
  unfold parseBlock
  rw [splitLF_join ls h]
  have hall : ls.all (fun l => !l.isEmpty) = true := by
    rw [List.all_eq_true]
    intro l hl
    have := hne l hl
    cases l with
    | nil => exact absurd rfl this
    | cons x xs => rfl
  simp [hall]

theorem parseLine_comment (v : Bytes) : parseLine (kComment ++ v) = ([], v) := by
  simp [parseLine, kComment]
theorem parseLine_event (v : Bytes) : parseLine (kEvent ++ v) = (nEvent, v) := by
  simp [parseLine, kEvent, nEvent, List.takeWhile, List.dropWhile]
theorem parseLine_id (v : Bytes) : parseLine (kId ++ v) = (nId, v) := by
  simp [parseLine, kId, nId, List.takeWhile, List.dropWhile]
theorem parseLine_retry (v : Bytes) : parseLine (kRetry ++ v) = (nRetry, v) := by
  simp [parseLine, kRetry, nRetry, List.takeWhile, List.dropWhile]
theorem parseLine_data (v : Bytes) : parseLine (kData ++ v) = (nData, v) := by
  simp [parseLine, kData, nData, List.takeWhile, List.dropWhile]

theorem headLines_parse (e : SSEvent) : (headLines e).map parseLine = headFields e := by
  unfold headLines headFields
  cases e.comment <;> cases e.event <;> cases e.eventId <;> cases e.retry <;>
    simp [parseLine_comment, parseLine_event, parseLine_id, parseLine_retry]

theorem decNat_noLF (n : Nat) : (10 : UInt8) ∉ decNat n := by
  unfold decNat
  intro h
  obtain ⟨c, hc, he⟩ := List.mem_map.mp h
  have hd := Nat.isDigit_of_mem_toDigits (by decide) (by decide) hc
  unfold Char.isDigit at hd
  simp only [Bool.and_eq_true, decide_eq_true_eq] at hd
  obtain ⟨h1, h2⟩ := hd
  have h1' : 48 ≤ c.toNat := by
    have : (48 : UInt32) ≤ c.val := h1
    exact UInt32.le_iff_toNat_le.mp this
  have h2' : c.toNat ≤ 57 := by
    have : c.val ≤ (57 : UInt32) := h2
    exact UInt32.le_iff_toNat_le.mp this
  have : (c.toNat.toUInt8).toNat = c.toNat := by
    simp only [Nat.toUInt8, UInt8.toNat_ofNat']; omega
  have h10 : (c.toNat.toUInt8).toNat = 10 := by rw [he]; rfl
  omega

theorem decInt_noLF (n : Int) : (10 : UInt8) ∉ decInt n := by
  cases n with
  | ofNat m => exact decNat_noLF m
  | negSucc m =>
    unfold decInt
    intro h
    rcases List.mem_cons.mp h with h | h
    · cases h
    · exact decNat_noLF _ h

theorem noLF_append (a b : Bytes) (ha : (10 : UInt8) ∉ a) (hb : (10 : UInt8) ∉ b) : (10 : UInt8) ∉ a ++ b := by
  intro h
  rcases List.mem_append.mp h with h | h
  · exact ha h
  · exact hb h

theorem headLines_ok (e : SSEvent) (hc : Clean e) :
    (∀ l ∈ headLines e, (10 : UInt8) ∉ l) ∧ (∀ l ∈ headLines e, l ≠ []) := by
  obtain ⟨c1, c2, c3, _⟩ := hc
  unfold headLines
  constructor
  · intro l hl
    simp only [List.mem_append, List.mem_map, Option.mem_toList] at hl
    rcases hl with ((⟨v, hv, rfl⟩ | ⟨v, hv, rfl⟩) | ⟨v, hv, rfl⟩) | ⟨v, hv, rfl⟩
    · exact noLF_append _ _ (by decide) (c1 v hv)
    · exact noLF_append _ _ (by decide) (c2 v hv)
    · exact noLF_append _ _ (by decide) (c3 v hv)
    · exact noLF_append _ _ (by decide) (decInt_noLF v)
  · intro l hl
    simp only [List.mem_append, List.mem_map, Option.mem_toList] at hl
    rcases hl with ((⟨v, hv, rfl⟩ | ⟨v, hv, rfl⟩) | ⟨v, hv, rfl⟩) | ⟨v, hv, rfl⟩ <;> simp [kComment, kEvent, kId, kRetry]

/-- what `serialize` returns, as lines -/
theorem serialize_lines (e : SSEvent) (out : Bytes) (hs : serialize e = some out) :
    out = joinLF (if (headLines e ++ (dataValue e).toList.map (fun v => kData ++ v)).isEmpty then [kComment ++ vPing]
                  else headLines e ++ (dataValue e).toList.map (fun v => kData ++ v)) := by
  unfold serialize at hs
  rw [blockHead_eq] at hs
  unfold dataValue
  cases hd : e.data with
  | some d =>
    rw [hd] at hs
    simp only at hs
    split at hs
    · have := (Option.some.inj hs).symm
      subst this
      simp [joinLF, flat]
    · cases hs
  | none =>
    rw [hd] at hs
    simp only at hs ⊢
    cases ht : e.text with
    | some t =>
      rw [ht] at hs
      have := (Option.some.inj hs).symm
      subst this
      simp [joinLF, flat]
    | none =>
      rw [ht] at hs
      simp only at hs ⊢
      cases hj : e.json with
      | some j =>
        rw [hj] at hs
        cases j with
        | ok j =>
          have := (Option.some.inj hs).symm
          subst this
          simp [joinLF, flat]
        | raises => cases hs
      | none =>
        rw [hj] at hs
        simp only at hs ⊢
        cases hh : headLines e with
        | nil =>
          rw [hh] at hs
          have := (Option.some.inj hs).symm
          subst this
          rfl
        | cons l ls =>
          rw [hh] at hs
          have hne : (flat (l :: ls)).isEmpty = false := by
            unfold flat; simp
          simp only [hne, Bool.false_eq_true, if_false] at hs
          have := (Option.some.inj hs).symm
          subst this
          simp [joinLF]

/-- **`SSEvent.serialize`: the chunk is one well-formed event block whose fields are exactly the attributes that
    were set, in the order comment, event, id, retry, data**, the data field being `data`, else `text`, else the
    serialised `json`; an event without any attribute is the `ping` comment.  (Values without line feeds.) -/
theorem sse_serialize_fields_exact (e : SSEvent) (out : Bytes) (hc : Clean e) (hs : serialize e = some out) :
    parseBlock out = some (fieldsOf e) := by
  obtain ⟨l1, l2⟩ := headLines_ok e hc
  have hdv : ∀ l ∈ (dataValue e).toList.map (fun v => kData ++ v), (10 : UInt8) ∉ l ∧ l ≠ [] := by
    intro l hl
    simp only [List.mem_map, Option.mem_toList] at hl
    obtain ⟨v, hv, rfl⟩ := hl
    exact ⟨noLF_append _ _ (by decide) (hc.2.2.2 v hv), by simp [kData]⟩
  rw [serialize_lines e out hs]
  unfold fieldsOf
  simp only
  by_cases hem : (headLines e ++ (dataValue e).toList.map (fun v => kData ++ v)).isEmpty = true
  · have hem2 : (headFields e ++ (dataValue e).toList.map (fun v => (nData, v))).isEmpty = true := by
      rw [← headLines_parse]
      simp only [List.isEmpty_iff, List.append_eq_nil_iff, List.map_eq_nil_iff] at hem ⊢
      exact hem
    simp only [hem, hem2, if_true]
    rw [parseBlock_join _ (by intro l hl; rw [List.mem_singleton] at hl; subst hl; decide)
      (by intro l hl; rw [List.mem_singleton] at hl; subst hl; decide)]
    simp [parseLine_comment]
  · have hem2 : ¬ (headFields e ++ (dataValue e).toList.map (fun v => (nData, v))).isEmpty = true := by
      rw [← headLines_parse]
      simp only [List.isEmpty_iff, List.append_eq_nil_iff, List.map_eq_nil_iff] at hem ⊢
      exact hem
    simp only [hem, hem2, Bool.false_eq_true, if_false]
    rw [parseBlock_join]
    · rw [List.map_append, headLines_parse]
      congr 1
      cases dataValue e <;> simp [parseLine_data]
    · intro l hl
      rcases List.mem_append.mp hl with h | h
      · exact l1 l h
      · exact (hdv l h).1
    · intro l hl
      rcases List.mem_append.mp hl with h | h
      · exact l2 l h
      · exact (hdv l h).2

example : Clean { text := some [104, 105], event := some [101], retry := some (-5), comment := some [] } :=
  ⟨(by intro v h; cases h; decide), (by intro v h; cases h; decide), (by intro v h; cases h),
   (by intro v h; cases h; decide)⟩

/-- when `serialize` raises: `data` is not UTF-8, or `json` is the data source and its handler raises -/
theorem serialize_none_iff (e : SSEvent) :
    serialize e = none ↔
      (∃ d, e.data = some d ∧ validUtf8 d = false) ∨ (e.data = none ∧ e.text = none ∧ e.json = some .raises) := by
  unfold serialize
  cases hd : e.data with
  | some d =>
    simp only
    cases hv : validUtf8 d <;> simp [hv]
  | none =>
    cases ht : e.text with
    | some t => simp
    | none =>
      cases hj : e.json with
      | none => simp only; split <;> simp
      | some j => cases j <;> simp

/-- multi-line values are **not** split into several `data:` lines: a consumer reads `text = "a\nb"` as the data "a"
    followed by a field named "b" (the application has to split such values itself) -/
theorem sse_multiline_data_is_not_split :
    (serialize { text := some [97, 10, 98] }).bind parseBlock = some [(nData, [97]), ([98], [])] := by decide

end Sse
namespace Sse
open Fz

/-! ### framing of the SSE branch -/

theorem sseLoop_open (evs : List (Option SSEvent)) : ∀ (i : Nat) (ef disc : Option Nat) (k : Nat) (xf : Option Nat),
    bodiesOpen (sseLoop evs i ef disc k xf).1 := by
  induction evs with
  | nil => intro i ef disc k xf; exact bodiesOpen_nil
  | cons e rest ih =>
    intro i ef disc k xf
    unfold sseLoop
    split
    · exact bodiesOpen_nil
    · cases serialize (e.getD {}) with
      | none => exact bodiesOpen_nil
      | some b =>
        simp only
        split
        · exact bodiesOpen_nil
        · split
          · exact bodiesOpen_cons b _ bodiesOpen_nil
          · exact bodiesOpen_cons b _ (ih (i + 1) ef disc (k + 1) xf)

/-- **SSE framing under every fault** (the emitter raising at any index, `serialize` raising, `send` failing at any
    index, the client disconnecting after any event): exactly one start event first, then body events of which only
    the last has `more_body = false`, nothing afterwards; a run ended by an exception sent nothing, or the start
    event followed only by body events with `more_body = true`. -/
theorem sse_frames_wellformed (r : Resp) (c : Cfg) (hasClose : Bool) (evs : List (Option SSEvent))
    (ef disc xf : Option Nat) :
    ((sseTrace r c hasClose evs ef disc xf).raised = false → Complete (sseTrace r c hasClose evs ef disc xf).events) ∧
    ((sseTrace r c hasClose evs ef disc xf).raised = true → CutShort (sseTrace r c hasClose evs ef disc xf).events) := by
  unfold sseTrace
  simp only
  split
  · exact trace_wellformed r c hasClose xf
  · split
    · exact ⟨fun hh => (by cases hh), fun _ => Or.inl rfl⟩
    · have hopen := sseLoop_open evs 0 ef disc 1 xf
      rcases hl : sseLoop evs 0 ef disc 1 xf with ⟨bs, failed, k⟩
      rw [hl] at hopen
      simp only at hopen ⊢
      split
      · exact ⟨fun hh => (by cases hh), fun _ => Or.inr ⟨_, _, bs, rfl, hopen⟩⟩
      · split
        · exact ⟨fun hh => (by cases hh), fun _ => Or.inr ⟨_, _, bs, rfl, hopen⟩⟩
        · exact ⟨fun _ => ⟨_, _, bs, [], rfl, hopen⟩, fun hh => by cases hh⟩

/-- the SSE branch never touches `resp.stream`: no `close()` -/
theorem sse_closes_zero (r : Resp) (c : Cfg) (hasClose : Bool) (evs : List (Option SSEvent)) (ef disc xf : Option Nat) :
    (sseTrace r c hasClose evs ef disc xf).closes = 0 := by
  obtain ⟨f1, _, _, _⟩ := renderBody_frame r c
  unfold sseTrace
  simp only
  split
  · rename_i hb
    apply closes_zero_otherwise
    intro hbeg
    obtain ⟨h1, h2, _, _, _⟩ := hbeg
    rw [f1, h1, h2] at hb
    cases hb
  · split
    · rfl
    · rcases sseLoop evs 0 ef disc 1 xf with ⟨bs, failed, k⟩
      simp only
      split
      · rfl
      · split <;> rfl

/-- the body events of a run without any fault: the serialisation of each event the emitter yielded (`None` is the
    ping event), in order, each with `more_body = true` -/
def bodiesOf (evs : List (Option SSEvent)) : List Ev :=
  evs.map fun e => Ev.body ((serialize (e.getD {})).getD []) true

theorem sseLoop_nofault (evs : List (Option SSEvent)) (hser : ∀ e ∈ evs, (serialize (e.getD {})).isSome = true) :
    ∀ (i k : Nat), sseLoop evs i none none k none = (bodiesOf evs, false, k + evs.length) := by
  induction evs with
  | nil => intro i k; rfl
  | cons e rest ih =>
    intro i k
    have h1 := hser e List.mem_cons_self
    have h2 : ∀ e' ∈ rest, (serialize (e'.getD {})).isSome = true := fun e' he' => hser e' (List.mem_cons_of_mem _ he')
    unfold sseLoop
    have hn : ∀ n : Nat, ((none : Option Nat) == some n) = false := fun _ => rfl
    simp only [hn, Bool.false_eq_true, if_false]
    cases hs : serialize (e.getD {}) with
    | none => rw [hs] at h1; cases h1
    | some b =>
      simp only [ih h2 (i + 1) (k + 1)]
      unfold bodiesOf
      simp only [List.map_cons, hs, Option.getD_some, List.length_cons]
      refine Prod.ext rfl (Prod.ext rfl ?_)
      simp only; omega

/-- **one start event, one body event per SSE event with `more_body` true, then the final empty body event** -/
theorem sse_one_body_per_event (r : Resp) (c : Cfg) (hasClose : Bool) (evs : List (Option SSEvent))
    (hh : c.head = false) (hb : bodiless r.status = false)
    (hser : ∀ e ∈ evs, (serialize (e.getD {})).isSome = true) :
    sseTrace r c hasClose evs none none none =
      { events := Ev.start r.status (emitHeaders (renderBody r c).2 (some "text/event-stream")) ::
                    (bodiesOf evs ++ [Ev.body [] false]),
        closes := 0, raised := false } := by
  obtain ⟨f1, _, _, _⟩ := renderBody_frame r c
  unfold sseTrace
  simp only [f1, hh, hb, Bool.or_self, Bool.false_eq_true, if_false, sseLoop_nofault evs hser 0 1]
  have hn : ∀ n : Nat, ((none : Option Nat) == some n) = false := fun _ => rfl
  simp only [hn, Bool.false_eq_true, if_false, List.cons_append]

/-- the client disconnects after the event with index `d`: the events up to and including that one are sent, then
    the final body event - the exchange is still complete -/
theorem sse_disconnect_complete (r : Resp) (c : Cfg) (hasClose : Bool) (evs : List (Option SSEvent)) (d : Nat)
    (hser : ∀ e ∈ evs, (serialize (e.getD {})).isSome = true) :
    (sseTrace r c hasClose evs none (some d) none).raised = false := by
  have loop : ∀ (evs : List (Option SSEvent)), (∀ e ∈ evs, (serialize (e.getD {})).isSome = true) →
      ∀ i k, (sseLoop evs i none (some d) k none).2.1 = false := by
    intro evs
    induction evs with
    | nil => intro _ i k; rfl
    | cons e rest ih =>
      intro hs i k
      have h1 := hs e List.mem_cons_self
      have h2 : ∀ e' ∈ rest, (serialize (e'.getD {})).isSome = true := fun e' he' => hs e' (List.mem_cons_of_mem _ he')
      unfold sseLoop
      have hn : ∀ n : Nat, ((none : Option Nat) == some n) = false := fun _ => rfl
      simp only [hn, Bool.false_eq_true, if_false]
      cases hse : serialize (e.getD {}) with
      | none => rw [hse] at h1; cases h1
      | some b =>
        simp only
        split
        · rfl
        · exact ih h2 (i + 1) (k + 1)
  have hl := loop evs hser 0 1
  unfold sseTrace
  simp only
  split
  · rename_i hb
    have := (trace_refines_asgi r c hasClose).2
    rw [this]
    unfold asgi
    simp only [hb, if_true]
  · have hn : ∀ n : Nat, ((none : Option Nat) == some n) = false := fun _ => rfl
    simp only [hn, Bool.false_eq_true, if_false]
    rcases hlp : sseLoop evs 0 none (some d) 1 none with ⟨bs, failed, k⟩
    rw [hlp] at hl
    simp only at hl
    simp only [hl, Bool.false_eq_true, if_false]

theorem getKey_append_right (m e : List (String × String)) (k : String) (h : hasKey m k = false) :
    getKey (m ++ e) k = getKey e k := by
  unfold getKey
  rw [List.find?_append]
  have : m.find? (·.1 == k) = none := by
    rw [List.find?_eq_none]
    intro x hx hk
    unfold hasKey at h
    have : m.any (·.1 == k) = true := List.any_eq_true.mpr ⟨x, hx, hk⟩
    rw [this] at h; cases h
  rw [this]; rfl

/-- the start event of an SSE response is typed `text/event-stream`, unless the response has a Content-Type already
    (set by the application, or defaulted by `render_body()` because `media` was set as well) - then that one stays -/
theorem sse_start_content_type (r1 : Resp) :
    (hasKey r1.headers "content-type" = false →
      getKey (emitHeaders r1 (some "text/event-stream")) "content-type" = some "text/event-stream") ∧
    (∀ v, getKey r1.headers "content-type" = some v →
      getKey (emitHeaders r1 (some "text/event-stream")) "content-type" = some v) := by
  constructor
  · intro h
    unfold emitHeaders
    simp only [h, Bool.false_eq_true, if_false]
    apply getKey_append_left
    rw [getKey_append_right _ _ _ h]
    rfl
  · intro v hv
    unfold emitHeaders
    simp only
    apply getKey_append_left
    split
    · exact hv
    · exact getKey_append_left _ _ _ _ hv

end Sse

import FalconModel.Finalize
/-! C05: event-level model of the ASGI response emission (`falcon.asgi.App.__call__`, lines after the body has been
    rendered): the exact sequence of events handed to `send`, with a **fault point for `send`** (the `k`-th call of
    `send` raises) in addition to the stream's failing call, and a counter for `stream.close()`.

    The status and header list of the start event are those of `Fz.asgi` (Finalize.lean); this file adds the event
    framing (`more_body`), the `try … finally: close()` around the streaming loops and exception propagation. -/
namespace Fz

inductive Ev where
  | start (status : Nat) (headers : List (String × String))
  | body (data : Bytes) (more : Bool)
deriving DecidableEq, Repr

structure Trace where
  events : List Ev      -- events successfully handed to `send`, in order
  closes : Nat          -- number of `stream.close()` calls
  raised : Bool         -- an exception left `__call__` (the stream's or the one raised by `send`)
deriving DecidableEq, Repr

/-- `async for data in stream: await send(body data, more_body=True)` from call index `i`, send index `k`.
    Returns the events sent, whether an exception ended the loop, and the next send index. -/
def loopIter : List Bytes → Nat → Option Nat → Nat → Option Nat → List Ev × Bool × Nat
  | [], i, sf, k, _ => ([], sf == some i, k)          -- the call that would have raised StopAsyncIteration may fail
  | c :: rest, i, sf, k, xf =>
    if sf == some i then ([], true, k) else
    if xf == some k then ([], true, k + 1) else
    let (evs, r, k') := loopIter rest (i + 1) sf (k + 1) xf
    (Ev.body c true :: evs, r, k')

/-- `while True: data = await stream.read(n); if data == b'': break; await send(...)` -/
def loopFile : List Bytes → Nat → Option Nat → Nat → Option Nat → List Ev × Bool × Nat
  | [], i, sf, k, _ => ([], sf == some i, k)          -- `read()` returns b'' at the end of the data
  | c :: rest, i, sf, k, xf =>
    if sf == some i then ([], true, k) else
    if c.isEmpty then ([], false, k) else
    if xf == some k then ([], true, k + 1) else
    let (evs, r, k') := loopFile rest (i + 1) sf (k + 1) xf
    (Ev.body c true :: evs, r, k')

def streamLoop (kind : StreamKind) (chunks : List Bytes) (sf : Option Nat) (k : Nat) (xf : Option Nat) :
    List Ev × Bool × Nat :=
  match kind with
  | .fileLike => loopFile chunks 0 sf k xf
  | .iter => loopIter chunks 0 sf k xf

/-- one non-streaming response: start event (send index 0), one final body event (send index 1) -/
def twoEvents (st : Ev) (final : Ev) (xf : Option Nat) : Trace :=
  if xf == some 0 then { events := [], closes := 0, raised := true }
  else if xf == some 1 then { events := [st], closes := 0, raised := true }
  else { events := [st, final], closes := 0, raised := false }

/-- everything `falcon.asgi.App.__call__` hands to `send` for a finished response;
    `hasClose`: the stream object has a `close()` method; `xf`: the index of the `send` call that raises -/
def asgiTrace (r : Resp) (c : Cfg) (hasClose : Bool) (xf : Option Nat) : Trace :=
  let o := asgi r c
  let st := Ev.start o.status o.headers
  let (data, r1) := renderBody r c
  if c.head || bodiless r1.status then twoEvents st (Ev.body [] false) xf
  else
    match data with
    | some d => twoEvents st (Ev.body d false) xf
    | none =>
      match r1.stream with
      | none => twoEvents st (Ev.body [] false) xf
      | some (kind, chunks) =>
        if xf == some 0 then { events := [], closes := 0, raised := true }     -- not begun: the stream is not touched
        else
          let (evs, failed, k) := streamLoop kind chunks r1.streamFail 1 xf
          let closes := if hasClose then 1 else 0                              -- `finally: await stream.close()`
          if failed then { events := st :: evs, closes := closes, raised := true }
          else if xf == some k then { events := st :: evs, closes := closes, raised := true }
          else { events := st :: evs ++ [Ev.body [] false], closes := closes, raised := false }

end Fz

import FalconModel.FinalizeTrace
import FalconModel.FinalizeProofs2
/-! C05: theorems about the event-level ASGI emission model (`FinalizeTrace.lean`), for **every** response state,
    every failing stream call and every failing `send` index:
    * `trace_wellformed`       exactly one start event first, then body events of which only the last has
                               `more_body = false`, nothing afterwards; a run cut short by an exception sent a prefix of
                               such an exchange (start + body events all with `more_body = true`);
    * `closed_exactly_once`    once streaming has begun (the start event was sent for a streamed response) `close()` is
                               called exactly once, whether streaming completes, the stream raises or `send` fails;
    * `closes_zero_otherwise`  and never when streaming did not begin;
    * `trace_refines_asgi`     without a `send` fault the bodies of the events are exactly `Fz.asgi`'s chunk list and
                               the exception flag is its `iterErr` (ties the trace model to the model the other
                               theorems are about). -/
namespace Fz

def bodiesOpen (bs : List Ev) : Prop := ∀ e ∈ bs, ∃ d, e = Ev.body d true

/-- a complete exchange: start, body events with more_body, one final body event -/
def Complete (evs : List Ev) : Prop :=
  ∃ s h bs d, evs = Ev.start s h :: (bs ++ [Ev.body d false]) ∧ bodiesOpen bs

/-- what may have been sent when an exception cut the exchange short -/
def CutShort (evs : List Ev) : Prop :=
  evs = [] ∨ ∃ s h bs, evs = Ev.start s h :: bs ∧ bodiesOpen bs

theorem bodiesOpen_nil : bodiesOpen [] := by intro e he; cases he

theorem bodiesOpen_cons (d : Bytes) (bs : List Ev) (h : bodiesOpen bs) : bodiesOpen (Ev.body d true :: bs) := by
  intro e he
  cases he with
  | head => exact ⟨d, rfl⟩
  | tail _ h' => exact h e h'

theorem loopIter_open (chunks : List Bytes) : ∀ (i : Nat) (sf : Option Nat) (k : Nat) (xf : Option Nat),
    bodiesOpen (loopIter chunks i sf k xf).1 := by
  induction chunks with
  | nil => intro i sf k xf; exact bodiesOpen_nil
  | cons c rest ih =>
    intro i sf k xf
    unfold loopIter
    split
    · exact bodiesOpen_nil
    · split
      · exact bodiesOpen_nil
      · exact bodiesOpen_cons c _ (ih (i + 1) sf (k + 1) xf)

theorem loopFile_open (chunks : List Bytes) : ∀ (i : Nat) (sf : Option Nat) (k : Nat) (xf : Option Nat),
    bodiesOpen (loopFile chunks i sf k xf).1 := by
  induction chunks with
  | nil => intro i sf k xf; exact bodiesOpen_nil
  | cons c rest ih =>
    intro i sf k xf
    unfold loopFile
    split
    · exact bodiesOpen_nil
    · split
      · exact bodiesOpen_nil
      · split
        · exact bodiesOpen_nil
        · exact bodiesOpen_cons c _ (ih (i + 1) sf (k + 1) xf)

theorem streamLoop_open (kind : StreamKind) (chunks : List Bytes) (sf : Option Nat) (k : Nat) (xf : Option Nat) :
    bodiesOpen (streamLoop kind chunks sf k xf).1 := by
  unfold streamLoop
  cases kind
  · exact loopFile_open chunks 0 sf k xf
  · exact loopIter_open chunks 0 sf k xf

theorem twoEvents_wf (s : Nat) (h : List (String × String)) (d : Bytes) (xf : Option Nat) :
    ((twoEvents (Ev.start s h) (Ev.body d false) xf).raised = false →
        Complete (twoEvents (Ev.start s h) (Ev.body d false) xf).events) ∧
    ((twoEvents (Ev.start s h) (Ev.body d false) xf).raised = true →
        CutShort (twoEvents (Ev.start s h) (Ev.body d false) xf).events) := by
  unfold twoEvents
  split
  · exact ⟨fun hh => (by cases hh), fun _ => Or.inl rfl⟩
  · split
    · exact ⟨fun hh => (by cases hh), fun _ => Or.inr ⟨s, h, [], rfl, bodiesOpen_nil⟩⟩
    · exact ⟨fun _ => ⟨s, h, [], d, rfl, bodiesOpen_nil⟩, fun hh => by cases hh⟩

/-- **ASGI framing under every fault**: exactly one start event first; then body events of which only the last has
    `more_body = false`; nothing afterwards; if an exception (of the stream or of `send`) ended the run, what was sent
    is the start event followed only by body events with `more_body = true` (or nothing at all). -/
theorem trace_wellformed (r : Resp) (c : Cfg) (hasClose : Bool) (xf : Option Nat) :
    ((asgiTrace r c hasClose xf).raised = false → Complete (asgiTrace r c hasClose xf).events) ∧
    ((asgiTrace r c hasClose xf).raised = true → CutShort (asgiTrace r c hasClose xf).events) := by
  unfold asgiTrace
  rcases hrb : renderBody r c with ⟨data, r1⟩
  simp only
  split
  · exact twoEvents_wf _ _ _ _
  · cases data with
    | some d => exact twoEvents_wf _ _ _ _
    | none =>
      cases hs : r1.stream with
      | none => exact twoEvents_wf _ _ _ _
      | some s =>
        obtain ⟨kind, chunks⟩ := s
        simp only
        split
        · exact ⟨fun hh => (by cases hh), fun _ => Or.inl rfl⟩
        · have hopen := streamLoop_open kind chunks r1.streamFail 1 xf
          rcases hl : streamLoop kind chunks r1.streamFail 1 xf with ⟨evs, failed, k⟩
          rw [hl] at hopen
          simp only at hopen ⊢
          split
          · exact ⟨fun hh => (by cases hh), fun _ => Or.inr ⟨_, _, evs, rfl, hopen⟩⟩
          · split
            · exact ⟨fun hh => (by cases hh), fun _ => Or.inr ⟨_, _, evs, rfl, hopen⟩⟩
            · exact ⟨fun _ => ⟨_, _, evs, [], rfl, hopen⟩, fun hh => by cases hh⟩

/-- "streaming of a response stream has begun": a body-bearing, non-HEAD response whose body comes from the stream, and
    the start event went out -/
def Begun (r : Resp) (c : Cfg) (xf : Option Nat) : Prop :=
  c.head = false ∧ bodiless r.status = false ∧ rendered r = none ∧ r.stream.isSome = true ∧ xf ≠ some 0

theorem twoEvents_closes (a b : Ev) (xf : Option Nat) : (twoEvents a b xf).closes = 0 := by
  unfold twoEvents
  split
  · rfl
  · split <;> rfl

/-- **close() exactly once, once streaming has begun** - whether streaming completes, the stream raises at any call or
    `send` fails at any index (a stream object without a `close` method is, of course, not closed) -/
theorem closed_exactly_once (r : Resp) (c : Cfg) (hasClose : Bool) (xf : Option Nat) (hb : Begun r c xf) :
    (asgiTrace r c hasClose xf).closes = if hasClose then 1 else 0 := by
  obtain ⟨hh, hbl, hrd, hst, hx⟩ := hb
  obtain ⟨f1, f2, _, _⟩ := renderBody_frame r c
  have fd := renderBody_fst r c
  unfold asgiTrace
  rcases hrb : renderBody r c with ⟨data, r1⟩
  rw [hrb] at f1 f2 fd
  simp only at f1 f2 fd
  have hbb : (c.head || bodiless r1.status) = false := by rw [f1, hh, hbl]; rfl
  simp only [hbb, Bool.false_eq_true, if_false]
  have hd : data = none := by rw [fd]; exact hrd
  subst hd
  simp only
  cases hs : r1.stream with
  | none => rw [f2] at hs; rw [hs] at hst; cases hst
  | some s =>
    obtain ⟨kind, chunks⟩ := s
    simp only
    have hx0 : (xf == some 0) = false := by
      cases xf with
      | none => rfl
      | some n =>
        have : n ≠ 0 := fun h => hx (by rw [h])
        simp [this]
    simp only [hx0, Bool.false_eq_true, if_false]
    rcases streamLoop kind chunks r1.streamFail 1 xf with ⟨evs, failed, k⟩
    simp only
    split
    · rfl
    · split <;> rfl

/-- and `close()` is never called when streaming did not begin -/
theorem closes_zero_otherwise (r : Resp) (c : Cfg) (hasClose : Bool) (xf : Option Nat) (hb : ¬ Begun r c xf) :
    (asgiTrace r c hasClose xf).closes = 0 := by
  obtain ⟨f1, f2, _, _⟩ := renderBody_frame r c
  have fd := renderBody_fst r c
  unfold asgiTrace
  rcases hrb : renderBody r c with ⟨data, r1⟩
  rw [hrb] at f1 f2 fd
  simp only at f1 f2 fd
  simp only
  split
  · exact twoEvents_closes _ _ _
  · rename_i hnb
    cases data with
    | some d => exact twoEvents_closes _ _ _
    | none =>
      cases hs : r1.stream with
      | none => exact twoEvents_closes _ _ _
      | some s =>
        obtain ⟨kind, chunks⟩ := s
        simp only
        split
        · rfl
        · rename_i hx0
          exfalso
          apply hb
          have hnb' : (c.head || bodiless r.status) = false := by
            rw [← f1]; simpa using hnb
          have h1 : c.head = false := by
            cases hc : c.head with
            | false => rfl
            | true => rw [hc] at hnb'; simp at hnb'
          have h2 : bodiless r.status = false := by
            cases hbs : bodiless r.status with
            | false => rfl
            | true => rw [hbs] at hnb'; simp at hnb'
          refine ⟨h1, h2, fd.symm, ?_, ?_⟩
          · rw [← f2, hs]; rfl
          · intro hxe; rw [hxe] at hx0; simp at hx0

theorem closes_le_one (r : Resp) (c : Cfg) (hasClose : Bool) (xf : Option Nat) :
    (asgiTrace r c hasClose xf).closes ≤ 1 := by
  by_cases hb : Begun r c xf
  · rw [closed_exactly_once r c hasClose xf hb]; cases hasClose <;> decide
  · rw [closes_zero_otherwise r c hasClose xf hb]; decide

/-! ### the trace model refines `Fz.asgi` when `send` never fails -/

def evBodies : List Ev → List Bytes
  | [] => []
  | Ev.body d _ :: r => d :: evBodies r
  | Ev.start _ _ :: r => evBodies r

theorem evBodies_map (l : List Bytes) : evBodies (l.map fun d => Ev.body d true) = l := by
  induction l with
  | nil => rfl
  | cons x xs ih => simp only [List.map_cons, evBodies, ih]

theorem evBodies_append (a b : List Ev) : evBodies (a ++ b) = evBodies a ++ evBodies b := by
  induction a with
  | nil => rfl
  | cons x xs ih =>
    cases x with
    | start s h => simp only [List.cons_append, evBodies, ih]
    | body d m => simp only [List.cons_append, evBodies, ih, List.cons_append]

theorem loopIter_drain (chunks : List Bytes) : ∀ (i : Nat) (sf : Option Nat) (k : Nat),
    (loopIter chunks i sf k none).1 = (drainIter chunks sf i).1.map (fun d => Ev.body d true) ∧
    (loopIter chunks i sf k none).2.1 = (drainIter chunks sf i).2 := by
  induction chunks with
  | nil => intro i sf k; exact ⟨rfl, rfl⟩
  | cons c rest ih =>
    intro i sf k
    unfold loopIter drainIter
    by_cases hf : (sf == some i) = true
    · simp [hf]
    · have hx : ((none : Option Nat) == some k) = false := rfl
      obtain ⟨h1, h2⟩ := ih (i + 1) sf (k + 1)
      rcases hl : loopIter rest (i + 1) sf (k + 1) none with ⟨evs, r, k'⟩
      rcases hd : drainIter rest sf (i + 1) with ⟨o, e⟩
      rw [hl, hd] at h1 h2
      simp only at h1 h2
      simp [hf, hx, h1, h2]

theorem loopFile_drain (chunks : List Bytes) : ∀ (fuel i : Nat) (sf : Option Nat) (k : Nat), chunks.length < fuel →
    (loopFile chunks i sf k none).1 = (drainFile fuel chunks sf i).1.map (fun d => Ev.body d true) ∧
    (loopFile chunks i sf k none).2.1 = (drainFile fuel chunks sf i).2 := by
  induction chunks with
  | nil =>
    intro fuel i sf k hlt
    cases fuel with
    | zero => cases hlt
    | succ f =>
      unfold loopFile drainFile
      by_cases hf : (sf == some i) = true
      · simp [hf]
      · simp [hf]
  | cons c rest ih =>
    intro fuel i sf k hlt
    cases fuel with
    | zero => cases hlt
    | succ f =>
      have hlt' : rest.length < f := by simpa using hlt
      unfold loopFile drainFile
      by_cases hf : (sf == some i) = true
      · simp [hf]
      · by_cases he : c.isEmpty = true
        · simp [hf, he]
        · have hx : ((none : Option Nat) == some k) = false := rfl
          obtain ⟨h1, h2⟩ := ih f (i + 1) sf (k + 1) hlt'
          rcases hl : loopFile rest (i + 1) sf (k + 1) none with ⟨evs, r, k'⟩
          rcases hd : drainFile f rest sf (i + 1) with ⟨o, e⟩
          rw [hl, hd] at h1 h2
          simp only at h1 h2
          simp [hf, he, hx, h1, h2, hd]

/-- the first event, if any was sent, is the start event with `Fz.asgi`'s status and header list -/
theorem trace_start (r : Resp) (c : Cfg) (hasClose : Bool) (xf : Option Nat)
    (hne : (asgiTrace r c hasClose xf).events ≠ []) :
    (asgiTrace r c hasClose xf).events.head? = some (Ev.start (asgi r c).status (asgi r c).headers) := by
  have two : ∀ (st fin : Ev), (twoEvents st fin xf).events ≠ [] → (twoEvents st fin xf).events.head? = some st := by
    intro st fin h
    unfold twoEvents at h ⊢
    split
    · rename_i h0; simp [h0] at h
    · split <;> rfl
  unfold asgiTrace at hne ⊢
  rcases hrb : renderBody r c with ⟨data, r1⟩
  rw [hrb] at hne
  simp only at hne ⊢
  split
  · rename_i hb; simp only [hb, if_true] at hne; exact two _ _ hne
  · rename_i hb
    simp only [hb, Bool.false_eq_true, if_false] at hne
    cases data with
    | some d => exact two _ _ hne
    | none =>
      cases hs : r1.stream with
      | none => rw [hs] at hne; exact two _ _ hne
      | some s =>
        obtain ⟨kind, chunks⟩ := s
        rw [hs] at hne
        simp only at hne ⊢
        split
        · rename_i h0; simp [h0] at hne
        · rcases streamLoop kind chunks r1.streamFail 1 xf with ⟨evs, failed, k⟩
          simp only
          split
          · rfl
          · split <;> rfl

/-- **without a `send` fault the trace is `Fz.asgi`**: the bodies of the body events are its chunk list, and an
    exception leaves `__call__` exactly when the stream failed -/
theorem trace_refines_asgi (r : Resp) (c : Cfg) (hasClose : Bool) :
    evBodies (asgiTrace r c hasClose none).events = (asgi r c).body ∧
    (asgiTrace r c hasClose none).raised = (asgi r c).iterErr := by
  have two : ∀ (st : Ev) (d : Bytes),
      twoEvents st (Ev.body d false) none = { events := [st, Ev.body d false], closes := 0, raised := false } := by
    intro st d; rfl
  unfold asgiTrace
  generalize (asgi r c).status = s0
  generalize (asgi r c).headers = h0
  unfold asgi
  rcases hrb : renderBody r c with ⟨data, r1⟩
  simp only
  by_cases hb : (c.head || bodiless r1.status) = true
  · simp [hb, two, evBodies]
  · simp only [hb, Bool.false_eq_true, if_false]
    cases data with
    | some d => simp [two, evBodies]
    | none =>
      cases hs : r1.stream with
      | none => simp [two, evBodies]
      | some s =>
        obtain ⟨kind, chunks⟩ := s
        have hx0 : ((none : Option Nat) == some 0) = false := rfl
        simp only [hx0, Bool.false_eq_true, if_false]
        cases kind with
        | fileLike =>
          obtain ⟨h1, h2⟩ := loopFile_drain chunks (chunks.length + 1) 0 r1.streamFail 1 (Nat.lt_succ_self _)
          unfold streamLoop
          simp only
          rcases hl : loopFile chunks 0 r1.streamFail 1 none with ⟨evs, failed, k⟩
          rcases hd : drainFile (chunks.length + 1) chunks r1.streamFail 0 with ⟨o, e⟩
          rw [hl, hd] at h1 h2
          simp only at h1 h2
          subst h1 h2
          have hxk : ((none : Option Nat) == some k) = false := rfl
          cases failed <;> simp [hxk, evBodies, evBodies_append, evBodies_map]
        | iter =>
          obtain ⟨h1, h2⟩ := loopIter_drain chunks 0 r1.streamFail 1
          unfold streamLoop
          simp only
          rcases hl : loopIter chunks 0 r1.streamFail 1 none with ⟨evs, failed, k⟩
          rcases hd : drainIter chunks r1.streamFail 0 with ⟨o, e⟩
          rw [hl, hd] at h1 h2
          simp only at h1 h2
          subst h1 h2
          have hxk : ((none : Option Nat) == some k) = false := rfl
          cases failed <;> simp [hxk, evBodies, evBodies_append, evBodies_map]

end Fz

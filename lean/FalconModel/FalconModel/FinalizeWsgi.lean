import FalconModel.Finalize
/-! C05: event-level model of what a PEP 3333 **server** observes from `falcon.App.__call__`:

    * the calls of `start_response(status_line, header_pairs)` (`code_to_http_status`, falcon/util/misc.py);
    * the iterable that is returned (`App._get_body`, falcon/app.py): the list `[data]` / `[]` for a rendered body,
      `wsgi.file_wrapper(stream, block_size)` or `CloseableStreamIterator(stream, block_size)`
      (falcon/app_helpers.py) for a file-like stream, the stream object itself otherwise;
    * the server's part as PEP 3333 prescribes it: iterate the iterable - possibly abandoning it after any number of
      chunks because a write failed / the client went away -, then call `close()` on it if it has that method.

    The stream is a small state machine (`St`: chunks not yet handed out, number of `read()`/`next()` calls, number
    of `close()` calls) so that "closed exactly once" is an invariant of the run, not a constant of the model.
    Status and header list are those of `Fz.wsgi` (Finalize.lean). -/
namespace Wg
open Fz

/-! ### `code_to_http_status(resp.status)` -/

/-- the forms of `resp.status` that `code_to_http_status` distinguishes -/
inductive StatusVal where
  | enum (code : Nat) (phrase : String)   -- a member of `http.HTTPStatus`: `'{} {}'.format(value, phrase)`
  | line (s : String)                     -- a `str` containing a space: returned as is
  | code (n : Nat)                        -- an `int`, or a `str` without a space that `int()` accepts
deriving Repr

/-- `table n` is `getattr(falcon.status_codes, 'HTTP_<n>', None)`; `none` as result: `ValueError` -/
def codeToHttpStatus (sv : StatusVal) (table : Nat → Option String) : Option String :=
  match sv with
  | .enum v p => some (String.ofList (Nat.toDigits 10 v ++ ' ' :: p.toList))
  | .line s => some s
  | .code n =>
    if 100 ≤ n ∧ n ≤ 999 then
      match table n with
      | some s => some s
      | none => some (String.ofList (Nat.toDigits 10 n ++ ' ' :: "Unknown".toList))
    else none

/-- the number denoted by `resp_status[:3]`, the key of the `_BODILESS_STATUS_CODES` / `_TYPELESS_STATUS_CODES`
    membership tests (`0`, which is in neither set, when these are not three digits) -/
def prefixCode (line : String) : Nat :=
  match line.toList with
  | a :: b :: c :: _ =>
    if a.isDigit && b.isDigit && c.isDigit then (a.toNat - 48) * 100 + (b.toNat - 48) * 10 + (c.toNat - 48) else 0
  | _ => 0

/-- PEP 3333: "a string of the form `999 Message here`" -/
def validStatusLine (line : String) : Bool :=
  match line.toList with
  | a :: b :: c :: sp :: r => a.isDigit && b.isDigit && c.isDigit && sp == ' ' && !r.isEmpty
  | _ => false

/-! ### the stream object and the iterables built from it -/

/-- a response stream as the application provided it -/
structure Stream where
  kind : StreamKind          -- file-like: has `read`; otherwise an iterator
  chunks : List Bytes
  fail : Option Nat          -- index of the `read()` / `next()` call that raises
  hasClose : Bool            -- the object has a `close()` method
deriving Repr

/-- dynamic state of the stream object -/
structure St where
  rest : List Bytes          -- chunks not yet handed out
  calls : Nat                -- `read()` / `next()` calls so far
  closes : Nat               -- `close()` calls so far
deriving Repr, DecidableEq

def St.init (s : Stream) : St := { rest := s.chunks, calls := 0, closes := 0 }

/-- `stream.read(n)`: `none` = the call raises; b'' at the end of the data -/
def readS (fail : Option Nat) (st : St) : Option Bytes × St :=
  if fail == some st.calls then (none, { st with calls := st.calls + 1 }) else
  match st.rest with
  | [] => (some [], { st with calls := st.calls + 1 })
  | c :: r => (some c, { st with rest := r, calls := st.calls + 1 })

/-- result of one `next(iterable)` -/
inductive Nx where
  | data (b : Bytes)
  | stop                      -- StopIteration
  | raise                     -- the stream's exception propagates
deriving Repr, DecidableEq

/-- `next(stream)` on an iterator object -/
def nextS (fail : Option Nat) (st : St) : Nx × St :=
  if fail == some st.calls then (.raise, { st with calls := st.calls + 1 }) else
  match st.rest with
  | [] => (.stop, { st with calls := st.calls + 1 })
  | c :: r => (.data c, { st with rest := r, calls := st.calls + 1 })

/-- `stream.close()` where the object may lack the method -/
def closeS (hasClose : Bool) (st : St) : St := if hasClose then { st with closes := st.closes + 1 } else st

/-- what `App.__call__` returns to the server -/
inductive Iterable where
  | list (items : List Bytes)      -- `[data]` / `[]`: a list (no `close`)
  | wrapped (s : Stream)           -- `wsgi.file_wrapper(stream, block_size)`: an object of the server
  | closeable (s : Stream)         -- `CloseableStreamIterator(stream, block_size)`
  | plain (s : Stream)             -- `resp.stream` itself
deriving Repr

/-- `CloseableStreamIterator.__next__`: `data = self._stream.read(n); if data == b'': raise StopIteration` -/
def nextCloseable (fail : Option Nat) (st : St) : Nx × St :=
  match readS fail st with
  | (none, st') => (.raise, st')
  | (some d, st') => if d.isEmpty then (.stop, st') else (.data d, st')

/-- the `FileWrapper.__next__` of PEP 3333: `data = self.filelike.read(self.blksize); if data: return data` -/
def nextWrapped (fail : Option Nat) (st : St) : Nx × St :=
  match readS fail st with
  | (none, st') => (.raise, st')
  | (some d, st') => if d.isEmpty then (.stop, st') else (.data d, st')

/-- `CloseableStreamIterator.close`: `try: self._stream.close() except (AttributeError, TypeError): pass` -/
def closeCloseable (hasClose : Bool) (st : St) : St := closeS hasClose st

/-- the server's loop `for chunk in it: write(chunk)` over a stream-backed iterable; `ab = some k`: the server
    abandons the iterable once it has taken `k` chunks (a write failed, the client went away).
    Returns the chunks taken, whether an exception of the stream ended the loop, and the stream's state. -/
def iterate (next : St → Nx × St) : Nat → St → Option Nat → List Bytes × Bool × St
  | 0, st, _ => ([], false, st)
  | fuel + 1, st, ab =>
    if ab == some 0 then ([], false, st) else
    match next st with
    | (.raise, st') => ([], true, st')
    | (.stop, st') => ([], false, st')
    | (.data b, st') =>
      let (o, e, st'') := iterate next fuel st' (ab.map (· - 1))
      (b :: o, e, st'')

/-- everything the server observed of one request -/
structure Served where
  chunks : List Bytes         -- the byte strings the iterable yielded to the server
  iterErr : Bool              -- iterating raised
  closes : Nat                -- `close()` calls that reached the stream object
  iterableHasClose : Bool     -- the returned iterable has a `close` method (which the server then calls)
deriving Repr, DecidableEq

/-- the PEP 3333 server: iterate (abandoning after `ab` chunks), then `close()` the iterable if it has that method.
    `wrapperCloses`: the server's own `wsgi.file_wrapper` object forwards `close()` to the file (PEP 3333's does). -/
def serve (it : Iterable) (wrapperCloses : Bool) (ab : Option Nat) : Served :=
  match it with
  | .list items =>
    { chunks := match ab with | some k => items.take k | none => items,
      iterErr := false, closes := 0, iterableHasClose := false }
  | .wrapped s =>
    let (o, e, st) := iterate (nextWrapped s.fail) (s.chunks.length + 1) (St.init s) ab
    let st := if wrapperCloses then closeS s.hasClose st else st
    { chunks := o, iterErr := e, closes := st.closes, iterableHasClose := true }
  | .closeable s =>
    let (o, e, st) := iterate (nextCloseable s.fail) (s.chunks.length + 1) (St.init s) ab
    let st := closeCloseable s.hasClose st
    { chunks := o, iterErr := e, closes := st.closes, iterableHasClose := true }
  | .plain s =>
    let (o, e, st) := iterate (nextS s.fail) (s.chunks.length + 1) (St.init s) ab
    let st := closeS s.hasClose st             -- `getattr(it, 'close', None)` is the stream's own method
    { chunks := o, iterErr := e, closes := st.closes, iterableHasClose := s.hasClose }

/-! ### `App.__call__`: `start_response` calls and the returned iterable -/

/-- `App._get_body(resp, env.get('wsgi.file_wrapper'))` once `render_body()` has returned `data`;
    also the number of times `wsgi.file_wrapper` is called -/
def getBody (data : Option Bytes) (stream : Option Stream) (fileWrapper : Bool) : Iterable × Nat :=
  match data with
  | some d => (.list [d], 0)
  | none =>
    match stream with
    | some s =>
      match s.kind with
      | .fileLike => if fileWrapper then (.wrapped s, 1) else (.closeable s, 0)
      | .iter => (.plain s, 0)
    | none => (.list [], 0)

structure Call where
  starts : List (String × List (String × String))   -- every `start_response(status, headers)` call, in order
  iterable : Option Iterable                          -- the returned iterable; `none`: an exception left `__call__`
  fwCalls : Nat                                       -- calls of `wsgi.file_wrapper`
deriving Repr

/-- the static part of the response (`Fz.Resp`) that corresponds to a `Stream` -/
def withStream (r : Resp) (s : Option Stream) : Resp :=
  { r with stream := s.map (fun s => (s.kind, s.chunks)), streamFail := (s.bind (·.fail)) }

/-- tail of `falcon.App.__call__`: body selection, `code_to_http_status`, HEAD / bodiless handling, one
    `start_response` call, the iterable. `r.status` is ignored: the status code is read off the status line. -/
def call (r : Resp) (sv : StatusVal) (table : Nat → Option String) (s : Option Stream) (c : Cfg) : Call :=
  let r0 := withStream r s
  let (data, _) := renderBody r0 c
  let (body, fw) := getBody data s c.fileWrapper
  match codeToHttpStatus sv table with
  | none => { starts := [], iterable := none, fwCalls := fw }         -- ValueError leaves `__call__`
  | some line =>
    let o := wsgi { r0 with status := prefixCode line } c
    let body := if c.head || bodiless (prefixCode line) then .list [] else body
    { starts := [(line, o.headers)], iterable := some body, fwCalls := fw }

end Wg

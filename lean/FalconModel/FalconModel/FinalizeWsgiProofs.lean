import FalconModel.FinalizeWsgi
import FalconModel.FinalizeProofs2
/-! C05: theorems about the WSGI event-level model (`FinalizeWsgi.lean`):
    * `wsgi_one_start_valid_status`     `start_response` is called exactly once, with a valid status line whose code is
                                        the one the application chose, and the header pairs of `Fz.wsgi`;
    * `wsgi_chunks_are_body`            what the server takes from the iterable is the body of `Fz.wsgi` (so its
                                        concatenation is the ASGI payload, by `Fz.wsgi_asgi_agree`); a server that
                                        abandons after `k` chunks has taken the first `k`;
    * `wsgi_stream_closed_exactly_once` for every stream-fault index and every abandon index;
    * `wsgi_file_wrapper_owns_close`    what falcon guarantees when the server supplies `wsgi.file_wrapper`;
    * `wsgi_not_begun_never_closed`. -/
namespace Wg
open Fz

/-! ### status line -/

theorem toDigits3 (n : Nat) (h1 : 100 ≤ n) (h2 : n ≤ 999) :
    Nat.toDigits 10 n = [Nat.digitChar (n / 100), Nat.digitChar (n / 10 % 10), Nat.digitChar (n % 10)] := by
  rw [Nat.toDigits_of_base_le (by decide) (by omega)]
  rw [Nat.toDigits_of_base_le (by decide) (by omega)]
  rw [Nat.toDigits_of_lt_base (by omega)]
  have : n / 10 / 10 = n / 100 := by omega
  rw [this]; rfl

/-- a status line that starts with the decimal rendering of a three-digit code, a space and a non-empty phrase
    is valid and its three-character prefix denotes that code -/
theorem line_of_code (n : Nat) (h1 : 100 ≤ n) (h2 : n ≤ 999) (p : List Char) (hp : p ≠ []) :
    validStatusLine (String.ofList (Nat.toDigits 10 n ++ ' ' :: p)) = true ∧
    prefixCode (String.ofList (Nat.toDigits 10 n ++ ' ' :: p)) = n := by
  have ha : n / 100 < 10 := by omega
  have hb : n / 10 % 10 < 10 := by omega
  have hc : n % 10 < 10 := by omega
  unfold validStatusLine prefixCode
  rw [String.toList_ofList, toDigits3 n h1 h2]
  simp only [List.cons_append, List.nil_append, Nat.isDigit_digitChar, ha, hb, hc, decide_true, Bool.and_self,
    if_true, Nat.toNat_digitChar_sub_48_of_lt_ten]
  refine ⟨?_, by omega⟩
  cases p with
  | nil => exact absurd rfl hp
  | cons x xs => simp

/-- what the module `falcon.status_codes` must satisfy: `HTTP_<n>` is `"<n> <phrase>"` with a non-empty phrase -/
def TableOk (table : Nat → Option String) : Prop :=
  ∀ n s, table n = some s → ∃ p : List Char, p ≠ [] ∧ s = String.ofList (Nat.toDigits 10 n ++ ' ' :: p)

/-- the status values the property quantifies over -/
def StatusOk : StatusVal → Prop
  | .enum v p => 100 ≤ v ∧ v ≤ 999 ∧ p.toList ≠ []
  | .line s => validStatusLine s = true
  | .code n => 100 ≤ n ∧ n ≤ 999

/-- the status code the application chose -/
def codeOf : StatusVal → Nat
  | .enum v _ => v
  | .line s => prefixCode s
  | .code n => n

theorem status_line_valid (sv : StatusVal) (table : Nat → Option String) (hs : StatusOk sv) (ht : TableOk table) :
    ∃ line, codeToHttpStatus sv table = some line ∧ validStatusLine line = true ∧ prefixCode line = codeOf sv := by
  cases sv with
  | enum v p =>
    obtain ⟨h1, h2, hp⟩ := hs
    exact ⟨_, rfl, line_of_code v h1 h2 p.toList hp⟩
  | line s => exact ⟨s, rfl, hs, rfl⟩
  | code n =>
    obtain ⟨h1, h2⟩ := hs
    unfold codeToHttpStatus
    simp only [h1, h2, and_self, if_true]
    cases htn : table n with
    | none => exact ⟨_, rfl, line_of_code n h1 h2 _ (by decide)⟩
    | some s =>
      obtain ⟨p, hp, rfl⟩ := ht n s htn
      exact ⟨_, rfl, line_of_code n h1 h2 p hp⟩

/-- a status outside 100..999 given as a number: `ValueError`, nothing is handed to the server -/
theorem status_out_of_range (n : Nat) (table : Nat → Option String) (h : n < 100 ∨ 999 < n) :
    codeToHttpStatus (.code n) table = none := by
  unfold codeToHttpStatus
  have : ¬ (100 ≤ n ∧ n ≤ 999) := by omega
  simp [this]

/-- **WSGI: `start_response` is called exactly once, with a valid status line**, whose code is the one the application
    chose and decides the HEAD/bodiless handling; the header pairs are those of `Fz.wsgi` for that code; an iterable
    is returned. -/
theorem wsgi_one_start_valid_status (r : Resp) (sv : StatusVal) (table : Nat → Option String) (s : Option Stream)
    (c : Cfg) (hs : StatusOk sv) (ht : TableOk table) :
    ∃ line, (call r sv table s c).starts = [(line, (wsgi { withStream r s with status := codeOf sv } c).headers)] ∧
      validStatusLine line = true ∧ prefixCode line = codeOf sv ∧ (call r sv table s c).iterable.isSome = true := by
  obtain ⟨line, h1, h2, h3⟩ := status_line_valid sv table hs ht
  refine ⟨line, ?_, h2, h3, ?_⟩
  · unfold call; simp only [h1, h3]
  · unfold call; simp only [h1]; rfl

example : StatusOk (.code 799) ∧ StatusOk (.enum 418 "I'm a Teapot") ∧ StatusOk (.line "204 Nope") := by
  refine ⟨⟨by decide, by decide⟩, ⟨by decide, by decide, by decide⟩, ?_⟩
  show validStatusLine "204 Nope" = true
  decide

/-- an invalid numeric status: no `start_response` call at all, the exception leaves `__call__` -/
theorem wsgi_bad_status_no_start (r : Resp) (n : Nat) (table : Nat → Option String) (s : Option Stream) (c : Cfg)
    (h : n < 100 ∨ 999 < n) :
    (call r (.code n) table s c).starts = [] ∧ (call r (.code n) table s c).iterable = none := by
  unfold call; simp [status_out_of_range n table h]

end Wg
namespace Wg
open Fz

/-! ### the server's loop: `close()` is never called by iterating; the chunks are those of `Fz.wsgi` -/

theorem readS_closes (fail : Option Nat) (st : St) : (readS fail st).2.closes = st.closes := by
  unfold readS
  split
  · rfl
  · split <;> rfl

theorem nextS_closes (fail : Option Nat) (st : St) : (nextS fail st).2.closes = st.closes := by
  unfold nextS
  split
  · rfl
  · split <;> rfl

theorem nextCloseable_closes (fail : Option Nat) (st : St) : (nextCloseable fail st).2.closes = st.closes := by
  have h := readS_closes fail st
  unfold nextCloseable
  rcases hrd : readS fail st with ⟨d, st'⟩
  rw [hrd] at h
  cases d with
  | none => exact h
  | some d => simp only; split <;> exact h

theorem nextWrapped_closes (fail : Option Nat) (st : St) : (nextWrapped fail st).2.closes = st.closes :=
  nextCloseable_closes fail st

/-- iterating - to the end, up to a fault, or up to the point where the server abandons - never closes the stream -/
theorem iterate_closes (next : St → Nx × St) (h : ∀ st, (next st).2.closes = st.closes) :
    ∀ (fuel : Nat) (st : St) (ab : Option Nat), (iterate next fuel st ab).2.2.closes = st.closes := by
  intro fuel
  induction fuel with
  | zero => intro st ab; rfl
  | succ f ih =>
    intro st ab
    unfold iterate
    split
    · rfl
    · have hn := h st
      rcases hx : next st with ⟨x, st'⟩
      rw [hx] at hn
      cases x with
      | raise => exact hn
      | stop => exact hn
      | data b =>
        simp only
        have := ih st' (ab.map (· - 1))
        rcases hi : iterate next f st' (ab.map (· - 1)) with ⟨o, e, st''⟩
        rw [hi] at this
        exact this.trans hn

/-- abandoning after `k` chunks: the server has seen the first `k` chunks of the full run -/
theorem iterate_abandon (next : St → Nx × St) :
    ∀ (fuel : Nat) (st : St) (k : Nat), (iterate next fuel st (some k)).1 = ((iterate next fuel st none).1).take k := by
  intro fuel
  induction fuel with
  | zero => intro st k; simp [iterate]
  | succ f ih =>
    intro st k
    cases k with
    | zero => simp [iterate]
    | succ k =>
      unfold iterate
      have h1 : ((some (k + 1) : Option Nat) == some 0) = false := by simp
      have h2 : ((none : Option Nat) == some 0) = false := rfl
      simp only [h1, h2, Bool.false_eq_true, if_false]
      rcases hx : next st with ⟨x, st'⟩
      cases x with
      | raise => simp
      | stop => simp
      | data b =>
        simp only [Option.map_some, Option.map_none, Nat.add_sub_cancel]
        have := ih st' k
        rcases hi : iterate next f st' (some k) with ⟨o, e, st''⟩
        rcases hj : iterate next f st' none with ⟨o2, e2, st2⟩
        rw [hi, hj] at this
        simp only at this ⊢
        rw [this]; rfl

/-- an exception seen by a server that abandons is an exception of the full run -/
theorem iterate_abandon_err (next : St → Nx × St) :
    ∀ (fuel : Nat) (st : St) (k : Nat), (iterate next fuel st (some k)).2.1 = true →
      (iterate next fuel st none).2.1 = true := by
  intro fuel
  induction fuel with
  | zero => intro st k h; simp [iterate] at h
  | succ f ih =>
    intro st k
    cases k with
    | zero => intro h; simp [iterate] at h
    | succ k =>
      unfold iterate
      have h1 : ((some (k + 1) : Option Nat) == some 0) = false := by simp
      have h2 : ((none : Option Nat) == some 0) = false := rfl
      simp only [h1, h2, Bool.false_eq_true, if_false]
      rcases hx : next st with ⟨x, st'⟩
      cases x with
      | raise => simp
      | stop => simp
      | data b =>
        simp only [Option.map_some, Option.map_none, Nat.add_sub_cancel]
        have := ih st' k
        rcases hi : iterate next f st' (some k) with ⟨o, e, st''⟩
        rcases hj : iterate next f st' none with ⟨o2, e2, st2⟩
        rw [hi, hj] at this
        simpa using this

theorem nextCloseable_fail (fail : Option Nat) (st : St) (h : (fail == some st.calls) = true) :
    nextCloseable fail st = (.raise, { st with calls := st.calls + 1 }) := by
  unfold nextCloseable readS; simp [h]

theorem nextCloseable_nil (fail : Option Nat) (st : St) (h : ¬ (fail == some st.calls) = true) (hr : st.rest = []) :
    nextCloseable fail st = (.stop, { st with calls := st.calls + 1 }) := by
  unfold nextCloseable readS; simp [h, hr]

theorem nextCloseable_cons (fail : Option Nat) (st : St) (h : ¬ (fail == some st.calls) = true) (c : Bytes)
    (r : List Bytes) (hr : st.rest = c :: r) :
    nextCloseable fail st = if c.isEmpty then (.stop, { st with rest := r, calls := st.calls + 1 })
      else (.data c, { st with rest := r, calls := st.calls + 1 }) := by
  unfold nextCloseable readS; simp [h, hr]

theorem nextS_fail (fail : Option Nat) (st : St) (h : (fail == some st.calls) = true) :
    nextS fail st = (.raise, { st with calls := st.calls + 1 }) := by
  unfold nextS; simp [h]

theorem nextS_nil (fail : Option Nat) (st : St) (h : ¬ (fail == some st.calls) = true) (hr : st.rest = []) :
    nextS fail st = (.stop, { st with calls := st.calls + 1 }) := by
  unfold nextS; simp [h, hr]

theorem nextS_cons (fail : Option Nat) (st : St) (h : ¬ (fail == some st.calls) = true) (c : Bytes)
    (r : List Bytes) (hr : st.rest = c :: r) :
    nextS fail st = (.data c, { st with rest := r, calls := st.calls + 1 }) := by
  unfold nextS; simp [h, hr]

/-- `CloseableStreamIterator` / the server's file wrapper drained by the server = `Fz.drainFile` -/
theorem iterate_closeable_drain (fail : Option Nat) : ∀ (fuel : Nat) (st : St),
    (iterate (nextCloseable fail) fuel st none).1 = (drainFile fuel st.rest fail st.calls).1 ∧
    (iterate (nextCloseable fail) fuel st none).2.1 = (drainFile fuel st.rest fail st.calls).2 := by
  intro fuel
  induction fuel with
  | zero => intro st; exact ⟨rfl, rfl⟩
  | succ f ih =>
    intro st
    have h2 : ((none : Option Nat) == some 0) = false := rfl
    unfold iterate drainFile
    simp only [h2, Bool.false_eq_true, if_false, Option.map_none]
    by_cases hf : (fail == some st.calls) = true
    · rw [nextCloseable_fail fail st hf]; simp [hf]
    · simp only [hf, Bool.false_eq_true, if_false]
      cases hr : st.rest with
      | nil => rw [nextCloseable_nil fail st hf hr]; simp
      | cons c rest =>
        rw [nextCloseable_cons fail st hf c rest hr]
        simp only
        by_cases he : c.isEmpty = true
        · simp [he]
        · simp only [he, Bool.false_eq_true, if_false]
          obtain ⟨i1, i2⟩ := ih { st with rest := rest, calls := st.calls + 1 }
          simp only at i1 i2
          rcases hi : iterate (nextCloseable fail) f { st with rest := rest, calls := st.calls + 1 } none with ⟨o, e, st''⟩
          rcases hd : drainFile f rest fail (st.calls + 1) with ⟨o2, e2⟩
          rw [hi, hd] at i1 i2
          simp only at i1 i2 ⊢
          rw [i1, i2]; exact ⟨rfl, rfl⟩

/-- the stream object itself drained by the server = `Fz.drainIter` -/
theorem iterate_plain_drain (fail : Option Nat) : ∀ (fuel : Nat) (st : St), st.rest.length < fuel →
    (iterate (nextS fail) fuel st none).1 = (drainIter st.rest fail st.calls).1 ∧
    (iterate (nextS fail) fuel st none).2.1 = (drainIter st.rest fail st.calls).2 := by
  intro fuel
  induction fuel with
  | zero => intro st h; cases h
  | succ f ih =>
    intro st hlt
    have h2 : ((none : Option Nat) == some 0) = false := rfl
    unfold iterate
    simp only [h2, Bool.false_eq_true, if_false, Option.map_none]
    cases hr : st.rest with
    | nil =>
      unfold drainIter
      by_cases hf : (fail == some st.calls) = true
      · rw [nextS_fail fail st hf]; simp [hf]
      · rw [nextS_nil fail st hf hr]; simp [hf]
    | cons c rest =>
      unfold drainIter
      by_cases hf : (fail == some st.calls) = true
      · rw [nextS_fail fail st hf]; simp [hf]
      · rw [nextS_cons fail st hf c rest hr]
        simp only [hf, Bool.false_eq_true, if_false]
        have hl : rest.length < f := by rw [hr] at hlt; simpa using hlt
        obtain ⟨i1, i2⟩ := ih { st with rest := rest, calls := st.calls + 1 } hl
        simp only at i1 i2
        rcases hi : iterate (nextS fail) f { st with rest := rest, calls := st.calls + 1 } none with ⟨o, e, st''⟩
        rcases hd : drainIter rest fail (st.calls + 1) with ⟨o2, e2⟩
        rw [hi, hd] at i1 i2
        simp only at i1 i2 ⊢
        rw [i1, i2]; exact ⟨rfl, rfl⟩

end Wg
namespace Wg
open Fz

/-! ### what the server observes of a whole request -/

theorem rendered_withStream (r : Resp) (s : Option Stream) (n : Nat) :
    rendered { withStream r s with status := n } = rendered r := rfl

/-- the iterable `App.__call__` returns -/
theorem call_iterable (r : Resp) (sv : StatusVal) (table : Nat → Option String) (s : Option Stream) (c : Cfg)
    (line : String) (h : codeToHttpStatus sv table = some line) :
    (call r sv table s c).iterable =
      some (if c.head || bodiless (prefixCode line) then .list [] else (getBody (rendered r) s c.fileWrapper).1) ∧
    (call r sv table s c).fwCalls = (getBody (rendered r) s c.fileWrapper).2 := by
  have fd : (renderBody (withStream r s) c).1 = rendered r := renderBody_fst (withStream r s) c
  simp [call, h, fd]

theorem serve_list (items : List Bytes) (wc : Bool) (ab : Option Nat) :
    (serve (.list items) wc ab).closes = 0 ∧ (serve (.list items) wc ab).iterErr = false ∧
    (serve (.list items) wc none).chunks = items ∧ ∀ k, (serve (.list items) wc (some k)).chunks = items.take k :=
  ⟨rfl, rfl, rfl, fun _ => rfl⟩

theorem serve_closeable_closes (s : Stream) (wc : Bool) (ab : Option Nat) :
    (serve (.closeable s) wc ab).closes = if s.hasClose then 1 else 0 := by
  have h := iterate_closes (nextCloseable s.fail) (nextCloseable_closes s.fail) (s.chunks.length + 1) (St.init s) ab
  have h0 : (St.init s).closes = 0 := rfl
  rw [h0] at h
  unfold serve closeCloseable closeS
  simp only
  cases s.hasClose <;> simp [h]

theorem serve_plain_closes (s : Stream) (wc : Bool) (ab : Option Nat) :
    (serve (.plain s) wc ab).closes = if s.hasClose then 1 else 0 := by
  have h := iterate_closes (nextS s.fail) (nextS_closes s.fail) (s.chunks.length + 1) (St.init s) ab
  have h0 : (St.init s).closes = 0 := rfl
  rw [h0] at h
  unfold serve closeS
  simp only
  cases s.hasClose <;> simp [h]

theorem serve_wrapped_closes (s : Stream) (wc : Bool) (ab : Option Nat) :
    (serve (.wrapped s) wc ab).closes = if wc && s.hasClose then 1 else 0 := by
  have h := iterate_closes (nextWrapped s.fail) (nextWrapped_closes s.fail) (s.chunks.length + 1) (St.init s) ab
  have h0 : (St.init s).closes = 0 := rfl
  rw [h0] at h
  unfold serve closeS
  simp only
  cases wc <;> cases s.hasClose <;> simp [h]

/-- "streaming of the response stream has begun": a body-bearing, non-HEAD response whose body is taken from the
    stream (on WSGI `start_response` has always been called by the time the server gets the iterable) -/
def Begun (r : Resp) (code : Nat) (s : Option Stream) (c : Cfg) : Prop :=
  c.head = false ∧ bodiless code = false ∧ rendered r = none ∧ s.isSome = true

/-- **WSGI: once streaming has begun the stream's `close()` is called exactly once** - for every index at which the
    stream raises and every number of chunks after which the server abandons the iterable (including none and zero),
    for a file-like stream wrapped in `CloseableStreamIterator`, a file-like stream handed to a `wsgi.file_wrapper`
    that forwards `close()` as PEP 3333's does, and an iterable stream that is returned as it is.
    (A stream object without a `close` method is, of course, not closed.) -/
theorem wsgi_stream_closed_exactly_once (r : Resp) (sv : StatusVal) (table : Nat → Option String) (st : Stream)
    (c : Cfg) (wc : Bool) (ab : Option Nat) (hs : StatusOk sv) (ht : TableOk table)
    (hb : Begun r (codeOf sv) (some st) c) (hw : c.fileWrapper = true → st.kind = .fileLike → wc = true) :
    ∃ it, (call r sv table (some st) c).iterable = some it ∧
      (serve it wc ab).closes = if st.hasClose then 1 else 0 := by
  obtain ⟨line, h1, _, h3⟩ := status_line_valid sv table hs ht
  obtain ⟨hh, hbl, hrd, _⟩ := hb
  obtain ⟨hit, _⟩ := call_iterable r sv table (some st) c line h1
  rw [h3, hh, hbl, hrd] at hit
  refine ⟨_, hit, ?_⟩
  simp only [Bool.or_self, Bool.false_eq_true, if_false]
  unfold getBody
  simp only
  cases hk : st.kind with
  | iter => exact serve_plain_closes st wc ab
  | fileLike =>
    simp only
    cases hf : c.fileWrapper with
    | false => exact serve_closeable_closes st wc ab
    | true =>
      simp only [if_true]
      rw [serve_wrapped_closes, hw hf hk]; rfl

example : Begun { status := 0, text := none, data := none, media := none, stream := none, streamFail := none,
                  headers := [], cookies := [] } 200
    (some { kind := .fileLike, chunks := [[1], [2]], fail := some 1, hasClose := true })
    { head := false, appDefaultType := none, respDefaultType := none, fileWrapper := false } :=
  ⟨rfl, rfl, rfl, rfl⟩

/-- **what falcon guarantees under `wsgi.file_wrapper`**: the wrapper is called exactly once, with the stream object
    untouched (no `read`, no `close` yet); what it returns is returned to the server unchanged; and falcon itself never
    closes the stream - every `close()` that reaches it is the wrapper's (none if the wrapper does not forward it). -/
theorem wsgi_file_wrapper_owns_close (r : Resp) (sv : StatusVal) (table : Nat → Option String) (st : Stream)
    (c : Cfg) (wc : Bool) (ab : Option Nat) (hs : StatusOk sv) (ht : TableOk table)
    (hb : Begun r (codeOf sv) (some st) c) (hf : c.fileWrapper = true) (hk : st.kind = .fileLike) :
    (call r sv table (some st) c).iterable = some (.wrapped st) ∧ (call r sv table (some st) c).fwCalls = 1 ∧
    (serve (.wrapped st) wc ab).closes = (if wc && st.hasClose then 1 else 0) ∧
    (serve (.wrapped st) false ab).closes = 0 := by
  obtain ⟨line, h1, _, h3⟩ := status_line_valid sv table hs ht
  obtain ⟨hh, hbl, hrd, _⟩ := hb
  obtain ⟨hit, hfw⟩ := call_iterable r sv table (some st) c line h1
  rw [h3, hh, hbl, hrd] at hit
  rw [hrd] at hfw
  refine ⟨?_, ?_, serve_wrapped_closes st wc ab, ?_⟩
  · rw [hit]; unfold getBody; simp [hk, hf]
  · rw [hfw]; unfold getBody; simp [hk, hf]
  · rw [serve_wrapped_closes]; rfl

/-- when streaming does not begin (HEAD, bodiless status, another body source wins, no stream) the server gets a list
    and the stream is never closed -/
theorem wsgi_not_begun_never_closed (r : Resp) (sv : StatusVal) (table : Nat → Option String) (s : Option Stream)
    (c : Cfg) (wc : Bool) (ab : Option Nat) (hs : StatusOk sv) (ht : TableOk table)
    (hb : ¬ Begun r (codeOf sv) s c) :
    ∃ it, (call r sv table s c).iterable = some it ∧ (serve it wc ab).closes = 0 ∧
      (serve it wc ab).iterableHasClose = false := by
  obtain ⟨line, h1, _, h3⟩ := status_line_valid sv table hs ht
  obtain ⟨hit, _⟩ := call_iterable r sv table s c line h1
  rw [h3] at hit
  refine ⟨_, hit, ?_⟩
  by_cases hc : (c.head || bodiless (codeOf sv)) = true
  · simp only [hc, if_true]; exact ⟨rfl, rfl⟩
  · simp only [hc, Bool.false_eq_true, if_false]
    unfold getBody
    cases hr : rendered r with
    | some d => exact ⟨rfl, rfl⟩
    | none =>
      cases s with
      | none => exact ⟨rfl, rfl⟩
      | some st =>
        exfalso; apply hb
        have h1 : c.head = false := by
          cases hx : c.head with
          | false => rfl
          | true => rw [hx] at hc; simp at hc
        have h2 : bodiless (codeOf sv) = false := by
          cases hx : bodiless (codeOf sv) with
          | false => rfl
          | true => rw [hx] at hc; simp at hc
        exact ⟨h1, h2, hr, rfl⟩

/-- **WSGI: the byte strings the server takes from the iterable are the body of `Fz.wsgi`** - hence (by
    `Fz.wsgi_asgi_agree`) their concatenation is what the ASGI model sends -; the iteration raises exactly when
    `Fz.wsgi` says the stream fails; a server that abandons after `k` chunks has taken the first `k` of them. -/
theorem wsgi_chunks_are_body (r : Resp) (sv : StatusVal) (table : Nat → Option String) (s : Option Stream) (c : Cfg)
    (wc : Bool) (hs : StatusOk sv) (ht : TableOk table) :
    ∃ it, (call r sv table s c).iterable = some it ∧
      (serve it wc none).chunks = (wsgi { withStream r s with status := codeOf sv } c).body ∧
      (serve it wc none).iterErr = (wsgi { withStream r s with status := codeOf sv } c).iterErr ∧
      (serve it wc none).chunks.flatten = (asgi { withStream r s with status := codeOf sv } c).payload ∧
      (∀ k, (serve it wc (some k)).chunks = ((wsgi { withStream r s with status := codeOf sv } c).body).take k) ∧
      (∀ k, (serve it wc (some k)).iterErr = true → (serve it wc none).iterErr = true) := by
  obtain ⟨line, h1, _, h3⟩ := status_line_valid sv table hs ht
  obtain ⟨hit, _⟩ := call_iterable r sv table s c line h1
  rw [h3] at hit
  -- the three facts about one iterable
  suffices hmain : ∀ it, (call r sv table s c).iterable = some it →
      (serve it wc none).chunks = (wsgi { withStream r s with status := codeOf sv } c).body ∧
      (serve it wc none).iterErr = (wsgi { withStream r s with status := codeOf sv } c).iterErr ∧
      (∀ k, (serve it wc (some k)).chunks = ((serve it wc none).chunks).take k) ∧
      (∀ k, (serve it wc (some k)).iterErr = true → (serve it wc none).iterErr = true) by
    obtain ⟨a, b, d, e⟩ := hmain _ hit
    refine ⟨_, hit, a, b, ?_, ?_, e⟩
    · rw [a, ← (wsgi_asgi_agree _ c).2.2.1]; rfl
    · intro k; rw [d k, a]
  intro it hitE
  rw [hit] at hitE
  have hitE := (Option.some.inj hitE).symm
  subst hitE
  obtain ⟨f1, f2, f3, _⟩ := renderBody_frame { withStream r s with status := codeOf sv } c
  have fd := renderBody_fst { withStream r s with status := codeOf sv } c
  rw [rendered_withStream] at fd
  unfold wsgi
  rcases hrb : renderBody { withStream r s with status := codeOf sv } c with ⟨data, r1⟩
  rw [hrb] at f1 f2 f3 fd
  simp only at f1 f2 f3 fd
  have f1' : r1.status = codeOf sv := f1
  simp only [f1']
  by_cases hc : (c.head || bodiless (codeOf sv)) = true
  · simp only [hc, if_true]
    exact ⟨rfl, rfl, fun _ => by simp [serve], fun _ h => h⟩
  · simp only [hc, Bool.false_eq_true, if_false]
    rw [← fd]
    unfold getBody
    cases data with
    | some d => exact ⟨rfl, rfl, fun _ => rfl, fun _ h => h⟩
    | none =>
      simp only
      cases s with
      | none =>
        have : r1.stream = none := f2
        simp only [this]
        exact ⟨rfl, rfl, fun _ => by simp [serve], fun _ h => h⟩
      | some st =>
        have e2 : r1.stream = some (st.kind, st.chunks) := f2
        have e3 : r1.streamFail = st.fail := f3
        simp only [e2, e3]
        cases hk : st.kind with
        | iter =>
          simp only
          obtain ⟨i1, i2⟩ := iterate_plain_drain st.fail (st.chunks.length + 1) (St.init st) (Nat.lt_succ_self _)
          have j1 := iterate_abandon (nextS st.fail) (st.chunks.length + 1) (St.init st)
          have j2 := iterate_abandon_err (nextS st.fail) (st.chunks.length + 1) (St.init st)
          unfold serve
          rcases hd : drainIter st.chunks st.fail 0 with ⟨o2, e2'⟩
          have hd' : drainIter (St.init st).rest st.fail (St.init st).calls = (o2, e2') := hd
          rw [hd'] at i1 i2
          rcases hi : iterate (nextS st.fail) (st.chunks.length + 1) (St.init st) none with ⟨o, e, st'⟩
          rw [hi] at i1 i2 j1 j2
          simp only at i1 i2 j1 j2 ⊢
          simp only [hi]
          refine ⟨i1, i2, ?_, ?_⟩
          · intro k
            have := j1 k
            rcases hk' : iterate (nextS st.fail) (st.chunks.length + 1) (St.init st) (some k) with ⟨ok, ek, sk⟩
            rw [hk'] at this
            exact this
          · intro k
            have := j2 k
            rcases hk' : iterate (nextS st.fail) (st.chunks.length + 1) (St.init st) (some k) with ⟨ok, ek, sk⟩
            rw [hk'] at this
            exact this
        | fileLike =>
          simp only
          obtain ⟨i1, i2⟩ := iterate_closeable_drain st.fail (st.chunks.length + 1) (St.init st)
          have j1 := iterate_abandon (nextCloseable st.fail) (st.chunks.length + 1) (St.init st)
          have j2 := iterate_abandon_err (nextCloseable st.fail) (st.chunks.length + 1) (St.init st)
          rcases hd : drainFile (st.chunks.length + 1) st.chunks st.fail 0 with ⟨o2, e2'⟩
          have hd' : drainFile (st.chunks.length + 1) (St.init st).rest st.fail (St.init st).calls = (o2, e2') := hd
          rw [hd'] at i1 i2
          rcases hi : iterate (nextCloseable st.fail) (st.chunks.length + 1) (St.init st) none with ⟨o, e, st'⟩
          rw [hi] at i1 i2 j1 j2
          simp only at i1 i2 j1 j2
          have hi' : iterate (nextWrapped st.fail) (st.chunks.length + 1) (St.init st) none = (o, e, st') := hi
          cases hf : c.fileWrapper with
          | false =>
            simp only [Bool.false_eq_true, if_false]
            unfold serve
            simp only [hi]
            refine ⟨i1, i2, ?_, ?_⟩
            · intro k
              have := j1 k
              rcases hk' : iterate (nextCloseable st.fail) (st.chunks.length + 1) (St.init st) (some k) with ⟨ok, ek, sk⟩
              rw [hk'] at this
              exact this
            · intro k
              have := j2 k
              rcases hk' : iterate (nextCloseable st.fail) (st.chunks.length + 1) (St.init st) (some k) with ⟨ok, ek, sk⟩
              rw [hk'] at this
              exact this
          | true =>
            simp only [if_true]
            unfold serve
            simp only [hi']
            refine ⟨i1, i2, ?_, ?_⟩
            · intro k
              have := j1 k
              rcases hk' : iterate (nextCloseable st.fail) (st.chunks.length + 1) (St.init st) (some k) with ⟨ok, ek, sk⟩
              have hk'' : iterate (nextWrapped st.fail) (st.chunks.length + 1) (St.init st) (some k) = (ok, ek, sk) := hk'
              rw [hk'] at this
              simp only [hk'']
              exact this
            · intro k
              have := j2 k
              rcases hk' : iterate (nextCloseable st.fail) (st.chunks.length + 1) (St.init st) (some k) with ⟨ok, ek, sk⟩
              have hk'' : iterate (nextWrapped st.fail) (st.chunks.length + 1) (St.init st) (some k) = (ok, ek, sk) := hk'
              rw [hk'] at this
              simp only [hk'']
              exact this

end Wg

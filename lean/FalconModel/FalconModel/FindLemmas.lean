import FalconModel.Reader
/-! Lemmas about `bytes.find` as modelled in `Rd.find` — first occurrence of a non-empty needle. -/
namespace Rd

/-- `d` occurs in `hay` at offset `i` -/
def occ (d hay : Bytes) (i : Nat) : Prop := isPrefix d (hay.drop i) = true

theorem isPrefix_iff (d l : Bytes) : isPrefix d l = true ↔ l.take d.length = d ∧ d.length ≤ l.length := by
  induction d generalizing l with
  | nil => simp [isPrefix]
  | cons a as ih =>
    cases l with
    | nil => simp [isPrefix]
    | cons b bs =>
      simp only [isPrefix, Bool.and_eq_true, beq_iff_eq, ih, List.length_cons, List.take_succ_cons,
        List.cons.injEq]
      constructor
      · rintro ⟨rfl, h1, h2⟩; exact ⟨⟨rfl, h1⟩, by omega⟩
      · rintro ⟨⟨rfl, h1⟩, h2⟩; exact ⟨rfl, h1, by omega⟩

theorem occ_iff (d hay : Bytes) (i : Nat) (hd : d ≠ []) :
    occ d hay i ↔ (hay.drop i).take d.length = d ∧ i + d.length ≤ hay.length := by
  unfold occ
  rw [isPrefix_iff, List.length_drop]
  constructor
  · rintro ⟨h1, h2⟩
    refine ⟨h1, ?_⟩
    by_cases hi : i ≤ hay.length
    · omega
    · -- drop beyond the end is empty: then d = []
      have : hay.drop i = [] := List.drop_of_length_le (by omega)
      rw [this] at h1; simp at h1
      exact absurd h1 hd
  · rintro ⟨h1, h2⟩; exact ⟨h1, by omega⟩

/-- `findAux` returns the first occurrence (shifted by the running index) or -1 -/
theorem findAux_spec (d : Bytes) (hd : d ≠ []) : ∀ (l : Bytes) (i : Nat),
    (findAux d l i = -1 ∧ ∀ j, ¬ occ d l j) ∨
    (∃ j, findAux d l i = ((i + j : Nat) : Int) ∧ occ d l j ∧ ∀ j' < j, ¬ occ d l j') := by
  intro l
  induction l with
  | nil =>
    intro i
    left
    refine ⟨by simp [findAux], ?_⟩
    intro j h
    unfold occ at h
    cases d with
    | nil => exact hd rfl
    | cons a as => simp [isPrefix] at h
  | cons h t ih =>
    intro i
    simp only [findAux]
    by_cases hp : isPrefix d (h :: t) = true
    · right
      refine ⟨0, by simp [hp], by simpa [occ] using hp, by intro j' hj'; omega⟩
    · simp only [hp, Bool.false_eq_true, if_false]
      rcases ih (i + 1) with ⟨h1, h2⟩ | ⟨j, h1, h2, h3⟩
      · left
        refine ⟨h1, ?_⟩
        intro j hj
        cases j with
        | zero => exact hp (by simpa [occ] using hj)
        | succ j' => exact h2 j' (by simpa [occ] using hj)
      · right
        refine ⟨j + 1, ?_, by simpa [occ] using h2, ?_⟩
        · rw [h1]; congr 1; omega
        · intro j' hj'
          cases j' with
          | zero => intro hc; exact hp (by simpa [occ] using hc)
          | succ j'' => intro hc; exact h3 j'' (by omega) (by simpa [occ] using hc)

theorem occ_drop (d hay : Bytes) (s j : Nat) : occ d (hay.drop s) j ↔ occ d hay (s + j) := by
  unfold occ; rw [List.drop_drop]

/-- `b.find(d, start)` for `0 ≤ start ≤ len`: -1 iff no occurrence at or after `start`; otherwise the first one -/
theorem find_spec (b d : Bytes) (start : Int) (hd : d ≠ []) (h0 : 0 ≤ start) (h1 : start ≤ b.length) :
    (find b d start = -1 ∧ ∀ j, start.toNat ≤ j → ¬ occ d b j) ∨
    (∃ p : Nat, find b d start = (p : Int) ∧ start.toNat ≤ p ∧ occ d b p ∧ ∀ j, start.toNat ≤ j → j < p → ¬ occ d b j) := by
  unfold find
  have hs : pyIdx b.length start = start.toNat := by
    unfold pyIdx
    have : ¬ start < 0 := by omega
    have h2 : ¬ start > b.length := by omega
    simp [this, h2]
  rw [hs]
  rcases findAux_spec d hd (b.drop start.toNat) start.toNat with ⟨h2, h3⟩ | ⟨j, h2, h3, h4⟩
  · left
    refine ⟨h2, ?_⟩
    intro j hj hc
    have : j = start.toNat + (j - start.toNat) := by omega
    rw [this, ← occ_drop] at hc
    exact h3 _ hc
  · right
    refine ⟨start.toNat + j, h2, by omega, (occ_drop _ _ _ _).mp h3, ?_⟩
    intro j' hj' hlt hc
    have : j' = start.toNat + (j' - start.toNat) := by omega
    rw [this, ← occ_drop] at hc
    exact h4 _ (by omega) hc

#print axioms find_spec
end Rd

namespace Rd
/-! ### occurrences and concatenation -/

theorem occ_append_left (d a b : Bytes) (j : Nat) (hd : d ≠ []) (hfit : j + d.length ≤ a.length) :
    occ d (a ++ b) j ↔ occ d a j := by
  rw [occ_iff _ _ _ hd, occ_iff _ _ _ hd]
  have h1 : ((a ++ b).drop j).take d.length = (a.drop j).take d.length := by
    rw [List.drop_append_of_le_length (by omega), List.take_append_of_le_length (by rw [List.length_drop]; omega)]
  rw [h1, List.length_append]
  constructor
  · rintro ⟨h, _⟩; exact ⟨h, hfit⟩
  · rintro ⟨h, _⟩; exact ⟨h, by omega⟩

theorem occ_append_right (d a b : Bytes) (j : Nat) : occ d (a ++ b) (a.length + j) ↔ occ d b j := by
  unfold occ
  rw [List.drop_append, List.drop_of_length_le (by omega), Nat.add_sub_cancel_left, List.nil_append]

/-- an occurrence that starts in `a` but does not fit in `a` starts within the last `|d| - 1` bytes of `a` -/
theorem occ_straddle (d a b : Bytes) (j : Nat) (hj : j < a.length) (hnf : ¬ j + d.length ≤ a.length) :
    a.length - (d.length - 1) ≤ j := by omega

/-- prefix property: an occurrence in a longer text restricted to a prefix that contains it -/
theorem occ_take (d l : Bytes) (j n : Nat) (hd : d ≠ []) (hfit : j + d.length ≤ n) :
    occ d (l.take n) j ↔ occ d l j := by
  conv => rhs; rw [← List.take_append_drop n l]
  by_cases hn : n ≤ l.length
  · rw [occ_append_left _ _ _ _ hd (by rw [List.length_take]; omega)]
  · have : l.drop n = [] := List.drop_of_length_le (by omega)
    rw [this, List.append_nil]

/-- first occurrence of `d` in `l`, if any -/
def firstOcc (d l : Bytes) : Option Nat :=
  let p := find l d 0
  if p < 0 then none else some p.toNat

theorem firstOcc_spec (d l : Bytes) (hd : d ≠ []) :
    (firstOcc d l = none ∧ ∀ j, ¬ occ d l j) ∨
    (∃ p, firstOcc d l = some p ∧ occ d l p ∧ ∀ j < p, ¬ occ d l j) := by
  unfold firstOcc
  rcases find_spec l d 0 hd (Int.le_refl 0) (by omega) with ⟨h1, h2⟩ | ⟨p, h1, _, h3, h4⟩
  · left; simp only [h1]
    exact ⟨by simp, fun j => h2 j (by simp)⟩
  · right
    refine ⟨p, ?_, h3, fun j hj => h4 j (by simp) hj⟩
    simp only [h1]
    have : ¬ ((p : Int) < 0) := by omega
    simp [this]

/-- how far `read_until(d, size)` goes on the flat text `A` -/
def stopAt (d A : Bytes) (size : Nat) : Nat :=
  min size ((firstOcc d A).getD A.length)

#print axioms firstOcc_spec
end Rd

namespace Rd
theorem occ_lt_length (d l : Bytes) (j : Nat) (hd : d ≠ []) (h : occ d l j) : j < l.length := by
  have := ((occ_iff d l j hd).mp h).2
  have : 0 < d.length := List.length_pos_iff.mpr hd
  omega

theorem stopAt_of_occ (d A : Bytes) (size p : Nat) (hd : d ≠ []) (hp : occ d A p) (hno : ∀ j < p, ¬ occ d A j) :
    stopAt d A size = min size p := by
  unfold stopAt
  rcases firstOcc_spec d A hd with ⟨_, h2⟩ | ⟨q, h1, h2, h3⟩
  · exact absurd hp (h2 p)
  · rw [h1]; simp only [Option.getD_some]
    have : q = p := by
      rcases Nat.lt_trichotomy q p with h | h | h
      · exact absurd h2 (hno q h)
      · exact h
      · exact absurd hp (h3 p h)
    rw [this]

theorem stopAt_no_occ_before (d A : Bytes) (size : Nat) (hd : d ≠ []) (hno : ∀ j < size, ¬ occ d A j)
    (hle : size ≤ A.length) : stopAt d A size = size := by
  unfold stopAt
  rcases firstOcc_spec d A hd with ⟨h1, _⟩ | ⟨q, h1, h2, _⟩
  · rw [h1]; simp only [Option.getD_none]; omega
  · rw [h1]; simp only [Option.getD_some]
    have : size ≤ q := by
      rcases Nat.lt_or_ge q size with h | h
      · exact absurd h2 (hno q h)
      · exact h
    omega

theorem stopAt_none (d A : Bytes) (size : Nat) (hd : d ≠ []) (hno : ∀ j, ¬ occ d A j) :
    stopAt d A size = min size A.length := by
  unfold stopAt
  rcases firstOcc_spec d A hd with ⟨h1, _⟩ | ⟨q, _, h2, _⟩
  · rw [h1]; rfl
  · exact absurd h2 (hno q)
end Rd

namespace Rd
/-- **cross-chunk delimiter detection** (`fragment = buffer[offset:] + next_chunk[:len(d)-1]`):
    if no occurrence of `d` lies entirely inside `b` at or after `pos`, then the first occurrence of `d` in
    `b ++ c` at or after `pos` that starts inside `b` is found exactly by searching the fragment. -/
theorem fragment_first_occ (d b c : Bytes) (pos : Nat) (hd : d ≠ []) (hpos : pos ≤ b.length)
    (hno : ∀ j, pos ≤ j → ¬ occ d b j) :
    let dl1 := d.length - 1
    let offset := max (b.length - dl1) pos
    let fragment := b.drop offset ++ c.take dl1
    (∀ j, occ d fragment j ↔ (occ d (b ++ c) (offset + j) ∧ offset + j < b.length)) := by
  intro dl1 offset fragment j
  have hdl : 0 < d.length := List.length_pos_iff.mpr hd
  have hoff : offset ≤ b.length := by simp only [offset]; omega
  have hfl : fragment.length = (b.length - offset) + min dl1 c.length := by
    simp only [fragment, List.length_append, List.length_drop, List.length_take]
  -- the fragment is a prefix of (b ++ c).drop offset
  have hbl : (b.drop offset).length = b.length - offset := List.length_drop ..
  have hpre : fragment = ((b ++ c).drop offset).take ((b.drop offset).length + dl1) := by
    simp only [fragment]
    rw [List.drop_append_of_le_length hoff, List.take_append,
      List.take_of_length_le (Nat.le_add_right _ _), Nat.add_sub_cancel_left]
  constructor
  · intro h
    have hfit := ((occ_iff d fragment j hd).mp h).2
    refine ⟨?_, by omega⟩
    rw [hpre, occ_take _ _ _ _ hd (by omega), occ_drop] at h
    exact h
  · rintro ⟨h, hlt⟩
    have hfit := ((occ_iff d (b ++ c) (offset + j) hd).mp h).2
    rw [List.length_append] at hfit
    rw [hpre, occ_take _ _ _ _ hd (by simp only [dl1]; omega), occ_drop]
    exact h

#print axioms fragment_first_occ
end Rd

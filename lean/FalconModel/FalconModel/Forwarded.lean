import FalconModel.HeaderParsers
/-! C09: the `Forwarded` header (RFC 7239) and `access_route`.

    Transcribed from `falcon/forwarded.py::_parse_forwarded_header`, `falcon/util/uri.py::unquote_string`,
    and `access_route` in `falcon/request.py` / `falcon/asgi/request.py` (which calls `Hp.parseHost`).

    The regular expression `_FORWARDED_PAIR_RE`

        ([tchar]+)=([tchar]+|"(?:\\[\t !-~]|[qdtext])*")

    is replaced by a native scanner (`matchPair`).  It is deterministic, hence backtracking never changes the result:
    `=` is not a tchar (the greedy name is the maximal tchar run); a value that starts with a tchar takes the first
    alternative with the maximal run; inside the quotes `\` and `"` are not qdtext (the character class contains `\]`,
    i.e. an escaped `]`, so 0x5C itself is excluded), so each position is consumed in exactly one way and the loop
    stops at the first character that is neither - which must be the closing quote.

    A header value is a Latin-1 `str` = `List Char` (`Hp.Str`). -/
namespace Fw
open Hp (Str)

/-- RFC 9110 tchar: `string.digits + string.ascii_letters + "!#$%&'*+.^_`|~-"` -/
def isTchar (c : Char) : Bool :=
  c.isDigit || c.isAlpha || c == '!' || c == '#' || c == '$' || c == '%' || c == '&' || c == '\'' || c == '*' || c == '+' ||
  c == '.' || c == '^' || c == '_' || c == '`' || c == '|' || c == '~' || c == '-'

/-- `_QDTEXT`: 0x09, 0x20, 0x21, 0x23-0x5B, 0x5D-0x7E -/
def isQd (c : Char) : Bool :=
  let n := c.toNat
  n == 9 || n == 32 || n == 33 || (35 ≤ n && n ≤ 91) || (93 ≤ n && n ≤ 126)

/-- second character of `_QUOTED_PAIR` (`[\t !-~]`): 0x09, 0x20-0x7E -/
def isQp (c : Char) : Bool :=
  let n := c.toNat
  n == 9 || (32 ≤ n && n ≤ 126)

/-- maximal run of tchars and what follows it (`[tchar]*`, greedy) -/
def spanTok : Str → Str × Str
  | [] => ([], [])
  | c :: r => if isTchar c then (c :: (spanTok r).1, (spanTok r).2) else ([], c :: r)

/-- after the opening quote: the raw text up to the closing quote (escapes kept) and what follows the closing quote -/
def scanQ : Str → Option (Str × Str)
  | [] => none
  | '"' :: r => some ([], r)
  | '\\' :: c :: r => if isQp c then (scanQ r).map fun (v, rest) => ('\\' :: c :: v, rest) else none
  | c :: r => if isQd c then (scanQ r).map fun (v, rest) => (c :: v, rest) else none

/-- `_FORWARDED_PAIR_RE.match(s, pos)` on the suffix `s[pos:]`: (group 1, group 2, the text after the match) -/
def matchPair (s : Str) : Option (Str × Str × Str) :=
  match spanTok s with
  | ([], _) => none
  | (name, '=' :: r) =>
    match spanTok r with
    | ([], _) =>
      match r with
      | '"' :: q => (scanQ q).map fun (v, rest) => (name, '"' :: (v ++ ['"']), rest)
      | _ => none
    | (tok, rest) => some (name, tok, rest)
  | _ => none

/-! ### `falcon.util.uri.unquote_string` (three code paths) -/
/-- `'\\\\' in s` (two adjacent backslashes) -/
def hasDbl : Str → Bool
  | '\\' :: '\\' :: _ => true
  | _ :: r => hasDbl r
  | [] => false

/-- `s.split('\\\\')`: left-to-right, non-overlapping -/
def splitDbl : Str → List Str
  | [] => [[]]
  | '\\' :: '\\' :: r => [] :: splitDbl r
  | c :: r =>
    match splitDbl r with
    | h :: t => (c :: h) :: t
    | [] => [[c]]

/-- `s.replace('\\', '')` -/
def dropBs (s : Str) : Str := s.filter (· != '\\')

/-- `'\\'.join(parts)` -/
def joinBs : List Str → Str
  | [] => []
  | [a] => a
  | a :: b :: t => a ++ '\\' :: joinBs (b :: t)

def unquoteString (q : Str) : Str :=
  if q.length < 2 then q
  else if q.head? != some '"' || q.getLast? != some '"' then q
  else
    let tmp := (q.drop 1).dropLast
    if !tmp.contains '\\' then tmp
    else if !hasDbl tmp then dropBs tmp
    else joinBs ((splitDbl tmp).map dropBs)

/-! ### `str.lower()` on Latin-1 -/
def lowerC (c : Char) : Char :=
  let n := c.toNat
  if (65 ≤ n && n ≤ 90) || (192 ≤ n && n ≤ 222 && n != 215) then Char.ofNat (n + 32) else c

def lowerS (s : Str) : Str := s.map lowerC

/-! ### the element loop -/
structure Fwd where
  src : Option Str := none
  dest : Option Str := none
  host : Option Str := none
  scheme : Option Str := none
  deriving Repr, DecidableEq

/-- `if value[0] == '"': value = unquote_string(value)` -/
def procValue (v : Str) : Str := if v.head? == some '"' then unquoteString v else v

/-- the `if name == 'by' … elif name == 'proto'` chain (`name` already lower-cased) -/
def setField (e : Fwd) (name value : Str) : Fwd :=
  if name == ['b', 'y'] then { e with dest := some value }
  else if name == ['f', 'o', 'r'] then { e with src := some value }
  else if name == ['h', 'o', 's', 't'] then { e with host := some value }
  else if name == ['p', 'r', 'o', 't', 'o'] then { e with scheme := some (lowerS value) }
  else e

/-- `forwarded.find(',', pos)` as the suffix from that comma (`[]` when there is none: `pos = -1` ends the loop) -/
def skipToComma : Str → Str
  | [] => []
  | c :: r => if c == ',' then c :: r else skipToComma r

/-- one iteration of the `while 0 <= pos < end` loop at `forwarded[pos:] = c :: r`; `cur` = `parsed_element`.
    Result: (the element appended to `elements` in this iteration, if any; the new suffix; `need_separator`; `parsed_element`).
    `forwarded.find(',', pos)` is taken from `r`: in both places `forwarded[pos]` is known not to be a comma. -/
def step (c : Char) (r : Str) (needSep : Bool) (cur : Option Fwd) : Option Fwd × Str × Bool × Option Fwd :=
  match matchPair (c :: r) with
  | some (name, value, rest) =>
    if needSep then (none, skipToComma r, needSep, cur)       -- bad syntax here, skip to next comma
    else (none, rest, true, some (setField (cur.getD {}) (lowerS name) (procValue value)))
  | none =>
    if c == ',' then (cur, r, false, none)                     -- next forwarded-element
    else if c == ';' then (none, r, false, cur)                -- next forwarded-pair
    else if c == ' ' || c == '\t' then (none, r, needSep, cur)
    else (none, skipToComma r, needSep, cur)                   -- bad syntax here, skip to next comma

/-- the loop; the result is what is appended to `elements` from here on (including the final
    `if parsed_element: elements.append(parsed_element)`).
    Every iteration moves `pos` forward, so `fuel = len(forwarded)` iterations are enough (`parseGo_fuel`). -/
def parseGo : Nat → Str → Bool → Option Fwd → List Fwd
  | 0, _, _, cur => cur.toList
  | _ + 1, [], _, cur => cur.toList
  | fuel + 1, c :: r, needSep, cur =>
    let st := step c r needSep cur
    st.1.toList ++ parseGo fuel st.2.1 st.2.2.1 st.2.2.2

/-- `_parse_forwarded_header` -/
def parseForwarded (s : Str) : List Fwd := parseGo s.length s false none

/-! ### `access_route` -/
/-- `s.rpartition(':')[0]` -/
def rpartColon (s : Str) : Str :=
  match Hp.breakOn ':' s.reverse with
  | (_, some b) => b.reverse
  | (_, none) => []

/-- `s.strip('[]')` -/
def stripBr (s : Str) : Str := Hp.stripW (fun c => c == '[' || c == ']') s

/-- `try: host, _ = parse_host(src)  except ValueError: host = src.rpartition(':')[0].strip('[]')` -/
def routeHost (src : Str) : Str :=
  match Hp.parseHost src none with
  | .ok h _ => h
  | .valueError => stripBr (rpartColon src)

/-- `s.split(c)` -/
def splitOn (c : Char) : Str → List Str
  | [] => [[]]
  | x :: r =>
    if x == c then [] :: splitOn c r
    else match splitOn c r with
      | h :: t => (x :: h) :: t
      | [] => [[x]]

/-- the tail of `access_route`: append `remote_addr` unless it equals the last entry; an empty list becomes
    `[remote_addr]` (ASGI: `[client] if client else []`) -/
def finishRoute (asgi : Bool) (route : List Str) (remote : Str) : List Str :=
  if route.isEmpty then (if asgi && remote.isEmpty then [] else [remote])
  else if route.getLast? != some remote then route ++ [remote] else route

/-- the list built from the first present header among Forwarded, X-Forwarded-For, X-Real-IP -/
def routeBase (fwd xff xri : Option Str) : List Str :=
  match fwd with
  | some f => (parseForwarded f).filterMap fun hop => hop.src.map routeHost
  | none =>
    match xff with
    | some v => (splitOn ',' v).map Hp.strip
    | none =>
      match xri with
      | some v => [v]
      | none => []

/-- a fresh computation of `req.access_route` -/
def accessRoute (asgi : Bool) (fwd xff xri : Option Str) (remote : Str) : List Str :=
  finishRoute asgi (routeBase fwd xff xri) remote

/-- the property with its memo cell `_cached_access_route`: (returned value, cell afterwards) -/
def accessRouteMemo (cell : Option (List Str)) (asgi : Bool) (fwd xff xri : Option Str) (remote : Str) : List Str × Option (List Str) :=
  match cell with
  | some v => (v, some v)
  | none => let v := accessRoute asgi fwd xff xri remote; (v, some v)

end Fw

import FalconModel.Forwarded
import FalconModel.HeaderParsersProofs
/-! C09 proofs for `Forwarded.lean`: a Forwarded header built from the RFC 7239 grammar is parsed into exactly its
    elements (`forwarded_valid_eq_rfc`), `unquote_string` un-escapes quoted-strings, `access_route` lists the node names
    (`accessRoute_valid`), the loop never needs more than `len(header)` iterations (`parseGo_fuel`). -/
namespace Fw
open Hp (Str)

/-! ### the RFC 7239 side: forwarded-element = forwarded-pair *( ";" forwarded-pair ), value = token / quoted-string -/
/-- one position inside a quoted-string: a qdtext character or a quoted-pair -/
inductive QItem where
  | plain (c : Char) | esc (c : Char)
  deriving Repr, DecidableEq

def QItem.valid : QItem → Bool | .plain c => isQd c | .esc c => isQp c
def QItem.render : QItem → Str | .plain c => [c] | .esc c => ['\\', c]
/-- the character the position denotes (RFC 9110 5.6.4: a quoted-pair denotes its second octet) -/
def QItem.char : QItem → Char | .plain c => c | .esc c => c

def renderItems : List QItem → Str
  | [] => []
  | i :: r => i.render ++ renderItems r

inductive Val where
  | tok (t : Str) | quoted (items : List QItem)
  deriving Repr, DecidableEq

def Val.valid : Val → Bool
  | .tok t => !t.isEmpty && t.all isTchar
  | .quoted items => items.all QItem.valid
def Val.render : Val → Str
  | .tok t => t
  | .quoted items => '"' :: (renderItems items ++ ['"'])
/-- the value the parameter carries -/
def Val.value : Val → Str
  | .tok t => t
  | .quoted items => items.map QItem.char

theorem spanTok_nil_of_head (rest : Str) (hr : ∀ c, rest.head? = some c → isTchar c = false) : spanTok rest = ([], rest) := by
  cases rest with
  | nil => rfl
  | cons c r => simp [spanTok, hr c rfl]

theorem spanTok_append (a rest : Str) (ha : ∀ c ∈ a, isTchar c = true) (hr : ∀ c, rest.head? = some c → isTchar c = false) :
    spanTok (a ++ rest) = (a, rest) := by
  induction a with
  | nil => exact spanTok_nil_of_head rest hr
  | cons x t ih =>
    have hx : isTchar x = true := ha x (by simp)
    have := ih (fun c hc => ha c (by simp [hc]))
    simp [spanTok, hx, this]

theorem isQd_ne {c : Char} (h : isQd c = true) : c ≠ '"' ∧ c ≠ '\\' := by
  constructor <;> (intro e; subst e; revert h; decide)

theorem scanQ_plain (c : Char) (r : Str) (h : isQd c = true) :
    scanQ (c :: r) = (scanQ r).map fun (v, rest) => (c :: v, rest) := by
  have ⟨h1, h2⟩ := isQd_ne h
  rw [scanQ.eq_def]
  split
  · rename_i e; simp at e
  · rename_i e; simp at e; exact absurd e.1 h1
  · rename_i e; simp at e; exact absurd e.1 h2
  · rename_i e; simp at e; obtain ⟨rfl, rfl⟩ := e; simp [h]

theorem scanQ_items (items : List QItem) (rest : Str) (hv : items.all QItem.valid = true) :
    scanQ (renderItems items ++ '"' :: rest) = some (renderItems items, rest) := by
  induction items with
  | nil => simp [renderItems, scanQ]
  | cons i t ih =>
    simp only [List.all_cons, Bool.and_eq_true] at hv
    have iht := ih hv.2
    cases i with
    | plain c =>
      simp only [renderItems, QItem.render, List.cons_append, List.nil_append]
      rw [scanQ_plain c _ hv.1, iht]; rfl
    | esc c =>
      have hc : isQp c = true := hv.1
      simp only [renderItems, QItem.render, List.cons_append, List.nil_append]
      rw [scanQ.eq_def]; simp [hc, iht]

theorem matchPair_render (name : Str) (v : Val) (rest : Str) (hne : name ≠ []) (hn : ∀ c ∈ name, isTchar c = true)
    (hv : v.valid = true) (hr : ∀ c, rest.head? = some c → isTchar c = false) :
    matchPair (name ++ '=' :: (v.render ++ rest)) = some (name, v.render, rest) := by
  have h1 : spanTok (name ++ '=' :: (v.render ++ rest)) = (name, '=' :: (v.render ++ rest)) :=
    spanTok_append name _ hn (by intro c hc; simp at hc; subst hc; decide)
  unfold matchPair
  rw [h1]
  cases name with
  | nil => exact absurd rfl hne
  | cons n0 nt =>
    simp only
    cases v with
    | tok t =>
      simp only [Val.valid, Bool.and_eq_true, List.all_eq_true, Bool.not_eq_true'] at hv
      have h2 : spanTok (t ++ rest) = (t, rest) := spanTok_append t rest hv.2 hr
      simp only [Val.render, h2]
      cases t with
      | nil => simp at hv
      | cons t0 tt => rfl
    | quoted items =>
      have hv' : items.all QItem.valid = true := hv
      have h2 : spanTok ('"' :: (renderItems items ++ '"' :: rest)) = ([], '"' :: (renderItems items ++ '"' :: rest)) :=
        spanTok_nil_of_head _ (by intro c hc; simp at hc; subst hc; decide)
      simp only [Val.render, List.cons_append, List.append_assoc, List.nil_append, h2, scanQ_items items rest hv']
      rfl

/-! ### `unquote_string`: the three code paths compute the left-to-right un-escaping -/
/-- the general (third) path -/
def unqGen (tmp : Str) : Str := joinBs ((splitDbl tmp).map dropBs)

theorem hasDbl_cons (a : Char) (r : Str) (h : ¬(a = '\\' ∧ r.head? = some '\\')) : hasDbl (a :: r) = hasDbl r := by
  rw [hasDbl.eq_def]
  split
  · rename_i e; simp at e; exact absurd ⟨e.1, by rw [e.2]; rfl⟩ h
  · rename_i e; simp at e; rw [e.2]
  · rename_i e; simp at e

theorem splitDbl_cons (a : Char) (r : Str) (h : ¬(a = '\\' ∧ r.head? = some '\\')) :
    splitDbl (a :: r) = match splitDbl r with | h :: t => (a :: h) :: t | [] => [[a]] := by
  rw [splitDbl.eq_def]
  split
  · rename_i e; simp at e
  · rename_i e; simp at e; exact absurd ⟨e.1, by rw [e.2]; rfl⟩ h
  · rename_i e; simp at e; obtain ⟨rfl, rfl⟩ := e; rfl

theorem splitDbl_ne_nil : ∀ (s : Str), splitDbl s ≠ []
  | [] => by simp [splitDbl]
  | a :: r => by
    by_cases h : a = '\\' ∧ r.head? = some '\\'
    · obtain ⟨rfl, hr⟩ := h
      cases r with
      | nil => simp at hr
      | cons b t => simp at hr; subst hr; simp [splitDbl]
    · rw [splitDbl_cons a r h]; split <;> simp

theorem joinBs_cons_head (c : Char) (a : Str) (t : List Str) : joinBs ((c :: a) :: t) = c :: joinBs (a :: t) := by
  cases t <;> simp [joinBs]

theorem unqGen_nil : unqGen [] = [] := by simp [unqGen, splitDbl, joinBs, dropBs]

theorem unqGen_bs_bs (r : Str) : unqGen ('\\' :: '\\' :: r) = '\\' :: unqGen r := by
  unfold unqGen
  rw [splitDbl]
  cases h : splitDbl r with
  | nil => exact absurd h (splitDbl_ne_nil r)
  | cons x t => simp [joinBs, dropBs]

theorem unqGen_cons_ne (c : Char) (r : Str) (h : c ≠ '\\') : unqGen (c :: r) = c :: unqGen r := by
  unfold unqGen
  rw [splitDbl_cons c r (fun e => h e.1)]
  cases hs : splitDbl r with
  | nil => exact absurd hs (splitDbl_ne_nil r)
  | cons x t =>
    have : dropBs (c :: x) = c :: dropBs x := by
      have hb : (c != '\\') = true := by simp [h]
      simp [dropBs, hb]
    simp only [List.map_cons, this, joinBs_cons_head]

theorem unqGen_bs_single (r : Str) (h : r.head? ≠ some '\\') : unqGen ('\\' :: r) = unqGen r := by
  unfold unqGen
  rw [splitDbl_cons '\\' r (fun e => h e.2)]
  cases hs : splitDbl r with
  | nil => exact absurd hs (splitDbl_ne_nil r)
  | cons x t =>
    have : dropBs ('\\' :: x) = dropBs x := by simp [dropBs, List.filter]
    simp only [List.map_cons, this]

theorem unqGen_bs_ne (c : Char) (r : Str) (h : c ≠ '\\') : unqGen ('\\' :: c :: r) = c :: unqGen r := by
  rw [unqGen_bs_single _ (by simp [h]), unqGen_cons_ne c r h]

theorem splitDbl_noDbl : ∀ (s : Str), hasDbl s = false → splitDbl s = [s]
  | [], _ => rfl
  | a :: r, h => by
    by_cases hab : a = '\\' ∧ r.head? = some '\\'
    · obtain ⟨rfl, hr⟩ := hab
      cases r with
      | nil => simp at hr
      | cons b t => simp at hr; subst hr; simp [hasDbl] at h
    · rw [hasDbl_cons a r hab] at h
      rw [splitDbl_cons a r hab, splitDbl_noDbl r h]

theorem mem_of_hasDbl : ∀ (s : Str), hasDbl s = true → '\\' ∈ s
  | [], h => by simp [hasDbl] at h
  | a :: r, h => by
    by_cases hab : a = '\\' ∧ r.head? = some '\\'
    · simp [hab.1]
    · rw [hasDbl_cons a r hab] at h
      exact List.mem_cons_of_mem _ (mem_of_hasDbl r h)

theorem dropBs_noBs (s : Str) (h : '\\' ∉ s) : dropBs s = s := by
  unfold dropBs
  rw [List.filter_eq_self]
  intro c hc
  simp; intro e; exact h (e ▸ hc)

/-- the two fast paths of `unquote_string` agree with the general path -/
theorem unq3_eq_gen (tmp : Str) :
    (if !tmp.contains '\\' then tmp else if !hasDbl tmp then dropBs tmp else joinBs ((splitDbl tmp).map dropBs)) = unqGen tmp := by
  by_cases h1 : '\\' ∈ tmp
  · have : tmp.contains '\\' = true := by simpa using h1
    simp only [this, Bool.not_true, Bool.false_eq_true, if_false]
    cases h2 : hasDbl tmp with
    | false => simp [unqGen, splitDbl_noDbl tmp h2, joinBs]
    | true => simp [unqGen]
  · have hc : tmp.contains '\\' = false := by simpa using h1
    have h2 : hasDbl tmp = false := by
      cases h : hasDbl tmp with
      | false => rfl
      | true => exact absurd (mem_of_hasDbl tmp h) h1
    simp [unqGen, splitDbl_noDbl tmp h2, joinBs, dropBs_noBs tmp h1]

theorem unqGen_items (items : List QItem) (hv : items.all QItem.valid = true) : unqGen (renderItems items) = items.map QItem.char := by
  induction items with
  | nil => exact unqGen_nil
  | cons i t ih =>
    simp only [List.all_cons, Bool.and_eq_true] at hv
    have iht := ih hv.2
    cases i with
    | plain c =>
      have hc : c ≠ '\\' := (isQd_ne hv.1).2
      simp only [renderItems, QItem.render, List.cons_append, List.nil_append, List.map_cons, QItem.char]
      rw [unqGen_cons_ne c _ hc, iht]
    | esc c =>
      simp only [renderItems, QItem.render, List.cons_append, List.nil_append, List.map_cons, QItem.char]
      by_cases hc : c = '\\'
      · subst hc; rw [unqGen_bs_bs, iht]
      · rw [unqGen_bs_ne c _ hc, iht]

/-- `unquote_string` of a quoted-string is the sequence of characters its positions denote -/
theorem unquoteString_quoted (items : List QItem) (hv : items.all QItem.valid = true) :
    unquoteString ('"' :: (renderItems items ++ ['"'])) = items.map QItem.char := by
  unfold unquoteString
  have hl : ¬ ('"' :: (renderItems items ++ ['"'])).length < 2 := by simp
  have hd : (('"' :: (renderItems items ++ ['"'])).drop 1).dropLast = renderItems items := by simp
  simp only [hl, if_false, List.head?_cons, Hp.getLast?_quote, hd]
  simp only [bne_self_eq_false, Bool.or_self, Bool.false_eq_true, if_false]
  rw [unq3_eq_gen, unqGen_items items hv]

theorem procValue_render (v : Val) (hv : v.valid = true) : procValue v.render = v.value := by
  cases v with
  | tok t =>
    simp only [Val.valid, Bool.and_eq_true, List.all_eq_true, Bool.not_eq_true'] at hv
    cases t with
    | nil => simp at hv
    | cons c r =>
      have hc : isTchar c = true := hv.2 c (by simp)
      have : c ≠ '"' := by intro e; subst e; revert hc; decide
      simp [procValue, Val.render, Val.value, this]
  | quoted items =>
    simp only [procValue, Val.render, List.head?_cons, beq_self_eq_true, if_true, Val.value]
    exact unquoteString_quoted items hv

/-! ### the loop always moves forward: `len(forwarded)` iterations suffice -/
theorem spanTok_snd_length : ∀ (s : Str), (spanTok s).2.length ≤ s.length
  | [] => by simp [spanTok]
  | c :: r => by
    have := spanTok_snd_length r
    simp only [spanTok]; split <;> simp <;> omega

theorem scanQ_length : ∀ (n : Nat) (s v rest : Str), s.length ≤ n → scanQ s = some (v, rest) → rest.length ≤ s.length := by
  intro n
  induction n with
  | zero =>
    intro s v rest hn h
    cases s with
    | nil => simp [scanQ] at h
    | cons _ _ => simp at hn
  | succ n ih =>
    intro s v rest hn h
    rw [scanQ.eq_def] at h
    split at h
    · simp at h
    · simp at h; rw [h.2]; simp
    · rename_i c r
      split at h
      · cases hq : scanQ r with
        | none => rw [hq] at h; simp at h
        | some p =>
          rw [hq] at h; simp at h
          have := ih r p.1 p.2 (by simp at hn; omega) hq
          rw [← h.2]; simp; omega
      · simp at h
    · rename_i c r _ _
      split at h
      · cases hq : scanQ r with
        | none => rw [hq] at h; simp at h
        | some p =>
          rw [hq] at h; simp at h
          have := ih r p.1 p.2 (by simp at hn; omega) hq
          rw [← h.2]; simp; omega
      · simp at h

theorem matchPair_length (s name v rest : Str) (h : matchPair s = some (name, v, rest)) : rest.length < s.length := by
  unfold matchPair at h
  have h1 := spanTok_snd_length s
  split at h
  · simp at h
  · rename_i nm r _ heq
    rw [heq] at h1; simp at h1
    have h2 := spanTok_snd_length r
    split at h
    · split at h
      · rename_i _ _ q _
        cases hq : scanQ q with
        | none => rw [hq] at h; simp at h
        | some p =>
          rw [hq] at h; simp at h
          have := scanQ_length q.length q p.1 p.2 (Nat.le_refl _) hq
          rw [← h.2.2]; simp at h1 ⊢; omega
      · simp at h
    · rename_i tok rst _ heq2
      rw [heq2] at h2; simp at h h2
      rw [← h.2.2]; omega
  · simp at h

theorem skipToComma_length : ∀ (s : Str), (skipToComma s).length ≤ s.length
  | [] => by simp [skipToComma]
  | c :: r => by
    have := skipToComma_length r
    simp only [skipToComma]; split <;> simp; omega

theorem step_length (c : Char) (r : Str) (ns : Bool) (cur : Option Fwd) : (step c r ns cur).2.1.length ≤ r.length := by
  have hsk := skipToComma_length r
  unfold step
  split
  · rename_i name value rest hm
    have := matchPair_length _ _ _ _ hm
    simp only [List.length_cons] at this
    split <;> simp <;> omega
  · split
    · simp
    · split
      · simp
      · split <;> simp; omega

theorem parseGo_fuel : ∀ (f g : Nat) (s : Str) (ns : Bool) (cur : Option Fwd), s.length ≤ f → s.length ≤ g →
    parseGo f s ns cur = parseGo g s ns cur := by
  intro f
  induction f with
  | zero =>
    intro g s ns cur hf hg
    cases s with
    | nil => cases g <;> simp [parseGo]
    | cons _ _ => simp at hf
  | succ f ih =>
    intro g s ns cur hf hg
    cases s with
    | nil => cases g <;> simp [parseGo]
    | cons c r =>
      cases g with
      | zero => simp at hg
      | succ g =>
        simp only [List.length_cons, Nat.add_le_add_iff_right] at hf hg
        have := step_length c r ns cur
        rw [parseGo.eq_3, parseGo.eq_3, ih g _ _ _ (by omega) (by omega)]

/-- the loop started with exactly `len(suffix)` iterations -/
def run (s : Str) (ns : Bool) (cur : Option Fwd) : List Fwd := parseGo s.length s ns cur

theorem parseForwarded_eq_run (s : Str) : parseForwarded s = run s false none := rfl

theorem run_nil (ns : Bool) (cur : Option Fwd) : run [] ns cur = cur.toList := by simp [run, parseGo]

theorem run_cons (c : Char) (r : Str) (ns : Bool) (cur : Option Fwd) :
    run (c :: r) ns cur = (step c r ns cur).1.toList ++ run (step c r ns cur).2.1 (step c r ns cur).2.2.1 (step c r ns cur).2.2.2 := by
  unfold run
  simp only [List.length_cons]
  rw [parseGo.eq_3, parseGo_fuel r.length _ _ _ _ (step_length c r ns cur) (Nat.le_refl _)]

theorem matchPair_none_of_head (c : Char) (r : Str) (h : isTchar c = false) : matchPair (c :: r) = none := by
  unfold matchPair
  rw [spanTok_nil_of_head (c :: r) (by intro x hx; simp at hx; subst hx; exact h)]

theorem run_ws (c : Char) (r : Str) (ns : Bool) (cur : Option Fwd) (h : c = ' ' ∨ c = '\t') : run (c :: r) ns cur = run r ns cur := by
  have hm : matchPair (c :: r) = none := matchPair_none_of_head c r (by cases h <;> (subst_vars; decide))
  rw [run_cons]; unfold step; rw [hm]
  cases h <;> (subst_vars; simp)

theorem run_semi (r : Str) (ns : Bool) (cur : Option Fwd) : run (';' :: r) ns cur = run r false cur := by
  have hm : matchPair (';' :: r) = none := matchPair_none_of_head _ r (by decide)
  rw [run_cons]; unfold step; rw [hm]; simp

theorem run_comma (r : Str) (ns : Bool) (cur : Option Fwd) : run (',' :: r) ns cur = cur.toList ++ run r false none := by
  have hm : matchPair (',' :: r) = none := matchPair_none_of_head _ r (by decide)
  rw [run_cons]; unfold step; rw [hm]; simp

theorem run_pair (s name v rest : Str) (cur : Option Fwd) (hm : matchPair s = some (name, v, rest)) :
    run s false cur = run rest true (some (setField (cur.getD {}) (lowerS name) (procValue v))) := by
  cases s with
  | nil => simp [matchPair, spanTok] at hm
  | cons c r => rw [run_cons]; unfold step; rw [hm]; simp

/-- optional whitespace as the loop accepts it: spaces and tabs -/
def isOws (s : Str) : Bool := s.all fun c => c == ' ' || c == '\t'

theorem run_ows (w s : Str) (ns : Bool) (cur : Option Fwd) (hw : isOws w = true) : run (w ++ s) ns cur = run s ns cur := by
  induction w with
  | nil => rfl
  | cons c t ih =>
    simp only [isOws, List.all_cons, Bool.and_eq_true, Bool.or_eq_true, beq_iff_eq] at hw
    rw [List.cons_append, run_ws c _ ns cur hw.1]
    exact ih (by simpa [isOws] using hw.2)

/-- a forwarded-pair with the optional whitespace around it that the loop tolerates -/
structure Param where
  pre : Str
  name : Str
  val : Val
  post : Str
  deriving Repr, DecidableEq

def Param.valid (p : Param) : Bool := isOws p.pre && isOws p.post && !p.name.isEmpty && p.name.all isTchar && p.val.valid
def Param.render (p : Param) : Str := p.pre ++ (p.name ++ '=' :: (p.val.render ++ p.post))

/-- forwarded-element: pairs separated by `;` -/
def renderElem : List Param → Str
  | [] => []
  | [p] => p.render
  | p :: q :: ps => p.render ++ ';' :: renderElem (q :: ps)

/-- Forwarded = 1#forwarded-element: elements separated by `,` -/
def render : List (List Param) → Str
  | [] => []
  | [e] => renderElem e
  | e :: f :: es => renderElem e ++ ',' :: render (f :: es)

/-- what one pair contributes: parameter names are case-insensitive; `proto` is normalised to lower case -/
def applyParam (e : Fwd) (p : Param) : Fwd := setField e (lowerS p.name) p.val.value

/-- what comes after a pair inside a header: nothing, or a `;` or `,` -/
def Sep (tail : Str) : Prop := tail = [] ∨ ∃ r, tail = ';' :: r ∨ tail = ',' :: r

theorem head_post_tail (post tail : Str) (hp : isOws post = true) (ht : Sep tail) :
    ∀ c, (post ++ tail).head? = some c → isTchar c = false := by
  intro c hc
  cases post with
  | nil =>
    rcases ht with rfl | ⟨r, rfl | rfl⟩ <;> simp at hc <;> (subst hc; decide)
  | cons x t =>
    simp only [isOws, List.all_cons, Bool.and_eq_true, Bool.or_eq_true, beq_iff_eq] at hp
    simp at hc; subst hc
    rcases hp.1 with rfl | rfl <;> decide

theorem run_param (p : Param) (tail : Str) (cur : Option Fwd) (hv : p.valid = true) (ht : Sep tail) :
    run (p.render ++ tail) false cur = run tail true (some (applyParam (cur.getD {}) p)) := by
  simp only [Param.valid, Bool.and_eq_true, Bool.not_eq_true', List.all_eq_true] at hv
  obtain ⟨⟨⟨⟨hpre, hpost⟩, hne⟩, hname⟩, hval⟩ := hv
  have hne' : p.name ≠ [] := by intro e; rw [e] at hne; simp at hne
  have hm := matchPair_render p.name p.val (p.post ++ tail) hne' hname hval (head_post_tail _ _ hpost ht)
  simp only [Param.render, List.append_assoc, List.cons_append]
  rw [run_ows _ _ _ _ hpre, run_pair _ _ _ _ cur hm, run_ows _ _ _ _ hpost, procValue_render _ hval]
  rfl

theorem run_elem : ∀ (ps : List Param) (tail : Str) (cur : Option Fwd), ps ≠ [] → (∀ p ∈ ps, p.valid = true) →
    (tail = [] ∨ ∃ r, tail = ',' :: r) →
    run (renderElem ps ++ tail) false cur = run tail true (some (ps.foldl applyParam (cur.getD {})))
  | [], _, _, hne, _, _ => absurd rfl hne
  | [p], tail, cur, _, hv, ht => by
    have hs : Sep tail := by
      rcases ht with h | ⟨r, h⟩
      · exact Or.inl h
      · exact Or.inr ⟨r, Or.inr h⟩
    simp only [renderElem, List.foldl_cons, List.foldl_nil]
    exact run_param p tail cur (hv p (by simp)) hs
  | p :: q :: ps, tail, cur, _, hv, ht => by
    simp only [renderElem, List.append_assoc, List.cons_append]
    rw [run_param p _ cur (hv p (by simp)) (Or.inr ⟨_, Or.inl rfl⟩), run_semi,
      run_elem (q :: ps) tail _ (by simp) (fun x hx => hv x (by simp [hx])) ht]
    rfl

/-- the element the pairs of one forwarded-element build, pair by pair (a repeated parameter: the last one wins) -/
def elemOf (ps : List Param) : Fwd := ps.foldl applyParam {}

/-- every header rendered from the grammar (any token as parameter name, token or quoted-string values with arbitrary
    quoted-pairs, optional blanks around the pairs) is parsed into exactly its elements, in order -/
theorem forwarded_render_parse : ∀ (es : List (List Param)), (∀ e ∈ es, e ≠ []) → (∀ e ∈ es, ∀ p ∈ e, p.valid = true) →
    parseForwarded (render es) = es.map elemOf
  | [], _, _ => by simp [render, parseForwarded, parseGo]
  | [e], hne, hv => by
    have := run_elem e [] none (hne e (by simp)) (hv e (by simp)) (Or.inl rfl)
    simp only [List.append_nil] at this
    rw [parseForwarded_eq_run]
    simp only [render, this, run_nil]
    rfl
  | e :: f :: es, hne, hv => by
    have ih := forwarded_render_parse (f :: es) (fun x hx => hne x (by simp [hx])) (fun x hx => hv x (by simp [hx]))
    rw [parseForwarded_eq_run] at ih ⊢
    simp only [render]
    rw [run_elem e _ none (hne e (by simp)) (hv e (by simp)) (Or.inr ⟨_, rfl⟩), run_comma, ih]
    rfl

/-! ### the RFC reading with distinct parameters -/
def Param.key (p : Param) : Str := lowerS p.name

/-- the value of the parameter called `k` (case-insensitively), if the element has one -/
def getParam (ps : List Param) (k : Str) : Option Str := (ps.find? fun p => p.key == k).map (·.val.value)

/-- RFC 7239 reading of one forwarded-element -/
def rfcElem (ps : List Param) : Fwd :=
  { src := getParam ps ['f', 'o', 'r'], dest := getParam ps ['b', 'y'], host := getParam ps ['h', 'o', 's', 't'],
    scheme := (getParam ps ['p', 'r', 'o', 't', 'o']).map lowerS }

theorem getParam_cons_eq (p : Param) (ps : List Param) (k : Str) (h : p.key = k) : getParam (p :: ps) k = some p.val.value := by
  simp [getParam, List.find?, h]

theorem getParam_cons_ne (p : Param) (ps : List Param) (k : Str) (h : p.key ≠ k) : getParam (p :: ps) k = getParam ps k := by
  have : (p.key == k) = false := by simp [h]
  simp [getParam, List.find?, this]

theorem getParam_none (ps : List Param) (k : Str) (h : k ∉ ps.map Param.key) : getParam ps k = none := by
  induction ps with
  | nil => rfl
  | cons p t ih =>
    simp only [List.map_cons, List.mem_cons, not_or] at h
    rw [getParam_cons_ne p t k (fun e => h.1 e.symm), ih h.2]

theorem foldl_applyParam (ps : List Param) : ∀ (e0 : Fwd), (ps.map Param.key).Nodup →
    ps.foldl applyParam e0 =
      { src := (getParam ps ['f', 'o', 'r']).or e0.src, dest := (getParam ps ['b', 'y']).or e0.dest,
        host := (getParam ps ['h', 'o', 's', 't']).or e0.host,
        scheme := ((getParam ps ['p', 'r', 'o', 't', 'o']).map lowerS).or e0.scheme } := by
  induction ps with
  | nil => intro e0 _; simp [getParam]
  | cons p t ih =>
    intro e0 hd
    simp only [List.map_cons, List.nodup_cons] at hd
    rw [List.foldl_cons, ih _ hd.2]
    have hk : applyParam e0 p = setField e0 p.key p.val.value := rfl
    rw [hk]
    by_cases h1 : p.key = ['b', 'y']
    · have hn := getParam_none t _ (h1 ▸ hd.1)
      simp [setField, hn, getParam_cons_eq p t _ h1, getParam_cons_ne p t, h1]
    · by_cases h2 : p.key = ['f', 'o', 'r']
      · have hn := getParam_none t _ (h2 ▸ hd.1)
        simp [setField, h2, hn, getParam_cons_eq p t _ h2, getParam_cons_ne p t]
      · by_cases h3 : p.key = ['h', 'o', 's', 't']
        · have hn := getParam_none t _ (h3 ▸ hd.1)
          simp [setField, h3, hn, getParam_cons_eq p t _ h3, getParam_cons_ne p t]
        · by_cases h4 : p.key = ['p', 'r', 'o', 't', 'o']
          · have hn := getParam_none t _ (h4 ▸ hd.1)
            simp [setField, h4, hn, getParam_cons_eq p t _ h4, getParam_cons_ne p t]
          · simp [setField, h1, h2, h3, h4, getParam_cons_ne p t _ h1, getParam_cons_ne p t _ h2, getParam_cons_ne p t _ h3,
              getParam_cons_ne p t _ h4]

theorem elemOf_eq_rfc (ps : List Param) (hd : (ps.map Param.key).Nodup) : elemOf ps = rfcElem ps := by
  unfold elemOf
  rw [foldl_applyParam ps {} hd]
  simp [rfcElem]

/-- **RFC 7239**: a header built from the grammar - elements of `;`-separated pairs with pairwise distinct (case-insensitive)
    parameter names, token or quoted-string values, elements separated by `,`, optional blanks around the pairs - is parsed
    into exactly those elements in order: `src`/`dest`/`host` = the `for`/`by`/`host` values with quoted-pairs un-escaped,
    `scheme` = the `proto` value in lower case, absent parameters `None`, unknown parameters ignored. -/
theorem forwarded_valid_eq_rfc (es : List (List Param)) (hne : ∀ e ∈ es, e ≠ []) (hv : ∀ e ∈ es, ∀ p ∈ e, p.valid = true)
    (hd : ∀ e ∈ es, (e.map Param.key).Nodup) : parseForwarded (render es) = es.map rfcElem := by
  rw [forwarded_render_parse es hne hv]
  apply List.map_congr_left
  intro e he
  exact elemOf_eq_rfc e (hd e he)

/-! ### `access_route` -/
/-- RFC 7239 section 6 node: `nodename [ ":" node-port ]`; `v6` = the name is written in brackets.  The port text is
    arbitrary (numeric, obfuscated `_hidden`, …) as long as it contains neither `:` nor `]`. -/
structure Node where
  v6 : Bool
  host : Str
  port : Option Str
  deriving Repr, DecidableEq

def Node.render (n : Node) : Str :=
  (if n.v6 then '[' :: (n.host ++ [']']) else n.host) ++ (match n.port with | none => [] | some p => ':' :: p)

def Node.valid (n : Node) : Bool :=
  !n.host.contains '[' && !n.host.contains ']' && (n.v6 || !n.host.contains ':') &&
  (match n.port with | none => true | some p => !p.contains ':' && !p.contains ']')

theorem parseHost_name_anyport (h s : Str) (d : Option Int) (hc : ':' ∉ h) (hb : h.head? ≠ some '[') (hs : ':' ∉ s) :
    Hp.parseHost (h ++ ':' :: s) d = match Hp.portOf s d with | some p => .ok h p | none => .valueError := by
  unfold Hp.parseHost
  split
  · rename_i r heq
    cases h with
    | nil => simp at heq
    | cons x t => simp at heq hb; exact absurd heq.1 hb
  · rw [Hp.filter_colon_one h _ hc hs, Hp.partition_append h _ ':' hc]
    simp only [bne_self_eq_false, Bool.false_eq_true, if_false]
    cases Hp.portOf s d <;> rfl

theorem parseHost_ipv6_anyport (a s : Str) (d : Option Int) (ha : ']' ∉ a) (hs : ']' ∉ s) :
    Hp.parseHost ('[' :: (a ++ ']' :: ':' :: s)) d = match Hp.portOf s d with | some p => .ok a p | none => .valueError := by
  have hfind := Hp.rfindPairGo_unique ']' ':' (by decide) ('[' :: a) s 0 none (by simp [ha]) hs
  simp only [List.cons_append] at hfind
  unfold Hp.parseHost
  simp only [hfind]
  have h1 : ('[' :: (a ++ ']' :: ':' :: s)).drop (0 + ('[' :: a).length + 2) = s := by simp [List.drop_append]
  have h2 : (('[' :: (a ++ ']' :: ':' :: s)).take (0 + ('[' :: a).length)).drop 1 = a := by simp
  rw [h1, h2]
  cases Hp.portOf s d <;> rfl

theorem rpartColon_append (a s : Str) (hs : ':' ∉ s) : rpartColon (a ++ ':' :: s) = a := by
  unfold rpartColon
  have : (a ++ ':' :: s).reverse = s.reverse ++ ':' :: a.reverse := by simp
  rw [this, Hp.breakOn_append ':' s.reverse a.reverse (by simpa using hs)]
  simp

def isBr (c : Char) : Bool := c == '[' || c == ']'

theorem isBr_false_of_mem {h : Str} (h1 : '[' ∉ h) (h2 : ']' ∉ h) {x : Char} (hx : x ∈ h) : isBr x = false := by
  simp only [isBr, Bool.or_eq_false_iff, beq_eq_false_iff_ne]
  exact ⟨fun e => h1 (e ▸ hx), fun e => h2 (e ▸ hx)⟩

theorem stripBr_plain (h : Str) (h1 : '[' ∉ h) (h2 : ']' ∉ h) : stripBr h = h := by
  unfold stripBr
  apply Hp.strip_of_ends
  · intro x hx; exact isBr_false_of_mem h1 h2 (List.mem_of_mem_head? hx)
  · intro x hx
    have : x ∈ h.reverse := List.mem_of_mem_head? hx
    exact isBr_false_of_mem h1 h2 (by simpa using this)

theorem stripBr_bracketed (a : Str) (h1 : '[' ∉ a) (h2 : ']' ∉ a) : stripBr ('[' :: (a ++ [']'])) = a := by
  have hp := stripBr_plain a h1 h2
  unfold stripBr Hp.stripW Hp.rstripW Hp.lstripW at hp ⊢
  cases a with
  | nil => simp [List.dropWhile]
  | cons x t =>
    have hx : isBr x = false := isBr_false_of_mem h1 h2 (by simp)
    have hx' : (x == '[' || x == ']') = false := hx
    have e1 : List.dropWhile (fun c => c == '[' || c == ']') ('[' :: (x :: t ++ [']'])) = x :: t ++ [']'] := by
      simp [List.dropWhile, hx']
    have e0 : List.dropWhile (fun c => c == '[' || c == ']') (x :: t) = x :: t := by simp [List.dropWhile, hx']
    rw [e0] at hp
    rw [e1]
    have e2 : (x :: t ++ [']']).reverse = ']' :: (x :: t).reverse := by simp
    rw [e2]
    have e3 : List.dropWhile (fun c => c == '[' || c == ']') (']' :: (x :: t).reverse) =
        List.dropWhile (fun c => c == '[' || c == ']') (x :: t).reverse := by simp [List.dropWhile]
    rw [e3]; exact hp

/-- the access-route entry of a node is its name: the port - numeric or obfuscated - and the IPv6 brackets are dropped -/
theorem routeHost_node (n : Node) (hv : n.valid = true) : routeHost n.render = n.host := by
  obtain ⟨v6, host, port⟩ := n
  simp only [Node.valid, Bool.and_eq_true, Bool.not_eq_true', Bool.or_eq_true] at hv
  obtain ⟨⟨⟨hb1, hb2⟩, hcol⟩, hport⟩ := hv
  have hb1' : '[' ∉ host := by simpa using hb1
  have hb2' : ']' ∉ host := by simpa using hb2
  cases v6 with
  | false =>
    have hc : ':' ∉ host := by simpa using hcol
    have hh : host.head? ≠ some '[' := fun e => hb1' (List.mem_of_mem_head? e)
    cases port with
    | none =>
      simp only [Node.render, Bool.false_eq_true, if_false, List.append_nil]
      unfold routeHost; rw [Hp.parseHost_bare host none hc hh]
    | some p =>
      simp only [Bool.and_eq_true, Bool.not_eq_true'] at hport
      have hp1 : ':' ∉ p := by simpa using hport.1
      simp only [Node.render, Bool.false_eq_true, if_false]
      unfold routeHost; rw [parseHost_name_anyport host p none hc hh hp1]
      cases Hp.portOf p none with
      | some q => rfl
      | none => simp only [rpartColon_append host p hp1, stripBr_plain host hb1' hb2']
  | true =>
    cases port with
    | none =>
      simp only [Node.render, if_true, List.append_nil]
      unfold routeHost; rw [Hp.parseHost_ipv6_bare host none hb2']
    | some p =>
      simp only [Bool.and_eq_true, Bool.not_eq_true'] at hport
      have hp1 : ':' ∉ p := by simpa using hport.1
      have hp2 : ']' ∉ p := by simpa using hport.2
      simp only [Node.render, if_true, List.cons_append, List.append_assoc, List.nil_append]
      unfold routeHost; rw [parseHost_ipv6_anyport host p none hb2' hp2]
      cases Hp.portOf p none with
      | some q => rfl
      | none =>
        have : '[' :: (host ++ ']' :: ':' :: p) = ('[' :: (host ++ [']'])) ++ ':' :: p := by simp
        simp only [this, rpartColon_append _ p hp1, stripBr_bracketed host hb1' hb2']

theorem finishRoute_last (asgi : Bool) (route : List Str) (remote : Str) (h : route.getLast? = some remote) :
    finishRoute asgi route remote = route := by
  cases route with
  | nil => simp at h
  | cons a t => simp [finishRoute, h]

theorem finishRoute_append (asgi : Bool) (route : List Str) (remote : Str) (hne : route ≠ []) (h : route.getLast? ≠ some remote) :
    finishRoute asgi route remote = route ++ [remote] := by
  cases route with
  | nil => exact absurd rfl hne
  | cons a t => simp [finishRoute, h]

theorem finishRoute_nil_wsgi (remote : Str) : finishRoute false [] remote = [remote] := by simp [finishRoute]

/-- `es` and `ns` run in parallel: the `for` value of each element is the rendering of the given valid node (or absent) -/
def SrcNodes : List (List Param) → List (Option Node) → Prop
  | [], [] => True
  | e :: es, n :: ns => (rfcElem e).src = n.map Node.render ∧ (∀ m, n = some m → m.valid = true) ∧ SrcNodes es ns
  | _, _ => False

theorem route_of_nodes : ∀ (es : List (List Param)) (ns : List (Option Node)), SrcNodes es ns →
    (es.map rfcElem).filterMap (fun hop => hop.src.map routeHost) = ns.filterMap (fun n => n.map Node.host)
  | [], [], _ => rfl
  | [], _ :: _, h => by simp [SrcNodes] at h
  | _ :: _, [], h => by simp [SrcNodes] at h
  | e :: es, n :: ns, h => by
    obtain ⟨h1, h2, h3⟩ := h
    have ih := route_of_nodes es ns h3
    cases n with
    | none =>
      simp only [Option.map_none] at h1
      simp [h1, ih]
    | some m =>
      simp only [Option.map_some] at h1
      simp [h1, routeHost_node m (h2 m rfl), ih]

/-- `req.access_route` for a grammatical Forwarded header whose `for` values are nodes: the node names in order (ports -
    numeric or obfuscated - and IPv6 brackets dropped, elements without `for` skipped), then `remote_addr` unless it
    equals the last entry (`finishRoute`); X-Forwarded-For and X-Real-IP are ignored when Forwarded is present. -/
theorem accessRoute_valid (asgi : Bool) (es : List (List Param)) (ns : List (Option Node)) (xff xri : Option Str) (remote : Str)
    (hne : ∀ e ∈ es, e ≠ []) (hv : ∀ e ∈ es, ∀ p ∈ e, p.valid = true) (hd : ∀ e ∈ es, (e.map Param.key).Nodup)
    (hn : SrcNodes es ns) :
    accessRoute asgi (some (render es)) xff xri remote = finishRoute asgi (ns.filterMap fun n => n.map Node.host) remote := by
  unfold accessRoute routeBase
  simp only [forwarded_valid_eq_rfc es hne hv hd, route_of_nodes es ns hn]

/-- second access = first access = a fresh computation, and the cell is filled -/
theorem memo_idempotent (asgi : Bool) (fwd xff xri : Option Str) (remote : Str) :
    let a1 := accessRouteMemo none asgi fwd xff xri remote
    let a2 := accessRouteMemo a1.2 asgi fwd xff xri remote
    a1.1 = accessRoute asgi fwd xff xri remote ∧ a2.1 = a1.1 ∧ a2.2 = a1.2 := by
  simp [accessRouteMemo]

/-! ### non-vacuity: a concrete header on which every hypothesis holds, and what the model computes on it -/
def qs (s : String) : Val := .quoted (s.toList.map .plain)

/-- `for="[2001:db8::1]:_hid";Proto=HTTPS, For="192.0.2.43:80" ;by="a\"b";x=y,host=h` -/
def exHeader : List (List Param) :=
  [[⟨[], "for".toList, qs "[2001:db8::1]:_hid", []⟩, ⟨[], "Proto".toList, .tok "HTTPS".toList, []⟩],
   [⟨[' '], "For".toList, qs "192.0.2.43:80", [' ']⟩, ⟨[], "by".toList, .quoted [.plain 'a', .esc '"', .esc 'b', .esc '\\'], []⟩,
    ⟨[], "x".toList, .tok "y".toList, []⟩],
   [⟨[], "host".toList, .tok "h".toList, []⟩]]

example : render exHeader = "for=\"[2001:db8::1]:_hid\";Proto=HTTPS, For=\"192.0.2.43:80\" ;by=\"a\\\"\\b\\\\\";x=y,host=h".toList := by decide
example : (∀ e ∈ exHeader, e ≠ []) ∧ (∀ e ∈ exHeader, ∀ p ∈ e, p.valid = true) ∧ (∀ e ∈ exHeader, (e.map Param.key).Nodup) := by decide
example : parseForwarded (render exHeader) =
    [{ src := some "[2001:db8::1]:_hid".toList, scheme := some "https".toList },
     { src := some "192.0.2.43:80".toList, dest := some "a\"b\\".toList }, { host := some "h".toList }] := by decide
def exNodes : List (Option Node) :=
  [some ⟨true, "2001:db8::1".toList, some "_hid".toList⟩, some ⟨false, "192.0.2.43".toList, some "80".toList⟩, none]
example : SrcNodes exHeader exNodes := by
  refine ⟨by decide, by decide, by decide, by decide, by decide, by decide, trivial⟩
example : accessRoute false (some (render exHeader)) none none "10.0.0.1".toList =
    ["2001:db8::1".toList, "192.0.2.43".toList, "10.0.0.1".toList] := by decide
example : accessRoute true (some (render exHeader)) none none "192.0.2.43".toList = ["2001:db8::1".toList, "192.0.2.43".toList] := by decide
-- malformed input: the loop skips to the next comma and keeps what it had
example : parseForwarded "for=a b=c;by=x, =;for=\"q, proto=HTTP".toList =
    [{ src := some "a".toList }, { scheme := some "http".toList }] := by decide
example : unquoteString "\"a\\\\\\\"b\\c\"".toList = "a\\\"bc".toList := by decide

end Fw

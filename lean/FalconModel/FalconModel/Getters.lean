import FalconModel.Query
import FalconModel.UriEncode
/-! C08, second half: the typed query-parameter getters of `falcon/request.py`
    (`get_param`, `get_param_as_int`, `get_param_as_bool`, `get_param_as_list`; textually the same code serves
    `falcon.Request` and `falcon.asgi.Request`) over the mapping `Qs.Params` that `parse_query_string` produced,
    and `falcon.util.misc.to_query_str`.

    A `str` is a list of code points (`Qs.Str`).  `req._params` is a `dict`: `name in params` / `params[name]`
    are `Qs.lookup` (first entry with that key; the parser's mapping has each key once, `Qs.parseQS_keys_nodup`).

    Each getter returns an `Out`: either `ret r store'` — `r` is the documented result (`value v`, the caller's
    `default`, or one of the two 400 errors `HTTPMissingParam` / `HTTPInvalidParam`) together with the `store`
    argument after the call — or `indexError`, the one way the transcribed statements could escape with an
    exception that is not an `HTTPError` (`param[-1]` on an empty list, finding F06).  `GettersProofs.lean`
    proves that `indexError` is unreachable for the code as it stands (guard `params[name] != []` of fix 208c75d).

    `store` is any `dict`; its values have an arbitrary type `σ` into which the getter's value is injected
    (`inj`).  `store[name] = v` is `storeSet` (in place if the key exists, else appended).

    `get_param_as_float` is NOT modelled: `float()` needs correctly rounded decimal→binary64 conversion, which has
    no exact small model here.  `get_param_as_uuid/_datetime/_date/_json` rest on library parsers and are not
    modelled either; all of these remain covered by the reference-conversion oracle of the check. -/
namespace Gt
open Qs (Str Val Params lookup)

/-! ### Python `int(s)` for a `str` of arbitrary code points

    CPython (`PyLong_FromUnicodeObject`): every code point ≥ 127 that `str.isspace()` accepts becomes a space,
    every Unicode decimal digit (category Nd) becomes its ASCII digit, any other code point ≥ 127 is an error;
    code points < 127 are kept.  Then leading/trailing ASCII whitespace (`\t\n\v\f\r` and space — NOT
    `\x1c`–`\x1f`) is stripped, an optional ASCII sign follows, then digits with single underscores between
    digits.  More than 4300 digits are rejected (`sys.int_max_str_digits`, a `ValueError`).
    ALL code points are covered; `digitZeros` is the Nd table of Unicode 15.0 (Python 3.12) and the
    correspondence compares it, and `isIntWs`, with `unicodedata` / `str.isspace` of the running interpreter. -/

/-- the code points `int()` strips: ASCII whitespace, and every non-ASCII `str.isspace()` character -/
def isIntWs (c : Nat) : Bool :=
  (9 ≤ c && c ≤ 13) || c == 32 || c == 0x85 || c == 0xA0 || c == 0x1680 || (0x2000 ≤ c && c ≤ 0x200A) ||
  c == 0x2028 || c == 0x2029 || c == 0x202F || c == 0x205F || c == 0x3000

/-- the code point of digit zero of every Unicode decimal-digit block (`unicodedata.decimal(chr(z)) == 0`);
    the nine following code points are the digits 1–9 of that script -/
def digitZeros : List Nat :=
  [48, 1632, 1776, 1984, 2406, 2534, 2662, 2790, 2918, 3046, 3174, 3302, 3430, 3558, 3664, 3792, 3872, 4160, 4240,
   6112, 6160, 6470, 6608, 6784, 6800, 6992, 7088, 7232, 7248, 42528, 43216, 43264, 43472, 43504, 43600, 44016,
   65296, 66720, 68912, 69734, 69872, 69942, 70096, 70384, 70736, 70864, 71248, 71360, 71472, 71904, 72016, 72784,
   73040, 73120, 73552, 92768, 92864, 93008, 120782, 120792, 120802, 120812, 120822, 123200, 123632, 124144,
   125264, 130032]

/-- `unicodedata.decimal(chr(c), None)` -/
def decimalOf (c : Nat) : Option Nat :=
  match digitZeros.find? (fun z => z ≤ c && c < z + 10) with
  | some z => some (c - z)
  | none => none

/-- decimal digits with single underscores between digits; `last` = the previous character was a digit -/
def digitsGo : Str → Nat → Bool → Option Nat
  | [], acc, last => if last then some acc else none
  | c :: r, acc, last =>
    match decimalOf c with
    | some d => digitsGo r (10 * acc + d) true
    | none => if c == 95 && last then digitsGo r acc false else none

def stripWs (s : Str) : Str := ((s.dropWhile isIntWs).reverse.dropWhile isIntWs).reverse

/-- `sys.int_max_str_digits` (default) -/
def maxStrDigits : Nat := 4300

def digitCount (s : Str) : Nat := (s.filter fun c => (decimalOf c).isSome).length

/-- Python `int(s)`; `none` = `ValueError` -/
def pyInt (s : Str) : Option Int :=
  match stripWs s with
  | 45 :: r => if digitCount r > maxStrDigits then none else (digitsGo r 0 false).map fun n => -(n : Int)
  | 43 :: r => if digitCount r > maxStrDigits then none else (digitsGo r 0 false).map fun n => (n : Int)
  | r => if digitCount r > maxStrDigits then none else (digitsGo r 0 false).map fun n => (n : Int)

/-! ### results, `store` -/

inductive Res (α : Type) where
  | value (v : α)      -- the converted parameter is returned
  | default            -- the `default` argument is returned (`None` when it was not given)
  | missing400         -- `HTTPMissingParam`
  | invalid400         -- `HTTPInvalidParam`
  deriving Repr, DecidableEq

abbrev Store (σ : Type) := List (Str × σ)

/-- `store[name] = v` on a `dict` -/
def storeSet (s : Store σ) (name : Str) (v : σ) : Store σ :=
  if s.any (·.1 == name) then s.map fun e => if e.1 == name then (e.1, v) else e else s ++ [(name, v)]

inductive Out (α σ : Type) where
  | ret (r : Res α) (store : Option (Store σ))
  | indexError
  deriving Repr, DecidableEq

/-- the common tail of every getter: `if not required: return default` / `raise errors.HTTPMissingParam(name)` -/
def absent (required : Bool) (store : Option (Store σ)) : Out α σ :=
  if !required then .ret .default store else .ret .missing400 store

/-- `params[name] != []` is false -/
def isEmptyList : Val → Bool
  | .many [] => true
  | _ => false

/-- `if isinstance(param, list): param = param[-1]`; `none` = `IndexError` -/
def lastElem : Val → Option Str
  | .one s => some s
  | .many l => l.getLast?

/-- `if store is not None: store[name] = val` -/
def doStore (store : Option (Store σ)) (name : Str) (v : σ) : Option (Store σ) :=
  match store with
  | some s => some (storeSet s name v)
  | none => none

/-! ### `get_param` -/
def getParam (inj : Str → σ) (params : Params) (name : Str) (required : Bool) (store : Option (Store σ)) : Out Str σ :=
  match lookup params name with
  | some param =>                                          -- name in params
    if !isEmptyList param then                             -- and params[name] != []
      match lastElem param with
      | none => .indexError
      | some param => .ret (.value param) (doStore store name (inj param))
    else absent required store
  | none => absent required store

/-! ### `get_param_as_int` -/

/-- `min_value is not None and val < min_value` -/
def belowMin (minValue : Option Int) (val : Int) : Bool :=
  match minValue with
  | some m => decide (val < m)
  | none => false

/-- `max_value is not None and max_value < val` -/
def aboveMax (maxValue : Option Int) (val : Int) : Bool :=
  match maxValue with
  | some m => decide (m < val)
  | none => false

def getInt (inj : Int → σ) (params : Params) (name : Str) (required : Bool) (minValue maxValue : Option Int)
    (store : Option (Store σ)) : Out Int σ :=
  match lookup params name with
  | some param =>
    if !isEmptyList param then
      match lastElem param with
      | none => .indexError
      | some valStr =>
        match pyInt valStr with                            -- try: val = int(val_str) / except ValueError
        | none => .ret .invalid400 store
        | some val =>
          if belowMin minValue val then .ret .invalid400 store
          else if aboveMax maxValue val then .ret .invalid400 store
          else .ret (.value val) (doStore store name (inj val))
    else absent required store
  | none => absent required store

/-! ### `get_param_as_bool` -/

/-- `TRUE_STRINGS = frozenset(['true', 'True', 't', 'yes', 'y', '1', 'on'])` -/
def trueStrings : List Str := [[116,114,117,101], [84,114,117,101], [116], [121,101,115], [121], [49], [111,110]]
/-- `FALSE_STRINGS = frozenset(['false', 'False', 'f', 'no', 'n', '0', 'off'])` -/
def falseStrings : List Str := [[102,97,108,115,101], [70,97,108,115,101], [102], [110,111], [110], [48], [111,102,102]]

def getBool (inj : Bool → σ) (params : Params) (name : Str) (required : Bool) (blankAsTrue : Bool)
    (store : Option (Store σ)) : Out Bool σ :=
  match lookup params name with
  | some param =>
    if !isEmptyList param then
      match lastElem param with
      | none => .indexError
      | some valStr =>
        if trueStrings.contains valStr then .ret (.value true) (doStore store name (inj true))
        else if falseStrings.contains valStr then .ret (.value false) (doStore store name (inj false))
        else if valStr.isEmpty then .ret (.value blankAsTrue) (doStore store name (inj blankAsTrue))
        else .ret .invalid400 store
    else absent required store
  | none => absent required store

/-! ### `get_param_as_list` — guarded by `name in params` only: an empty list is returned as such -/

/-- `if not isinstance(items, list): items = [items]` -/
def itemsOf : Val → List Str
  | .one s => [s]
  | .many l => l

/-- `transform is None` -/
def getList (inj : List Str → σ) (params : Params) (name : Str) (required : Bool) (store : Option (Store σ)) :
    Out (List Str) σ :=
  match lookup params name with
  | some items => .ret (.value (itemsOf items)) (doStore store name (inj (itemsOf items)))
  | none => absent required store

/-- `[transform(i) for i in items]`, left to right, abandoned at the first `ValueError` (`none`) -/
def mapT (t : Str → Option β) : List Str → Option (List β)
  | [] => some []
  | i :: r =>
    match t i with
    | none => none
    | some v => match mapT t r with
      | none => none
      | some vs => some (v :: vs)

/-- with a `transform` whose only exception is `ValueError` (`none`) -/
def getListT (t : Str → Option β) (inj : List β → σ) (params : Params) (name : Str) (required : Bool)
    (store : Option (Store σ)) : Out (List β) σ :=
  match lookup params name with
  | some items =>
    match mapT t (itemsOf items) with
    | none => .ret .invalid400 store
    | some itemsRet => .ret (.value itemsRet) (doStore store name (inj itemsRet))
  | none => absent required store

/-! ### the getters before fix 208c75d (no `params[name] != []`), for the regression witness only -/
def getParamPinned (inj : Str → σ) (params : Params) (name : Str) (required : Bool) (store : Option (Store σ)) : Out Str σ :=
  match lookup params name with
  | some param =>
    match lastElem param with
    | none => .indexError
    | some param => .ret (.value param) (doStore store name (inj param))
  | none => absent required store

/-! ### `falcon.util.misc.to_query_str` on the UTF-8 bytes of names and values
    (values are `str` or lists of `str`; `True`/`False` render as the strings `true`/`false`, other types go
    through `str()` first — both outside the model) -/
open Uri (encodeValue)

inductive BVal where
  | one (v : List UInt8) | many (vs : List (List UInt8))
  deriving Repr

/-- `','.join(parts)` -/
def joinComma : List (List UInt8) → List UInt8
  | [] => []
  | [x] => x
  | x :: r => x ++ 44 :: joinComma r

/-- one iteration of `for k, v in params.items()` appending to `query_str` -/
def renderItem (cdl : Bool) (q : List UInt8) (kv : List UInt8 × BVal) : List UInt8 :=
  match kv.2 with
  | .many vs =>
    if cdl then q ++ (encodeValue kv.1 ++ 61 :: (joinComma (vs.map encodeValue) ++ [38]))
    else vs.foldl (fun q lv => q ++ (encodeValue kv.1 ++ 61 :: (encodeValue lv ++ [38]))) q
  | .one v => q ++ (encodeValue kv.1 ++ 61 :: (encodeValue v ++ [38]))

def toQueryStr (m : List (List UInt8 × BVal)) (cdl pfx : Bool) : List UInt8 :=
  if m.isEmpty then [] else (m.foldl (renderItem cdl) (if pfx then [63] else [])).dropLast

end Gt

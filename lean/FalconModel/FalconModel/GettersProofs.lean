import FalconModel.Getters
import FalconModel.QueryRef
/-! C08: theorems about the typed getters (`FalconModel/Getters.lean`), for ALL mappings and arguments, and their
    composition with `Qs.parseQS_eq_ref` into statements about the raw query string. -/
namespace Gt
open Qs (Str Val Params lookup valsOfVal)

/-! ### the specification: "the last value of that name, converted" -/

/-- the last of the values the mapping holds for `name` (none: the name is absent, or holds the empty list) -/
def lastValue (p : Params) (name : Str) : Option Str :=
  match lookup p name with
  | none => none
  | some v => (valsOfVal v).getLast?

/-- what every scalar getter computes, given its conversion `conv` (`none` = the value is rejected) -/
def spec (conv : Str → Option α) (inj : α → σ) (p : Params) (name : Str) (required : Bool) (store : Option (Store σ)) : Out α σ :=
  match lastValue p name with
  | none => .ret (if required then .missing400 else .default) store
  | some s =>
    match conv s with
    | none => .ret .invalid400 store
    | some v => .ret (.value v) (doStore store name (inj v))

/-- `min_value <= v`, not checked when `min_value` is `None` -/
def geMin : Option Int → Int → Prop
  | some m, v => m ≤ v
  | none, _ => True
/-- `v <= max_value`, not checked when `max_value` is `None` -/
def leMax : Option Int → Int → Prop
  | some m, v => v ≤ m
  | none, _ => True
instance (mn : Option Int) (v : Int) : Decidable (geMin mn v) :=
  match mn with
  | some m => inferInstanceAs (Decidable (m ≤ v))
  | none => inferInstanceAs (Decidable True)
instance (mx : Option Int) (v : Int) : Decidable (leMax mx v) :=
  match mx with
  | some m => inferInstanceAs (Decidable (v ≤ m))
  | none => inferInstanceAs (Decidable True)

/-- `min_value <= v <= max_value`, a bound that is `None` not being checked -/
def inBounds (mn mx : Option Int) (v : Int) : Prop := geMin mn v ∧ leMax mx v
instance (mn mx : Option Int) (v : Int) : Decidable (inBounds mn mx v) := inferInstanceAs (Decidable (_ ∧ _))

theorem inBounds_iff (mn mx : Option Int) (v : Int) :
    inBounds mn mx v ↔ (∀ m, mn = some m → m ≤ v) ∧ (∀ m, mx = some m → v ≤ m) := by
  unfold inBounds geMin leMax
  cases mn <;> cases mx <;> simp

def intConv (mn mx : Option Int) (s : Str) : Option Int :=
  match pyInt s with
  | none => none
  | some v => if inBounds mn mx v then some v else none

/-- the documented reading of `get_param_as_bool` -/
def boolConv (blankAsTrue : Bool) (s : Str) : Option Bool :=
  if s ∈ trueStrings then some true
  else if s ∈ falseStrings then some false
  else if s = [] then some blankAsTrue
  else none

theorem lastElem_eq (v : Val) : lastElem v = (valsOfVal v).getLast? := by
  cases v <;> simp [lastElem, valsOfVal]

theorem isEmptyList_iff (v : Val) : isEmptyList v = true ↔ valsOfVal v = [] := by
  cases v with
  | one s => simp [isEmptyList, valsOfVal]
  | many l => cases l <;> simp [isEmptyList, valsOfVal]

theorem absent_eq (required : Bool) (store : Option (Store σ)) :
    (absent required store : Out α σ) = .ret (if required then .missing400 else .default) store := by
  cases required <;> rfl

/-- the guard-and-last-element prelude shared by `get_param`, `get_param_as_int`, `get_param_as_bool` -/
theorem prelude_cases (p : Params) (name : Str) :
    (lastValue p name = none ∧ (lookup p name = none ∨ ∃ v, lookup p name = some v ∧ isEmptyList v = true)) ∨
    (∃ v s, lookup p name = some v ∧ isEmptyList v = false ∧ lastElem v = some s ∧ lastValue p name = some s) := by
  unfold lastValue
  cases h : lookup p name with
  | none => exact Or.inl ⟨rfl, Or.inl rfl⟩
  | some v =>
    cases he : isEmptyList v with
    | true =>
      refine Or.inl ⟨?_, Or.inr ⟨v, rfl, he⟩⟩
      simp [(isEmptyList_iff v).1 he]
    | false =>
      have hne : valsOfVal v ≠ [] := fun h0 => by rw [(isEmptyList_iff v).2 h0] at he; exact Bool.noConfusion he
      cases hl : (valsOfVal v).getLast? with
      | none => exact absurd (List.getLast?_eq_none_iff.1 hl) hne
      | some s => exact Or.inr ⟨v, s, rfl, he, by rw [lastElem_eq, hl], by simp [hl]⟩

theorem getParam_eq_spec (inj : Str → σ) (p : Params) (name : Str) (required : Bool) (store : Option (Store σ)) :
    getParam inj p name required store = spec some inj p name required store := by
  unfold getParam spec
  rcases prelude_cases p name with ⟨hl, h | ⟨v, h, he⟩⟩ | ⟨v, s, h, he, hs, hl⟩
  · simp [hl, h, absent_eq]
  · simp [hl, h, he, absent_eq]
  · simp [hl, h, he, hs]

theorem bounds_iff (mn mx : Option Int) (v : Int) :
    (belowMin mn v = false ∧ aboveMax mx v = false) ↔ inBounds mn mx v := by
  unfold inBounds geMin leMax belowMin aboveMax
  cases mn <;> cases mx <;> simp <;> omega

theorem getInt_eq_spec (inj : Int → σ) (p : Params) (name : Str) (required : Bool) (mn mx : Option Int) (store : Option (Store σ)) :
    getInt inj p name required mn mx store = spec (intConv mn mx) inj p name required store := by
  unfold getInt spec
  rcases prelude_cases p name with ⟨hl, h | ⟨v, h, he⟩⟩ | ⟨v, s, h, he, hs, hl⟩
  · simp [hl, h, absent_eq]
  · simp [hl, h, he, absent_eq]
  · simp only [hl, h, he, hs, Bool.not_false, if_true, intConv]
    cases hi : pyInt s with
    | none => rfl
    | some val =>
      simp only
      by_cases hb : inBounds mn mx val
      · have := (bounds_iff mn mx val).2 hb
        simp [this.1, this.2, hb]
      · simp only [hb, if_false]
        cases h1 : belowMin mn val with
        | true => simp
        | false =>
          cases h2 : aboveMax mx val with
          | true => simp
          | false => exact absurd ((bounds_iff mn mx val).1 ⟨h1, h2⟩) hb

theorem getBool_eq_spec (inj : Bool → σ) (p : Params) (name : Str) (required blank : Bool) (store : Option (Store σ)) :
    getBool inj p name required blank store = spec (boolConv blank) inj p name required store := by
  unfold getBool spec
  rcases prelude_cases p name with ⟨hl, h | ⟨v, h, he⟩⟩ | ⟨v, s, h, he, hs, hl⟩
  · simp [hl, h, absent_eq]
  · simp [hl, h, he, absent_eq]
  · simp only [hl, h, he, hs, Bool.not_false, if_true, boolConv, List.contains_eq_mem, decide_eq_true_eq, List.isEmpty_iff]
    by_cases h1 : s ∈ trueStrings
    · simp [h1]
    · by_cases h2 : s ∈ falseStrings
      · simp [h1, h2]
      · by_cases h3 : s = []
        · subst h3; simp [h1, h2]
        · simp [h1, h2, h3]

/-! ### `store[name] = v` -/

/-- `store.get(k)` -/
def storeGet (s : Store σ) (k : Str) : Option σ := (s.find? (·.1 == k)).map (·.2)

theorem storeGet_set_same (s : Store σ) (name : Str) (v : σ) : storeGet (storeSet s name v) name = some v := by
  unfold storeGet storeSet
  by_cases h : s.any (·.1 == name) = true
  · simp only [h, if_true]
    induction s with
    | nil => simp at h
    | cons e r ih =>
      simp only [List.map_cons, List.find?_cons]
      by_cases he : e.1 = name
      · simp [he]
      · have hb : (e.1 == name) = false := by simp [he]
        simp only [hb, Bool.false_eq_true, if_false]
        simp only [List.any_cons, hb, Bool.false_or] at h
        exact ih h
  · simp only [h, Bool.false_eq_true, if_false, List.find?_append]
    have : s.find? (·.1 == name) = none := by
      rw [List.find?_eq_none]; intro x hx hxe
      exact h (List.any_eq_true.2 ⟨x, hx, hxe⟩)
    simp [this]

theorem find_upd_other (s : Store σ) (name : Str) (v : σ) (k : Str) (hk : k ≠ name) :
    ((s.map fun e => if e.1 == name then (e.1, v) else e).find? (·.1 == k)).map (·.2) = (s.find? (·.1 == k)).map (·.2) := by
  induction s with
  | nil => rfl
  | cons e r ih =>
    simp only [List.map_cons, List.find?_cons]
    by_cases he : e.1 = name
    · have hnk : (e.1 == k) = false := by simp [he]; exact fun h => hk h.symm
      simp only [he, beq_self_eq_true, if_true]
      have hnk' : (name == k) = false := by simpa [he] using hnk
      simp only [hnk']
      simpa [he] using ih
    · have hb : (e.1 == name) = false := by simp [he]
      simp only [hb, Bool.false_eq_true, if_false]
      cases hek : (e.1 == k) with
      | true => rfl
      | false => exact ih

theorem storeGet_set_other (s : Store σ) (name : Str) (v : σ) (k : Str) (hk : k ≠ name) :
    storeGet (storeSet s name v) k = storeGet s k := by
  unfold storeGet storeSet
  have hnk : (name == k) = false := by simp; exact fun h => hk h.symm
  split
  · exact find_upd_other s name v k hk
  · simp [List.find?_append, hnk]

theorem filter_upd_others (s : Store σ) (name : Str) (v : σ) :
    (s.map fun e => if e.1 == name then (e.1, v) else e).filter (fun e => e.1 != name) = s.filter (fun e => e.1 != name) := by
  induction s with
  | nil => rfl
  | cons e r ih =>
    simp only [List.map_cons, List.filter_cons]
    by_cases he : e.1 = name
    · simp only [he, beq_self_eq_true, if_true, bne_self_eq_false, Bool.false_eq_true, if_false]
      simpa [he] using ih
    · have hb : (e.1 == name) = false := by simp [he]
      have hb' : (e.1 != name) = true := by simp [he]
      simp only [hb, Bool.false_eq_true, if_false, hb', if_true]
      rw [ih]

/-- every entry under another key stays, in the same order -/
theorem storeSet_others (s : Store σ) (name : Str) (v : σ) :
    (storeSet s name v).filter (fun e => e.1 != name) = s.filter (fun e => e.1 != name) := by
  unfold storeSet
  split
  · exact filter_upd_others s name v
  · simp [List.filter_append]

/-- the keys of the store: unchanged if `name` was a key, else `name` is appended -/
theorem storeSet_keys (s : Store σ) (name : Str) (v : σ) :
    (storeSet s name v).map (·.1) = if name ∈ s.map (·.1) then s.map (·.1) else s.map (·.1) ++ [name] := by
  unfold storeSet
  have hiff : s.any (·.1 == name) = true ↔ name ∈ s.map (·.1) := by
    simp only [List.any_eq_true, List.mem_map, beq_iff_eq]
  by_cases h : s.any (·.1 == name) = true
  · simp only [h, if_true, hiff.1 h, List.map_map]
    apply List.map_congr_left
    intro e _
    simp only [Function.comp]
    split <;> rfl
  · have hn : name ∉ s.map (·.1) := fun hm => h (hiff.2 hm)
    simp only [h, Bool.false_eq_true, if_false, hn, List.map_append, List.map_cons, List.map_nil]

/-- the effect `if store is not None: store[name] = x` has on the `store` argument -/
structure StoreEffect (store store' : Option (Store σ)) (name : Str) (x : σ) : Prop where
  none_stays : store = none → store' = none
  set : ∀ st, store = some st → ∃ st', store' = some st' ∧ storeGet st' name = some x ∧
          (∀ k, k ≠ name → storeGet st' k = storeGet st k) ∧
          st'.filter (fun e => e.1 != name) = st.filter (fun e => e.1 != name) ∧
          st'.map (·.1) = (if name ∈ st.map (·.1) then st.map (·.1) else st.map (·.1) ++ [name])

theorem doStore_effect (store : Option (Store σ)) (name : Str) (x : σ) : StoreEffect store (doStore store name x) name x := by
  constructor
  · intro h; subst h; rfl
  · intro st h; subst h
    exact ⟨storeSet st name x, rfl, storeGet_set_same st name x, fun k hk => storeGet_set_other st name x k hk,
      storeSet_others st name x, storeSet_keys st name x⟩

/-! ### the list getter -/
theorem itemsOf_eq (v : Val) : itemsOf v = valsOfVal v := by cases v <;> rfl

theorem mapT_some : ∀ (l : List Str), mapT (β := Str) some l = some l
  | [] => rfl
  | x :: r => by simp [mapT, mapT_some r]

/-- without a transform the list getter is the transforming one with the identity -/
theorem getList_eq_getListT (inj : List Str → σ) (p : Params) (name : Str) (required : Bool) (store : Option (Store σ)) :
    getList inj p name required store = getListT some inj p name required store := by
  unfold getList getListT
  cases lookup p name with
  | none => rfl
  | some v => simp [mapT_some]

/-- `mapT t l = some r` iff every element converts, and `r` is the element-wise conversion -/
theorem mapT_eq_some (t : Str → Option β) : ∀ (l : List Str) (r : List β),
    mapT t l = some r ↔ l.map t = r.map some
  | [], r => by cases r <;> simp [mapT]
  | x :: l, r => by
    cases r with
    | nil =>
      simp only [mapT, List.map_cons, List.map_nil]
      cases t x with
      | none => simp
      | some v => cases mapT t l <;> simp
    | cons y r =>
      simp only [mapT, List.map_cons, List.cons.injEq]
      cases ht : t x with
      | none => simp
      | some v =>
        cases hm : mapT t l with
        | none =>
          simp only [false_iff, reduceCtorEq]
          intro ⟨_, h⟩
          rw [← mapT_eq_some t l r, hm] at h; cases h
        | some vs =>
          have := mapT_eq_some t l r
          rw [hm] at this
          simp only [Option.some.injEq, List.cons.injEq] at this ⊢
          constructor
          · rintro ⟨h1, h2⟩; exact ⟨h1, this.1 h2⟩
          · rintro ⟨h1, h2⟩; exact ⟨h1, this.2 h2⟩

theorem mapT_eq_none (t : Str → Option β) : ∀ (l : List Str), mapT t l = none ↔ ∃ x ∈ l, t x = none
  | [] => by simp [mapT]
  | x :: l => by
    simp only [mapT, List.mem_cons, exists_eq_or_imp]
    cases ht : t x with
    | none => simp
    | some v =>
      have := mapT_eq_none t l
      cases hm : mapT t l with
      | none => rw [hm] at this; simp [this.1 rfl]
      | some vs =>
        rw [hm] at this
        simp only [reduceCtorEq, false_iff, false_or] at this ⊢
        exact this

/-! ### the named theorems -/

theorem spec_congr (conv : Str → Option α) (inj : α → σ) (p p' : Params) (name : Str) (required : Bool) (store : Option (Store σ))
    (h : lastValue p name = lastValue p' name) : spec conv inj p name required store = spec conv inj p' name required store := by
  unfold spec; rw [h]

theorem lastValue_single (name s : Str) : lastValue [(name, .one s)] name = some s := by
  simp [lastValue, lookup, valsOfVal]

theorem lastValue_of_vals (p : Params) (name : Str) (v : Val) (pre : List Str) (s : Str)
    (hl : lookup p name = some v) (hv : valsOfVal v = pre ++ [s]) : lastValue p name = some s := by
  simp [lastValue, hl, hv]

/-- **last occurrence wins.**  Whatever the mapping, if the values it holds for `name` are `pre ++ [s]` (one scalar:
    `pre = []`), every scalar getter behaves exactly as on the mapping `{name: s}`: `get_param` returns `s`,
    `get_param_as_int` / `_as_bool` convert `s` and nothing else. -/
theorem getter_last_occurrence (p : Params) (name : Str) (v : Val) (pre : List Str) (s : Str)
    (hl : lookup p name = some v) (hv : valsOfVal v = pre ++ [s]) :
    (∀ (σ : Type) (inj : Str → σ) req store,
        getParam inj p name req store = .ret (.value s) (doStore store name (inj s))) ∧
    (∀ (σ : Type) (inj : Int → σ) req mn mx store,
        getInt inj p name req mn mx store = getInt inj [(name, .one s)] name req mn mx store) ∧
    (∀ (σ : Type) (inj : Bool → σ) req blank store,
        getBool inj p name req blank store = getBool inj [(name, .one s)] name req blank store) := by
  have h := lastValue_of_vals p name v pre s hl hv
  have h' := lastValue_single name s
  refine ⟨?_, ?_, ?_⟩
  · intro σ inj req store; rw [getParam_eq_spec]; simp [spec, h]
  · intro σ inj req mn mx store; rw [getInt_eq_spec, getInt_eq_spec]; exact spec_congr _ _ _ _ _ _ _ (h.trans h'.symm)
  · intro σ inj req blank store; rw [getBool_eq_spec, getBool_eq_spec]; exact spec_congr _ _ _ _ _ _ _ (h.trans h'.symm)

-- a=1&b=x&a=2&a=3 parsed: the value used for `a` is 3
example : getInt (σ := Int) id [([97], .many [[49], [50], [51]]), ([98], .one [120])] [97] false none none (some []) =
    .ret (.value 3) (some [([97], 3)]) := by decide

/-- **bounds are exact.**  When the last value is the integer `v`: the getter returns `v` (and stores it) iff
    `min_value <= v <= max_value`, each bound being checked iff it is given — a bound of 0 is a bound —, and otherwise
    answers `HTTPInvalidParam` with the store untouched. -/
theorem getInt_bounds_exact (inj : Int → σ) (p : Params) (name : Str) (req : Bool) (mn mx : Option Int) (store : Option (Store σ))
    (s : Str) (v : Int) (hs : lastValue p name = some s) (hv : pyInt s = some v) :
    getInt inj p name req mn mx store =
      if inBounds mn mx v then .ret (.value v) (doStore store name (inj v)) else .ret .invalid400 store := by
  rw [getInt_eq_spec]; unfold spec intConv
  simp only [hs, hv]
  by_cases hb : inBounds mn mx v <;> simp [hb]

/-- the same as an equivalence: a value is returned iff it is the integer read and lies within the bounds -/
theorem getInt_value_iff (inj : Int → σ) (p : Params) (name : Str) (req : Bool) (mn mx : Option Int) (store : Option (Store σ))
    (s : Str) (v w : Int) (hs : lastValue p name = some s) (hv : pyInt s = some v) :
    (∃ st, getInt inj p name req mn mx store = .ret (.value w) st) ↔
      (w = v ∧ (∀ m, mn = some m → m ≤ v) ∧ (∀ m, mx = some m → v ≤ m)) := by
  rw [getInt_bounds_exact inj p name req mn mx store s v hs hv, ← inBounds_iff]
  by_cases hb : inBounds mn mx v
  · simp only [hb, if_true]
    constructor
    · rintro ⟨st, h⟩; injection h with h1 _; injection h1 with h1; exact ⟨h1.symm, trivial⟩
    · rintro ⟨rfl, _⟩; exact ⟨_, rfl⟩
  · simp only [hb, if_false]
    constructor
    · rintro ⟨st, h⟩; injection h with h1 _; cases h1
    · rintro ⟨_, h⟩; exact h.elim

/-- not an integer for `int()`: `HTTPInvalidParam`, whatever the bounds -/
theorem getInt_not_int (inj : Int → σ) (p : Params) (name : Str) (req : Bool) (mn mx : Option Int) (store : Option (Store σ))
    (s : Str) (hs : lastValue p name = some s) (hv : pyInt s = none) :
    getInt inj p name req mn mx store = .ret .invalid400 store := by
  rw [getInt_eq_spec]; unfold spec intConv; simp only [hs, hv]

-- a bound equal to 0 is honoured: ?n=5 with max_value=0 is rejected, ?n=0 with min_value=0, max_value=0 is accepted,
-- ?n=-1 with min_value=0 is rejected
example : getInt (σ := Int) id [([110], .one [53])] [110] false none (some 0) (some []) = .ret .invalid400 (some []) := by decide
example : getInt (σ := Int) id [([110], .one [48])] [110] false (some 0) (some 0) (some []) = .ret (.value 0) (some [([110], 0)]) := by decide
example : getInt (σ := Int) id [([110], .one [45, 49])] [110] true (some 0) none none = .ret .invalid400 none := by decide
example : inBounds (some 0) (some 0) 0 ∧ ¬ inBounds none (some 0) 5 ∧ ¬ inBounds (some 0) none (-1) := by decide

/-- what the four getters promise about `required`, `default` and `store`, as a predicate on the outcome `out` of a
    call with arguments `required`, `store`; `found` = the parameter counts as present; `P v` = `v` is an acceptable value -/
structure Promise (found : Prop) (name : Str) (required : Bool) (store : Option (Store σ)) (inj : α → σ) (out : Out α σ) : Prop where
  /-- missing and required: `HTTPMissingParam`, the store is not touched -/
  missing_required : ¬ found → required = true → out = .ret .missing400 store
  /-- missing, not required: the `default` argument is returned, the store is not touched -/
  missing_default : ¬ found → required = false → out = .ret .default store
  /-- found: either a value `v` is returned and `store[name] = v` is the only change to the store (`StoreEffect`),
      or `HTTPInvalidParam` is raised and the store is not touched; `required` and `default` play no role -/
  found_value : found → out = .ret .invalid400 store ∨
      ∃ v st', out = .ret (.value v) st' ∧ st' = doStore store name (inj v) ∧ StoreEffect store st' name (inj v)

theorem spec_promise (conv : Str → Option α) (inj : α → σ) (p : Params) (name : Str) (required : Bool) (store : Option (Store σ)) :
    Promise (lastValue p name ≠ none) name required store inj (spec conv inj p name required store) := by
  unfold spec
  constructor
  · intro h hr; simp only [ne_eq, Decidable.not_not] at h; simp [h, hr]
  · intro h hr; simp only [ne_eq, Decidable.not_not] at h; simp [h, hr]
  · intro h
    cases hl : lastValue p name with
    | none => exact absurd hl h
    | some s =>
      simp only
      cases hc : conv s with
      | none => exact Or.inl rfl
      | some v => exact Or.inr ⟨v, _, rfl, rfl, doStore_effect store name (inj v)⟩

theorem lastValue_ne_none_iff (p : Params) (name : Str) :
    lastValue p name ≠ none ↔ ∃ v, lookup p name = some v ∧ valsOfVal v ≠ [] := by
  unfold lastValue
  cases lookup p name with
  | none => simp
  | some v => simp [List.getLast?_eq_none_iff]

/-- **required / default / store**, for every mapping and all arguments.  For `get_param`, `get_param_as_int`,
    `get_param_as_bool` "found" means: the name is in the mapping with at least one value; for `get_param_as_list`:
    the name is in the mapping. -/
theorem getter_required_default_store (p : Params) (name : Str) (required : Bool) :
    (∀ (σ : Type) (inj : Str → σ) store,
      Promise (lastValue p name ≠ none) name required store inj (getParam inj p name required store)) ∧
    (∀ (σ : Type) (inj : Int → σ) mn mx store,
      Promise (lastValue p name ≠ none) name required store inj (getInt inj p name required mn mx store)) ∧
    (∀ (σ : Type) (inj : Bool → σ) blank store,
      Promise (lastValue p name ≠ none) name required store inj (getBool inj p name required blank store)) ∧
    (∀ (σ β : Type) (t : Str → Option β) (inj : List β → σ) store,
      Promise (lookup p name ≠ none) name required store inj (getListT t inj p name required store)) ∧
    (∀ (σ : Type) (inj : List Str → σ) store,
      Promise (lookup p name ≠ none) name required store inj (getList inj p name required store)) := by
  have hlist : ∀ (σ β : Type) (t : Str → Option β) (inj : List β → σ) store,
      Promise (lookup p name ≠ none) name required store inj (getListT t inj p name required store) := by
    intro σ β t inj store
    unfold getListT
    constructor
    · intro h hr; simp only [ne_eq, Decidable.not_not] at h; simp [h, hr, absent]
    · intro h hr; simp only [ne_eq, Decidable.not_not] at h; simp [h, hr, absent]
    · intro h
      cases hl : lookup p name with
      | none => exact absurd hl h
      | some items =>
        simp only
        cases mapT t (itemsOf items) with
        | none => exact Or.inl rfl
        | some r => exact Or.inr ⟨r, _, rfl, rfl, doStore_effect store name (inj r)⟩
  refine ⟨?_, ?_, ?_, hlist, ?_⟩
  · intro σ inj store; rw [getParam_eq_spec]; exact spec_promise _ _ _ _ _ _
  · intro σ inj mn mx store; rw [getInt_eq_spec]; exact spec_promise _ _ _ _ _ _
  · intro σ inj blank store; rw [getBool_eq_spec]; exact spec_promise _ _ _ _ _ _
  · intro σ inj store; rw [getList_eq_getListT]; exact hlist σ Str some inj store

/-- `get_param` never answers `HTTPInvalidParam`; a present `get_param_as_list` without transform always returns -/
theorem getParam_found (inj : Str → σ) (p : Params) (name : Str) (req : Bool) (store : Option (Store σ)) (s : Str)
    (hs : lastValue p name = some s) : getParam inj p name req store = .ret (.value s) (doStore store name (inj s)) := by
  rw [getParam_eq_spec]; simp [spec, hs]

/-- **only the documented outcomes.**  No call of a getter, on any mapping with any arguments, escapes with an
    `IndexError`: it returns a value, returns the default, or raises one of the two 400 errors; the store is either
    untouched or received exactly the returned value.  In particular (F06) a name whose value is the EMPTY LIST — which
    `parse_query_string` produces for `?a=,` with CSV parsing on and blank values dropped — is "missing" for the scalar
    getters and the empty list for `get_param_as_list`. -/
theorem getter_only_documented_outcomes (p : Params) (name : Str) (required : Bool) :
    (∀ (σ : Type) (inj : Str → σ) store, ∃ r st, getParam inj p name required store = .ret r st ∧
        (st = store ∨ ∃ v, r = .value v ∧ st = doStore store name (inj v))) ∧
    (∀ (σ : Type) (inj : Int → σ) mn mx store, ∃ r st, getInt inj p name required mn mx store = .ret r st ∧
        (st = store ∨ ∃ v, r = .value v ∧ st = doStore store name (inj v))) ∧
    (∀ (σ : Type) (inj : Bool → σ) blank store, ∃ r st, getBool inj p name required blank store = .ret r st ∧
        (st = store ∨ ∃ v, r = .value v ∧ st = doStore store name (inj v))) ∧
    (∀ (σ β : Type) (t : Str → Option β) (inj : List β → σ) store, ∃ r st, getListT t inj p name required store = .ret r st ∧
        (st = store ∨ ∃ v, r = .value v ∧ st = doStore store name (inj v))) ∧
    (lookup p name = some (.many []) →
      (∀ (σ : Type) (inj : Str → σ) store,
          getParam inj p name required store = .ret (if required then .missing400 else .default) store) ∧
      (∀ (σ : Type) (inj : Int → σ) mn mx store,
          getInt inj p name required mn mx store = .ret (if required then .missing400 else .default) store) ∧
      (∀ (σ : Type) (inj : Bool → σ) blank store,
          getBool inj p name required blank store = .ret (if required then .missing400 else .default) store) ∧
      (∀ (σ : Type) (inj : List Str → σ) store,
          getList inj p name required store = .ret (.value []) (doStore store name (inj [])))) := by
  have hspec : ∀ (α σ : Type) (conv : Str → Option α) (inj : α → σ) store, ∃ r st,
      spec conv inj p name required store = .ret r st ∧ (st = store ∨ ∃ v, r = .value v ∧ st = doStore store name (inj v)) := by
    intro α σ conv inj store
    unfold spec
    cases lastValue p name with
    | none => exact ⟨_, _, rfl, Or.inl rfl⟩
    | some s =>
      simp only
      cases conv s with
      | none => exact ⟨_, _, rfl, Or.inl rfl⟩
      | some v => exact ⟨_, _, rfl, Or.inr ⟨v, rfl, rfl⟩⟩
  refine ⟨?_, ?_, ?_, ?_, ?_⟩
  · intro σ inj store; rw [getParam_eq_spec]; exact hspec _ _ _ _ _
  · intro σ inj mn mx store; rw [getInt_eq_spec]; exact hspec _ _ _ _ _
  · intro σ inj blank store; rw [getBool_eq_spec]; exact hspec _ _ _ _ _
  · intro σ β t inj store
    unfold getListT
    cases lookup p name with
    | none => simp only [absent_eq]; exact ⟨_, _, rfl, Or.inl rfl⟩
    | some items =>
      simp only
      cases mapT t (itemsOf items) with
      | none => exact ⟨_, _, rfl, Or.inl rfl⟩
      | some r => exact ⟨_, _, rfl, Or.inr ⟨r, rfl, rfl⟩⟩
  · intro he
    have hl : lastValue p name = none := by simp [lastValue, he, valsOfVal]
    refine ⟨?_, ?_, ?_, ?_⟩
    · intro σ inj store; rw [getParam_eq_spec]; simp [spec, hl]
    · intro σ inj mn mx store; rw [getInt_eq_spec]; simp [spec, hl]
    · intro σ inj blank store; rw [getBool_eq_spec]; simp [spec, hl]
    · intro σ inj store; simp [getList, he, itemsOf]

/-- regression witness for F06: without the guard `params[name] != []` (the code before fix 208c75d) the mapping
    `{'a': []}` makes `get_param('a')` escape with `IndexError` -/
theorem f06_witness : getParamPinned (σ := Str) id [([97], .many [])] [97] false none = .indexError := by decide

/-! ### the boolean table -/
theorem tables_disjoint : (∀ s ∈ trueStrings, s ∉ falseStrings ∧ s ≠ []) ∧ (∀ s ∈ falseStrings, s ∉ trueStrings ∧ s ≠ []) := by decide

/-- **the boolean reading is exactly the documented table**: `True` for `true True t yes y 1 on` (and for the empty
    string iff `blank_as_true`), `False` for `false False f no n 0 off` (and for the empty string iff not
    `blank_as_true`), rejected otherwise — comparison is by equality, so `TRUE`, ` true`, `2` … are rejected -/
theorem getBool_table_exact (blank : Bool) (s : Str) :
    (boolConv blank s = some true ↔ (s ∈ trueStrings ∨ (s = [] ∧ blank = true))) ∧
    (boolConv blank s = some false ↔ (s ∈ falseStrings ∨ (s = [] ∧ blank = false))) ∧
    (boolConv blank s = none ↔ (s ∉ trueStrings ∧ s ∉ falseStrings ∧ s ≠ [])) := by
  unfold boolConv
  by_cases h1 : s ∈ trueStrings
  · have := tables_disjoint.1 s h1
    simp [h1, this.1, this.2]
  · by_cases h2 : s ∈ falseStrings
    · have := tables_disjoint.2 s h2
      simp [h1, h2, this.2]
    · by_cases h3 : s = []
      · subst h3; cases blank <;> simp [h1, h2]
      · simp [h1, h2, h3]

/-- the getter itself: for a found parameter whose last value is `s` -/
theorem getBool_found (inj : Bool → σ) (p : Params) (name : Str) (req blank : Bool) (store : Option (Store σ)) (s : Str)
    (hs : lastValue p name = some s) :
    getBool inj p name req blank store =
      match boolConv blank s with
      | some b => .ret (.value b) (doStore store name (inj b))
      | none => .ret .invalid400 store := by
  rw [getBool_eq_spec]; unfold spec; simp only [hs]; cases boolConv blank s <;> rfl

example : boolConv true [84, 114, 117, 101] = some true ∧ boolConv true [84, 82, 85, 69] = none ∧
    boolConv false [] = some false ∧ boolConv true [] = some true ∧ boolConv true [111, 102, 102] = some false := by decide

/-! ### end to end: from the raw query string (composition with `Qs.parseQS_eq_ref`) -/
open Qs (parseQS parseRef entries keysOf valOf Entry)

/-- every value the query string gives for `name`, in order: the fields are split on '&', each at its first '=',
    blank fields dropped per `keep_blank_qs_values`, names and values percent-decoded, a value with a literal comma
    split when `auto_parse_qs_csv` is on (`Qs.fieldEntry`) -/
def allVals (bs : Qs.Bytes) (kb csv : Bool) (name : Str) : List Str :=
  ((entries bs kb csv).filter (·.key == name)).flatMap (·.vals)

/-- some field of the query string carries this name (possibly with no value left: `?a=,`) -/
def named (bs : Qs.Bytes) (kb csv : Bool) (name : Str) : Prop := ∃ e ∈ entries bs kb csv, e.key = name

theorem lookup_parseQS (bs : Qs.Bytes) (kb csv : Bool) (name : Str) :
    lookup (parseQS bs kb csv) name =
      if name ∈ keysOf (entries bs kb csv) then some (valOf (entries bs kb csv) name) else none := by
  rw [Qs.parseQS_eq_ref]; unfold parseRef; exact Qs.lookup_map _ _ _

theorem lookup_parseQS_isSome (bs : Qs.Bytes) (kb csv : Bool) (name : Str) :
    lookup (parseQS bs kb csv) name ≠ none ↔ named bs kb csv name := by
  unfold named
  rw [lookup_parseQS, ← Qs.mem_keysOf]
  split <;> simp [*]

theorem vals_parseQS (bs : Qs.Bytes) (kb csv : Bool) (name : Str) (v : Val)
    (h : lookup (parseQS bs kb csv) name = some v) : valsOfVal v = allVals bs kb csv name := by
  rw [lookup_parseQS] at h
  split at h
  · injection h with h; subst h; exact Qs.valsOfVal_valOf _ _
  · cases h

theorem allVals_of_not_named (bs : Qs.Bytes) (kb csv : Bool) (name : Str) (h : lookup (parseQS bs kb csv) name = none) :
    allVals bs kb csv name = [] := by
  have hn : ¬ named bs kb csv name := fun hn => (lookup_parseQS_isSome bs kb csv name).2 hn h
  unfold allVals
  have : (entries bs kb csv).filter (·.key == name) = [] := by
    rw [List.filter_eq_nil_iff]; intro e he hk
    exact hn ⟨e, he, by simpa using hk⟩
  rw [this]; rfl

/-- the value the scalar getters use is the LAST value the query string gives for the name -/
theorem lastValue_parseQS (bs : Qs.Bytes) (kb csv : Bool) (name : Str) :
    lastValue (parseQS bs kb csv) name = (allVals bs kb csv name).getLast? := by
  unfold lastValue
  cases h : lookup (parseQS bs kb csv) name with
  | none => simp [allVals_of_not_named bs kb csv name h]
  | some v => simp only; rw [vals_parseQS bs kb csv name v h]

/-- **end to end, `get_param`**: on the mapping parsed from ANY query string the getter returns the last value the query
    string gives for the name; with no value: the default, or `HTTPMissingParam` if required -/
theorem getParam_of_query (inj : Str → σ) (bs : Qs.Bytes) (kb csv : Bool) (name : Str) (req : Bool) (store : Option (Store σ)) :
    getParam inj (parseQS bs kb csv) name req store =
      match (allVals bs kb csv name).getLast? with
      | some s => .ret (.value s) (doStore store name (inj s))
      | none => .ret (if req then .missing400 else .default) store := by
  rw [getParam_eq_spec]; unfold spec; rw [lastValue_parseQS]
  cases (allVals bs kb csv name).getLast? <;> rfl

/-- **end to end, `get_param_as_int`**: the last value is read by `int()`; within the given bounds it is returned and
    stored, otherwise (not an integer / out of bounds) `HTTPInvalidParam`; with no value: default / `HTTPMissingParam` -/
theorem getInt_of_query (inj : Int → σ) (bs : Qs.Bytes) (kb csv : Bool) (name : Str) (req : Bool) (mn mx : Option Int)
    (store : Option (Store σ)) :
    getInt inj (parseQS bs kb csv) name req mn mx store =
      match (allVals bs kb csv name).getLast? with
      | some s =>
        (match pyInt s with
         | some v => if inBounds mn mx v then .ret (.value v) (doStore store name (inj v)) else .ret .invalid400 store
         | none => .ret .invalid400 store)
      | none => .ret (if req then .missing400 else .default) store := by
  rw [getInt_eq_spec]; unfold spec intConv; rw [lastValue_parseQS]
  cases (allVals bs kb csv name).getLast? with
  | none => rfl
  | some s =>
    simp only
    cases pyInt s with
    | none => rfl
    | some v => simp only; by_cases hb : inBounds mn mx v <;> simp [hb]

/-- **end to end, `get_param_as_bool`** -/
theorem getBool_of_query (inj : Bool → σ) (bs : Qs.Bytes) (kb csv : Bool) (name : Str) (req blank : Bool)
    (store : Option (Store σ)) :
    getBool inj (parseQS bs kb csv) name req blank store =
      match (allVals bs kb csv name).getLast? with
      | some s =>
        (match boolConv blank s with
         | some b => .ret (.value b) (doStore store name (inj b))
         | none => .ret .invalid400 store)
      | none => .ret (if req then .missing400 else .default) store := by
  rw [getBool_eq_spec]; unfold spec; rw [lastValue_parseQS]
  cases (allVals bs kb csv name).getLast? with
  | none => rfl
  | some s => simp only; cases boolConv blank s <;> rfl

/-- **end to end, `get_param_as_list`**: if some field carries the name, ALL its values in query-string order
    (converted element-wise when a transform is given; one failure rejects the whole parameter) -/
theorem getListT_of_query (t : Str → Option β) (inj : List β → σ) (bs : Qs.Bytes) (kb csv : Bool) (name : Str) (req : Bool)
    (store : Option (Store σ)) :
    getListT t inj (parseQS bs kb csv) name req store =
      if name ∈ keysOf (entries bs kb csv) then
        (match mapT t (allVals bs kb csv name) with
         | some r => .ret (.value r) (doStore store name (inj r))
         | none => .ret .invalid400 store)
      else .ret (if req then .missing400 else .default) store := by
  unfold getListT
  cases h : lookup (parseQS bs kb csv) name with
  | none =>
    have : name ∉ keysOf (entries bs kb csv) := by
      intro hm; rw [lookup_parseQS, if_pos hm] at h; cases h
    simp [this, absent_eq]
  | some v =>
    have hm : name ∈ keysOf (entries bs kb csv) := by
      apply Decidable.byContradiction; intro hm; rw [lookup_parseQS, if_neg hm] at h; cases h
    simp only [hm, if_true, itemsOf_eq, vals_parseQS bs kb csv name v h]
    cases mapT t (allVals bs kb csv name) <;> rfl

theorem getList_of_query (inj : List Str → σ) (bs : Qs.Bytes) (kb csv : Bool) (name : Str) (req : Bool) (store : Option (Store σ)) :
    getList inj (parseQS bs kb csv) name req store =
      if name ∈ keysOf (entries bs kb csv) then .ret (.value (allVals bs kb csv name)) (doStore store name (inj (allVals bs kb csv name)))
      else .ret (if req then .missing400 else .default) store := by
  rw [getList_eq_getListT, getListT_of_query, mapT_some]

-- "a=1&b=x&a=%32&a=3,4" with CSV on: the values of `a` are 1, 2, 3, 4; the scalar getters use 4
example : allVals [97,61,49,38,98,61,120,38,97,61,37,51,50,38,97,61,51,44,52] false true [97] = [[49], [50], [51], [52]] := by decide
example : getInt (σ := Int) id (parseQS [97,61,49,38,98,61,120,38,97,61,37,51,50,38,97,61,51,44,52] false true) [97] false (some 4) (some 4) (some []) =
    .ret (.value 4) (some [([97], 4)]) := by decide
-- F06: "a=," with CSV on and blanks dropped parses to {'a': []}: the scalar getters see a missing parameter, the list getter []
example : (parseQS [97, 61, 44] false true == [([97], .many [])]) = true := by decide
example : getInt (σ := Int) id (parseQS [97, 61, 44] false true) [97] true none none none = .ret .missing400 none := by decide
example : getList (σ := List Str) id (parseQS [97, 61, 44] false true) [97] true none = .ret (.value []) none := by decide

/-! ### `int()` on examples: whitespace, signs, underscores, non-ASCII decimal digits, and what is rejected -/
-- "12", " -1_0 ", "+7", "١٢" (Arabic-Indic), "1١" (mixed scripts), "０" (fullwidth zero)
example : pyInt [49, 50] = some 12 ∧ pyInt [32, 45, 49, 95, 48, 160] = some (-10) ∧ pyInt [43, 55] = some 7 ∧
    pyInt [1633, 1634] = some 12 ∧ pyInt [49, 1633] = some 11 ∧ pyInt [65296] = some 0 := by decide
-- "", "-", "1__0", "_1", "1_", "+ 1", "1 2", "\x1c5" (a separator `str.strip` removes but `int` does not), "0x10", "1.0", "−1" (U+2212)
example : pyInt [] = none ∧ pyInt [45] = none ∧ pyInt [49, 95, 95, 48] = none ∧ pyInt [95, 49] = none ∧ pyInt [49, 95] = none ∧
    pyInt [43, 32, 49] = none ∧ pyInt [49, 32, 50] = none ∧ pyInt [28, 53] = none ∧ pyInt [48, 120, 49, 48] = none ∧
    pyInt [49, 46, 48] = none ∧ pyInt [8722, 49] = none := by decide

/-! ### `int()` on plain decimal numerals, in general -/

/-- the number a list of decimal digits (most significant first) denotes -/
def ofDigits (ds : List Nat) : Nat := ds.foldl (fun acc d => 10 * acc + d) 0

theorem decimalOf_ascii : ∀ d, d < 10 → decimalOf (48 + d) = some d := by decide
theorem isIntWs_ascii_digit : ∀ d, d < 10 → isIntWs (48 + d) = false := by decide

theorem digitsGo_ascii : ∀ (ds : List Nat) (acc : Nat) (last : Bool), (∀ d ∈ ds, d < 10) → (ds ≠ [] ∨ last = true) →
    digitsGo (ds.map (48 + ·)) acc last = some (ds.foldl (fun acc d => 10 * acc + d) acc)
  | [], acc, last, _, h => by
    rcases h with h | h
    · exact absurd rfl h
    · subst h; rfl
  | d :: r, acc, last, hd, _ => by
    simp only [List.map_cons, digitsGo, decimalOf_ascii d (hd d (by simp)), List.foldl_cons]
    exact digitsGo_ascii r _ true (fun x hx => hd x (by simp [hx])) (Or.inr rfl)

theorem dropWhile_head_false (p : Nat → Bool) (c : Nat) (r : List Nat) (h : p c = false) : (c :: r).dropWhile p = c :: r := by
  simp [List.dropWhile, h]

/-- nothing is stripped from a text without whitespace -/
theorem stripWs_noop (s : Str) (h : ∀ c ∈ s, isIntWs c = false) : stripWs s = s := by
  unfold stripWs
  cases s with
  | nil => rfl
  | cons c r =>
    rw [dropWhile_head_false _ _ _ (h c (by simp))]
    cases hrev : (c :: r).reverse with
    | nil => simp at hrev
    | cons c' t =>
      have hc : c' ∈ c :: r := by
        have : c' ∈ (c :: r).reverse := by rw [hrev]; simp
        exact List.mem_reverse.1 this
      rw [dropWhile_head_false _ _ _ (h c' hc), ← hrev, List.reverse_reverse]

theorem ascii_no_ws (ds : List Nat) (hd : ∀ d ∈ ds, d < 10) : ∀ c ∈ ds.map (48 + ·), isIntWs c = false := by
  intro c hc
  obtain ⟨x, hx, rfl⟩ := List.mem_map.1 hc
  exact isIntWs_ascii_digit x (hd x hx)

theorem digitCount_ascii (ds : List Nat) (hd : ∀ d ∈ ds, d < 10) : digitCount (ds.map (48 + ·)) = ds.length := by
  unfold digitCount
  rw [List.filter_eq_self.2, List.length_map]
  intro c hc
  obtain ⟨x, hx, rfl⟩ := List.mem_map.1 hc
  rw [decimalOf_ascii x (hd x hx)]; rfl

/-- **`int()` reads plain decimal numerals**: for every non-empty list of at most 4300 ASCII digits, `int` of the text
    is the number the digits denote -/
theorem pyInt_ascii (ds : List Nat) (hne : ds ≠ []) (hd : ∀ d ∈ ds, d < 10) (hl : ds.length ≤ 4300) :
    pyInt (ds.map (48 + ·)) = some (ofDigits ds : Int) := by
  unfold pyInt
  rw [stripWs_noop _ (ascii_no_ws ds hd)]
  have hcount : ¬ digitCount (ds.map (48 + ·)) > maxStrDigits := by
    rw [digitCount_ascii ds hd]; unfold maxStrDigits; omega
  cases ds with
  | nil => exact absurd rfl hne
  | cons d r =>
    have hlt := hd d (by simp)
    simp only [List.map_cons] at hcount ⊢
    split
    · rename_i heq; injection heq with h _; omega
    · rename_i heq; injection heq with h _; omega
    · simp only [hcount, if_false]
      have := digitsGo_ascii (d :: r) 0 false hd (Or.inl (by simp))
      simp only [List.map_cons] at this
      rw [this]; rfl

/-- the same with a minus sign in front -/
theorem pyInt_ascii_neg (ds : List Nat) (hne : ds ≠ []) (hd : ∀ d ∈ ds, d < 10) (hl : ds.length ≤ 4300) :
    pyInt (45 :: ds.map (48 + ·)) = some (-(ofDigits ds : Int)) := by
  unfold pyInt
  have hs : stripWs (45 :: ds.map (48 + ·)) = 45 :: ds.map (48 + ·) := by
    apply stripWs_noop
    intro c hc
    rcases List.mem_cons.1 hc with rfl | hc
    · decide
    · exact ascii_no_ws ds hd c hc
  rw [hs]
  have hcount : ¬ digitCount (ds.map (48 + ·)) > maxStrDigits := by
    rw [digitCount_ascii ds hd]; unfold maxStrDigits; omega
  simp only [hcount, if_false]
  rw [digitsGo_ascii ds 0 false hd (Or.inl hne)]; rfl

/-- consequence for the getter: `?n=<decimal numeral of v>` (as the last value of `n`) is returned iff `v` is within the bounds -/
theorem getInt_decimal (inj : Int → σ) (p : Qs.Params) (name : Str) (req : Bool) (mn mx : Option Int) (store : Option (Store σ))
    (ds : List Nat) (hne : ds ≠ []) (hd : ∀ d ∈ ds, d < 10) (hl : ds.length ≤ 4300)
    (hs : lastValue p name = some (ds.map (48 + ·))) :
    getInt inj p name req mn mx store =
      if inBounds mn mx (ofDigits ds) then .ret (.value (ofDigits ds)) (doStore store name (inj (ofDigits ds)))
      else .ret .invalid400 store :=
  getInt_bounds_exact inj p name req mn mx store _ _ hs (pyInt_ascii ds hne hd hl)

example : pyInt [49, 50, 48] = some 120 := pyInt_ascii [1, 2, 0] (by decide) (by decide) (by decide)

end Gt

/-! Prototype for C11 (second half): media `Handlers` — a memoising resolver over a mutable mapping.
    `f` is the uncached resolution rule (exact key, else best match, else 415), an arbitrary function of the data. -/
namespace Mh

abbrev Data := List (String × Nat)          -- media type ↦ handler id
abbrev Cache := List (String × Option Nat)  -- memo: arbitrary sub-memo of `f data` (LRU eviction = dropping entries)

structure St where
  data : Data
  cache : Cache

inductive Op where
  | set (k : String) (v : Nat) | del (k : String) | clear
  | ior (kvs : Data)                       -- `handlers |= {...}`
  | evict (n : Nat)                        -- the LRU dropping its n oldest entries
  | resolve (k : String)
deriving Repr

/-- `self.data[k] = v` on a Python dict: an existing key keeps its position (the order of the keys decides ties in
    `best_match`), a new key is appended -/
def dset (d : Data) (k : String) (v : Nat) : Data :=
  if d.any (·.1 == k) then d.map (fun kv => if kv.1 == k then (k, v) else kv) else d ++ [(k, v)]

/-- `iorClears = false` is the pinned code (UserDict.__ior__ bypasses __setitem__), `true` the repaired one -/
def step (iorClears : Bool) (f : Data → String → Option Nat) (s : St) : Op → St × Option (Option Nat)
  | .set k v => ({ data := dset s.data k v, cache := [] }, none)
  | .del k => ({ data := s.data.filter (·.1 != k), cache := [] }, none)
  | .clear => ({ data := [], cache := [] }, none)
  | .ior kvs => ({ data := kvs.foldl (fun d kv => dset d kv.1 kv.2) s.data,
                   cache := if iorClears then [] else s.cache }, none)
  | .evict n => ({ s with cache := s.cache.drop n }, none)
  | .resolve k =>
    match s.cache.find? (·.1 == k) with
    | some e => (s, some e.2)
    | none => let r := f s.data k; ({ s with cache := s.cache ++ [(k, r)] }, some r)

/-- cache coherence: every memo entry is what the uncached rule gives on the *current* mapping -/
def Coherent (f : Data → String → Option Nat) (s : St) : Prop :=
  ∀ e ∈ s.cache, e.2 = f s.data e.1

theorem step_coherent (f : Data → String → Option Nat) (s : St) (op : Op) (h : Coherent f s) :
    Coherent f (step true f s op).1 := by
  cases op with
  | set k v => intro e he; simp [step] at he
  | del k => intro e he; simp [step] at he
  | clear => intro e he; simp [step] at he
  | ior kvs => intro e he; simp [step] at he
  | evict n =>
    intro e he
    simp only [step] at he ⊢
    exact h e (List.mem_of_mem_drop he)
  | resolve k =>
    simp only [step]
    split
    · exact h
    · intro e he
      simp only [List.mem_append, List.mem_singleton] at he
      rcases he with he | rfl
      · exact h e he
      · rfl

theorem resolve_on_coherent (f : Data → String → Option Nat) (s : St) (h : Coherent f s) (k : String) :
    (step true f s (.resolve k)).2 = some (f s.data k) := by
  simp only [step]
  split
  · rename_i e he
    have hm := List.mem_of_find?_eq_some he
    have hk : e.1 = k := by simpa using List.find?_some he
    rw [h e hm, hk]
  · rfl

def runOps (f : Data → String → Option Nat) (s0 : St) (ops : List Op) : St :=
  ops.foldl (fun s op => (step true f s op).1) s0

theorem history_coherent (f : Data → String → Option Nat) : ∀ (ops : List Op) (s0 : St),
    Coherent f s0 → Coherent f (runOps f s0 ops) := by
  intro ops
  induction ops with
  | nil => intro s0 h0; exact h0
  | cons op rest ih => intro s0 h0; exact ih _ (step_coherent f s0 op h0)

/-- **never a stale handler**: after any history of set / delete / clear / |= / LRU evictions / resolutions,
    a resolution returns what the current mapping designates -/
theorem resolve_fresh (f : Data → String → Option Nat) (ops : List Op) (s0 : St) (h0 : Coherent f s0) (k : String) :
    (step true f (runOps f s0 ops) (.resolve k)).2 = some (f (runOps f s0 ops).data k) :=
  resolve_on_coherent f _ (history_coherent f ops s0 h0) k

/-- the pinned code is not coherent: F08 -/
theorem ior_stale_witness :
    let f : Data → String → Option Nat := fun d k => (d.find? (·.1 == k)).map (·.2)
    let s0 : St := { data := [], cache := [] }
    let s1 := (step false f s0 (.resolve "application/x")).1
    let s2 := (step false f s1 (.ior [("application/x", 7)])).1
    (step false f s2 (.resolve "application/x")).2 = some none ∧ f s2.data "application/x" = some 7 := by
  decide

/-! ### the other mutators of the mapping, as histories of the basic operations

`update` calls `__setitem__` per item, `pop`/`popitem`/`clear` go through `__delitem__`, `setdefault` through
`__setitem__` when the key is missing, and `copy()` builds a fresh object (same items in the same order, empty memo)
— which on the state is exactly an eviction of the whole memo. -/
inductive XOp where
  | base (op : Op)
  | update (kvs : Data)
  | pop (k : String)
  | setdefault (k : String) (v : Nat)
  | popitem
  | copy
deriving Repr

def hasKey (d : Data) (k : String) : Bool := d.any (·.1 == k)

def lower (s : St) : XOp → List Op
  | .base op => [op]
  | .update kvs => kvs.map (fun kv => .set kv.1 kv.2)
  | .pop k => if hasKey s.data k then [.del k] else []
  | .setdefault k v => if hasKey s.data k then [] else [.set k v]
  | .popitem => match s.data.head? with      -- MutableMapping.popitem: the FIRST key
    | some kv => [.del kv.1]
    | none => []
  | .copy => [.evict s.cache.length]

def xstep (f : Data → String → Option Nat) (s : St) (x : XOp) : St := runOps f s (lower s x)

def xrun (f : Data → String → Option Nat) (s0 : St) (xs : List XOp) : St := xs.foldl (xstep f) s0

theorem xrun_coherent (f : Data → String → Option Nat) : ∀ (xs : List XOp) (s0 : St),
    Coherent f s0 → Coherent f (xrun f s0 xs) := by
  intro xs
  induction xs with
  | nil => intro s0 h0; exact h0
  | cons x rest ih => intro s0 h0; exact ih _ (history_coherent f (lower s0 x) s0 h0)

/-- **never a stale handler**, for histories over all mutators (set / delete / update / pop / popitem / clear /
    setdefault / `|=` / copy / LRU evictions) interleaved with resolutions -/
theorem resolve_fresh_x (f : Data → String → Option Nat) (xs : List XOp) (s0 : St) (h0 : Coherent f s0) (k : String) :
    (step true f (xrun f s0 xs) (.resolve k)).2 = some (f (xrun f s0 xs).data k) :=
  resolve_on_coherent f _ (xrun_coherent f xs s0 h0) k

/-- `copy()` preserves the mapping, also the empty one (F09 was `Handlers(self.data or defaults)`), and starts with an
    empty memo -/
theorem copy_preserves_mapping (f : Data → String → Option Nat) (s : St) :
    (xstep f s .copy).data = s.data ∧ (xstep f s .copy).cache = [] := by
  simp [xstep, lower, runOps, step]

#print axioms resolve_fresh
#print axioms ior_stale_witness
end Mh

import FalconModel.Handlers
import FalconModel.MediaType
/-! C11: the concrete resolution rule of `falcon.media.Handlers._create_resolver.resolve`, as an instance of the abstract
    `f` of `Handlers.lean`.  The memo key of the real resolver is `(media_type, default, raise_not_found)`; here it is the
    string `media_type ++ "\x00" ++ default ++ "\x00" ++ ("1" | "0")` (`media_type = None` is the empty string). -/
namespace Mh

def splitKey (key : String) : String × String × String :=
  match key.splitOn "\x00" with
  | [a, b, c] => (a, b, c)
  | [a, b] => (a, b, "1")
  | _ => (key, "", "1")

def mkKey (mediaType default : String) (raise : Bool) : String :=
  mediaType ++ "\x00" ++ default ++ "\x00" ++ (if raise then "1" else "0")

/-- the uncached rule: missing or `*/*` type → the default type; exact key; else `best_match(keys, media_type)`
    (a ValueError counts as no match); `none` = 415 / `(None, None, None)` -/
def resolveRule (d : Data) (key : String) : Option Nat :=
  let (mt0, dflt, _) := splitKey key
  let mt := if mt0 == "*/*" || mt0 == "" then dflt else mt0
  match d.find? (·.1 == mt) with
  | some kv => some kv.2
  | none =>
    match Mt.bestMatch (d.map (·.1.toList)) mt.toList with
    | .ok [] => none
    | .ok m => (d.find? (·.1 == String.ofList m)).map (·.2)
    | .error _ => none

/-- `resolve_fresh_x` at the concrete rule: after any history on an object created with an empty memo, a resolution
    returns what the *current* mapping designates by exact key / best match / default type -/
theorem resolve_rule_fresh (xs : List XOp) (d0 : Data) (k : String) :
    (step true resolveRule (xrun resolveRule { data := d0, cache := [] } xs) (.resolve k)).2 =
      some (resolveRule (xrun resolveRule { data := d0, cache := [] } xs).data k) :=
  resolve_fresh_x resolveRule xs _ (by intro e he; simp at he) k

/-- whether the rule had to leave the modelled fragment of `mediatypes` (driver: reply `unsupported`) -/
def ruleUnsupported (d : Data) (key : String) : Bool :=
  let (mt0, dflt, _) := splitKey key
  let mt := if mt0 == "*/*" || mt0 == "" then dflt else mt0
  match d.find? (·.1 == mt) with
  | some _ => false
  | none =>
    match Mt.bestMatch (d.map (·.1.toList)) mt.toList with
    | .error .unsupported => true
    | _ => false

end Mh

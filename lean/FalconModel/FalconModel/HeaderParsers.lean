/-! C09: typed request-header accessors — models of the parsing cores of
    `falcon/request.py` (`content_length`, `range`, `range_unit`, `host`, `port`),
    `falcon/util/uri.py::parse_host`, `falcon/util/structures.py::ETag.loads/dumps` and
    `falcon/request_helpers.py::_parse_etags`.

    A header value is a Latin-1 `str`, modelled as `List Char` (all code points < 256 in the
    correspondence).  Python's `int(str)` is modelled on that subset: the whitespace `int()` skips (`isWsI`),
    an optional sign, ASCII digits with single underscores between digits.  (Within Latin-1 only
    the ASCII digits are decimal digits for `int()`; strings of more than 4300 digits, which
    CPython rejects, are excluded from generation.) -/
namespace Hp

abbrev Str := List Char

/-- `str.isspace()` restricted to Latin-1: `\t\n\v\f\r`, `\x1c`-`\x1f`, space, `\x85`, `\xa0` (what `str.strip()` removes) -/
def isWs (c : Char) : Bool :=
  let n := c.toNat
  (9 ≤ n && n ≤ 13) || (28 ≤ n && n ≤ 32) || n == 133 || n == 160

/-- what `int(str)` skips around the digits: `str.isspace()` WITHOUT `\x1c`-`\x1f` (CPython: `int('\x1c5')` is a ValueError) -/
def isWsI (c : Char) : Bool :=
  let n := c.toNat
  (9 ≤ n && n ≤ 13) || n == 32 || n == 133 || n == 160

/-- `bytes.isspace()`: what `int(b'...')` strips (ASGI hands Content-Length over as bytes) -/
def isWsB (c : Char) : Bool :=
  let n := c.toNat
  (9 ≤ n && n ≤ 13) || n == 32

def lstripW (w : Char → Bool) (s : Str) : Str := s.dropWhile w
def rstripW (w : Char → Bool) (s : Str) : Str := (s.reverse.dropWhile w).reverse
def stripW (w : Char → Bool) (s : Str) : Str := rstripW w (lstripW w s)
/-- `str.strip()` -/
abbrev strip (s : Str) : Str := stripW isWs s

/-- decimal digits with single underscores between digits; `last` = the previous character was a digit -/
def digitsGo : Str → Nat → Bool → Option Nat
  | [], acc, last => if last then some acc else none
  | c :: r, acc, last =>
    if c.isDigit then digitsGo r (10 * acc + (c.toNat - 48)) true
    else if c == '_' && last then digitsGo r acc false
    else none

/-- Python `int(s)`; `none` = `ValueError`; `w` = the whitespace class stripped first -/
def pyIntW (w : Char → Bool) (s : Str) : Option Int :=
  match stripW w s with
  | '-' :: r => (digitsGo r 0 false).map fun n => -(n : Int)
  | '+' :: r => (digitsGo r 0 false).map fun n => (n : Int)
  | r => (digitsGo r 0 false).map fun n => (n : Int)

/-- `int(s)` for a Latin-1 `str` -/
abbrev pyInt (s : Str) : Option Int := pyIntW isWsI s
/-- `int(b)` for a byte string -/
abbrev pyIntB (s : Str) : Option Int := pyIntW isWsB s

/-- split at the first occurrence of `c`: (text before it, text after it if it occurs) -/
def breakOn (c : Char) : Str → Str × Option Str
  | [] => ([], none)
  | x :: r => if x == c then ([], some r) else ((x :: (breakOn c r).1), (breakOn c r).2)

/-- `s.partition(c)` as (before, separator found, after) -/
def partition (s : Str) (c : Char) : Str × Bool × Str :=
  match breakOn c s with
  | (a, none) => (a, false, [])
  | (a, some b) => (a, true, b)

/-! ### Content-Length -/
inductive CLRes where
  | absent | ok (n : Int) | bad           -- bad = HTTPInvalidHeader (400)
  deriving Repr, DecidableEq

def contentLengthW (w : Char → Bool) (v : Option Str) : CLRes :=
  match v with
  | none => .absent
  | some [] => .absent
  | some s =>
    match pyIntW w s with
    | none => .bad
    | some n => if n < 0 then .bad else .ok n

/-- WSGI `req.content_length` (the value is a `str`) -/
abbrev contentLength (v : Option Str) : CLRes := contentLengthW isWsI v
/-- ASGI `req.content_length` (the value is a byte string) -/
abbrev contentLengthB (v : Option Str) : CLRes := contentLengthW isWsB v

/-! ### Range -/
inductive RangeRes where
  | absent | ok (first last : Int) | bad
  deriving Repr, DecidableEq

def range (v : Option Str) : RangeRes :=
  match v with
  | none => .absent
  | some value =>
    if !value.contains '=' then .bad else
    let req := (partition value '=').2.2
    if req.contains ',' then .bad else
    let (first, sep, last) := partition req '-'
    if !sep then .bad else
    if !first.isEmpty && !last.isEmpty then
      match pyInt first, pyInt last with
      | some a, some b => if b < a then .bad else .ok a b
      | _, _ => .bad
    else if !first.isEmpty then
      match pyInt first with
      | some a => .ok a (-1)
      | none => .bad
    else if !last.isEmpty then
      match pyInt last with
      | some b => if -b ≥ 0 then .bad else .ok (-b) (-1)
      | none => .bad
    else .bad

inductive UnitRes where
  | absent | ok (u : Str) | bad
  deriving Repr, DecidableEq

def rangeUnit (v : Option Str) : UnitRes :=
  match v with
  | none => .absent
  | some value => if value.contains '=' then .ok (partition value '=').1 else .bad

/-! ### `parse_host` -/
inductive HostRes where
  | ok (host : Str) (port : Option Int) | valueError
  deriving Repr, DecidableEq

/-- `s.rfind(a ++ b)` for a two-character needle, scanning left to right and keeping the last hit -/
def rfindPairGo (a b : Char) : Str → Nat → Option Nat → Option Nat
  | x :: y :: r, i, best => rfindPairGo a b (y :: r) (i + 1) (if x == a && y == b then some i else best)
  | _, _, best => best

def portOf (port : Str) (dflt : Option Int) : Option (Option Int) :=   -- none = ValueError
  if port.isEmpty then some dflt else (pyInt port).map some

def parseHost (host : Str) (dflt : Option Int) : HostRes :=
  match host with
  | '[' :: _ =>
    match rfindPairGo ']' ':' host 0 none with
    | some pos =>
      match portOf (host.drop (pos + 2)) dflt with
      | some p => .ok ((host.take pos).drop 1) p
      | none => .valueError
    | none => .ok ((host.drop 1).dropLast) dflt
  | _ =>
    if (host.filter (· == ':')).length != 1 then .ok host dflt
    else
      let (name, _, port) := partition host ':'
      match portOf port dflt with
      | some p => .ok name p
      | none => .valueError

/-- `req.host` / `req.port` given the Host header (absent → the server's own name/port) -/
inductive AccRes (α : Type) where
  | ok (v : α) | bad400
  deriving Repr, DecidableEq

def reqHost (hostHeader : Option Str) (serverName : Str) : AccRes Str :=
  match hostHeader with
  | none => .ok serverName
  | some h => match parseHost h none with
    | .ok host _ => .ok host
    | .valueError => .bad400

def reqPort (hostHeader : Option Str) (https : Bool) (serverPort : Int) : AccRes (Option Int) :=
  match hostHeader with
  | none => .ok (some serverPort)
  | some h => match parseHost h (some (if https then 443 else 80)) with
    | .ok _ p => .ok p
    | .valueError => .bad400

/-! ### entity tags -/
structure ETag where
  value : Str
  weak : Bool
  deriving Repr, DecidableEq

def ETag.dumps (t : ETag) : Str :=
  if t.weak then 'W' :: '/' :: '"' :: (t.value ++ ['"']) else '"' :: (t.value ++ ['"'])

def ETag.loads (s : Str) : ETag :=
  let (weak, v) := match s with
    | 'W' :: '/' :: r => (true, r)
    | 'w' :: '/' :: r => (true, r)
    | r => (false, r)
  -- `value[:1] == value[-1:] == '"'`  (for the one-character string `"` both slices are that character)
  let v := if v.head? == some '"' && v.getLast? == some '"' then (v.drop 1).dropLast else v
  ⟨v, weak⟩

/-- after an opening quote: the text up to the next quote, and what follows that quote -/
def closeQuote (s : Str) : Option (Str × Str) :=
  match breakOn '"' s with
  | (_, none) => none
  | (v, some rest) => some (v, rest)

/-- `_ENTITY_TAG_PATTERN.findall`, pattern `([Ww]/)?"([^"]*)"`: leftmost non-overlapping matches -/
def scanTags : Nat → Str → List ETag
  | 0, _ => []
  | _, [] => []
  | fuel + 1, c :: r =>
    if c == '"' then
      match closeQuote r with
      | some (v, rest) => ⟨v, false⟩ :: scanTags fuel rest
      | none => scanTags fuel r
    else if c == 'W' || c == 'w' then
      match r with
      | '/' :: '"' :: r2 =>
        match closeQuote r2 with
        | some (v, rest) => ⟨v, true⟩ :: scanTags fuel rest
        | none => scanTags fuel r
      | _ => scanTags fuel r
    else scanTags fuel r

inductive TagsRes where
  | none | star | tags (ts : List ETag)
  deriving Repr, DecidableEq

def parseEtags (s : Str) : TagsRes :=
  let s := strip s
  if s.isEmpty then .none
  else if s == ['*'] then .star
  else if !s.contains ',' then .tags [ETag.loads s]
  else match scanTags s.length s with
    | [] => .none
    | ts => .tags ts

end Hp

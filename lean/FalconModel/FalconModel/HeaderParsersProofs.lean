import FalconModel.HeaderParsers
/-! C09 proofs: the modelled accessor cores read RFC-valid values as the RFC says (see `HeaderParsers.lean`). -/
namespace Hp

theorem isWs_of_isDigit {c : Char} (h : c.isDigit = true) : isWs c = false := by
  simp [Char.isDigit] at h
  simp [isWs]
  have h1 : 48 ≤ c.toNat := h.1
  have h2 : c.toNat ≤ 57 := h.2
  omega

theorem isWsI_of_isDigit {c : Char} (h : c.isDigit = true) : isWsI c = false := by
  simp [Char.isDigit] at h
  simp [isWsI]
  have h1 : 48 ≤ c.toNat := h.1
  have h2 : c.toNat ≤ 57 := h.2
  omega

theorem isWsB_of_isDigit {c : Char} (h : c.isDigit = true) : isWsB c = false := by
  simp [Char.isDigit] at h
  simp [isWsB]
  have h1 : 48 ≤ c.toNat := h.1
  have h2 : c.toNat ≤ 57 := h.2
  omega

theorem dropWhile_head_false {p : Char → Bool} {c : Char} {r : Str} (h : p c = false) : (c :: r).dropWhile p = c :: r := by
  simp [List.dropWhile, h]

/-- a string whose first and last characters are not whitespace is unchanged by `strip` -/
theorem strip_of_ends {w : Char → Bool} (s : Str)
    (h1 : ∀ x, s.head? = some x → w x = false) (h2 : ∀ x, s.reverse.head? = some x → w x = false) : stripW w s = s := by
  unfold stripW rstripW lstripW
  cases s with
  | nil => rfl
  | cons a r =>
    have ha : w a = false := h1 a rfl
    rw [dropWhile_head_false ha]
    cases hrev : (a :: r).reverse with
    | nil => simp at hrev
    | cons z t =>
      have hz : w z = false := by
        apply h2 z
        rw [hrev]; rfl
      rw [dropWhile_head_false hz, ← hrev, List.reverse_reverse]

def allDigits (l : Str) : Prop := ∀ c ∈ l, c.isDigit = true

theorem strip_digits {w : Char → Bool} (hw : ∀ c, c.isDigit = true → w c = false) (l : Str) (h : allDigits l) : stripW w l = l := by
  apply strip_of_ends
  · intro x hx; apply hw; apply h; cases l with
    | nil => simp at hx
    | cons a r => simp at hx; simp [hx]
  · intro x hx; apply hw; apply h
    have : x ∈ l.reverse := List.mem_of_mem_head? hx
    simpa using this

theorem digitsGo_digits : ∀ (l : Str) (acc : Nat) (last : Bool), allDigits l → (l ≠ [] ∨ last = true) →
    digitsGo l acc last = some (Nat.ofDigitChars 10 l acc)
  | [], acc, last, _, h => by
    cases h with
    | inl h => exact absurd rfl h
    | inr h => simp [digitsGo, h]
  | c :: r, acc, last, hd, _ => by
    have hc : c.isDigit = true := hd c (by simp)
    have hr : allDigits r := fun x hx => hd x (by simp [hx])
    simp only [digitsGo, hc, if_true]
    rw [digitsGo_digits r _ true hr (Or.inr rfl), Nat.ofDigitChars_cons]
    rfl

theorem toDigits_allDigits (n : Nat) : allDigits (Nat.toDigits 10 n) :=
  fun _ hc => Nat.isDigit_of_mem_toDigits (by decide) (by decide) hc

theorem pyInt_digits {w : Char → Bool} (hw : ∀ c, c.isDigit = true → w c = false) (l : Str) (hd : allDigits l) (hne : l ≠ []) :
    pyIntW w l = some ((Nat.ofDigitChars 10 l 0 : Nat) : Int) := by
  unfold pyIntW
  rw [strip_digits hw l hd]
  cases l with
  | nil => exact absurd rfl hne
  | cons c r =>
    have hc : c.isDigit = true := hd c (by simp)
    have h1 : c ≠ '-' := by intro h; rw [h] at hc; exact absurd hc (by decide)
    have h2 : c ≠ '+' := by intro h; rw [h] at hc; exact absurd hc (by decide)
    split
    · rename_i heq; simp at heq; exact absurd heq.1 h1
    · rename_i heq; simp at heq; exact absurd heq.1 h2
    · rw [digitsGo_digits (c :: r) 0 false hd (Or.inl (by simp))]; rfl

/-- Python `int()` of the decimal representation of `n` is `n` -/
theorem pyIntW_toDigits {w : Char → Bool} (hw : ∀ c, c.isDigit = true → w c = false) (n : Nat) :
    pyIntW w (Nat.toDigits 10 n) = some (n : Int) := by
  rw [pyInt_digits hw _ (toDigits_allDigits n) (by simp), Nat.ofDigitChars_ten_toDigits]

theorem pyInt_toDigits (n : Nat) : pyInt (Nat.toDigits 10 n) = some (n : Int) := pyIntW_toDigits (fun _ => isWsI_of_isDigit) n
theorem pyIntB_toDigits (n : Nat) : pyIntB (Nat.toDigits 10 n) = some (n : Int) := pyIntW_toDigits (fun _ => isWsB_of_isDigit) n


theorem mem_dropWhile {p : Char → Bool} {x : Char} : ∀ {l : Str}, x ∈ l.dropWhile p → x ∈ l
  | [], h => by simp at h
  | c :: r, h => by
    simp only [List.dropWhile] at h
    split at h
    · exact List.mem_cons_of_mem _ (mem_dropWhile h)
    · exact h

theorem mem_strip {w : Char → Bool} {x : Char} {s : Str} (h : x ∈ stripW w s) : x ∈ s := by
  unfold stripW rstripW lstripW at h
  have h1 : x ∈ (List.dropWhile w s).reverse.dropWhile w := by simpa using h
  have h2 := mem_dropWhile h1
  exact mem_dropWhile (by simpa using h2)

/-- a string without a minus sign never reads as a negative number -/
theorem pyIntW_nonneg_of_no_minus {w : Char → Bool} (s : Str) (n : Int) (hm : '-' ∉ s) (h : pyIntW w s = some n) : 0 ≤ n := by
  unfold pyIntW at h
  split at h
  · rename_i r heq
    have : '-' ∈ stripW w s := by rw [heq]; simp
    exact absurd (mem_strip this) hm
  · rename_i r heq
    cases hg : digitsGo r 0 false with
    | none => rw [hg] at h; simp at h
    | some k => rw [hg] at h; simp at h; omega
  · cases hg : digitsGo (stripW w s) 0 false with
    | none => rw [hg] at h; simp at h
    | some k => rw [hg] at h; simp at h; omega

theorem pyInt_nonneg_of_no_minus (s : Str) (n : Int) (hm : '-' ∉ s) (h : pyInt s = some n) : 0 ≤ n :=
  pyIntW_nonneg_of_no_minus s n hm h

/-! ### `partition` -/
theorem breakOn_append (c : Char) : ∀ (a b : Str), c ∉ a → breakOn c (a ++ c :: b) = (a, some b)
  | [], b, _ => by simp [breakOn]
  | x :: a, b, h => by
    have hx : (x == c) = false := by simp; intro e; exact h (by simp [e])
    have ha : c ∉ a := fun e => h (by simp [e])
    simp [breakOn, hx, breakOn_append c a b ha]

theorem breakOn_none (c : Char) : ∀ (a : Str), c ∉ a → breakOn c a = (a, none)
  | [], _ => rfl
  | x :: a, h => by
    have hx : (x == c) = false := by simp; intro e; exact h (by simp [e])
    have ha : c ∉ a := fun e => h (by simp [e])
    simp [breakOn, hx, breakOn_none c a ha]

theorem breakOn_fst_not_mem (c : Char) : ∀ (s : Str), c ∉ (breakOn c s).1
  | [] => by simp [breakOn]
  | x :: r => by
    simp only [breakOn]
    split
    · simp
    · rename_i hx
      have := breakOn_fst_not_mem c r
      simp at hx
      simp [this]; exact fun e => hx e.symm

theorem partition_append (a b : Str) (c : Char) (h : c ∉ a) : partition (a ++ c :: b) c = (a, true, b) := by
  unfold partition; rw [breakOn_append c a b h]

theorem partition_no_sep (a : Str) (c : Char) (h : c ∉ a) : partition a c = (a, false, []) := by
  unfold partition; rw [breakOn_none c a h]

theorem partition_fst_not_mem (s : Str) (c : Char) : c ∉ (partition s c).1 := by
  unfold partition
  have := breakOn_fst_not_mem c s
  cases hb : breakOn c s with
  | mk a b => rw [hb] at this; cases b <;> simpa using this


theorem not_mem_digits {c : Char} (hc : c.isDigit = false) {l : Str} (hl : allDigits l) : c ∉ l :=
  fun h => by rw [hl c h] at hc; exact absurd hc (by decide)

/-! ### Content-Length -/
theorem contentLengthW_digits {w : Char → Bool} (hw : ∀ c, c.isDigit = true → w c = false) (n : Nat) :
    contentLengthW w (some (Nat.toDigits 10 n)) = .ok n := by
  unfold contentLengthW
  split
  · rename_i h; simp at h
  · rename_i h; simp at h
  · rename_i s hs hne
    simp at hne; subst hne
    rw [pyIntW_toDigits hw]; simp

theorem contentLength_digits (n : Nat) : contentLength (some (Nat.toDigits 10 n)) = .ok n := contentLengthW_digits (fun _ => isWsI_of_isDigit) n
theorem contentLengthB_digits (n : Nat) : contentLengthB (some (Nat.toDigits 10 n)) = .ok n := contentLengthW_digits (fun _ => isWsB_of_isDigit) n

theorem contentLengthW_ok_nonneg {w : Char → Bool} (v : Option Str) (n : Int) (h : contentLengthW w v = .ok n) : 0 ≤ n := by
  unfold contentLengthW at h
  split at h <;> try (simp at h)
  split at h <;> try (simp at h)
  split at h <;> simp at h
  omega

theorem contentLength_ok_nonneg (v : Option Str) (n : Int) (h : contentLength v = .ok n) : 0 ≤ n := contentLengthW_ok_nonneg v n h
theorem contentLengthB_ok_nonneg (v : Option Str) (n : Int) (h : contentLengthB v = .ok n) : 0 ≤ n := contentLengthW_ok_nonneg v n h

/-! ### Range -/
theorem range_value_shape (u r : Str) (hu : '=' ∉ u) :
    (u ++ '=' :: r).contains '=' = true ∧ (partition (u ++ '=' :: r) '=').2.2 = r ∧ (partition (u ++ '=' :: r) '=').1 = u := by
  rw [partition_append u r '=' hu]; simp

theorem digits_dash_no_comma (a b : Str) (ha : allDigits a) (hb : allDigits b) : (a ++ '-' :: b).contains ',' = false := by
  have h1 := not_mem_digits (c := ',') (by decide) ha
  have h2 := not_mem_digits (c := ',') (by decide) hb
  simp [h1, h2]

/-- `unit=first-last` with `first ≤ last` reads as `(first, last)` -/
theorem range_first_last (u : Str) (a b : Nat) (hu : '=' ∉ u) (hab : a ≤ b) :
    range (some (u ++ '=' :: (Nat.toDigits 10 a ++ '-' :: Nat.toDigits 10 b))) = .ok a b := by
  have hs := range_value_shape u (Nat.toDigits 10 a ++ '-' :: Nat.toDigits 10 b) hu
  have hda := toDigits_allDigits a
  have hdb := toDigits_allDigits b
  have hp := partition_append (Nat.toDigits 10 a) (Nat.toDigits 10 b) '-' (not_mem_digits (by decide) hda)
  unfold range
  simp only [hs.1, hs.2.1, digits_dash_no_comma _ _ hda hdb, hp, pyInt_toDigits]
  simp [hab]

/-- `unit=first-last` with `last < first` is the 400 outcome -/
theorem range_invalid_order_is_400 (u : Str) (a b : Nat) (hu : '=' ∉ u) (hab : b < a) :
    range (some (u ++ '=' :: (Nat.toDigits 10 a ++ '-' :: Nat.toDigits 10 b))) = .bad := by
  have hs := range_value_shape u (Nat.toDigits 10 a ++ '-' :: Nat.toDigits 10 b) hu
  have hda := toDigits_allDigits a
  have hdb := toDigits_allDigits b
  have hp := partition_append (Nat.toDigits 10 a) (Nat.toDigits 10 b) '-' (not_mem_digits (by decide) hda)
  unfold range
  simp only [hs.1, hs.2.1, digits_dash_no_comma _ _ hda hdb, hp, pyInt_toDigits]
  simp
  omega


theorem toDigits_isEmpty (n : Nat) : (Nat.toDigits 10 n).isEmpty = false := by
  cases h : Nat.toDigits 10 n with
  | nil => exact absurd h (by simp)
  | cons _ _ => rfl

/-- `unit=first-` reads as `(first, -1)` -/
theorem range_first_open (u : Str) (a : Nat) (hu : '=' ∉ u) :
    range (some (u ++ '=' :: (Nat.toDigits 10 a ++ ['-']))) = .ok a (-1) := by
  have hs := range_value_shape u (Nat.toDigits 10 a ++ ['-']) hu
  have hda := toDigits_allDigits a
  have hp := partition_append (Nat.toDigits 10 a) [] '-' (not_mem_digits (by decide) hda)
  have hc : (Nat.toDigits 10 a ++ ['-']).contains ',' = false := by
    have h1 := not_mem_digits (c := ',') (by decide) hda
    simp [h1]
  unfold range
  simp only [hs.1, hs.2.1, hc, hp, pyInt_toDigits, toDigits_isEmpty]
  simp

/-- `unit=-n` with `n > 0` reads as `(-n, -1)` -/
theorem range_suffix (u : Str) (n : Nat) (hu : '=' ∉ u) (hn : 0 < n) :
    range (some (u ++ '=' :: ('-' :: Nat.toDigits 10 n))) = .ok (-(n : Int)) (-1) := by
  have hs := range_value_shape u ('-' :: Nat.toDigits 10 n) hu
  have hdn := toDigits_allDigits n
  have hp := partition_append [] (Nat.toDigits 10 n) '-' (by simp)
  have hc : ('-' :: Nat.toDigits 10 n).contains ',' = false := by
    have h1 := not_mem_digits (c := ',') (by decide) hdn
    simp [h1]
  simp only [List.nil_append] at hp
  unfold range
  simp only [hs.1, hs.2.1, hc, hp, pyInt_toDigits, toDigits_isEmpty]
  simp
  omega

theorem rangeUnit_of_valid (u r : Str) (hu : '=' ∉ u) : rangeUnit (some (u ++ '=' :: r)) = .ok u := by
  have hs := range_value_shape u r hu
  unfold rangeUnit
  simp only [hs.1, hs.2.2]; simp

/-- whatever the header value, a returned `(first, last)` has the documented shape -/
theorem range_ok_shape (v : Option Str) (a b : Int) (h : range v = .ok a b) :
    (0 ≤ a ∧ (b = -1 ∨ a ≤ b)) ∨ (a < 0 ∧ b = -1) := by
  unfold range at h
  split at h
  · simp at h
  · rename_i value
    split at h
    · simp at h
    · dsimp only at h
      split at h
      · simp at h
      · generalize hreq : (partition value '=').2.2 = req at h
        have hnm := partition_fst_not_mem req '-'
        cases hpq : partition req '-' with
        | mk first rest =>
          cases rest with
          | mk sep last =>
            rw [hpq] at h hnm
            simp only at h hnm
            split at h
            · simp at h
            · split at h
              · split at h
                · rename_i x y hx hy
                  split at h
                  · simp at h
                  · simp at h
                    have := pyInt_nonneg_of_no_minus first x hnm hx
                    obtain ⟨h1, h2⟩ := h
                    subst h1; subst h2
                    left; constructor; exact this; right; omega
                · simp at h
              · split at h
                · split at h
                  · rename_i x hx
                    simp at h
                    have := pyInt_nonneg_of_no_minus first x hnm hx
                    obtain ⟨h1, h2⟩ := h
                    subst h1; subst h2
                    left; exact ⟨this, Or.inl rfl⟩
                  · simp at h
                · split at h
                  · split at h
                    · rename_i x hx
                      split at h
                      · simp at h
                      · simp at h
                        obtain ⟨h1, h2⟩ := h
                        subst h1; subst h2
                        right; constructor <;> omega
                    · simp at h
                  · simp at h


/-! ### `parse_host` -/
theorem portOf_digits (p : Nat) (d : Option Int) : portOf (Nat.toDigits 10 p) d = some (some (p : Int)) := by
  unfold portOf; rw [toDigits_isEmpty, pyInt_toDigits]; simp

theorem filter_colon_none : ∀ (l : Str), ':' ∉ l → l.filter (· == ':') = []
  | [], _ => rfl
  | x :: r, h => by
    have hx : (x == ':') = false := by simp; intro e; exact h (by simp [e])
    have hr : ':' ∉ r := fun e => h (by simp [e])
    simp [List.filter, hx, filter_colon_none r hr]

/-- a bare reg-name / IPv4 address (no colon) is the host; the port is the default -/
theorem parseHost_bare (h : Str) (d : Option Int) (hc : ':' ∉ h) (hb : h.head? ≠ some '[') : parseHost h d = .ok h d := by
  unfold parseHost
  split
  · rename_i r; simp at hb
  · simp [filter_colon_none h hc]

theorem filter_colon_one (h r : Str) (hh : ':' ∉ h) (hr : ':' ∉ r) : ((h ++ ':' :: r).filter (· == ':')).length = 1 := by
  simp [List.filter_append, filter_colon_none h hh, List.filter, filter_colon_none r hr]

/-- `name:port` with a numeric port -/
theorem parseHost_name_port (h : Str) (p : Nat) (d : Option Int) (hc : ':' ∉ h) (hb : h.head? ≠ some '[') :
    parseHost (h ++ ':' :: Nat.toDigits 10 p) d = .ok h (some (p : Int)) := by
  have hd := not_mem_digits (c := ':') (by decide) (toDigits_allDigits p)
  unfold parseHost
  split
  · rename_i r heq
    cases h with
    | nil => simp at heq
    | cons x t => simp at heq hb; exact absurd heq.1 hb
  · rw [filter_colon_one h _ hc hd, partition_append h _ ':' hc]
    simp [portOf_digits]

/-- `name:` (empty port, RFC 3986) means the default port -/
theorem parseHost_name_empty_port (h : Str) (d : Option Int) (hc : ':' ∉ h) (hb : h.head? ≠ some '[') :
    parseHost (h ++ [':']) d = .ok h d := by
  unfold parseHost
  split
  · rename_i r heq
    cases h with
    | nil => simp at heq
    | cons x t => simp at heq hb; exact absurd heq.1 hb
  · rw [filter_colon_one h [] hc (by simp), partition_append h [] ':' hc]
    simp [portOf]

theorem rfindPairGo_no_first (a b : Char) : ∀ (l : Str) (i : Nat) (best : Option Nat), a ∉ l → rfindPairGo a b l i best = best
  | [], _, _, _ => by simp [rfindPairGo]
  | [_], _, _, _ => by simp [rfindPairGo]
  | x :: y :: r, i, best, h => by
    have hx : (x == a) = false := by simp; intro e; exact h (by simp [e])
    have hr : a ∉ y :: r := fun e => h (List.mem_cons_of_mem _ e)
    simp [rfindPairGo, hx, rfindPairGo_no_first a b (y :: r) (i + 1) best hr]

theorem rf_step (a b x y : Char) (r : Str) (i : Nat) (best : Option Nat) :
    rfindPairGo a b (x :: y :: r) i best = rfindPairGo a b (y :: r) (i + 1) (if x == a && y == b then some i else best) := by
  rw [rfindPairGo]

theorem rfindPairGo_unique (a b : Char) (hab : a ≠ b) : ∀ (pre post : Str) (i : Nat) (best : Option Nat), a ∉ pre → a ∉ post →
    rfindPairGo a b (pre ++ a :: b :: post) i best = some (i + pre.length)
  | [], post, i, best, _, hp => by
    have : a ∉ b :: post := by simp; exact ⟨hab, hp⟩
    simp only [List.nil_append]
    rw [rf_step, rfindPairGo_no_first a b (b :: post) (i + 1) _ this]; simp
  | x :: pre, post, i, best, h, hp => by
    have hx : (x == a) = false := by simp; intro e; exact h (by simp [e])
    have hpre : a ∉ pre := fun e => h (by simp [e])
    have ih := rfindPairGo_unique a b hab pre post (i + 1) best hpre hp
    cases pre with
    | nil =>
      simp only [List.cons_append, List.nil_append] at ih ⊢
      rw [rf_step, hx]; simp only [Bool.false_and]
      simp at ih ⊢; exact ih
    | cons y t =>
      simp only [List.cons_append] at ih ⊢
      rw [rf_step, hx]; simp only [Bool.false_and]
      simp at ih ⊢; rw [ih]; congr 1; omega

/-- `[addr]:port`: the address without brackets and the numeric port -/
theorem parseHost_ipv6_port (a : Str) (p : Nat) (d : Option Int) (ha : ']' ∉ a) :
    parseHost ('[' :: (a ++ ']' :: ':' :: Nat.toDigits 10 p)) d = .ok a (some (p : Int)) := by
  have hd := not_mem_digits (c := ']') (by decide) (toDigits_allDigits p)
  have hfind := rfindPairGo_unique ']' ':' (by decide) ('[' :: a) (Nat.toDigits 10 p) 0 none (by simp [ha]) hd
  simp only [List.cons_append] at hfind
  unfold parseHost
  simp only [hfind]
  have h1 : ('[' :: (a ++ ']' :: ':' :: Nat.toDigits 10 p)).drop (0 + ('[' :: a).length + 2) = Nat.toDigits 10 p := by
    simp [List.drop_append]
  have h2 : (('[' :: (a ++ ']' :: ':' :: Nat.toDigits 10 p)).take (0 + ('[' :: a).length)).drop 1 = a := by
    simp
  rw [h1, h2, portOf_digits]

/-- `[addr]` without a port: the default port -/
theorem parseHost_ipv6_bare (a : Str) (d : Option Int) (ha : ']' ∉ a) :
    parseHost ('[' :: (a ++ [']'])) d = .ok a d := by
  have hfind : rfindPairGo ']' ':' ('[' :: (a ++ [']'])) 0 none = none := by
    have : ∀ (l : Str) (i : Nat), ']' ∉ l → rfindPairGo ']' ':' (l ++ [']']) i none = none := by
      intro l
      induction l with
      | nil => intro i _; simp [rfindPairGo]
      | cons x t ih =>
        intro i h
        have hx : (x == ']') = false := by simp; intro e; exact h (by simp [e])
        have ht : ']' ∉ t := fun e => h (by simp [e])
        cases t with
        | nil => simp [rfindPairGo, hx]
        | cons y r =>
          have := ih (i + 1) ht
          simp only [List.cons_append] at this ⊢
          simp [rfindPairGo, hx, this]
    have h2 := this ('[' :: a) 0 (by simp [ha])
    simpa using h2
  unfold parseHost
  simp only [hfind]
  simp [List.dropLast_append_of_ne_nil]


/-! ### entity tags -/
theorem dropLast_snoc (v : Str) (c : Char) : (v ++ [c]).dropLast = v := by simp

theorem getLast?_quote (v : Str) : ('"' :: (v ++ ['"'])).getLast? = some '"' := by
  have : ('"' :: (v ++ ['"'])) = ('"' :: v) ++ ['"'] := by simp
  rw [this, List.getLast?_append]; simp

/-- `ETag.loads (ETag.dumps t) = t` -/
theorem loads_dumps (t : ETag) : ETag.loads t.dumps = t := by
  cases t with
  | mk v w =>
    cases w with
    | true =>
      simp only [ETag.dumps, if_true, ETag.loads]
      simp [getLast?_quote]
    | false =>
      simp only [ETag.dumps, ETag.loads]
      simp [getLast?_quote]

theorem closeQuote_append (v rest : Str) (h : '"' ∉ v) : closeQuote (v ++ '"' :: rest) = some (v, rest) := by
  unfold closeQuote; rw [breakOn_append '"' v rest h]

/-- scanning one serialized tag yields it and continues behind it -/
theorem scanTags_dumps (t : ETag) (rest : Str) (fuel : Nat) (hq : '"' ∉ t.value) :
    scanTags (fuel + 1) (t.dumps ++ rest) = t :: scanTags fuel rest := by
  cases t with
  | mk v w =>
    cases w with
    | true =>
      simp only [ETag.dumps, if_true, List.cons_append, List.append_assoc]
      rw [scanTags.eq_def]
      simp [closeQuote_append v rest hq]
    | false =>
      simp only [ETag.dumps, Bool.false_eq_true, if_false, List.cons_append, List.append_assoc]
      rw [scanTags.eq_def]
      simp [closeQuote_append v rest hq]

theorem scanTags_skip (c : Char) (r : Str) (fuel : Nat) (h1 : c ≠ '"') (h2 : c ≠ 'W') (h3 : c ≠ 'w') :
    scanTags (fuel + 1) (c :: r) = scanTags fuel r := by
  have e1 : (c == '"') = false := by simp [h1]
  have e2 : (c == 'W') = false := by simp [h2]
  have e3 : (c == 'w') = false := by simp [h3]
  rw [scanTags.eq_def]
  simp only [e1, e2, e3, Bool.or_self, Bool.false_eq_true, if_false]

def joinTags : List ETag → Str
  | [] => []
  | [t] => t.dumps
  | t :: ts => t.dumps ++ ',' :: ' ' :: joinTags ts

theorem dumps_length (t : ETag) : 2 ≤ t.dumps.length := by
  cases t with | mk v w => cases w <;> simp [ETag.dumps] <;> omega

theorem scanTags_join : ∀ (ts : List ETag) (fuel : Nat), (∀ t ∈ ts, '"' ∉ t.value) → (joinTags ts).length ≤ fuel →
    scanTags fuel (joinTags ts) = ts
  | [], fuel, _, _ => by cases fuel <;> simp [joinTags, scanTags]
  | [t], fuel, h, hf => by
    have := dumps_length t
    simp only [joinTags] at hf ⊢
    cases fuel with
    | zero => omega
    | succ f =>
      have := scanTags_dumps t [] f (h t (by simp))
      simp only [List.append_nil] at this
      rw [this]; cases f <;> simp [scanTags]
  | t :: u :: ts, fuel, h, hf => by
    have hl := dumps_length t
    simp only [joinTags, List.length_append, List.length_cons] at hf
    obtain ⟨f, rfl⟩ : ∃ f, fuel = f + 3 := ⟨fuel - 3, by omega⟩
    · simp only [joinTags]
      rw [scanTags_dumps t _ (f + 2) (h t (by simp)), scanTags_skip ',' _ (f + 1) (by decide) (by decide) (by decide),
        scanTags_skip ' ' _ f (by decide) (by decide) (by decide)]
      rw [scanTags_join (u :: ts) f (fun x hx => h x (by simp [hx])) (by omega)]


/-- shape of a serialized tag (list): starts with `W` or `"`, ends with `"` -/
def Quoted (s : Str) : Prop := (∃ r, s = 'W' :: r ∨ s = '"' :: r) ∧ ∃ m, s = m ++ ['"']

theorem quoted_dumps (t : ETag) : Quoted t.dumps := by
  cases t with
  | mk v w =>
    cases w with
    | true => exact ⟨⟨_, Or.inl rfl⟩, ⟨'W' :: '/' :: '"' :: v, by simp [ETag.dumps]⟩⟩
    | false => exact ⟨⟨_, Or.inr (by simp [ETag.dumps]; rfl)⟩, ⟨'"' :: v, by simp [ETag.dumps]⟩⟩

theorem quoted_join : ∀ (ts : List ETag), ts ≠ [] → Quoted (joinTags ts)
  | [], h => absurd rfl h
  | [t], _ => quoted_dumps t
  | t :: u :: ts, _ => by
    obtain ⟨⟨r, hr⟩, _⟩ := quoted_dumps t
    obtain ⟨_, ⟨m, hm⟩⟩ := quoted_join (u :: ts) (by simp)
    refine ⟨?_, ⟨t.dumps ++ ',' :: ' ' :: m, ?_⟩⟩
    · cases hr with
      | inl h => exact ⟨r ++ ',' :: ' ' :: joinTags (u :: ts), Or.inl (by simp [joinTags, h])⟩
      | inr h => exact ⟨r ++ ',' :: ' ' :: joinTags (u :: ts), Or.inr (by simp [joinTags, h])⟩
    · simp only [joinTags]; rw [hm]; simp

theorem strip_quoted (s : Str) (h : Quoted s) : strip s = s := by
  obtain ⟨⟨r, hr⟩, ⟨m, hm⟩⟩ := h
  apply strip_of_ends
  · intro x hx
    cases hr with
    | inl h => rw [h] at hx; simp at hx; rw [← hx]; decide
    | inr h => rw [h] at hx; simp at hx; rw [← hx]; decide
  · intro x hx
    rw [hm] at hx; simp at hx; rw [← hx]; decide

theorem quoted_not_star (s : Str) (h : Quoted s) : (s == ['*']) = false := by
  obtain ⟨⟨r, hr⟩, _⟩ := h
  cases hr with
  | inl h => rw [h]; simp
  | inr h => rw [h]; simp

theorem quoted_nonempty (s : Str) (h : Quoted s) : s.isEmpty = false := by
  obtain ⟨⟨r, hr⟩, _⟩ := h
  cases hr with
  | inl h => rw [h]; rfl
  | inr h => rw [h]; rfl

theorem parseEtags_star : parseEtags ['*'] = .star := by decide

/-- a single serialized entity-tag (opaque tag without `"` or `,`) is read back exactly -/
theorem parseEtags_single (t : ETag) (hc : ',' ∉ t.value) : parseEtags t.dumps = .tags [t] := by
  have hq := quoted_dumps t
  have hcomma : t.dumps.contains ',' = false := by
    cases t with
    | mk v w => cases w <;> simp [ETag.dumps] <;> simpa using hc
  unfold parseEtags
  simp only [strip_quoted _ hq, quoted_nonempty _ hq, quoted_not_star _ hq, hcomma, loads_dumps]
  simp

theorem join_contains_comma (t u : ETag) (ts : List ETag) : (joinTags (t :: u :: ts)).contains ',' = true := by
  simp [joinTags]

/-- a list of two or more serialized entity-tags joined by `", "` is read back exactly, in order, with the weakness flags -/
theorem parseEtags_list (ts : List ETag) (h2 : 2 ≤ ts.length) (hq : ∀ t ∈ ts, '"' ∉ t.value) :
    parseEtags (joinTags ts) = .tags ts := by
  match ts, h2 with
  | t :: u :: r, _ =>
    have hQ := quoted_join (t :: u :: r) (by simp)
    unfold parseEtags
    simp only [strip_quoted _ hQ, quoted_nonempty _ hQ, quoted_not_star _ hQ, join_contains_comma,
      scanTags_join (t :: u :: r) _ hq (Nat.le_refl _)]
    simp


/-! ### non-vacuity: concrete header values on which the theorems' hypotheses hold and the model computes -/
example : range (some "bytes=0-5".toList) = .ok 0 5 := by decide
example : range (some "bytes=-3".toList) = .ok (-3) (-1) := by decide
example : range (some "bytes=5-".toList) = .ok 5 (-1) := by decide
example : range (some "bytes=5-3".toList) = .bad := by decide
example : range (some "bytes= 1 - 2 ".toList) = .ok 1 2 := by decide      -- Python int() leniency is modelled
example : range (some "bytes=-0".toList) = .bad := by decide
example : contentLength (some "1_0".toList) = .ok 10 := by decide
example : parseHost "[::1]:99".toList none = .ok "::1".toList (some 99) := by decide
example : parseHost "example.com:".toList (some 80) = .ok "example.com".toList (some 80) := by decide
example : parseHost "example.com:abc".toList none = .valueError := by decide
example : parseEtags "W/\"a\", \"b\"".toList = .tags [⟨['a'], true⟩, ⟨['b'], false⟩] := by decide
example : '=' ∉ "bytes".toList ∧ (0 : Nat) ≤ 5 := by decide

end Hp

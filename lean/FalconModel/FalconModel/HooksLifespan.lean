/-! C03: model of `falcon/hooks.py` (`falcon.before` / `falcon.after` stacking on a responder) and of the lifespan
    loop `App._call_lifespan_handlers` in `falcon/asgi/app.py`.  Import-free. -/
namespace Hk

/-- what a hook / responder / lifespan handler does: return or raise (hooks never look at `resp.complete`) -/
inductive Act where
  | ret | raise_
deriving Repr, BEq, DecidableEq

@[simp] def Act.isRaise : Act → Bool
  | .raise_ => true
  | .ret => false

/-- one decorator; `k` identifies it (its position in the decorator list, outermost first) -/
inductive Deco where
  | before (k : Nat) (a : Act)
  | after (k : Nat) (a : Act)
deriving Repr

inductive HCall where
  | before (k : Nat) | after (k : Nat) | responder
deriving Repr, BEq, DecidableEq

/-- Transcription of `_wrap_with_before` / `_wrap_with_after`, decorators listed outermost first:
    `do_before`: `action(...)`; `responder(...)` — `do_after`: `responder(...)`; `action(...)`.
    Result: the calls made and whether an exception leaves the wrapped responder. -/
def wrap : List Deco → Act → List HCall × Bool
  | [], r => ([.responder], r.isRaise)
  | .before k a :: rest, r =>
    if a.isRaise then ([.before k], true)
    else let (t, x) := wrap rest r; (.before k :: t, x)
  | .after k a :: rest, r =>
    let (t, x) := wrap rest r
    if x then (t, true) else (t ++ [.after k], a.isRaise)

/-! the documented discipline, written flat -/

/-- run handlers in list order up to and including the first that raises -/
def runUntil : List (Nat × Act) → List Nat × Bool
  | [] => ([], false)
  | (k, a) :: rest => if a.isRaise then ([k], true) else let (t, x) := runUntil rest; (k :: t, x)

def befores : List Deco → List (Nat × Act)
  | [] => []
  | .before k a :: rest => (k, a) :: befores rest
  | .after _ _ :: rest => befores rest

def afters : List Deco → List (Nat × Act)
  | [] => []
  | .before _ _ :: rest => afters rest
  | .after k a :: rest => (k, a) :: afters rest

/-- before hooks outermost-first; the responder; after hooks innermost-first; everything stops at the first raise -/
def specWrap (ds : List Deco) (r : Act) : List HCall × Bool :=
  let (bt, bx) := runUntil (befores ds)
  if bx then (bt.map .before, true)
  else if r.isRaise then (bt.map .before ++ [.responder], true)
  else
    let (at_, ax) := runUntil (afters ds).reverse
    (bt.map .before ++ [.responder] ++ at_.map .after, ax)

/-! ### lifespan -/

structure LComp where
  startup : Option Act      -- `hasattr(handler, 'process_startup')` and what it does
  shutdown : Option Act
deriving Repr

inductive LCall where
  | startup (i : Nat) | shutdown (i : Nat)
deriving Repr, BEq, DecidableEq

inductive LEvent where
  | startupComplete | startupFailed | shutdownComplete | shutdownFailed
deriving Repr, BEq, DecidableEq

/-- `for handler in self._unprepared_middleware: if hasattr(handler, 'process_startup'): try: await ... except: send failed; return` -/
def startLoop : List (Nat × LComp) → List LCall × Bool
  | [] => ([], false)
  | (i, c) :: rest =>
    match c.startup with
    | none => startLoop rest
    | some .raise_ => ([.startup i], true)
    | some .ret => let (t, x) := startLoop rest; (.startup i :: t, x)

/-- the shutdown loop over an already reversed list -/
def stopLoop : List (Nat × LComp) → List LCall × Bool
  | [] => ([], false)
  | (i, c) :: rest =>
    match c.shutdown with
    | none => stopLoop rest
    | some .raise_ => ([.shutdown i], true)
    | some .ret => let (t, x) := stopLoop rest; (.shutdown i :: t, x)

/-- the server sends `lifespan.startup`, then `lifespan.shutdown`; after a failed startup the coroutine returns -/
def lifespan (cs : List (Nat × LComp)) : List LCall × List LEvent :=
  let (t1, failed1) := startLoop cs
  if failed1 then (t1, [.startupFailed])
  else
    let (t2, failed2) := stopLoop cs.reverse
    (t1 ++ t2, [.startupComplete, if failed2 then .shutdownFailed else .shutdownComplete])

def startups (cs : List (Nat × LComp)) : List (Nat × Act) := cs.filterMap fun p => p.2.startup.map (p.1, ·)
def shutdowns (cs : List (Nat × LComp)) : List (Nat × Act) := cs.filterMap fun p => p.2.shutdown.map (p.1, ·)

def specLifespan (cs : List (Nat × LComp)) : List LCall × List LEvent :=
  let (st, sx) := runUntil (startups cs)
  if sx then (st.map .startup, [.startupFailed])
  else
    let (sh, hx) := runUntil (shutdowns cs).reverse
    (st.map .startup ++ sh.map .shutdown, [.startupComplete, if hx then .shutdownFailed else .shutdownComplete])

end Hk

import FalconModel.HooksLifespan
/-! C03: hooks run before-outermost-first / after-innermost-first and stop at the first raise; lifespan handlers run in order /
    in reverse and the first failure is reported and final. -/
namespace Hk

theorem runUntil_snoc (l : List (Nat × Act)) (k : Nat) (a : Act) :
    runUntil (l ++ [(k, a)])
      = if (runUntil l).2 then ((runUntil l).1, true) else ((runUntil l).1 ++ [k], a.isRaise) := by
  induction l with
  | nil => cases a <;> simp [runUntil]
  | cons x xs ih =>
    obtain ⟨j, b⟩ := x
    cases b with
    | raise_ => simp [runUntil]
    | ret =>
      simp only [List.cons_append, runUntil, ih]
      cases h : (runUntil xs).2 <;> simp [h]

/-- **hooks**: the wrapped responder makes exactly the calls of the documented discipline -/
theorem wrap_eq_spec : ∀ (ds : List Deco) (r : Act), wrap ds r = specWrap ds r := by
  intro ds r
  induction ds with
  | nil => cases r <;> simp [wrap, specWrap, runUntil, befores, afters]
  | cons d rest ih =>
    cases d with
    | before k a =>
      cases a with
      | raise_ => simp [wrap, specWrap, runUntil, befores]
      | ret =>
        simp only [wrap, ih]
        simp only [specWrap, befores, afters, runUntil]
        cases hb : (runUntil (befores rest)).2 <;> cases r <;> simp [hb]
    | after k a =>
      simp only [wrap, ih]
      simp only [specWrap, befores, afters, List.reverse_cons, runUntil_snoc]
      cases hb : (runUntil (befores rest)).2 <;> cases r <;> simp [hb] <;>
        cases ha : (runUntil (afters rest).reverse).2 <;> simp [ha]

def beforeIdx : HCall → Option Nat
  | .before k => some k
  | _ => none

def afterIdx : HCall → Option Nat
  | .after k => some k
  | _ => none

theorem runUntil_prefix : ∀ (l : List (Nat × Act)), (runUntil l).1 <+: l.map (·.1) := by
  intro l
  induction l with
  | nil => simp [runUntil]
  | cons x xs ih =>
    obtain ⟨k, a⟩ := x
    cases a with
    | raise_ => simp [runUntil, List.prefix_cons_iff]
    | ret => simp only [runUntil, List.map_cons]; exact (List.cons_prefix_cons).mpr ⟨rfl, ih⟩

theorem filterMap_before_map (l : List Nat) : List.filterMap (beforeIdx ∘ HCall.before) l = l := by
  induction l with
  | nil => rfl
  | cons x xs ih => simp [beforeIdx, ih]

theorem filterMap_before_after (l : List Nat) : List.filterMap (beforeIdx ∘ HCall.after) l = [] := by
  induction l with
  | nil => rfl
  | cons x xs ih => simp [beforeIdx, ih]

theorem filterMap_after_map (l : List Nat) : List.filterMap (afterIdx ∘ HCall.after) l = l := by
  induction l with
  | nil => rfl
  | cons x xs ih => simp [afterIdx, ih]

theorem filterMap_after_before (l : List Nat) : List.filterMap (afterIdx ∘ HCall.before) l = [] := by
  induction l with
  | nil => rfl
  | cons x xs ih => simp [afterIdx, ih]

theorem fm_before (bt at_ : List Nat) (mid : List HCall) (hm : mid.filterMap beforeIdx = []) :
    (bt.map HCall.before ++ mid ++ at_.map HCall.after).filterMap beforeIdx = bt := by
  rw [List.filterMap_append, List.filterMap_append, hm, List.filterMap_map, List.filterMap_map,
    filterMap_before_map, filterMap_before_after]
  simp

theorem fm_after (bt at_ : List Nat) (mid : List HCall) (hm : mid.filterMap afterIdx = []) :
    (bt.map HCall.before ++ mid ++ at_.map HCall.after).filterMap afterIdx = at_ := by
  rw [List.filterMap_append, List.filterMap_append, hm, List.filterMap_map, List.filterMap_map,
    filterMap_after_map, filterMap_after_before]
  simp

theorem specWrap_shape (ds : List Deco) (r : Act) :
    ∃ (mid : List HCall) (at_ : List Nat), mid.filterMap beforeIdx = [] ∧ mid.filterMap afterIdx = [] ∧
      at_ <+: ((afters ds).map (·.1)).reverse ∧
      (specWrap ds r).1 = (runUntil (befores ds)).1.map HCall.before ++ mid ++ at_.map HCall.after := by
  simp only [specWrap]
  split
  · exact ⟨[], [], rfl, rfl, List.nil_prefix, by simp⟩
  · split
    · exact ⟨[.responder], [], rfl, rfl, List.nil_prefix, by simp⟩
    · refine ⟨[.responder], (runUntil (afters ds).reverse).1, rfl, rfl, ?_, rfl⟩
      have hp := runUntil_prefix (afters ds).reverse
      rw [List.map_reverse] at hp
      exact hp

/-- the before hooks that run are a prefix of the decorator order (outermost first) -/
theorem before_outermost_first (ds : List Deco) (r : Act) :
    (wrap ds r).1.filterMap beforeIdx <+: (befores ds).map (·.1) := by
  rw [wrap_eq_spec]
  obtain ⟨mid, at_, h1, _, _, he⟩ := specWrap_shape ds r
  rw [he, fm_before _ _ _ h1]
  exact runUntil_prefix (befores ds)

/-- the after hooks that run are a prefix of the reversed decorator order (innermost first) -/
theorem after_innermost_first (ds : List Deco) (r : Act) :
    (wrap ds r).1.filterMap afterIdx <+: ((afters ds).map (·.1)).reverse := by
  rw [wrap_eq_spec]
  obtain ⟨mid, at_, _, h2, hp, he⟩ := specWrap_shape ds r
  rw [he, fm_after _ _ _ h2]
  exact hp

/-- a raising before hook: neither the responder nor any after hook runs, and the exception leaves the responder -/
theorem hook_raise_skips_rest (ds : List Deco) (r : Act) (h : (runUntil (befores ds)).2 = true) :
    (wrap ds r).2 = true ∧ HCall.responder ∉ (wrap ds r).1 ∧ (wrap ds r).1.filterMap afterIdx = [] := by
  rw [wrap_eq_spec]
  simp [specWrap, h, filterMap_after_before]

/-! ### lifespan -/

theorem startLoop_eq : ∀ (cs : List (Nat × LComp)),
    startLoop cs = (((runUntil (startups cs)).1).map LCall.startup, (runUntil (startups cs)).2) := by
  intro cs
  induction cs with
  | nil => simp [startLoop, startups, runUntil]
  | cons x xs ih =>
    obtain ⟨i, c⟩ := x
    simp only [startups] at ih ⊢
    cases hs : c.startup with
    | none => simp [startLoop, hs, ih]
    | some a => cases a <;> simp [startLoop, hs, ih, runUntil]

theorem stopLoop_eq : ∀ (cs : List (Nat × LComp)),
    stopLoop cs = (((runUntil (shutdowns cs)).1).map LCall.shutdown, (runUntil (shutdowns cs)).2) := by
  intro cs
  induction cs with
  | nil => simp [stopLoop, shutdowns, runUntil]
  | cons x xs ih =>
    obtain ⟨i, c⟩ := x
    simp only [shutdowns] at ih ⊢
    cases hs : c.shutdown with
    | none => simp [stopLoop, hs, ih]
    | some a => cases a <;> simp [stopLoop, hs, ih, runUntil]

/-- **lifespan**: the loop equals the documented sequencing -/
theorem lifespan_eq_spec (cs : List (Nat × LComp)) : lifespan cs = specLifespan cs := by
  simp only [lifespan, specLifespan, startLoop_eq, stopLoop_eq]
  have : shutdowns cs.reverse = (shutdowns cs).reverse := by simp [shutdowns, List.filterMap_reverse]
  rw [this]

def startIdx : LCall → Option Nat
  | .startup i => some i
  | _ => none

def stopIdx : LCall → Option Nat
  | .shutdown i => some i
  | _ => none

theorem filterMap_start_map (l : List Nat) : List.filterMap (startIdx ∘ LCall.startup) l = l := by
  induction l with
  | nil => rfl
  | cons x xs ih => simp [startIdx, ih]

theorem filterMap_start_stop (l : List Nat) : List.filterMap (startIdx ∘ LCall.shutdown) l = [] := by
  induction l with
  | nil => rfl
  | cons x xs ih => simp [startIdx, ih]

theorem filterMap_stop_map (l : List Nat) : List.filterMap (stopIdx ∘ LCall.shutdown) l = l := by
  induction l with
  | nil => rfl
  | cons x xs ih => simp [stopIdx, ih]

theorem filterMap_stop_start (l : List Nat) : List.filterMap (stopIdx ∘ LCall.startup) l = [] := by
  induction l with
  | nil => rfl
  | cons x xs ih => simp [stopIdx, ih]

theorem specLifespan_shape (cs : List (Nat × LComp)) :
    ∃ (sh : List Nat), sh <+: ((shutdowns cs).map (·.1)).reverse ∧
      (specLifespan cs).1 = (runUntil (startups cs)).1.map LCall.startup ++ sh.map LCall.shutdown := by
  simp only [specLifespan]
  split
  · exact ⟨[], List.nil_prefix, by simp⟩
  · refine ⟨(runUntil (shutdowns cs).reverse).1, ?_, rfl⟩
    have hp := runUntil_prefix (shutdowns cs).reverse
    rw [List.map_reverse] at hp
    exact hp

/-- `process_startup` calls are a prefix of the registration order -/
theorem startup_in_order (cs : List (Nat × LComp)) :
    (lifespan cs).1.filterMap startIdx <+: (startups cs).map (·.1) := by
  rw [lifespan_eq_spec]
  obtain ⟨sh, _, he⟩ := specLifespan_shape cs
  rw [he, List.filterMap_append, List.filterMap_map, List.filterMap_map, filterMap_start_map, filterMap_start_stop,
    List.append_nil]
  exact runUntil_prefix (startups cs)

/-- `process_shutdown` calls are a prefix of the reversed registration order -/
theorem shutdown_in_reverse (cs : List (Nat × LComp)) :
    (lifespan cs).1.filterMap stopIdx <+: ((shutdowns cs).map (·.1)).reverse := by
  rw [lifespan_eq_spec]
  obtain ⟨sh, hp, he⟩ := specLifespan_shape cs
  rw [he, List.filterMap_append, List.filterMap_map, List.filterMap_map, filterMap_stop_map, filterMap_stop_start,
    List.nil_append]
  exact hp

/-- a failing `process_startup` is reported as exactly one `lifespan.startup.failed` and no shutdown handler ever runs -/
theorem first_failure_reported_and_stops (cs : List (Nat × LComp)) (h : (runUntil (startups cs)).2 = true) :
    (lifespan cs).2 = [LEvent.startupFailed] ∧ (lifespan cs).1.filterMap stopIdx = [] := by
  rw [lifespan_eq_spec]
  simp [specLifespan, h, filterMap_stop_start]

end Hk

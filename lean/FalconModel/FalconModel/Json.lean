/-! C12: the JSON text format as falcon's default JSON handler uses it (falcon/media/json.py):

      serialize   = `json.dumps(media, ensure_ascii=False).encode()`      (`JSONHandler._serialize_s`)
      deserialize = `json.loads(data.decode())`                           (`JSONHandler._deserialize`)

    `dumps` is CPython's encoder (Modules/_json.c `encoder_listencode_obj`, `py_encode_basestring`, item separator
    `", "`, key separator `": "`), `loads` is CPython's decoder (json/decoder.py `JSONDecoder.decode` + Modules/_json.c
    `scan_once_unicode`, `_parse_object_unicode`, `_parse_array_unicode`, `_match_number_unicode`, `scanstring_unicode`
    with strict=True), both restricted to the document type

      null | bool | int (arbitrary precision) | str | list | dict with str keys (insertion ordered)

    FLOATS ARE EXCLUDED: `loads` answers `none` for a text containing a float literal (`1.5`, `1e3`, `NaN`,
    `Infinity`, `-Infinity`) although `json.loads` accepts it, and for a `\uD800`-`\uDFFF` escape that is not part of a
    surrogate pair (Python builds a `str` with a lone surrogate; a Lean `Char` is a Unicode scalar value).  Everywhere
    else `none` means "json.loads raises ValueError".  Resource limits of the interpreter (recursion depth, memory) are
    not modelled; the `int`/`str` conversion limit (`sys.int_info.default_max_str_digits` = 4300) is. -/
namespace Js

abbrev Str := List Char

inductive Doc where
  | null
  | bool (b : Bool)
  | int (i : Int)
  | str (s : Str)
  | arr (xs : List Doc)
  /-- a `dict` with `str` keys in insertion order; a Python dict has pairwise distinct keys (`WF`) -/
  | obj (kvs : List (Str × Doc))
  deriving Repr, Inhabited

/-! ## dumps -/

/-- `py_encode_basestring` / `ESCAPE_DCT` without `ensure_ascii`: only `"`, `\` and U+0000..U+001F are escaped -/
def escChar (c : Char) : Str :=
  if c = '"' then ['\\', '"']
  else if c = '\\' then ['\\', '\\']
  else if c = '\n' then ['\\', 'n']
  else if c = '\r' then ['\\', 'r']
  else if c = '\t' then ['\\', 't']
  else if c = '\x08' then ['\\', 'b']
  else if c = '\x0c' then ['\\', 'f']
  else if c.toNat < 0x20 then ['\\', 'u', '0', '0', Nat.digitChar (c.toNat / 16), Nat.digitChar (c.toNat % 16)]
  else [c]

def escape : Str → Str
  | [] => []
  | c :: r => escChar c ++ escape r

def dumpsStr (s : Str) : Str := '"' :: (escape s ++ ['"'])

/-- `int.__repr__` -/
def dumpsInt (i : Int) : Str :=
  if i < 0 then '-' :: Nat.toDigits 10 i.natAbs else Nat.toDigits 10 i.natAbs

mutual
  def dumps : Doc → Str
    | .null => ['n', 'u', 'l', 'l']
    | .bool true => ['t', 'r', 'u', 'e']
    | .bool false => ['f', 'a', 'l', 's', 'e']
    | .int i => dumpsInt i
    | .str s => dumpsStr s
    | .arr xs => '[' :: (dumpsElems xs ++ [']'])
    | .obj kvs => '{' :: (dumpsPairs kvs ++ ['}'])
  def dumpsElems : List Doc → Str
    | [] => []
    | [x] => dumps x
    | x :: y :: r => dumps x ++ ',' :: ' ' :: dumpsElems (y :: r)
  def dumpsPairs : List (Str × Doc) → Str
    | [] => []
    | [(k, v)] => dumpsStr k ++ ':' :: ' ' :: dumps v
    | (k, v) :: p :: r => dumpsStr k ++ ':' :: ' ' :: (dumps v ++ ',' :: ' ' :: dumpsPairs (p :: r))
end

/-! ## loads -/

/-- `IS_WHITESPACE` in _json.c / `WHITESPACE = [ \t\n\r]*` in json/decoder.py -/
def isWs (c : Char) : Bool := c = ' ' || c = '\t' || c = '\n' || c = '\r'

def skipWs : Str → Str
  | [] => []
  | c :: r => if isWs c then skipWs r else c :: r

def hexVal (c : Char) : Option Nat :=
  if c.isDigit then some (c.toNat - 48)
  else if 97 ≤ c.toNat ∧ c.toNat ≤ 102 then some (c.toNat - 87)
  else if 65 ≤ c.toNat ∧ c.toNat ≤ 70 then some (c.toNat - 55)
  else none

/-- four hex digits of a `\uXXXX` escape -/
def hex4 : Str → Option (Nat × Str)
  | a :: b :: c :: d :: r =>
    match hexVal a, hexVal b, hexVal c, hexVal d with
    | some a, some b, some c, some d => some (((a * 16 + b) * 16 + c) * 16 + d, r)
    | _, _, _, _ => none
  | _ => none

/-- the one-character escapes of `scanstring_unicode` -/
def unescSimple (e : Char) : Option Char :=
  if e = '"' then some '"'
  else if e = '\\' then some '\\'
  else if e = '/' then some '/'
  else if e = 'b' then some '\x08'
  else if e = 'f' then some '\x0c'
  else if e = 'n' then some '\n'
  else if e = 'r' then some '\r'
  else if e = 't' then some '\t'
  else none

def consTo (c : Char) : Option (Str × Str) → Option (Str × Str)
  | some (s, r) => some (c :: s, r)
  | none => none

/-- `scanstring_unicode(pystr, idx_after_opening_quote, strict=1)`: the decoded string and what follows the closing quote.
    The fuel is only a termination device (every step consumes at least one character). -/
def scanString : Nat → Str → Option (Str × Str)
  | 0, _ => none
  | _, [] => none                                   -- Unterminated string
  | fuel + 1, c :: r =>
    if c = '"' then some ([], r)
    else if c = '\\' then
      match r with
      | [] => none                                  -- Unterminated string
      | e :: r1 =>
        if e = 'u' then
          match hex4 r1 with
          | none => none                            -- Invalid \uXXXX escape
          | some (n, r2) =>
            if 0xD800 ≤ n ∧ n ≤ 0xDBFF then
              -- a high surrogate is joined with a directly following `\uDC00`..`\uDFFF`; alone it is outside `Char`
              match r2 with
              | b :: u :: r3 =>
                if b = '\\' ∧ u = 'u' then
                  match hex4 r3 with
                  | none => none
                  | some (m, r4) =>
                    if 0xDC00 ≤ m ∧ m ≤ 0xDFFF then
                      consTo (Char.ofNat (0x10000 + (n - 0xD800) * 0x400 + (m - 0xDC00))) (scanString fuel r4)
                    else none
                else none
              | _ => none
            else if 0xDC00 ≤ n ∧ n ≤ 0xDFFF then none
            else consTo (Char.ofNat n) (scanString fuel r2)
        else
          match unescSimple e with
          | none => none                            -- Invalid \escape
          | some ch => consTo ch (scanString fuel r1)
    else if c.toNat < 0x20 then none                -- Invalid control character (strict)
    else consTo c (scanString fuel r)

/-- after the integer digits: does a fraction (`.` digit) or an exponent (`e`/`E`, optional sign, digit) follow?
    (`_match_number_unicode`: then the literal is a float) -/
def isFloatTail : Str → Bool
  | [] => false
  | c :: t =>
    if c = '.' then (match t with | d :: _ => d.isDigit | [] => false)
    else if c = 'e' ∨ c = 'E' then
      match t with
      | [] => false
      | s :: u =>
        if s = '+' ∨ s = '-' then (match u with | d :: _ => d.isDigit | [] => false)
        else s.isDigit
    else false

/-- `sys.int_info.default_max_str_digits` -/
def maxStrDigits : Nat := 4300

def finishNum (neg : Bool) (ds rest : Str) : Option (Doc × Str) :=
  if isFloatTail rest then none                      -- a float literal: outside the document type
  else if ds.length > maxStrDigits then none         -- ValueError: Exceeds the limit (4300 digits) for integer string conversion
  else some (.int (if neg then -(Nat.ofDigitChars 10 ds 0 : Int) else (Nat.ofDigitChars 10 ds 0 : Int)), rest)

/-- the integer part of `_match_number_unicode` after the optional sign: `0 | [1-9][0-9]*` -/
def parseDigits (neg : Bool) : Str → Option (Doc × Str)
  | [] => none
  | c :: r =>
    if c = '0' then finishNum neg ['0'] r
    else if c.isDigit then finishNum neg (c :: r.takeWhile Char.isDigit) (r.dropWhile Char.isDigit)
    else none

/-- `_match_number_unicode`: `-? (0 | [1-9][0-9]*)`, a following fraction/exponent makes it a float -/
def parseNumber : Str → Option (Doc × Str)
  | [] => none
  | c :: r => if c = '-' then parseDigits true r else parseDigits false (c :: r)

def stripPrefix : Str → Str → Option Str
  | [], s => some s
  | _ :: _, [] => none
  | p :: ps, c :: r => if p = c then stripPrefix ps r else none

/-- `PyDict_SetItem` on the insertion-ordered dict: an existing key keeps its position and gets the new value -/
def insertKV : List (Str × Doc) → Str → Doc → List (Str × Doc)
  | [], k, v => [(k, v)]
  | (k', v') :: r, k, v => if k' = k then (k', v) :: r else (k', v') :: insertKV r k v

def mkDict (ps : List (Str × Doc)) : List (Str × Doc) :=
  ps.foldl (fun acc p => insertKV acc p.1 p.2) []

def consElem (v : Doc) : Option (List Doc × Str) → Option (List Doc × Str)
  | some (vs, r) => some (v :: vs, r)
  | none => none

def consPair (p : Str × Doc) : Option (List (Str × Doc) × Str) → Option (List (Str × Doc) × Str)
  | some (ps, r) => some (p :: ps, r)
  | none => none

mutual
  /-- `scan_once_unicode(s, pystr, idx)` on the text from `idx` on: the value and the text after it -/
  def parseValue : Nat → Str → Option (Doc × Str)
    | 0, _ => none
    | _, [] => none                                          -- StopIteration: Expecting value
    | fuel + 1, c :: r =>
      if c = '"' then
        match scanString (r.length + 1) r with
        | some (s, r') => some (.str s, r')
        | none => none
      else if c = '{' then
        match skipWs r with
        | [] => none
        | c1 :: r1 =>
          if c1 = '}' then some (.obj [], r1)
          else match parsePairs fuel (c1 :: r1) with
            | some (ps, r') => some (.obj (mkDict ps), r')
            | none => none
      else if c = '[' then
        match skipWs r with
        | [] => none
        | c1 :: r1 =>
          if c1 = ']' then some (.arr [], r1)
          else match parseElems fuel (c1 :: r1) with
            | some (vs, r') => some (.arr vs, r')
            | none => none
      else if c = 'n' then
        match stripPrefix ['u', 'l', 'l'] r with
        | some r' => some (.null, r')
        | none => none
      else if c = 't' then
        match stripPrefix ['r', 'u', 'e'] r with
        | some r' => some (.bool true, r')
        | none => none
      else if c = 'f' then
        match stripPrefix ['a', 'l', 's', 'e'] r with
        | some r' => some (.bool false, r')
        | none => none
      else parseNumber (c :: r)                              -- `NaN`, `Infinity`, `-Infinity` (floats) end up here as `none`
  /-- the element loop of `_parse_array_unicode`, entered at the first character of an element -/
  def parseElems : Nat → Str → Option (List Doc × Str)
    | 0, _ => none
    | fuel + 1, s =>
      match parseValue fuel s with
      | none => none
      | some (v, r) =>
        match skipWs r with
        | [] => none
        | c :: r' =>
          if c = ']' then some ([v], r')
          else if c = ',' then consElem v (parseElems fuel (skipWs r'))
          else none                                          -- Expecting ',' delimiter
  /-- the pair loop of `_parse_object_unicode`, entered at the opening quote of a key -/
  def parsePairs : Nat → Str → Option (List (Str × Doc) × Str)
    | 0, _ => none
    | _, [] => none
    | fuel + 1, c :: r =>
      if c = '"' then
        match scanString (r.length + 1) r with
        | none => none
        | some (k, r1) =>
          match skipWs r1 with
          | [] => none
          | c1 :: r2 =>
            if c1 = ':' then
              match parseValue fuel (skipWs r2) with
              | none => none
              | some (v, r3) =>
                match skipWs r3 with
                | [] => none
                | c2 :: r4 =>
                  if c2 = '}' then some ([(k, v)], r4)
                  else if c2 = ',' then consPair (k, v) (parsePairs fuel (skipWs r4))
                  else none                                  -- Expecting ',' delimiter
            else none                                        -- Expecting ':' delimiter
      else none                                              -- Expecting property name enclosed in double quotes
end

/-- `json.loads(s)` for a `str`: leading whitespace, one value, trailing whitespace, end of text.
    Fuel: a nesting level costs two units (`parseValue` -> `parseElems`/`parsePairs` -> `parseValue`) and at least one
    character, an element one unit and at least two characters, so `2 * length + 2` is never exhausted. -/
def loads (s : Str) : Option Doc :=
  match parseValue (2 * s.length + 2) (skipWs s) with
  | some (d, r) => if skipWs r = [] then some d else none   -- Extra data
  | none => none

/-! ## the byte level: `.encode()` / `.decode()` are UTF-8 (Lean core's codec) -/

def dumpsBytes (d : Doc) : ByteArray := (String.ofList (dumps d)).toUTF8

def loadsBytes (b : ByteArray) : Option Doc :=
  match b.utf8Decode? with
  | some cs => loads cs.toList
  | none => none                                             -- UnicodeDecodeError (a ValueError)

/-! ## well-formed documents -/

def keysDistinct : List Str → Bool
  | [] => true
  | k :: r => !r.contains k && keysDistinct r

mutual
  /-- what a Python document of the type always satisfies or the round trip needs: dict keys pairwise distinct at every
      level, every int within the interpreter's int/str conversion limit -/
  def WF : Doc → Bool
    | .int i => decide ((Nat.toDigits 10 i.natAbs).length ≤ maxStrDigits)
    | .arr xs => WFs xs
    | .obj kvs => keysDistinct (kvs.map Prod.fst) && WFp kvs
    | _ => true
  def WFs : List Doc → Bool
    | [] => true
    | x :: r => WF x && WFs r
  def WFp : List (Str × Doc) → Bool
    | [] => true
    | (_, v) :: r => WF v && WFp r
end

end Js

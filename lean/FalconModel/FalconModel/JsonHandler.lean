import FalconModel.Json
import FalconModel.MediaCache
/-! C12: `JSONHandler._deserialize` (falcon/media/json.py) with the native JSON model as its decoder - the composition of the
    wrapper model `Mc.jsonDeserialize` (empty body -> MediaNotFoundError, ValueError/RecursionError -> MediaMalformedError)
    with `Js.loadsBytes` (`json.loads(data.decode())`). -/
namespace Js

/-- `JSONHandler._deserialize(body)`; a rejection by `loads`/`decode` is a `ValueError` -/
def handlerDes (body : ByteArray) : Mc.Des Doc :=
  Mc.jsonDeserialize body.data.toList (match loadsBytes body with | some d => .ok d | none => .valueError)

end Js

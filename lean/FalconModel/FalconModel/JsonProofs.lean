import FalconModel.JsonHandler
import FalconModel.MediaCacheProofs
/-! C12 proofs: `loads (dumps d) = some d` for the JSON text format of the default handler (model `Js`, FalconModel/Json.lean). -/
namespace Js



theorem skipWs_cons_of_not_ws {c : Char} {r : Str} (h : isWs c = false) : skipWs (c :: r) = c :: r := by
  simp [skipWs, h]

theorem hexVal_digitChar : ∀ k : Fin 16, hexVal (Nat.digitChar k.val) = some k.val := by decide

theorem hexVal_digitChar' (k : Nat) (h : k < 16) : hexVal (Nat.digitChar k) = some k := hexVal_digitChar ⟨k, h⟩

theorem hex4_ctrl (c : Char) (h : c.toNat < 0x20) (r : Str) :
    hex4 ('0' :: '0' :: Nat.digitChar (c.toNat / 16) :: Nat.digitChar (c.toNat % 16) :: r) = some (c.toNat, r) := by
  have h0 : hexVal '0' = some 0 := by decide
  simp only [hex4, h0, hexVal_digitChar' _ (by omega : c.toNat / 16 < 16), hexVal_digitChar' _ (by omega : c.toNat % 16 < 16)]
  congr 2
  omega

/-- the string lemma: scanning an escaped string up to its closing quote gives the string back -/
theorem scanString_escape : ∀ (s : Str) (fuel : Nat) (rest : Str), (escape s).length + 1 ≤ fuel →
    scanString fuel (escape s ++ '"' :: rest) = some (s, rest)
  | [], fuel, rest, hf => by
    cases fuel with
    | zero => simp at hf
    | succ f => simp [escape, scanString]
  | c :: s, fuel, rest, hf => by
    cases fuel with
    | zero => simp at hf
    | succ f =>
      have hlen : (escChar c).length ≥ 1 := by
        unfold escChar; repeat' split
        all_goals simp
      simp only [escape, List.length_append] at hf
      have ih := scanString_escape s f rest (by omega)
      simp only [escape, List.append_assoc]
      unfold escChar
      split
      · next h => subst h; simp [scanString, unescSimple, ih, consTo]
      split
      · next h => subst h; simp [scanString, unescSimple, ih, consTo]
      split
      · next h => subst h; simp [scanString, unescSimple, ih, consTo]
      split
      · next h => subst h; simp [scanString, unescSimple, ih, consTo]
      split
      · next h => subst h; simp [scanString, unescSimple, ih, consTo]
      split
      · next h => subst h; simp [scanString, unescSimple, ih, consTo]
      split
      · next h => subst h; simp [scanString, unescSimple, ih, consTo]
      split
      · next h1 h2 h3 h4 h5 h6 h7 h =>
        simp only [List.cons_append, List.nil_append]
        simp only [scanString, show ('\\' : Char) ≠ '"' by decide, if_false, if_true, hex4_ctrl c h]
        have hns : ¬ (0xD800 ≤ c.toNat ∧ c.toNat ≤ 0xDBFF) := by omega
        have hns2 : ¬ (0xDC00 ≤ c.toNat ∧ c.toNat ≤ 0xDFFF) := by omega
        simp [hns, hns2, ih, consTo, Char.ofNat_toNat]
      · next h1 h2 h3 h4 h5 h6 h7 h =>
        simp only [List.cons_append, List.nil_append]
        simp [scanString, h1, h2, h, ih, consTo]


/-! ### numbers -/


/-- the continuation does not start with a character the number scanner would consume or that would make the literal a float -/
def numEnd : Str → Bool
  | [] => true
  | c :: _ => !(c.isDigit || c = '.' || c = 'e' || c = 'E')

theorem isFloatTail_of_numEnd {rest : Str} (h : numEnd rest = true) : isFloatTail rest = false := by
  cases rest with
  | nil => rfl
  | cons c t =>
    simp only [numEnd, Bool.not_eq_true', Bool.or_eq_false_iff, decide_eq_false_iff_not] at h
    simp [isFloatTail, h.1.1.2, h.1.2, h.2]

theorem takeWhile_digits_append {ds rest : Str} (hd : ∀ c ∈ ds, c.isDigit = true) (h : numEnd rest = true) :
    (ds ++ rest).takeWhile Char.isDigit = ds ∧ (ds ++ rest).dropWhile Char.isDigit = rest := by
  induction ds with
  | nil =>
    cases rest with
    | nil => simp
    | cons c t =>
      simp only [numEnd, Bool.not_eq_true', Bool.or_eq_false_iff] at h
      simp [h.1.1.1]
  | cons d ds ih =>
    have hdd := hd d (by simp)
    have := ih (fun c hc => hd c (by simp [hc]))
    simp [hdd, this]

theorem toDigits_all_digits (n : Nat) : ∀ c ∈ Nat.toDigits 10 n, c.isDigit = true :=
  fun _ hc => Nat.isDigit_of_mem_toDigits (by decide) (by decide) hc

theorem digitChar_isDigit (k : Nat) (h : k < 10) : (Nat.digitChar k).isDigit = true := by
  simp [Nat.isDigit_digitChar, h]

/-- the decimal representation of a positive number does not start with `0` -/
theorem toDigits_head_pos (n : Nat) (hn : 0 < n) : ∃ c t, Nat.toDigits 10 n = c :: t ∧ c ≠ '0' := by
  induction n using Nat.strongRecOn with
  | _ n ih =>
    rw [Nat.toDigits_eq_if (by decide)]
    split
    · next h => exact ⟨_, [], rfl, by simp; omega⟩
    · next h =>
      obtain ⟨c, t, hct, hc⟩ := ih (n / 10) (by omega) (by omega)
      exact ⟨c, t ++ [Nat.digitChar (n % 10)], by simp [hct], hc⟩

theorem digit_ne_minus {c : Char} (h : c.isDigit = true) : c ≠ '-' := by
  rintro rfl; exact absurd h (by decide)

theorem parseDigits_toDigits (n : Nat) (rest : Str) (hr : numEnd rest = true) (hl : (Nat.toDigits 10 n).length ≤ maxStrDigits) (neg : Bool) :
    parseDigits neg (Nat.toDigits 10 n ++ rest) = some (.int (if neg then -(n : Int) else n), rest) := by
  have hfl := isFloatTail_of_numEnd hr
  have hdig := toDigits_all_digits n
  have hval : Nat.ofDigitChars 10 (Nat.toDigits 10 n) 0 = n := Nat.ofDigitChars_ten_toDigits
  have hnl : ¬ (Nat.toDigits 10 n).length > maxStrDigits := by omega
  by_cases hn : n = 0
  · subst hn
    simp [parseDigits, finishNum, hfl, maxStrDigits, Nat.ofDigitChars]
  · obtain ⟨c, t, hct, hc0⟩ := toDigits_head_pos n (by omega)
    have hcd : c.isDigit = true := hdig c (by simp [hct])
    have htd : ∀ x ∈ t, x.isDigit = true := fun x hx => hdig x (by simp [hct, hx])
    have htw := takeWhile_digits_append htd hr
    rw [hct] at hnl hval
    simp only [hct, List.cons_append, parseDigits, hc0, if_false, hcd, if_true, htw.1, htw.2, finishNum, hfl, hnl, hval]
    simp

theorem toDigits_head_digit (n : Nat) : ∃ c t, Nat.toDigits 10 n = c :: t ∧ c.isDigit = true := by
  cases h : Nat.toDigits 10 n with
  | nil => exact absurd h Nat.toDigits_ne_nil
  | cons c t => exact ⟨c, t, rfl, toDigits_all_digits n c (by simp [h])⟩

theorem parseNumber_dumpsInt (i : Int) (rest : Str) (hr : numEnd rest = true) (hl : (Nat.toDigits 10 i.natAbs).length ≤ maxStrDigits) :
    parseNumber (dumpsInt i ++ rest) = some (.int i, rest) := by
  unfold dumpsInt
  split
  · next h =>
    have e : -(i.natAbs : Int) = i := by omega
    simp only [List.cons_append, parseNumber, if_true, parseDigits_toDigits _ _ hr hl, e]
  · next h =>
    obtain ⟨c, t, hct, hcd⟩ := toDigits_head_digit i.natAbs
    have h1 := parseDigits_toDigits _ _ hr hl false
    rw [hct] at h1 ⊢
    simp only [List.cons_append, parseNumber, digit_ne_minus hcd, if_false] at h1 ⊢
    have e : (i.natAbs : Int) = i := by omega
    rw [h1, e]; simp


/-! ### dict construction -/
theorem insertKV_fresh : ∀ (acc : List (Str × Doc)) (k : Str) (v : Doc), (∀ p ∈ acc, p.1 ≠ k) → insertKV acc k v = acc ++ [(k, v)]
  | [], k, v, _ => rfl
  | (k', v') :: r, k, v, h => by
    have h1 : k' ≠ k := h (k', v') (by simp)
    have := insertKV_fresh r k v (fun p hp => h p (by simp [hp]))
    simp [insertKV, h1, this]

theorem foldl_insertKV : ∀ (ps acc : List (Str × Doc)), keysDistinct (ps.map Prod.fst) = true → (∀ p ∈ acc, ∀ q ∈ ps, p.1 ≠ q.1) →
    ps.foldl (fun acc p => insertKV acc p.1 p.2) acc = acc ++ ps
  | [], acc, _, _ => by simp
  | (k, v) :: ps, acc, hd, hdis => by
    simp only [List.map_cons, keysDistinct, Bool.and_eq_true, Bool.not_eq_true', List.contains_eq_mem, decide_eq_false_iff_not, List.mem_map, not_exists, not_and] at hd
    simp only [List.foldl_cons]
    rw [insertKV_fresh acc k v (fun p hp => hdis p hp (k, v) (by simp))]
    rw [foldl_insertKV ps (acc ++ [(k, v)]) hd.2]
    · simp
    · intro p hp q hq
      simp only [List.mem_append, List.mem_singleton] at hp
      cases hp with
      | inl h => exact hdis p h q (by simp [hq])
      | inr h => subst h; intro e; exact hd.1 q hq e.symm

theorem mkDict_of_distinct (ps : List (Str × Doc)) (h : keysDistinct (ps.map Prod.fst) = true) : mkDict ps = ps := by
  unfold mkDict; rw [foldl_insertKV ps [] h (by simp)]; simp

/-! ### first characters -/
theorem isWs_digit {c : Char} (h : c.isDigit = true) : isWs c = false := by
  unfold isWs
  have h1 : c ≠ ' ' := by rintro rfl; exact absurd h (by decide)
  have h2 : c ≠ '\t' := by rintro rfl; exact absurd h (by decide)
  have h3 : c ≠ '\n' := by rintro rfl; exact absurd h (by decide)
  have h4 : c ≠ '\r' := by rintro rfl; exact absurd h (by decide)
  simp [h1, h2, h3, h4]

theorem dumps_head (d : Doc) : ∃ c t, dumps d = c :: t ∧ isWs c = false := by
  cases d with
  | null => simp only [dumps]; exact ⟨_, _, rfl, by decide⟩
  | bool b => cases b <;> simp only [dumps] <;> exact ⟨_, _, rfl, by decide⟩
  | int i =>
    obtain ⟨c, t, hct, hcd⟩ := toDigits_head_digit i.natAbs
    simp only [dumps, dumpsInt]
    split
    · exact ⟨_, _, rfl, by decide⟩
    · exact ⟨c, t, hct, isWs_digit hcd⟩
  | str s => simp only [dumps, dumpsStr]; exact ⟨_, _, rfl, by decide⟩
  | arr xs => simp only [dumps]; exact ⟨_, _, rfl, by decide⟩
  | obj kvs => simp only [dumps]; exact ⟨_, _, rfl, by decide⟩

theorem skipWs_dumps (d : Doc) (t : Str) : skipWs (dumps d ++ t) = dumps d ++ t := by
  obtain ⟨c, r, h, hc⟩ := dumps_head d
  rw [h, List.cons_append, skipWs_cons_of_not_ws hc]

theorem dumpsElems_cons (x : Doc) (xs : List Doc) :
    dumpsElems (x :: xs) = dumps x ++ (match xs with | [] => [] | y :: r => ',' :: ' ' :: dumpsElems (y :: r)) := by
  cases xs <;> simp [dumpsElems]

theorem dumpsPairs_cons (k : Str) (v : Doc) (ps : List (Str × Doc)) :
    dumpsPairs ((k, v) :: ps) = '"' :: (escape k ++ '"' :: ':' :: ' ' :: (dumps v ++ (match ps with | [] => [] | p :: r => ',' :: ' ' :: dumpsPairs (p :: r)))) := by
  cases ps <;> simp [dumpsPairs, dumpsStr]

/-! ### one iteration of the loops -/
theorem parseElems_last {f : Nat} {s r r' : Str} {v : Doc} (h1 : parseValue f s = some (v, r)) (h2 : skipWs r = ']' :: r') :
    parseElems (f + 1) s = some ([v], r') := by
  simp [parseElems, h1, h2]

theorem parseElems_more {f : Nat} {s r r' : Str} {v : Doc} (h1 : parseValue f s = some (v, r)) (h2 : skipWs r = ',' :: r') :
    parseElems (f + 1) s = consElem v (parseElems f (skipWs r')) := by
  simp [parseElems, h1, h2]

theorem parsePairs_last {f : Nat} {k r0 r1 r2 r3 r4 : Str} {v : Doc} (h0 : scanString (r0.length + 1) r0 = some (k, r1)) (h1 : skipWs r1 = ':' :: r2)
    (h2 : parseValue f (skipWs r2) = some (v, r3)) (h3 : skipWs r3 = '}' :: r4) :
    parsePairs (f + 1) ('"' :: r0) = some ([(k, v)], r4) := by
  simp [parsePairs, h0, h1, h2, h3]

theorem parsePairs_more {f : Nat} {k r0 r1 r2 r3 r4 : Str} {v : Doc} (h0 : scanString (r0.length + 1) r0 = some (k, r1)) (h1 : skipWs r1 = ':' :: r2)
    (h2 : parseValue f (skipWs r2) = some (v, r3)) (h3 : skipWs r3 = ',' :: r4) :
    parsePairs (f + 1) ('"' :: r0) = consPair (k, v) (parsePairs f (skipWs r4)) := by
  simp [parsePairs, h0, h1, h2, h3]



/-! ### the round trip -/


theorem numEnd_rbrack (t : Str) : numEnd (']' :: t) = true := by simp [numEnd]
theorem numEnd_rbrace (t : Str) : numEnd ('}' :: t) = true := by simp [numEnd]
theorem numEnd_comma (t : Str) : numEnd (',' :: t) = true := by simp [numEnd]

theorem digit_not_special {c : Char} (h : c = '-' ∨ c.isDigit = true) :
    c ≠ '"' ∧ c ≠ '{' ∧ c ≠ '[' ∧ c ≠ 'n' ∧ c ≠ 't' ∧ c ≠ 'f' ∧ c ≠ ']' ∧ isWs c = false := by
  rcases h with h | h
  · subst h; decide
  · refine ⟨?_, ?_, ?_, ?_, ?_, ?_, ?_, isWs_digit h⟩ <;> (rintro rfl; exact absurd h (by decide))

theorem dumpsInt_head (i : Int) : ∃ c t, dumpsInt i = c :: t ∧ (c = '-' ∨ c.isDigit = true) := by
  obtain ⟨c, t, hct, hcd⟩ := toDigits_head_digit i.natAbs
  unfold dumpsInt
  split
  · exact ⟨_, _, rfl, Or.inl rfl⟩
  · exact ⟨c, t, hct, Or.inr hcd⟩

theorem dumps_head_ne_rbrack (d : Doc) : ∃ c t, dumps d = c :: t ∧ isWs c = false ∧ c ≠ ']' := by
  cases d with
  | null => simp only [dumps]; exact ⟨_, _, rfl, by decide⟩
  | bool b => cases b <;> simp only [dumps] <;> exact ⟨_, _, rfl, by decide⟩
  | int i =>
    obtain ⟨c, t, hct, hc⟩ := dumpsInt_head i
    have := digit_not_special hc
    exact ⟨c, t, by simp [dumps, hct], this.2.2.2.2.2.2.2, this.2.2.2.2.2.2.1⟩
  | str s => simp only [dumps, dumpsStr]; exact ⟨_, _, rfl, by decide⟩
  | arr xs => simp only [dumps]; exact ⟨_, _, rfl, by decide⟩
  | obj kvs => simp only [dumps]; exact ⟨_, _, rfl, by decide⟩

mutual
  theorem parseValue_dumps : ∀ (d : Doc) (fuel : Nat) (rest : Str), (dumps d).length ≤ fuel → WF d = true → numEnd rest = true →
      parseValue fuel (dumps d ++ rest) = some (d, rest)
    | .null, fuel, rest, hf, _, _ => by
      obtain ⟨f, rfl⟩ : ∃ f, fuel = f + 1 := ⟨fuel - 1, by simp [dumps] at hf; omega⟩
      simp [dumps, parseValue, stripPrefix]
    | .bool true, fuel, rest, hf, _, _ => by
      obtain ⟨f, rfl⟩ : ∃ f, fuel = f + 1 := ⟨fuel - 1, by simp [dumps] at hf; omega⟩
      simp [dumps, parseValue, stripPrefix]
    | .bool false, fuel, rest, hf, _, _ => by
      obtain ⟨f, rfl⟩ : ∃ f, fuel = f + 1 := ⟨fuel - 1, by simp [dumps] at hf; omega⟩
      simp [dumps, parseValue, stripPrefix]
    | .int i, fuel, rest, hf, hw, hr => by
      obtain ⟨c, t, hct, hc⟩ := dumpsInt_head i
      obtain ⟨f, rfl⟩ : ∃ f, fuel = f + 1 := ⟨fuel - 1, by simp [dumps, hct] at hf; omega⟩
      have hn := parseNumber_dumpsInt i rest hr (by simpa [WF] using hw)
      have hs := digit_not_special hc
      simp only [dumps, hct, List.cons_append] at hn ⊢
      simp only [parseValue, hs.1, hs.2.1, hs.2.2.1, hs.2.2.2.1, hs.2.2.2.2.1, hs.2.2.2.2.2.1, if_false, hn]
    | .str s, fuel, rest, hf, _, _ => by
      obtain ⟨f, rfl⟩ : ∃ f, fuel = f + 1 := ⟨fuel - 1, by simp [dumps, dumpsStr] at hf; omega⟩
      simp only [dumps, dumpsStr, List.cons_append, List.append_assoc, List.nil_append, parseValue, if_true]
      rw [scanString_escape s _ rest (by simp)]
    | .arr xs, fuel, rest, hf, hw, hr => by
      obtain ⟨f, rfl⟩ : ∃ f, fuel = f + 1 := ⟨fuel - 1, by simp [dumps] at hf; omega⟩
      cases xs with
      | nil => simp [dumps, dumpsElems, parseValue, skipWs, isWs]
      | cons x r =>
        have ih := parseElems_dumps (x :: r) f rest (by simp) (by simp [dumps] at hf; omega) (by simpa [WF] using hw)
        obtain ⟨c, t, hct, hc, hne⟩ := dumps_head_ne_rbrack x
        simp only [dumps, List.cons_append, List.append_assoc, List.nil_append] at ih ⊢
        rw [dumpsElems_cons, hct] at ih ⊢
        simp only [List.cons_append, List.append_assoc] at ih ⊢
        simp [parseValue, skipWs_cons_of_not_ws hc, hne, ih]
    | .obj kvs, fuel, rest, hf, hw, hr => by
      obtain ⟨f, rfl⟩ : ∃ f, fuel = f + 1 := ⟨fuel - 1, by simp [dumps] at hf; omega⟩
      cases kvs with
      | nil => simp [dumps, dumpsPairs, parseValue, skipWs, isWs]
      | cons p r =>
        obtain ⟨k, v⟩ := p
        simp only [WF, Bool.and_eq_true] at hw
        have ih := parsePairs_dumps ((k, v) :: r) f rest (by simp) (by simp [dumps] at hf; omega) hw.2
        simp only [dumps, List.cons_append, List.append_assoc, List.nil_append] at ih ⊢
        rw [dumpsPairs_cons] at ih ⊢
        simp only [List.cons_append, List.append_assoc] at ih ⊢
        simp [parseValue, skipWs_cons_of_not_ws (show isWs '"' = false by decide), ih, mkDict_of_distinct _ hw.1]
  theorem parseElems_dumps : ∀ (xs : List Doc) (fuel : Nat) (rest : Str), xs ≠ [] → (dumpsElems xs).length + 1 ≤ fuel → WFs xs = true →
      parseElems fuel (dumpsElems xs ++ ']' :: rest) = some (xs, rest)
    | [], _, _, h, _, _ => absurd rfl h
    | x :: r, fuel, rest, _, hf, hw => by
      obtain ⟨f, rfl⟩ : ∃ f, fuel = f + 1 := ⟨fuel - 1, by omega⟩
      simp only [WFs, Bool.and_eq_true] at hw
      rw [dumpsElems_cons] at hf ⊢
      cases r with
      | nil =>
        simp only [List.append_nil] at hf ⊢
        have h1 := parseValue_dumps x f (']' :: rest) (by omega) hw.1 (numEnd_rbrack _)
        exact parseElems_last h1 (skipWs_cons_of_not_ws (by decide))
      | cons y r' =>
        simp only [List.length_append, List.length_cons] at hf
        have h1 := parseValue_dumps x f (',' :: ' ' :: (dumpsElems (y :: r') ++ ']' :: rest)) (by omega) hw.1 (numEnd_comma _)
        have ih := parseElems_dumps (y :: r') f rest (by simp) (by omega) hw.2
        simp only [List.append_assoc, List.cons_append]
        rw [parseElems_more h1 (skipWs_cons_of_not_ws (by decide))]
        have : skipWs (' ' :: (dumpsElems (y :: r') ++ ']' :: rest)) = dumpsElems (y :: r') ++ ']' :: rest := by
          rw [dumpsElems_cons, List.append_assoc]
          simp only [skipWs, isWs, decide_true, Bool.true_or, if_true]
          exact skipWs_dumps _ _
        rw [this, ih]; rfl
  theorem parsePairs_dumps : ∀ (ps : List (Str × Doc)) (fuel : Nat) (rest : Str), ps ≠ [] → (dumpsPairs ps).length + 1 ≤ fuel → WFp ps = true →
      parsePairs fuel (dumpsPairs ps ++ '}' :: rest) = some (ps, rest)
    | [], _, _, h, _, _ => absurd rfl h
    | (k, v) :: r, fuel, rest, _, hf, hw => by
      obtain ⟨f, rfl⟩ : ∃ f, fuel = f + 1 := ⟨fuel - 1, by omega⟩
      simp only [WFp, Bool.and_eq_true] at hw
      rw [dumpsPairs_cons] at hf ⊢
      simp only [List.cons_append, List.append_assoc]
      have hcolon : ∀ t, skipWs (':' :: t) = ':' :: t := fun t => skipWs_cons_of_not_ws (by decide)
      have hsp : ∀ t, skipWs (' ' :: (dumps v ++ t)) = dumps v ++ t := by
        intro t
        simp only [skipWs, isWs, decide_true, Bool.true_or, if_true]
        exact skipWs_dumps _ _
      cases r with
      | nil =>
        simp only [List.nil_append, List.append_nil, List.length_append, List.length_cons] at hf ⊢
        have h0 := scanString_escape k ((escape k ++ '"' :: ':' :: ' ' :: (dumps v ++ '}' :: rest)).length + 1) (':' :: ' ' :: (dumps v ++ '}' :: rest)) (by simp)
        have h2 := parseValue_dumps v f ('}' :: rest) (by omega) hw.1 (numEnd_rbrace _)
        rw [← hsp] at h2
        exact parsePairs_last h0 (hcolon _) h2 (skipWs_cons_of_not_ws (by decide))
      | cons q r' =>
        simp only [List.length_append, List.length_cons] at hf
        have h0 := scanString_escape k ((escape k ++ '"' :: ':' :: ' ' :: (dumps v ++ (',' :: ' ' :: (dumpsPairs (q :: r') ++ '}' :: rest)))).length + 1)
          (':' :: ' ' :: (dumps v ++ (',' :: ' ' :: (dumpsPairs (q :: r') ++ '}' :: rest)))) (by simp)
        have h2 := parseValue_dumps v f (',' :: ' ' :: (dumpsPairs (q :: r') ++ '}' :: rest)) (by omega) hw.1 (numEnd_comma _)
        rw [← hsp] at h2
        have ih := parsePairs_dumps (q :: r') f rest (by simp) (by omega) hw.2
        have h := parsePairs_more h0 (hcolon _) h2 (skipWs_cons_of_not_ws (by decide))
        have hq : skipWs (' ' :: (dumpsPairs (q :: r') ++ '}' :: rest)) = dumpsPairs (q :: r') ++ '}' :: rest := by
          obtain ⟨k2, v2⟩ := q
          rw [dumpsPairs_cons]
          simp [skipWs, isWs]
        simp only [List.cons_append] at h hq ⊢
        rw [h, hq, ih]; rfl
end

theorem skipWs_ws_append : ∀ (w t : Str), (∀ c ∈ w, isWs c = true) → skipWs (w ++ t) = skipWs t
  | [], _, _ => rfl
  | c :: w, t, h => by
    have hc := h c (by simp)
    simp only [List.cons_append, skipWs, hc, if_true]
    exact skipWs_ws_append w t (fun x hx => h x (by simp [hx]))

theorem skipWs_all_ws (w : Str) (h : ∀ c ∈ w, isWs c = true) : skipWs w = [] := by
  have := skipWs_ws_append w [] h
  simpa [skipWs] using this

theorem numEnd_ws : ∀ (w : Str), (∀ c ∈ w, isWs c = true) → numEnd w = true
  | [], _ => rfl
  | c :: w, h => by
    have hc := h c (by simp)
    simp only [isWs, Bool.or_eq_true, decide_eq_true_eq] at hc
    rcases hc with ((hc | hc) | hc) | hc <;> subst hc <;> simp [numEnd]

/-- **round trip, text level, with surrounding whitespace**: what `dumps` writes for a well-formed document, framed by any
    JSON whitespace, is read back by `loads` as that document -/
theorem loads_ws_dumps_ws (d : Doc) (hw : WF d = true) (w1 w2 : Str) (h1 : ∀ c ∈ w1, isWs c = true) (h2 : ∀ c ∈ w2, isWs c = true) :
    loads (w1 ++ dumps d ++ w2) = some d := by
  unfold loads
  rw [List.append_assoc, skipWs_ws_append _ _ h1, skipWs_dumps, parseValue_dumps d _ w2 (by simp; omega) hw (numEnd_ws w2 h2)]
  simp [skipWs_all_ws w2 h2]

/-- **round trip, text level**: `json.loads(json.dumps(d, ensure_ascii=False)) == d` -/
theorem loads_dumps (d : Doc) (hw : WF d = true) : loads (dumps d) = some d := by
  simpa using loads_ws_dumps_ws d hw [] [] (by simp) (by simp)

/-- **round trip, byte level**: `json.loads(json.dumps(d, ensure_ascii=False).encode().decode()) == d`
    (`JSONHandler.deserialize ∘ JSONHandler.serialize`) -/
theorem loadsBytes_dumpsBytes (d : Doc) (hw : WF d = true) : loadsBytes (dumpsBytes d) = some d := by
  unfold loadsBytes dumpsBytes
  show (match (dumps d).utf8Encode.utf8Decode? with | some cs => loads cs.toList | none => none) = some d
  rw [List.utf8Decode?_utf8Encode]
  simp [loads_dumps d hw]


/-! ### the side conditions are necessary -/


example : WF (.obj [("a\"\n😀".toList, .arr [.int (-12), .null, .bool true, .str "é\x01".toList, .obj []]), ([], .int (10 ^ 100))]) = true := by decide

/-- necessity of distinct keys: a serialized "dict" with a repeated key reads back as a different document (last value wins) -/
theorem dup_keys_do_not_round_trip :
    loads (dumps (.obj [(['a'], .int 1), (['b'], .null), (['a'], .int 2)])) = some (.obj [(['a'], .int 2), (['b'], .null)]) := by
  rfl

theorem parseDigits_over_limit (n : Nat) (neg : Bool) (hl : maxStrDigits < (Nat.toDigits 10 n).length) :
    parseDigits neg (Nat.toDigits 10 n) = none := by
  have hdig := toDigits_all_digits n
  have hn : n ≠ 0 := by rintro rfl; simp [maxStrDigits] at hl
  obtain ⟨c, t, hct, hc0⟩ := toDigits_head_pos n (by omega)
  have hcd : c.isDigit = true := hdig c (by simp [hct])
  have htd : ∀ x ∈ t, x.isDigit = true := fun x hx => hdig x (by simp [hct, hx])
  have htw := takeWhile_digits_append (rest := []) htd rfl
  simp only [List.append_nil] at htw
  rw [hct] at hl ⊢
  simp only [parseDigits, hc0, if_false, hcd, if_true, htw.1, htw.2, finishNum, isFloatTail]
  simp only [List.length_cons] at hl
  simp only [List.length_cons, gt_iff_lt, hl, if_true]
  simp

/-- necessity of the digit bound: an int with more than 4300 decimal digits is written by the model's `dumps` but rejected by
    `loads` (CPython: ValueError "Exceeds the limit (4300 digits) for integer string conversion"; the real `dumps` raises too) -/
theorem loads_dumps_int_over_limit (i : Int) (hl : maxStrDigits < (Nat.toDigits 10 i.natAbs).length) :
    loads (dumps (.int i)) = none := by
  have hd := parseDigits_over_limit i.natAbs
  obtain ⟨c, t, hct, hc⟩ := dumpsInt_head i
  have hs := digit_not_special hc
  unfold loads
  rw [show dumps (.int i) = dumps (.int i) ++ [] by simp, skipWs_dumps]
  simp only [List.append_nil, dumps]
  have : parseNumber (dumpsInt i) = none := by
    unfold dumpsInt
    split
    · simp [parseNumber, hd true hl]
    · obtain ⟨c', t', hct', hcd'⟩ := toDigits_head_digit i.natAbs
      have h1 := hd false hl
      rw [hct'] at h1 ⊢
      simp [parseNumber, digit_ne_minus hcd', h1]
  rw [hct] at this ⊢
  simp only [List.length_cons, Nat.mul_add, parseValue, hs.1, hs.2.1, hs.2.2.1, hs.2.2.2.1, hs.2.2.2.2.1, hs.2.2.2.2.2.1, if_false, this]

/-- the digit bound in arithmetic form -/
theorem wf_int_iff (i : Int) : WF (.int i) = true ↔ i.natAbs < 10 ^ 4300 := by
  rw [WF, decide_eq_true_eq]
  exact Nat.length_toDigits_le_iff (b := 10) (k := 4300) (by decide) (by decide)




/-! ### the fuel is only a termination device -/

theorem skipWs_length_le : ∀ (s : Str), (skipWs s).length ≤ s.length
  | [] => by simp [skipWs]
  | c :: r => by
    simp only [skipWs]
    split
    · have := skipWs_length_le r; simp; omega
    · simp

theorem hex4_length {s r : Str} {n : Nat} (h : hex4 s = some (n, r)) : r.length + 4 = s.length := by
  match s, h with
  | a :: b :: c :: d :: t, h =>
    simp only [hex4] at h
    split at h
    · simp only [Option.some.injEq, Prod.mk.injEq] at h; rw [← h.2]; simp
    · simp at h

theorem consTo_some {c : Char} {o : Option (Str × Str)} {k r : Str} (h : consTo c o = some (k, r)) : ∃ k', o = some (k', r) := by
  cases o with
  | none => simp [consTo] at h
  | some p => obtain ⟨k', r'⟩ := p; simp only [consTo, Option.some.injEq, Prod.mk.injEq] at h; exact ⟨k', by rw [h.2]⟩

/-- the scanner consumes at least the closing quote -/
theorem scanString_length : ∀ (f : Nat) (s k r : Str), scanString f s = some (k, r) → r.length < s.length
  | 0, s, k, r, h => by simp [scanString] at h
  | f + 1, [], k, r, h => by simp [scanString] at h
  | f + 1, c :: t, k, r, h => by
    simp only [scanString] at h
    split at h
    · simp only [Option.some.injEq, Prod.mk.injEq] at h; rw [← h.2]; simp
    split at h
    · split at h
      · simp at h
      · next e r1 =>
        split at h
        · split at h
          · simp at h
          · next n r2 hh =>
            have hl := hex4_length hh
            split at h
            · split at h
              · next b u r3 =>
                split at h
                · split at h
                  · simp at h
                  · next m r4 hh2 =>
                    have hl2 := hex4_length hh2
                    split at h
                    · obtain ⟨k', hk⟩ := consTo_some h
                      have := scanString_length f _ _ _ hk
                      simp only [List.length_cons] at hl ⊢; omega
                    · simp at h
                · simp at h
              · simp at h
            split at h
            · simp at h
            · obtain ⟨k', hk⟩ := consTo_some h
              have := scanString_length f _ _ _ hk
              simp only [List.length_cons] at hl ⊢; omega
        · split at h
          · simp at h
          · obtain ⟨k', hk⟩ := consTo_some h
            have := scanString_length f _ _ _ hk
            simp only [List.length_cons] at ⊢; omega
    split at h
    · simp at h
    · obtain ⟨k', hk⟩ := consTo_some h
      have := scanString_length f _ _ _ hk
      simp only [List.length_cons]; omega



theorem stripPrefix_length : ∀ (p s r : Str), stripPrefix p s = some r → r.length ≤ s.length
  | [], s, r, h => by simp only [stripPrefix, Option.some.injEq] at h; rw [h]; omega
  | _ :: _, [], r, h => by simp [stripPrefix] at h
  | p :: ps, c :: t, r, h => by
    simp only [stripPrefix] at h
    split at h
    · have := stripPrefix_length ps t r h; simp; omega
    · simp at h

theorem dropWhile_length_le (p : Char → Bool) : ∀ (s : Str), (s.dropWhile p).length ≤ s.length
  | [] => by simp
  | c :: t => by
    simp only [List.dropWhile]
    split
    · have := dropWhile_length_le p t; simp; omega
    · simp

theorem finishNum_rest {neg : Bool} {ds rest r : Str} {v : Doc} (h : finishNum neg ds rest = some (v, r)) : r = rest := by
  unfold finishNum at h
  split at h
  · simp at h
  split at h
  · simp at h
  · simp only [Option.some.injEq, Prod.mk.injEq] at h; exact h.2.symm

theorem parseDigits_length {neg : Bool} {s r : Str} {v : Doc} (h : parseDigits neg s = some (v, r)) : r.length < s.length := by
  cases s with
  | nil => simp [parseDigits] at h
  | cons c t =>
    simp only [parseDigits] at h
    split at h
    · rw [finishNum_rest h]; simp
    split at h
    · rw [finishNum_rest h]; have := dropWhile_length_le Char.isDigit t; simp; omega
    · simp at h

theorem parseNumber_length {s r : Str} {v : Doc} (h : parseNumber s = some (v, r)) : r.length < s.length := by
  cases s with
  | nil => simp [parseNumber] at h
  | cons c t =>
    simp only [parseNumber] at h
    split at h
    · have := parseDigits_length h; simp; omega
    · exact parseDigits_length h

theorem consElem_some {v : Doc} {o : Option (List Doc × Str)} {vs : List Doc} {r : Str} (h : consElem v o = some (vs, r)) : ∃ vs', o = some (vs', r) := by
  cases o with
  | none => simp [consElem] at h
  | some p => obtain ⟨a, b⟩ := p; simp only [consElem, Option.some.injEq, Prod.mk.injEq] at h; exact ⟨a, by rw [h.2]⟩

theorem consPair_some {p : Str × Doc} {o : Option (List (Str × Doc) × Str)} {ps : List (Str × Doc)} {r : Str} (h : consPair p o = some (ps, r)) : ∃ ps', o = some (ps', r) := by
  cases o with
  | none => simp [consPair] at h
  | some q => obtain ⟨a, b⟩ := q; simp only [consPair, Option.some.injEq, Prod.mk.injEq] at h; exact ⟨a, by rw [h.2]⟩

/-- every parser consumes at least one character -/
theorem parse_length : ∀ (f : Nat),
    (∀ s v r, parseValue f s = some (v, r) → r.length < s.length) ∧
    (∀ s vs r, parseElems f s = some (vs, r) → r.length < s.length) ∧
    (∀ s ps r, parsePairs f s = some (ps, r) → r.length < s.length)
  | 0 => ⟨fun s v r h => by simp [parseValue] at h, fun s v r h => by simp [parseElems] at h, fun s v r h => by simp [parsePairs] at h⟩
  | f + 1 => by
    obtain ⟨ihv, ihe, ihp⟩ := parse_length f
    refine ⟨?_, ?_, ?_⟩
    · intro s v r h
      cases s with
      | nil => simp [parseValue] at h
      | cons c t =>
        simp only [parseValue] at h
        split at h
        · split at h
          · next k r' hs =>
            simp only [Option.some.injEq, Prod.mk.injEq] at h
            have := scanString_length _ _ _ _ hs
            rw [← h.2]; simp; omega
          · simp at h
        split at h
        · split at h
          · simp at h
          · next c1 r1 hs =>
            have hl := skipWs_length_le t
            rw [hs] at hl
            split at h
            · simp only [Option.some.injEq, Prod.mk.injEq] at h; rw [← h.2]; simp at hl ⊢; omega
            · split at h
              · next ps r' hp =>
                simp only [Option.some.injEq, Prod.mk.injEq] at h
                have := ihp _ _ _ hp
                rw [← h.2]; simp at hl this ⊢; omega
              · simp at h
        split at h
        · split at h
          · simp at h
          · next c1 r1 hs =>
            have hl := skipWs_length_le t
            rw [hs] at hl
            split at h
            · simp only [Option.some.injEq, Prod.mk.injEq] at h; rw [← h.2]; simp at hl ⊢; omega
            · split at h
              · next vs r' hp =>
                simp only [Option.some.injEq, Prod.mk.injEq] at h
                have := ihe _ _ _ hp
                rw [← h.2]; simp at hl this ⊢; omega
              · simp at h
        split at h
        · split at h
          · next r' hs => simp only [Option.some.injEq, Prod.mk.injEq] at h; have := stripPrefix_length _ _ _ hs; rw [← h.2]; simp; omega
          · simp at h
        split at h
        · split at h
          · next r' hs => simp only [Option.some.injEq, Prod.mk.injEq] at h; have := stripPrefix_length _ _ _ hs; rw [← h.2]; simp; omega
          · simp at h
        split at h
        · split at h
          · next r' hs => simp only [Option.some.injEq, Prod.mk.injEq] at h; have := stripPrefix_length _ _ _ hs; rw [← h.2]; simp; omega
          · simp at h
        · exact parseNumber_length h
    · intro s vs r h
      simp only [parseElems] at h
      split at h
      · simp at h
      · next v r0 hv =>
        have h0 := ihv _ _ _ hv
        split at h
        · simp at h
        · next c r' hs =>
          have hl := skipWs_length_le r0
          rw [hs] at hl
          split at h
          · simp only [Option.some.injEq, Prod.mk.injEq] at h; rw [← h.2]; simp at hl; omega
          split at h
          · obtain ⟨vs', hk⟩ := consElem_some h
            have := ihe _ _ _ hk
            have := skipWs_length_le r'
            simp at hl; omega
          · simp at h
    · intro s ps r h
      cases s with
      | nil => simp [parsePairs] at h
      | cons c t =>
        simp only [parsePairs] at h
        split at h
        · split at h
          · simp at h
          · next k r1 hs =>
            have h1 := scanString_length _ _ _ _ hs
            split at h
            · simp at h
            · next c1 r2 hs2 =>
              have hl2 := skipWs_length_le r1
              rw [hs2] at hl2
              split at h
              · split at h
                · simp at h
                · next v r3 hv =>
                  have h3 := ihv _ _ _ hv
                  have hl3 := skipWs_length_le r2
                  split at h
                  · simp at h
                  · next c2 r4 hs4 =>
                    have hl4 := skipWs_length_le r3
                    rw [hs4] at hl4
                    split at h
                    · simp only [Option.some.injEq, Prod.mk.injEq] at h; rw [← h.2]; simp at hl2 hl4 ⊢; omega
                    split at h
                    · obtain ⟨ps', hk⟩ := consPair_some h
                      have := ihp _ _ _ hk
                      have := skipWs_length_le r4
                      simp at hl2 hl4 ⊢; omega
                    · simp at h
              · simp at h
        · simp at h



/-- with more fuel than characters the string scanner's answer does not depend on the fuel -/
theorem scanString_fuel : ∀ (f f' : Nat) (s : Str), s.length < f → s.length < f' → scanString f s = scanString f' s
  | 0, _, _, h, _ => by omega
  | _ + 1, 0, _, _, h => by omega
  | f + 1, f' + 1, [], _, _ => by simp [scanString]
  | f + 1, f' + 1, c :: t, h1, h2 => by
    have key : ∀ s', s'.length < (c :: t).length → scanString f s' = scanString f' s' := fun s' hs =>
      scanString_fuel f f' s' (by simp at h1 hs; omega) (by simp at h2 hs; omega)
    simp only [scanString]
    split
    · rfl
    split
    · split
      · rfl
      · next e r1 =>
        split
        · split
          · rfl
          · next n r2 hh =>
            have hl := hex4_length hh
            split
            · split
              · next b u r3 =>
                split
                · split
                  · rfl
                  · next m r4 hh2 =>
                    have hl2 := hex4_length hh2
                    split
                    · rw [key r4 (by simp only [List.length_cons] at hl ⊢; omega)]
                    · rfl
                · rfl
              · rfl
            split
            · rfl
            · rw [key r2 (by simp only [List.length_cons] at hl ⊢; omega)]
        · split
          · rfl
          · rw [key r1 (by simp only [List.length_cons]; omega)]
    split
    · rfl
    · rw [key t (by simp)]



/-- with fuel at least `2 * length + 1` (values) / `2 * length + 2` (the loops) the parsers' answers do not depend on the fuel -/
theorem parse_fuel : ∀ (f f' : Nat),
    (∀ s, 2 * s.length + 1 ≤ f → 2 * s.length + 1 ≤ f' → parseValue f s = parseValue f' s) ∧
    (∀ s, 2 * s.length + 2 ≤ f → 2 * s.length + 2 ≤ f' → parseElems f s = parseElems f' s) ∧
    (∀ s, 2 * s.length + 2 ≤ f → 2 * s.length + 2 ≤ f' → parsePairs f s = parsePairs f' s)
  | 0, _ => ⟨fun _ h _ => by omega, fun _ h _ => by omega, fun _ h _ => by omega⟩
  | _ + 1, 0 => ⟨fun _ _ h => by omega, fun _ _ h => by omega, fun _ _ h => by omega⟩
  | f + 1, f' + 1 => by
    obtain ⟨ihv, ihe, ihp⟩ := parse_fuel f f'
    refine ⟨?_, ?_, ?_⟩
    · intro s h1 h2
      cases s with
      | nil => simp [parseValue]
      | cons c t =>
        simp only [List.length_cons] at h1 h2
        simp only [parseValue]
        split
        · rfl
        split
        · split
          · rfl
          · next c1 r1 hs =>
            have hl := skipWs_length_le t
            rw [hs] at hl
            split
            · rfl
            · rw [ihp (c1 :: r1) (by omega) (by omega)]
        split
        · split
          · rfl
          · next c1 r1 hs =>
            have hl := skipWs_length_le t
            rw [hs] at hl
            split
            · rfl
            · rw [ihe (c1 :: r1) (by omega) (by omega)]
        rfl
    · intro s h1 h2
      simp only [parseElems]
      rw [ihv s (by omega) (by omega)]
      split
      · rfl
      · next v r0 hv =>
        have h0 := (parse_length f').1 _ _ _ hv
        split
        · rfl
        · next c r' hs =>
          have hl := skipWs_length_le r0
          rw [hs] at hl
          have hl' := skipWs_length_le r'
          simp only [List.length_cons] at hl
          split
          · rfl
          split
          · rw [ihe (skipWs r') (by omega) (by omega)]
          · rfl
    · intro s h1 h2
      cases s with
      | nil => simp [parsePairs]
      | cons c t =>
        simp only [List.length_cons] at h1 h2
        simp only [parsePairs]
        split
        · split
          · rfl
          · next k r1 hs =>
            have hl1 := scanString_length _ _ _ _ hs
            split
            · rfl
            · next c1 r2 hs2 =>
              have hl2 := skipWs_length_le r1
              rw [hs2] at hl2
              simp only [List.length_cons] at hl2
              have hl3 := skipWs_length_le r2
              split
              · rw [ihv (skipWs r2) (by omega) (by omega)]
                split
                · rfl
                · next v r3 hv =>
                  have h3 := (parse_length f').1 _ _ _ hv
                  split
                  · rfl
                  · next c2 r4 hs4 =>
                    have hl4 := skipWs_length_le r3
                    rw [hs4] at hl4
                    simp only [List.length_cons] at hl4
                    have hl5 := skipWs_length_le r4
                    split
                    · rfl
                    split
                    · rw [ihp (skipWs r4) (by omega) (by omega)]
                    · rfl
              · rfl
        · rfl

/-- `loads` is the unbounded recursive-descent parser: any larger fuel gives the same answer -/
theorem loads_fuel_irrelevant (s : Str) (f : Nat) (hf : 2 * s.length + 2 ≤ f) :
    loads s = (match parseValue f (skipWs s) with
      | some (d, r) => if skipWs r = [] then some d else none
      | none => none) := by
  unfold loads
  have := skipWs_length_le s
  rw [(parse_fuel (2 * s.length + 2) f).1 (skipWs s) (by omega) (by omega)]
  cases parseValue f (skipWs s) with
  | none => rfl
  | some p => rfl



/-! ### shape of the output -/

theorem digitChar_ge_space : ∀ k : Fin 16, 0x20 ≤ (Nat.digitChar k.val).toNat := by decide

theorem escChar_no_control (c x : Char) (h : x ∈ escChar c) : 0x20 ≤ x.toNat := by
  unfold escChar at h
  repeat' split at h
  all_goals try (simp only [List.mem_cons, List.not_mem_nil, or_false] at h; rcases h with h | h <;> subst h <;> decide)
  · simp only [List.mem_cons, List.not_mem_nil, or_false] at h
    rcases h with h | h | h | h | h | h
    · subst h; decide
    · subst h; decide
    · subst h; decide
    · subst h; decide
    · subst h; exact digitChar_ge_space ⟨c.toNat / 16, by omega⟩
    · subst h; exact digitChar_ge_space ⟨c.toNat % 16, by omega⟩
  · simp only [List.mem_cons, List.not_mem_nil, or_false] at h
    subst h; omega

theorem escape_no_control : ∀ (s : Str) (x : Char), x ∈ escape s → 0x20 ≤ x.toNat
  | [], x, h => by simp [escape] at h
  | c :: s, x, h => by
    simp only [escape, List.mem_append] at h
    rcases h with h | h
    · exact escChar_no_control c x h
    · exact escape_no_control s x h

theorem dumpsStr_no_control (s : Str) (x : Char) (h : x ∈ dumpsStr s) : 0x20 ≤ x.toNat := by
  simp only [dumpsStr, List.mem_cons, List.mem_append, List.not_mem_nil, or_false] at h
  rcases h with h | h | h
  · subst h; decide
  · exact escape_no_control s x h
  · subst h; decide

theorem dumpsInt_no_control (i : Int) (x : Char) (h : x ∈ dumpsInt i) : 0x20 ≤ x.toNat := by
  have hd : ∀ c ∈ Nat.toDigits 10 i.natAbs, 0x20 ≤ c.toNat := by
    intro c hc
    have := toDigits_all_digits _ c hc
    simp only [Char.isDigit, Bool.and_eq_true, decide_eq_true_eq] at this
    have h1 := this.1
    show 32 ≤ c.val.toNat
    have : (48 : UInt32) ≤ c.val := h1
    exact Nat.le_trans (by decide) (UInt32.le_iff_toNat_le.mp this)
  unfold dumpsInt at h
  split at h
  · simp only [List.mem_cons] at h
    rcases h with h | h
    · subst h; decide
    · exact hd x h
  · exact hd x h

mutual
  /-- the serialized text contains no raw control character (in particular no newline): all of them are escaped -/
  theorem dumps_no_control : ∀ (d : Doc) (x : Char), x ∈ dumps d → 0x20 ≤ x.toNat
    | .null, x, h => by simp only [dumps, List.mem_cons, List.not_mem_nil, or_false] at h; rcases h with h | h | h | h <;> subst h <;> decide
    | .bool true, x, h => by simp only [dumps, List.mem_cons, List.not_mem_nil, or_false] at h; rcases h with h | h | h | h <;> subst h <;> decide
    | .bool false, x, h => by simp only [dumps, List.mem_cons, List.not_mem_nil, or_false] at h; rcases h with h | h | h | h | h <;> subst h <;> decide
    | .int i, x, h => dumpsInt_no_control i x (by simpa [dumps] using h)
    | .str s, x, h => dumpsStr_no_control s x (by simpa [dumps] using h)
    | .arr xs, x, h => by
      simp only [dumps, List.mem_cons, List.mem_append, List.not_mem_nil, or_false] at h
      rcases h with h | h | h
      · subst h; decide
      · exact dumpsElems_no_control xs x h
      · subst h; decide
    | .obj kvs, x, h => by
      simp only [dumps, List.mem_cons, List.mem_append, List.not_mem_nil, or_false] at h
      rcases h with h | h | h
      · subst h; decide
      · exact dumpsPairs_no_control kvs x h
      · subst h; decide
  theorem dumpsElems_no_control : ∀ (xs : List Doc) (x : Char), x ∈ dumpsElems xs → 0x20 ≤ x.toNat
    | [], x, h => by simp [dumpsElems] at h
    | [d], x, h => dumps_no_control d x (by simpa [dumpsElems] using h)
    | d :: y :: r, x, h => by
      simp only [dumpsElems, List.mem_append, List.mem_cons] at h
      rcases h with h | h | h | h
      · exact dumps_no_control d x h
      · subst h; decide
      · subst h; decide
      · exact dumpsElems_no_control (y :: r) x h
  theorem dumpsPairs_no_control : ∀ (ps : List (Str × Doc)) (x : Char), x ∈ dumpsPairs ps → 0x20 ≤ x.toNat
    | [], x, h => by simp [dumpsPairs] at h
    | [(k, v)], x, h => by
      simp only [dumpsPairs, List.mem_append, List.mem_cons] at h
      rcases h with h | h | h | h
      · exact dumpsStr_no_control k x h
      · subst h; decide
      · subst h; decide
      · exact dumps_no_control v x h
    | (k, v) :: p :: r, x, h => by
      simp only [dumpsPairs, List.mem_append, List.mem_cons] at h
      rcases h with h | h | h | h | h | h | h
      · exact dumpsStr_no_control k x h
      · subst h; decide
      · subst h; decide
      · exact dumps_no_control v x h
      · subst h; decide
      · subst h; decide
      · exact dumpsPairs_no_control (p :: r) x h
end



/-! ### the whole path: response media -> body bytes -> `get_media()` -/

theorem loadsBytes_empty : loadsBytes ByteArray.empty = none := by
  unfold loadsBytes
  rw [ByteArray.utf8Decode?_empty]
  rfl

theorem dumpsBytes_ne_empty (d : Doc) (hw : WF d = true) : (dumpsBytes d).data.toList ≠ [] := by
  intro h
  have he : dumpsBytes d = ByteArray.empty := by
    cases hb : dumpsBytes d with
    | mk data =>
      rw [hb] at h
      simp only [Array.toList_eq_nil_iff] at h
      subst h; rfl
  have := loadsBytes_dumpsBytes d hw
  rw [he, loadsBytes_empty] at this
  exact absurd this (by simp)

/-- the handler reads the bytes it wrote for `d` back as `d` -/
theorem handler_round_trip (d : Doc) (hw : WF d = true) : handlerDes (dumpsBytes d) = .ok d := by
  unfold handlerDes Mc.jsonDeserialize
  rw [loadsBytes_dumpsBytes d hw]
  have := dumpsBytes_ne_empty d hw
  cases h : (dumpsBytes d).data.toList with
  | nil => exact absurd h this
  | cons b r => rfl

/-- **C12 end to end in the model**: a request whose body is the serialization of a well-formed float-free document `d`
    answers `d` on every `get_media()` / `media` call, whatever the call sequence, and deserializes at most once -/
theorem media_round_trip (d : Doc) (hw : WF d = true) (ex : Bool) (ds : List Bool) :
    (Mc.runCalls (handlerDes (dumpsBytes d)) ex ({} : Mc.St Doc) ds).1 = ds.map (fun _ => Mc.Out.value d) ∧
    (Mc.runCalls (handlerDes (dumpsBytes d)) ex ({} : Mc.St Doc) ds).2.desCalls ≤ 1 := by
  rw [handler_round_trip d hw]
  refine ⟨?_, Mc.deserialize_at_most_once _ ex ds⟩
  rw [(Mc.runCalls_spec (.ok d) ex ds _ (Mc.inv_init _)).1]
  rfl


end Js

/-! C19: WHERE the compile lock comes from.  `Sc` (Sched.lean) takes `_compile_lock` as one lock that exists before the first
    request (`Sh.lock`), as in `CompiledRouter.__init__`: `self._compile_lock = Lock()`.  This file models the lock object
    itself, at load/store granularity, in the two ways a long-lived object can come by it:

      eager   the lock is created together with the object (`init l0`: the cell holds lock `l0` from the start)
      lazy    the lock is created by the first thread(s) that need it:
                  lock = self._lock
                  if lock is None:
                      lock = self._lock = Lock()
                  with lock: <critical section>

    A lazily initialised cell is harmless when the value is deterministic and unobservable (`Lz.lazy_init_idempotent`).
    A lock is neither: every `Lock()` is a NEW object, and which object a thread holds decides whom it excludes. -/
namespace Ll

inductive Pc where
  | start
  | sawNone              -- read the cell, found no lock; about to call `Lock()`
  | made (l : Nat)       -- `Lock()` returned lock object number `l`; about to store it in the cell (and keep using it)
  | ref (l : Nat)        -- has a reference to lock `l`; about to acquire it
  | crit (l : Nat)       -- inside the critical section, holding lock `l`
  | done
deriving Repr, DecidableEq

structure St where
  cell : Option Nat := none        -- the lock attribute of the object: none = not created yet
  nlocks : Nat := 0                -- lock objects created so far (numbered 1, 2, ...)
  held : List Nat := []            -- the locks that are held right now
  pcs : Nat → Pc := fun _ => .start

/-- one step of thread `i` (a thread that finds its lock taken does not move) -/
def run (s : St) (i : Nat) : St :=
  let set (pc : Pc) : Nat → Pc := fun j => if j = i then pc else s.pcs j
  match s.pcs i with
  | .start =>
    (match s.cell with
     | some l => { s with pcs := set (.ref l) }
     | none => { s with pcs := set .sawNone })
  | .sawNone => { s with nlocks := s.nlocks + 1, pcs := set (.made (s.nlocks + 1)) }
  | .made l => { s with cell := some l, pcs := set (.ref l) }
  | .ref l => if s.held.contains l then s else { s with held := l :: s.held, pcs := set (.crit l) }
  | .crit l => { s with held := s.held.erase l, pcs := set .done }
  | .done => s

def exec : St → List Nat → St
  | s, [] => s
  | s, i :: rest => exec (run s i) rest

/-- the object whose lock was created in `__init__` -/
def init (l0 : Nat) : St := { cell := some l0, nlocks := l0 }

/-- how many of the threads `0..k-1` are inside the critical section -/
def inCrit (s : St) (k : Nat) : Nat :=
  ((List.range k).filter fun i => match s.pcs i with | .crit _ => true | _ => false).length

/-! HOW the lock is taken.  `run` models `with lock:` / a blocking `lock.acquire()`: a thread that finds its lock taken does not move.
    A timed acquire whose result only decides whether to release,

        acquired = lock.acquire(timeout=t)
        try: <critical section>
        finally:
            if acquired: lock.release()

    has a second outcome when the lock is taken: the time-out fires (`fire = true`; the holder may be parked for any length of time) and
    the thread enters the critical section WITHOUT a lock - written `.crit 0` (lock objects are numbered from 1; leaving `.crit 0`
    releases nothing: `held.erase 0` leaves `held` as it is). -/
def runT (s : St) (i : Nat) (fire : Bool) : St :=
  match s.pcs i with
  | .ref l =>
    if s.held.contains l && fire then { s with pcs := fun j => if j = i then .crit 0 else s.pcs j } else run s i
  | _ => run s i

def execT : St → List (Nat × Bool) → St
  | s, [] => s
  | s, (i, fire) :: rest => execT (runT s i fire) rest

end Ll

import FalconModel.LazyLock
/-! Proofs for `Ll`: an eagerly created lock gives mutual exclusion under every schedule; a lazily created one does not. -/
namespace Ll

/-- with the eager lock `l0` a thread is never in the creating branch and only ever refers to `l0` -/
def Ok (l0 : Nat) : Pc → Prop
  | .start => True
  | .ref l => l = l0
  | .crit l => l = l0
  | .done => True
  | _ => False

structure Inv (l0 : Nat) (s : St) : Prop where
  cell : s.cell = some l0
  pcs : ∀ i, Ok l0 (s.pcs i)
  mutex : (s.held = [] ∧ ∀ i, s.pcs i ≠ .crit l0) ∨
          (s.held = [l0] ∧ ∃ i, s.pcs i = .crit l0 ∧ ∀ j, s.pcs j = .crit l0 → j = i)

theorem init_inv (l0 : Nat) : Inv l0 (init l0) :=
  ⟨rfl, fun _ => trivial, Or.inl ⟨rfl, fun _ h => by cases h⟩⟩

theorem run_inv (l0 : Nat) (s : St) (i : Nat) (h : Inv l0 s) : Inv l0 (run s i) := by
  have hok := h.pcs i
  unfold run
  split
  · -- start
    rename_i hp
    split
    · rename_i l hl
      have hl0 : l = l0 := by
        rw [h.cell] at hl; injection hl with hl; exact hl.symm
      subst hl0
      refine ⟨h.cell, ?_, ?_⟩
      · intro j
        by_cases hj : j = i
        · simp only [hj, if_true]; exact rfl
        · simp only [hj, if_false]; exact h.pcs j
      · rcases h.mutex with ⟨hh, hn⟩ | ⟨hh, i0, hi0, hu⟩
        · refine Or.inl ⟨hh, ?_⟩
          intro j
          by_cases hj : j = i
          · simp only [hj, if_true]; intro hc; cases hc
          · simp only [hj, if_false]; exact hn j
        · have hne : i0 ≠ i := by
            intro he; rw [he, hp] at hi0; cases hi0
          refine Or.inr ⟨hh, i0, ?_, ?_⟩
          · simp only [hne, if_false]; exact hi0
          · intro j
            by_cases hj : j = i
            · simp only [hj, if_true]; intro hc; cases hc
            · simp only [hj, if_false]; exact hu j
    · rename_i hl
      rw [h.cell] at hl; cases hl
  · -- sawNone: impossible
    rename_i hp; rw [hp] at hok; exact hok.elim
  · -- made: impossible
    rename_i l hp; rw [hp] at hok; exact hok.elim
  · -- ref l
    rename_i l hp
    rw [hp] at hok
    have hl : l = l0 := hok
    subst hl
    split
    · exact h
    · rename_i hc
      rcases h.mutex with ⟨hh, hn⟩ | ⟨hh, _, _, _⟩
      · refine ⟨h.cell, ?_, ?_⟩
        · intro j
          by_cases hj : j = i
          · simp only [hj, if_true]; exact rfl
          · simp only [hj, if_false]; exact h.pcs j
        · refine Or.inr ⟨by simp only [hh], i, by simp only [if_true], ?_⟩
          intro j
          by_cases hj : j = i
          · intro _; exact hj
          · simp only [hj, if_false]; intro hcj; exact (hn j hcj).elim
      · exfalso; apply hc; rw [hh]; simp
  · -- crit l
    rename_i l hp
    rw [hp] at hok
    have hl : l = l0 := hok
    subst hl
    rcases h.mutex with ⟨_, hn⟩ | ⟨hh, i0, _, hu⟩
    · exact (hn i hp).elim
    · have hi : i = i0 := hu i hp
      refine ⟨h.cell, ?_, ?_⟩
      · intro j
        by_cases hj : j = i
        · simp only [hj, if_true]; exact trivial
        · simp only [hj, if_false]; exact h.pcs j
      · refine Or.inl ⟨by rw [hh]; simp, ?_⟩
        intro j
        by_cases hj : j = i
        · simp only [hj, if_true]; intro hc; cases hc
        · simp only [hj, if_false]; intro hcj; exact hj ((hu j hcj).trans hi.symm)
  · exact h

theorem exec_inv (l0 : Nat) : ∀ (sched : List Nat) (s : St), Inv l0 s → Inv l0 (exec s sched) := by
  intro sched
  induction sched with
  | nil => intro s h; exact h
  | cons i rest ih => intro s h; exact ih _ (run_inv l0 s i h)

/-- **eager lock = mutual exclusion**: when the lock is created with the object, then under EVERY schedule of any number of
    threads at most one thread is inside the critical section, every thread that is inside holds the one lock `l0`, and no
    second lock object is ever created -/
theorem eager_lock_mutual_exclusion (l0 : Nat) (sched : List Nat) (i j l l' : Nat)
    (hi : (exec (init l0) sched).pcs i = .crit l) (hj : (exec (init l0) sched).pcs j = .crit l') :
    i = j ∧ l = l0 ∧ l' = l0 ∧ (exec (init l0) sched).cell = some l0 := by
  have h := exec_inv l0 sched _ (init_inv l0)
  have oi := h.pcs i
  have oj := h.pcs j
  rw [hi] at oi
  rw [hj] at oj
  have hl : l = l0 := oi
  have hl' : l' = l0 := oj
  subst hl
  subst hl'
  refine ⟨?_, rfl, rfl, h.cell⟩
  rcases h.mutex with ⟨_, hn⟩ | ⟨_, i0, _, hu⟩
  · exact (hn i hi).elim
  · exact (hu i hi).trans (hu j hj).symm

/-- non-vacuity: with the eager lock both threads get through, one after the other -/
example : (exec (init 1) [0, 0, 1, 1, 0, 1, 1]).pcs 0 = .done ∧ (exec (init 1) [0, 0, 1, 1, 0, 1, 1]).pcs 1 = .done ∧
    inCrit (exec (init 1) [0, 0, 1, 1]) 2 = 1 := by decide

/-- **a lazily created lock is not an idempotent cell**: thread 0 finds the cell empty and is preempted before it has stored its
    lock; thread 1 finds it empty too, creates lock 1, stores and acquires it; thread 0 resumes, creates lock 2, overwrites the
    cell and acquires lock 2 without waiting - both threads are inside the critical section, holding DIFFERENT locks
    (compare `Lz.lazy_init_idempotent`: there every racing initialiser writes the same unobservable value) -/
theorem lazy_lock_witness :
    (exec {} [0, 1, 1, 1, 1, 0, 0, 0]).pcs 0 = .crit 2 ∧ (exec {} [0, 1, 1, 1, 1, 0, 0, 0]).pcs 1 = .crit 1 ∧
    (exec {} [0, 1, 1, 1, 1, 0, 0, 0]).held = [2, 1] ∧ inCrit (exec {} [0, 1, 1, 1, 1, 0, 0, 0]) 2 = 2 := by decide

/-- against the eager lock a thread that finds the lock taken waits -/
example : (exec (init 1) [0, 1, 1, 0, 0]).pcs 0 = .ref 1 ∧ (exec (init 1) [0, 1, 1, 0, 0]).pcs 1 = .crit 1 ∧
    inCrit (exec (init 1) [0, 1, 1, 0, 0]) 2 = 1 := by decide

/-- a timed acquire that never times out is the blocking acquire: the schedules of `exec` are the schedules of `execT` without time-outs -/
theorem execT_no_timeout (s : St) (sched : List Nat) : execT s (sched.map fun i => (i, false)) = exec s sched := by
  induction sched generalizing s with
  | nil => rfl
  | cons i rest ih =>
    have h : runT s i false = run s i := by
      unfold runT
      cases s.pcs i <;> simp
    simp [List.map, execT, exec, h, ih]

/-- REGRESSION WITNESS: the EAGER lock gives no mutual exclusion when it is taken by `acquired = lock.acquire(timeout=t)` and the code
    goes on whatever the result: thread 0 reads the lock attribute and acquires lock 1; thread 1 reads it, its timed acquire finds the
    lock taken and the time-out fires - both threads are inside the critical section, ONE lock exists and only thread 0 holds it
    (compare `eager_lock_mutual_exclusion`, which is about `run`: every way the code takes the lock is part of the model) -/
theorem timed_ignored_witness :
    (execT (init 1) [(0, false), (0, false), (1, false), (1, true)]).pcs 0 = .crit 1 ∧
    (execT (init 1) [(0, false), (0, false), (1, false), (1, true)]).pcs 1 = .crit 0 ∧
    (execT (init 1) [(0, false), (0, false), (1, false), (1, true)]).held = [1] ∧
    (execT (init 1) [(0, false), (0, false), (1, false), (1, true)]).nlocks = 1 ∧
    inCrit (execT (init 1) [(0, false), (0, false), (1, false), (1, true)]) 2 = 2 := by decide

#print axioms execT_no_timeout
#print axioms timed_ignored_witness

#print axioms eager_lock_mutual_exclusion
#print axioms lazy_lock_witness
end Ll

/-! C12: request media is parsed at most once — model of `Request.get_media` (falcon/request.py) and
    `asgi.Request.get_media` (falcon/asgi/request.py): the two memo cells `_media` / `_media_error`, the
    handler call, the `finally: exhaust()`; of the JSON handler's wrapper `_deserialize` (falcon/media/json.py);
    and of the response's render cache `_media_rendered` (falcon/response.py `media` setter + `render_body`).

    The handler is a parameter: `h : Des α` is what `handler.deserialize(stream, …)` does when run on the
    request body (its result or the error class it raises). -/
namespace Mc

inductive Err where
  | notFound          -- errors.MediaNotFoundError
  | malformed         -- errors.MediaMalformedError
  | other (k : Nat)   -- anything else the handler raises
  deriving Repr, DecidableEq

inductive Des (α : Type) where
  | ok (v : α) | err (e : Err)
  deriving Repr

structure St (α : Type) where
  media : Option α := none          -- `_media` (none = _UNSET)
  mediaErr : Option Err := none     -- `_media_error`
  desCalls : Nat := 0               -- times the handler ran
  streamOps : Nat := 0              -- times the body stream was touched (read by the handler / exhaust())
  deriving Repr

inductive Out (α : Type) where
  | value (v : α) | dflt | raise (e : Err)
  deriving Repr

/-- `req.get_media(default_when_empty=…)`; `dflt = true` iff a default was passed -/
def getMedia {α : Type} (h : Des α) (exhaust : Bool) (s : St α) (dflt : Bool) : Out α × St α :=
  match s.media with
  | some v => (.value v, s)
  | none =>
    match s.mediaErr with
    | some e => if dflt && e == .notFound then (.dflt, s) else (.raise e, s)
    | none =>
      let s1 := { s with desCalls := s.desCalls + 1, streamOps := s.streamOps + 1 + (if exhaust then 1 else 0) }
      match h with
      | .ok v => (.value v, { s1 with media := some v })
      | .err e =>
        let s2 := { s1 with mediaErr := some e }
        if dflt && e == .notFound then (.dflt, s2) else (.raise e, s2)

def runCalls {α : Type} (h : Des α) (exhaust : Bool) : St α → List Bool → List (Out α) × St α
  | s, [] => ([], s)
  | s, d :: ds =>
    let (o, s1) := getMedia h exhaust s d
    let (os, s2) := runCalls h exhaust s1 ds
    (o :: os, s2)

/-- what the statement says every call must answer, as a function of the handler's outcome only -/
def specOut {α : Type} (h : Des α) (dflt : Bool) : Out α :=
  match h with
  | .ok v => .value v
  | .err e => if dflt && e == .notFound then .dflt else .raise e

/-! ### JSON handler wrapper (`JSONHandler._deserialize`) -/
inductive Loads (α : Type) where
  | ok (v : α) | valueError | recursionError | otherError (k : Nat)

def jsonDeserialize {α : Type} (body : List UInt8) (loads : Loads α) : Des α :=
  if body.isEmpty then .err .notFound
  else match loads with
    | .ok v => .ok v
    | .valueError => .err .malformed
    | .recursionError => .err .malformed
    | .otherError k => .err (.other k)

/-! ### response render cache -/
structure Resp (β : Type) where
  media : Option β := none
  rendered : Option (List UInt8) := none     -- `_media_rendered` (none = _UNSET)
  serCalls : Nat := 0

def setMedia {β : Type} (r : Resp β) (m : Option β) : Resp β := { r with media := m, rendered := none }

/-- the media branch of `render_body()` (text and data unset) -/
def renderBody {β : Type} (ser : β → List UInt8) (r : Resp β) : Option (List UInt8) × Resp β :=
  match r.media with
  | none => (none, r)
  | some m =>
    match r.rendered with
    | some d => (some d, r)
    | none => (some (ser m), { r with rendered := some (ser m), serCalls := r.serCalls + 1 })

end Mc

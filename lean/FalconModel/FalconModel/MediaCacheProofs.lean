import FalconModel.MediaCache
/-! C12 proofs: the caching contract of `get_media`, for every handler outcome and every sequence of calls. -/
namespace Mc

variable {α : Type}

/-- states reachable from a fresh request: nothing cached and the handler never ran, or exactly the handler's outcome is cached and it ran once -/
def Inv (h : Des α) (s : St α) : Prop :=
  (s.media = none ∧ s.mediaErr = none ∧ s.desCalls = 0) ∨
  (s.desCalls = 1 ∧ ((∃ v, h = .ok v ∧ s.media = some v ∧ s.mediaErr = none) ∨ (∃ e, h = .err e ∧ s.media = none ∧ s.mediaErr = some e)))

theorem inv_init (h : Des α) : Inv h ({} : St α) := Or.inl ⟨rfl, rfl, rfl⟩

/-- one call: answers what the specification says, re-establishes the invariant, and the default is never cached -/
theorem getMedia_spec (h : Des α) (ex : Bool) (s : St α) (d : Bool) (hi : Inv h s) :
    (getMedia h ex s d).1 = specOut h d ∧ Inv h (getMedia h ex s d).2 := by
  cases hi with
  | inl h0 =>
    obtain ⟨hm, he, hc⟩ := h0
    unfold getMedia specOut
    rw [hm, he]
    cases h with
    | ok v => exact ⟨rfl, Or.inr ⟨by simp [hc], Or.inl ⟨v, rfl, rfl, by simp [he]⟩⟩⟩
    | err e =>
      refine ⟨?_, ?_⟩
      · simp only; split <;> rfl
      · simp only
        split <;> exact Or.inr ⟨by simp [hc], Or.inr ⟨e, rfl, by simp [hm], rfl⟩⟩
  | inr h1 =>
    obtain ⟨hc, hcase⟩ := h1
    cases hcase with
    | inl hv =>
      obtain ⟨v, hh, hm, he⟩ := hv
      unfold getMedia specOut
      rw [hm, hh]
      exact ⟨rfl, Or.inr ⟨hc, Or.inl ⟨v, rfl, hm, he⟩⟩⟩
    | inr hev =>
      obtain ⟨e, hh, hm, he⟩ := hev
      unfold getMedia specOut
      rw [hm, he, hh]
      refine ⟨?_, ?_⟩
      · simp only; split <;> rfl
      · simp only
        split <;> exact Or.inr ⟨hc, Or.inr ⟨e, rfl, hm, he⟩⟩

/-- after the first call nothing touches the handler or the stream again -/
theorem getMedia_cached_untouched (h : Des α) (ex : Bool) (s : St α) (d : Bool) (hc : s.desCalls = 1) (hi : Inv h s) :
    (getMedia h ex s d).2 = s := by
  cases hi with
  | inl h0 => omega
  | inr h1 =>
    obtain ⟨_, hcase⟩ := h1
    cases hcase with
    | inl hv => obtain ⟨v, _, hm, _⟩ := hv; unfold getMedia; rw [hm]
    | inr hev =>
      obtain ⟨e, _, hm, he⟩ := hev
      unfold getMedia; rw [hm, he]; simp only; split <;> rfl

theorem inv_calls_le_one (h : Des α) (s : St α) (hi : Inv h s) : s.desCalls ≤ 1 := by
  cases hi with
  | inl h0 => omega
  | inr h1 => omega

/-- **every sequence of calls**: each call answers `specOut` (the same object / the same error; the caller's default only
    for media-not-found and only for that call), and the invariant still holds -/
theorem runCalls_spec (h : Des α) (ex : Bool) : ∀ (ds : List Bool) (s : St α), Inv h s →
    (runCalls h ex s ds).1 = ds.map (specOut h) ∧ Inv h (runCalls h ex s ds).2
  | [], s, hi => ⟨rfl, hi⟩
  | d :: ds, s, hi => by
    have h1 := getMedia_spec h ex s d hi
    have h2 := runCalls_spec h ex ds (getMedia h ex s d).2 h1.2
    simp only [runCalls, List.map_cons]
    exact ⟨by rw [h1.1, h2.1], h2.2⟩

/-- the handler's deserialize runs at most once over any call sequence on a fresh request -/
theorem deserialize_at_most_once (h : Des α) (ex : Bool) (ds : List Bool) :
    (runCalls h ex ({} : St α) ds).2.desCalls ≤ 1 :=
  inv_calls_le_one h _ (runCalls_spec h ex ds _ (inv_init h)).2

/-- … exactly once if there is at least one call -/
theorem deserialize_exactly_once (h : Des α) (ex : Bool) (d : Bool) (ds : List Bool) :
    (runCalls h ex ({} : St α) (d :: ds)).2.desCalls = 1 := by
  have hi := (runCalls_spec h ex (d :: ds) _ (inv_init h)).2
  cases hi with
  | inl h0 =>
    exfalso
    -- the first call always runs the handler, and the count never decreases to 0 again
    have h1 := (getMedia_spec h ex ({} : St α) d (inv_init h)).2
    have hc1 : (getMedia h ex ({} : St α) d).2.desCalls = 1 := by
      unfold getMedia; simp only; cases h <;> simp <;> split <;> rfl
    have : ∀ (ds : List Bool) (s : St α), Inv h s → s.desCalls = 1 → (runCalls h ex s ds).2 = s := by
      intro ds
      induction ds with
      | nil => intro s _ _; rfl
      | cons x xs ih =>
        intro s hi hc
        have hs := getMedia_cached_untouched h ex s x hc hi
        simp only [runCalls, hs]; exact ih s hi hc
    have hfin := this ds _ h1 hc1
    simp only [runCalls] at h0
    rw [hfin] at h0
    omega
  | inr h1 => exact h1.1

/-- the stream is not touched after the first call -/
theorem stream_untouched_after_first_call (h : Des α) (ex : Bool) (d : Bool) (ds : List Bool) :
    (runCalls h ex ({} : St α) (d :: ds)).2.streamOps = (getMedia h ex ({} : St α) d).2.streamOps := by
  have h1 := (getMedia_spec h ex ({} : St α) d (inv_init h)).2
  have hc1 : (getMedia h ex ({} : St α) d).2.desCalls = 1 := by
    unfold getMedia; simp only; cases h <;> simp <;> split <;> rfl
  have : ∀ (ds : List Bool) (s : St α), Inv h s → s.desCalls = 1 → (runCalls h ex s ds).2 = s := by
    intro ds
    induction ds with
    | nil => intro s _ _; rfl
    | cons x xs ih =>
      intro s hi hc
      have hs := getMedia_cached_untouched h ex s x hc hi
      simp only [runCalls, hs]; exact ih s hi hc
  simp only [runCalls]
  rw [this ds _ h1 hc1]

/-! ### JSON handler wrapper -/
theorem empty_body_json_is_not_found (loads : Loads α) : jsonDeserialize [] loads = .err .notFound := rfl

/-- an undecodable non-empty body is the 400-class malformed-media error (for `ValueError` and — the F10 repair — `RecursionError`) -/
theorem undecodable_is_malformed (body : List UInt8) (hb : body ≠ []) :
    jsonDeserialize (α := α) body .valueError = .err .malformed ∧ jsonDeserialize (α := α) body .recursionError = .err .malformed := by
  cases body with
  | nil => exact absurd rfl hb
  | cons b r => exact ⟨rfl, rfl⟩

/-- the caller's default is returned only for media-not-found -/
theorem default_only_for_not_found (h : Des α) : specOut h true = .dflt ↔ h = .err .notFound := by
  cases h with
  | ok v => simp [specOut]
  | err e => cases e <;> simp [specOut]

/-! ### response render cache -/
variable {β : Type}

/-- rendering twice serializes once and returns the same bytes; re-assigning media resets the cache -/
theorem render_once_until_reassigned (ser : β → List UInt8) (r : Resp β) (m : β) :
    let r1 := setMedia r (some m)
    let (d1, r2) := renderBody ser r1
    let (d2, r3) := renderBody ser r2
    d1 = some (ser m) ∧ d2 = some (ser m) ∧ r3.serCalls = r.serCalls + 1 ∧ (setMedia r3 (some m)).rendered = none := by
  simp [setMedia, renderBody]

end Mc

/-! C11 (first half): `falcon/util/mediatypes.py` — `parse_header` (both paths), `_MediaType.parse`, `_MediaRange.parse`,
    `match_score`, `quality`, `best_match`, transcribed over `List Char`.

    Restrictions of the model (inputs outside them answer `Err.unsupported`, never a wrong value):
    * ASCII only (`str.strip` / `str.lower` are modelled for ASCII);
    * the q value is modelled as an exact decimal in units of 1/10000: `[+-]? digits [. digits{0,4}] | [+-]? . digits{1,4}`;
      syntactically valid floats with an exponent, underscores or more than four fractional digits are `unsupported`
      (Python's `float()` of every other ASCII string either raises ValueError or is inf/nan, which the range check rejects). -/
namespace Mt

abbrev Str := List Char

/-- the ASCII characters `str.strip()` removes -/
def isWs (c : Char) : Bool :=
  c == ' ' || c == '\t' || c == '\n' || c == '\r' || c == '\x0b' || c == '\x0c' ||
  c == '\x1c' || c == '\x1d' || c == '\x1e' || c == '\x1f'

def strip (s : Str) : Str := ((s.dropWhile isWs).reverse.dropWhile isWs).reverse

def lowerC (c : Char) : Char := if 65 ≤ c.toNat ∧ c.toNat ≤ 90 then Char.ofNat (c.toNat + 32) else c
def lower (s : Str) : Str := s.map lowerC

/-- `s.split(sep)` for a one-character separator: always at least one element -/
def splitOn (sep : Char) : Str → List Str
  | [] => [[]]
  | c :: cs =>
    if c == sep then [] :: splitOn sep cs
    else match splitOn sep cs with
      | h :: t => (c :: h) :: t
      | [] => [[c]]

/-- `s.partition(sep)` = (before, separator found?, after) -/
def partition (sep : Char) (s : Str) : Str × Bool × Str :=
  match s.span (· != sep) with
  | (a, []) => (a, false, [])
  | (a, _ :: b) => (a, true, b)

abbrev Params := List (Str × Str)

/-- `pdict[name] = value` -/
def pset (p : Params) (k v : Str) : Params :=
  if p.any (·.1 == k) then p.map (fun kv => if kv.1 == k then (k, v) else kv) else p ++ [(k, v)]

def pget (p : Params) (k : Str) : Option Str := (p.find? (·.1 == k)).map (·.2)
def pdel (p : Params) (k : Str) : Params := p.filter (·.1 != k)

/-! ### `parse_header`, fast path (no `"` and no `\` in the line) -/

def parseHeaderFast (line : Str) : Str × Params :=
  let (key, semi, parts) := partition ';' line
  if !semi then (strip key, [])
  else
    let pd := (splitOn ';' parts).foldl (fun pd part =>
      let (name, eq, value) := partition '=' part
      if eq then pset pd (lower (strip name)) (strip value) else pd) []
    (strip key, pd)

/-! ### `_parse_header_old_stdlib` (taken when the line contains `"` or `\`) -/

/-- `s.count('"', 0, end)` on the already cut prefix -/
def countQuote (s : Str) : Nat := (s.filter (· == '"')).length

/-- `s.count('\\"', 0, end)`: non-overlapping occurrences of backslash-quote -/
def countEscQuote : Str → Nat
  | '\\' :: '"' :: rest => countEscQuote rest + 1
  | _ :: rest => countEscQuote rest
  | [] => 0

/-- index of the first `;` at position ≥ `from`, if any (`s.find(';', from)`) -/
def findSemiFrom (s : Str) (start : Nat) : Option Nat :=
  match (s.drop start).findIdx? (· == ';') with
  | some i => some (start + i)
  | none => none

/-- the inner `while end > 0 and (count('"') - count('\\"')) % 2: end = s.find(';', end + 1)`; `none` = -1 -/
def quoteAwareEnd (s : Str) : Nat → Option Nat → Option Nat
  | _, none => none
  | 0, e => e
  | fuel + 1, some e =>
    if e > 0 ∧ (Int.ofNat (countQuote (s.take e)) - Int.ofNat (countEscQuote (s.take e))) % 2 != 0 then
      quoteAwareEnd s fuel (findSemiFrom s (e + 1))
    else some e

/-- `_parse_param_old_stdlib(s)`: the list of stripped fields -/
def parseParamOld : Nat → Str → List Str
  | 0, _ => []
  | fuel + 1, s =>
    match s with
    | ';' :: s1 =>
      let e := match quoteAwareEnd s1 (s1.length + 1) (findSemiFrom s1 0) with
        | some e => e
        | none => s1.length
      strip (s1.take e) :: parseParamOld fuel (s1.drop e)
    | _ => []

/-- `value.replace(a b, c)` for a two-character pattern, left to right, non-overlapping -/
def replace2 (a b c : Char) : Str → Str
  | x :: y :: rest => if x == a && y == b then c :: replace2 a b c rest else x :: replace2 a b c (y :: rest)
  | l => l

def unquote (value : Str) : Str :=
  if value.length ≥ 2 ∧ value.head? = some '"' ∧ value.getLast? = some '"' then
    let v := (value.drop 1).take (value.length - 2)
    replace2 '\\' '"' '"' (replace2 '\\' '\\' '\\' v)
  else value

def parseHeaderOld (line : Str) : Str × Params :=
  match parseParamOld (line.length + 2) (';' :: line) with
  | [] => ([], [])          -- unreachable: the generator always yields the key first
  | key :: parts =>
    let pd := parts.foldl (fun pd p =>
      let (name, eq, value) := partition '=' p
      if eq then pset pd (lower (strip name)) (unquote (strip value)) else pd) []
    (key, pd)

def parseHeader (line : Str) : Str × Params :=
  if line.any (fun c => c == '"' || c == '\\') then parseHeaderOld line else parseHeaderFast line

/-! ### media types and ranges -/

inductive Err where
  | type         -- errors.InvalidMediaType
  | range        -- errors.InvalidMediaRange
  | unsupported  -- outside the modelled fragment
deriving Repr, DecidableEq

structure MediaType where
  main : Str
  sub : Str
  params : Params
deriving Repr

def isAscii (s : Str) : Bool := s.all (fun c => c.toNat < 128)

/-- `_parse_media_type_header` -/
def parseMediaTypeHeader (s : Str) : Except Err MediaType :=
  if !isAscii s then .error .unsupported else
  let (full, params) := parseHeader s
  let full := if full == ['*'] then ['*', '/', '*'] else full
  let (m, sep, sub) := partition '/' full
  -- (after fix a19fe30: type and subtype are lower-cased, RFC 9110 8.3.1)
  if !sep then .error .type else .ok { main := lower (strip m), sub := lower (strip sub), params := params }

structure MediaRange where
  main : Str
  sub : Str
  q : Nat            -- quality in units of 1/10000
  params : Params
deriving Repr

inductive QRes where
  | ok (n : Nat) | invalid | unsupported
deriving Repr, DecidableEq

def isDigit (c : Char) : Bool := 48 ≤ c.toNat && c.toNat ≤ 57
def digitsVal (s : Str) : Nat := s.foldl (fun n c => n * 10 + (c.toNat - 48)) 0

/-- `digit (["_"] digit)*` continued: (digits without underscores, saw an underscore?, rest) -/
def digitRun : Str → Str × Bool × Str
  | c :: r =>
    if isDigit c then
      let (d, u, r') := digitRun r
      (c :: d, u, r')
    else if c == '_' then
      match r with
      | c2 :: _ => if isDigit c2 then (let (d, _, r') := digitRun r; (d, true, r')) else ([], false, c :: r)
      | [] => ([], false, c :: r)
    else ([], false, c :: r)
  | [] => ([], false, [])

/-- a digitpart of Python's float grammar; `none` when the input does not start with a digit -/
def digitPart (s : Str) : Option (Str × Bool × Str) :=
  match s with
  | c :: _ => if isDigit c then some (digitRun s) else none
  | [] => none

/-- `float(value)` followed by the `0 <= q <= 1` / finiteness check, as an exact decimal.
    Python: `[sign] (digitpart ["." [digitpart]] | "." digitpart) [("e"|"E") [sign] digitpart]`, or inf/nan (always out of
    range); everything else raises ValueError. -/
def parseQ (raw : Str) : QRes :=
  let s := strip raw
  let (neg, body) := match s with
    | '-' :: r => (true, r)
    | '+' :: r => (false, r)
    | r => (false, r)
  -- mantissa
  let mant : Option (Str × Str × Bool × Str) :=          -- int digits, frac digits, underscore seen, rest
    match digitPart body with
    | some (ip, u1, rest) =>
      match rest with
      | '.' :: rest2 =>
        match digitPart rest2 with
        | some (fp, u2, rest3) => some (ip, fp, u1 || u2, rest3)
        | none => some (ip, [], u1, rest2)
      | _ => some (ip, [], u1, rest)
    | none =>
      match body with
      | '.' :: rest2 =>
        match digitPart rest2 with
        | some (fp, u2, rest3) => some ([], fp, u2, rest3)
        | none => none
      | _ => none
  match mant with
  | none => .invalid
  | some (ip, fp, us, rest) =>
    -- exponent
    let expo : Option Bool :=                             -- some hasExponent | none = syntax error
      match rest with
      | [] => some false
      | c :: r =>
        if c == 'e' || c == 'E' then
          let r' := match r with
            | '-' :: t => t
            | '+' :: t => t
            | t => t
          match digitPart r' with
          | some (_, _, []) => some true
          | _ => none
        else none
    match expo with
    | none => .invalid
    | some true => .unsupported
    | some false =>
      if us || fp.length > 4 then .unsupported
      else
        let n := digitsVal ip * 10000 + digitsVal (fp ++ List.replicate (4 - fp.length) '0')
        if n > 10000 then .invalid
        else if neg && n != 0 then .invalid
        else .ok n

/-- `_MediaRange.parse` -/
def parseMediaRange (s : Str) : Except Err MediaRange :=
  match parseMediaTypeHeader s with
  | .error .type => .error .range
  | .error e => .error e
  | .ok mt =>
    match pget mt.params ['q'] with
    | none => .ok { main := mt.main, sub := mt.sub, q := 10000, params := mt.params }
    | some qv =>
      match parseQ qv with
      | .ok n => .ok { main := mt.main, sub := mt.sub, q := n, params := pdel mt.params ['q'] }
      | .invalid => .error .range
      | .unsupported => .error .unsupported

/-- the 5-tuple of `match_score`; `none` = `_NOT_MATCHING` (smaller than every matching score) -/
structure Score where
  main : Nat
  sub : Nat
  exact : Nat
  nmatch : Nat
  q : Nat
deriving Repr, DecidableEq

def pnames (p : Params) : List Str := p.map (·.1)

/-- type (or subtype) comparison: `some 0` wildcard on either side, `some 1` equal, `none` different -/
def wildEq (a b : Str) : Option Nat :=
  if a == ['*'] || b == ['*'] then some 0 else if a != b then none else some 1

/-- parameters: `none` when a shared name has different values, else (exact-match flag, number of shared names) -/
def paramScore (rp tp : Params) : Option (Nat × Nat) :=
  let rn := pnames rp
  let tn := pnames tp
  let exact := if rn.all (tn.contains ·) && tn.all (rn.contains ·) then 1 else 0   -- `mr_pnames ^ mt_pnames` is empty
  let common := rn.filter (tn.contains ·)                                             -- `mr_pnames & mt_pnames`
  if common.any (fun n => pget rp n != pget tp n) then none else some (exact, common.length)

def matchScore (r : MediaRange) (t : MediaType) : Option Score :=
  match wildEq r.main t.main, wildEq r.sub t.sub, paramScore r.params t.params with
  | some a, some b, some (e, n) => some { main := a, sub := b, exact := e, nmatch := n, q := r.q }
  | _, _, _ => none

/-- tuple comparison `a < b` -/
def Score.lt (a b : Score) : Bool :=
  a.main < b.main || (a.main == b.main && (a.sub < b.sub || (a.sub == b.sub && (a.exact < b.exact ||
    (a.exact == b.exact && (a.nmatch < b.nmatch || (a.nmatch == b.nmatch && a.q < b.q)))))))

/-- `a < b` on `Option Score` with `none` (= (-1,-1,-1,-1,0.0)) below everything -/
def optLt : Option Score → Option Score → Bool
  | none, some _ => true
  | some a, some b => a.lt b
  | _, none => false

/-- `max(...)`: the first maximal element -/
def maxScore : List (Option Score) → Option Score
  | [] => none
  | x :: rest => rest.foldl (fun best y => if optLt best y then y else best) x

def scoreQ : Option Score → Nat
  | some s => s.q
  | none => 0

def mapM' {α β} (f : α → Except Err β) : List α → Except Err (List β)
  | [] => .ok []
  | a :: as => match f a with
    | .error e => .error e
    | .ok b => match mapM' f as with
      | .error e => .error e
      | .ok bs => .ok (b :: bs)

/-- `_parse_media_ranges(header)` -/
def parseMediaRanges (header : Str) : Except Err (List MediaRange) := mapM' parseMediaRange (splitOn ',' header)

/-- `quality(media_type, header)` in units of 1/10000 -/
def quality (mediaType header : Str) : Except Err Nat :=
  match parseMediaTypeHeader mediaType with
  | .error e => .error e
  | .ok t =>
    match parseMediaRanges header with
    | .error e => .error e
    | .ok rs => .ok (scoreQ (maxScore (rs.map (matchScore · t))))

/-- the generator expression + `max(key=quality)`: first candidate with the maximal quality; the first error aborts -/
def bestLoop (header : Str) : List Str → Option (Str × Nat) → Except Err (Option (Str × Nat))
  | [], acc => .ok acc
  | c :: cs, acc =>
    match quality c header with
    | .error e => .error e
    | .ok q =>
      match acc with
      | none => bestLoop header cs (some (c, q))
      | some (bc, bq) => bestLoop header cs (if bq < q then some (c, q) else some (bc, bq))

/-- `best_match(media_types, header)`; `[]` is the empty string -/
def bestMatch (cands : List Str) (header : Str) : Except Err Str :=
  match bestLoop header cands none with
  | .error e => .error e
  | .ok none => .ok []               -- max() of an empty sequence: ValueError swallowed
  | .ok (some (c, q)) => .ok (if q > 0 then c else [])

end Mt

import FalconModel.MediaType
/-! C11 (first half), theorems about the transcription of `falcon.util.mediatypes`:
    `quality` is the q of a lexicographically maximal match, `best_match` is the first candidate of maximal quality and
    never one of quality 0, malformed input only produces the two value errors. -/
namespace Mt

/-! ### the order on scores -/

theorem Score.lt_irrefl (a : Score) : a.lt a = false := by
  simp [Score.lt]

theorem Score.lt_trans {a b c : Score} (h1 : a.lt b = true) (h2 : b.lt c = true) : a.lt c = true := by
  simp only [Score.lt, Bool.or_eq_true, Bool.and_eq_true, decide_eq_true_eq, beq_iff_eq] at *
  omega

/-- `¬ <` is transitive (the order is total) -/
theorem Score.nlt_trans {a b c : Score} (h1 : a.lt b = false) (h2 : b.lt c = false) : a.lt c = false := by
  cases h : a.lt c with
  | false => rfl
  | true =>
    exfalso
    have e1 : ¬ (a.lt b = true) := by simp [h1]
    have e2 : ¬ (b.lt c = true) := by simp [h2]
    simp only [Score.lt, Bool.or_eq_true, Bool.and_eq_true, decide_eq_true_eq, beq_iff_eq] at *
    omega

theorem optLt_irrefl (a : Option Score) : optLt a a = false := by
  cases a with
  | none => rfl
  | some s => simp [optLt, Score.lt_irrefl]

theorem optLt_trans {a b c : Option Score} (h1 : optLt a b = true) (h2 : optLt b c = true) : optLt a c = true := by
  cases a <;> cases b <;> cases c <;> simp [optLt] at * <;> exact Score.lt_trans h1 h2

theorem optNlt_trans {a b c : Option Score} (h1 : optLt a b = false) (h2 : optLt b c = false) : optLt a c = false := by
  cases a <;> cases b <;> cases c <;> simp [optLt] at * <;> exact Score.nlt_trans h1 h2

/-! ### `max` -/

def foldMax (best : Option Score) (l : List (Option Score)) : Option Score :=
  l.foldl (fun best y => if optLt best y then y else best) best

theorem foldMax_ge_init : ∀ (l : List (Option Score)) (b : Option Score), optLt (foldMax b l) b = false := by
  intro l
  induction l with
  | nil => intro b; simp [foldMax, optLt_irrefl]
  | cons y rest ih =>
    intro b
    simp only [foldMax, List.foldl_cons]
    by_cases h : optLt b y = true
    · simp only [h, if_true]
      have h1 := ih y
      simp only [foldMax] at h1
      -- foldMax y rest ≥ y > b
      cases hc : optLt (List.foldl (fun best y => if optLt best y = true then y else best) y rest) b with
      | false => rfl
      | true =>
        have := optLt_trans hc h
        rw [h1] at this; exact absurd this (by simp)
    · simp only [h]
      exact ih b

theorem foldMax_ge_mem : ∀ (l : List (Option Score)) (b x : Option Score), x ∈ l → optLt (foldMax b l) x = false := by
  intro l
  induction l with
  | nil => intro b x hx; cases hx
  | cons y rest ih =>
    intro b x hx
    simp only [foldMax, List.foldl_cons]
    rcases List.mem_cons.mp hx with rfl | hx
    · by_cases h : optLt b x = true
      · simp only [h, if_true]; exact foldMax_ge_init rest x
      · simp only [h]
        have hb : optLt b x = false := by simpa using h
        exact optNlt_trans (foldMax_ge_init rest b) hb
    · by_cases h : optLt b y = true
      · simp only [h, if_true]; exact ih y x hx
      · simp only [h]; exact ih b x hx

theorem foldMax_mem : ∀ (l : List (Option Score)) (b : Option Score), foldMax b l = b ∨ foldMax b l ∈ l := by
  intro l
  induction l with
  | nil => intro b; left; rfl
  | cons y rest ih =>
    intro b
    simp only [foldMax, List.foldl_cons]
    by_cases h : optLt b y = true
    · simp only [h, if_true]
      rcases ih y with h1 | h1
      · right; simp only [foldMax] at h1; rw [h1]; exact List.mem_cons_self
      · right; exact List.mem_cons_of_mem _ h1
    · simp only [h]
      rcases ih b with h1 | h1
      · left; exact h1
      · right; exact List.mem_cons_of_mem _ h1

/-- `max(scores)` is not below any element -/
theorem maxScore_ge (l : List (Option Score)) (x : Option Score) (hx : x ∈ l) : optLt (maxScore l) x = false := by
  cases l with
  | nil => cases hx
  | cons y rest =>
    simp only [maxScore]
    rcases List.mem_cons.mp hx with rfl | hx
    · exact foldMax_ge_init rest x
    · exact foldMax_ge_mem rest y x hx

/-- `max(scores)` is one of the elements -/
theorem maxScore_mem (l : List (Option Score)) (hne : l ≠ []) : maxScore l ∈ l := by
  cases l with
  | nil => exact absurd rfl hne
  | cons y rest =>
    simp only [maxScore]
    rcases foldMax_mem rest y with h | h
    · simp only [foldMax] at h; rw [h]; exact List.mem_cons_self
    · exact List.mem_cons_of_mem _ h

/-! ### `quality` -/

theorem matchScore_q {r : MediaRange} {t : MediaType} {sc : Score} (h : matchScore r t = some sc) : sc.q = r.q := by
  unfold matchScore at h
  split at h
  · cases h; rfl
  · cases h

theorem quality_ok_iff {mt hdr : Str} {q : Nat} (h : quality mt hdr = .ok q) :
    ∃ t rs, parseMediaTypeHeader mt = .ok t ∧ parseMediaRanges hdr = .ok rs ∧
      q = scoreQ (maxScore (rs.map (matchScore · t))) := by
  unfold quality at h
  split at h
  · cases h
  · rename_i t ht
    split at h
    · cases h
    · rename_i rs hrs
      cases h
      exact ⟨t, rs, ht, hrs, rfl⟩

/-- **the documented order**: when `quality` returns `q`, either no media range of the header matches and `q = 0`, or `q`
    is the q of a matching range whose `(type, subtype, exact-params, #matching-params, q)` tuple no other range's
    tuple exceeds lexicographically -/
theorem quality_is_q_of_most_specific (mt hdr : Str) (q : Nat) (h : quality mt hdr = .ok q) :
    ∃ t rs, parseMediaTypeHeader mt = .ok t ∧ parseMediaRanges hdr = .ok rs ∧
      (((∀ r ∈ rs, matchScore r t = none) ∧ q = 0) ∨
       (∃ r ∈ rs, ∃ sc, matchScore r t = some sc ∧ r.q = q ∧
          ∀ r' ∈ rs, ∀ sc', matchScore r' t = some sc' → sc.lt sc' = false)) := by
  obtain ⟨t, rs, ht, hrs, hq⟩ := quality_ok_iff h
  refine ⟨t, rs, ht, hrs, ?_⟩
  cases hm : maxScore (rs.map (matchScore · t)) with
  | none =>
    left
    refine ⟨fun r hr => ?_, by rw [hq, hm]; rfl⟩
    have hge := maxScore_ge (rs.map (matchScore · t)) (matchScore r t) (List.mem_map_of_mem hr)
    rw [hm] at hge
    cases hs : matchScore r t with
    | none => rfl
    | some s => rw [hs] at hge; simp [optLt] at hge
  | some sc =>
    right
    have hne : rs.map (matchScore · t) ≠ [] := by
      intro he; rw [he] at hm; simp [maxScore] at hm
    have hmem := maxScore_mem _ hne
    rw [hm] at hmem
    obtain ⟨r, hr, hrs'⟩ := List.mem_map.mp hmem
    refine ⟨r, hr, sc, hrs', ?_, fun r' hr' sc' hs' => ?_⟩
    · rw [hq, hm]; simp only [scoreQ]; exact (matchScore_q hrs').symm
    · have hge := maxScore_ge (rs.map (matchScore · t)) (matchScore r' t) (List.mem_map_of_mem hr')
      rw [hm, hs'] at hge
      simpa [optLt] using hge

/-- no matching range: quality 0 -/
theorem no_matching_range_quality_zero (mt hdr : Str) (t : MediaType) (rs : List MediaRange)
    (ht : parseMediaTypeHeader mt = .ok t) (hrs : parseMediaRanges hdr = .ok rs)
    (hno : ∀ r ∈ rs, matchScore r t = none) : quality mt hdr = .ok 0 := by
  unfold quality
  rw [ht, hrs]
  simp only
  cases hm : maxScore (rs.map (matchScore · t)) with
  | none => rfl
  | some sc =>
    exfalso
    have hne : rs.map (matchScore · t) ≠ [] := by
      intro he; rw [he] at hm; simp [maxScore] at hm
    have hmem := maxScore_mem _ hne
    rw [hm] at hmem
    obtain ⟨r, hr, hrs'⟩ := List.mem_map.mp hmem
    rw [hno r hr] at hrs'; cases hrs'

/-! ### `best_match` -/

/-- what the accumulator of the `max(key=quality)` loop means for the candidates seen so far -/
def AccOk (hdr : Str) (seen : List Str) : Option (Str × Nat) → Prop
  | none => seen = []
  | some (b, bq) =>
    ∃ pre post, seen = pre ++ b :: post ∧ quality b hdr = .ok bq ∧
      (∀ c ∈ pre, ∃ qc, quality c hdr = .ok qc ∧ qc < bq) ∧ (∀ c ∈ post, ∃ qc, quality c hdr = .ok qc ∧ qc ≤ bq)

theorem bestLoop_spec (hdr : Str) : ∀ (cs seen : List Str) (acc res : Option (Str × Nat)),
    AccOk hdr seen acc → bestLoop hdr cs acc = .ok res → AccOk hdr (seen ++ cs) res := by
  intro cs
  induction cs with
  | nil =>
    intro seen acc res hacc h
    simp only [bestLoop] at h; cases h
    simpa using hacc
  | cons c rest ih =>
    intro seen acc res hacc h
    simp only [bestLoop] at h
    split at h
    · cases h
    · rename_i q hq
      have hassoc : seen ++ c :: rest = (seen ++ [c]) ++ rest := by simp
      rw [hassoc]
      split at h
      · -- first candidate
        rename_i hnone
        refine ih (seen ++ [c]) _ res ?_ h
        simp only [AccOk] at hacc
        subst hacc
        exact ⟨[], [], by simp, hq, by simp, by simp⟩
      · rename_i bc bq
        obtain ⟨pre, post, hseen, hb, hpre, hpost⟩ := hacc
        refine ih (seen ++ [c]) _ res ?_ h
        by_cases hlt : bq < q
        · simp only [hlt, if_true]
          refine ⟨seen, [], by simp, hq, ?_, by simp⟩
          intro x hx
          rw [hseen] at hx
          rcases List.mem_append.mp hx with hx | hx
          · obtain ⟨qc, h1, h2⟩ := hpre x hx; exact ⟨qc, h1, by omega⟩
          · rcases List.mem_cons.mp hx with rfl | hx
            · exact ⟨bq, hb, hlt⟩
            · obtain ⟨qc, h1, h2⟩ := hpost x hx; exact ⟨qc, h1, by omega⟩
        · simp only [hlt, if_false]
          refine ⟨pre, post ++ [c], by simp [hseen], hb, hpre, ?_⟩
          intro x hx
          rcases List.mem_append.mp hx with hx | hx
          · exact hpost x hx
          · have : x = c := by simpa using hx
            subst this; exact ⟨q, hq, by omega⟩

/-- a chosen candidate is one of the candidates and its quality is > 0 (never q=0, never unmatched) -/
theorem bestMatch_never_q0_or_unmatched (cands : List Str) (hdr m : Str)
    (h : bestMatch cands hdr = .ok m) (hne : m ≠ []) : m ∈ cands ∧ ∃ q, quality m hdr = .ok q ∧ q > 0 := by
  unfold bestMatch at h
  split at h
  · cases h
  · cases h; exact absurd rfl hne
  · rename_i c q hloop
    have hspec := bestLoop_spec hdr cands [] none (some (c, q)) rfl hloop
    simp only [List.nil_append, AccOk] at hspec
    obtain ⟨pre, post, hc, hq, _, _⟩ := hspec
    by_cases hpos : q > 0
    · simp only [hpos, if_true] at h
      cases h
      exact ⟨by rw [hc]; simp, q, hq, hpos⟩
    · simp only [hpos, if_false] at h
      cases h; exact absurd rfl hne

/-- the chosen candidate is the FIRST one of maximal quality; an empty answer means every candidate has quality 0 -/
theorem bestMatch_is_first_max (cands : List Str) (hdr m : Str) (h : bestMatch cands hdr = .ok m) :
    (m ≠ [] → ∃ pre post q, cands = pre ++ m :: post ∧ quality m hdr = .ok q ∧
        (∀ c ∈ pre, ∃ qc, quality c hdr = .ok qc ∧ qc < q) ∧ (∀ c ∈ post, ∃ qc, quality c hdr = .ok qc ∧ qc ≤ q)) ∧
    (m = [] → ∀ c ∈ cands, quality c hdr = .ok 0) := by
  unfold bestMatch at h
  split at h
  · cases h
  · rename_i hloop
    cases h
    have hspec := bestLoop_spec hdr cands [] none none rfl hloop
    simp only [List.nil_append, AccOk] at hspec
    subst hspec
    exact ⟨fun hne => absurd rfl hne, fun _ c hc => by cases hc⟩
  · rename_i c q hloop
    have hspec := bestLoop_spec hdr cands [] none (some (c, q)) rfl hloop
    simp only [List.nil_append, AccOk] at hspec
    obtain ⟨pre, post, hc, hq, hpre, hpost⟩ := hspec
    by_cases hpos : q > 0
    · simp only [hpos, if_true] at h
      cases h
      refine ⟨fun _ => ⟨pre, post, q, hc, hq, hpre, hpost⟩, fun he => ?_⟩
      -- the chosen candidate is the empty string: impossible, its quality would be an error
      subst he
      exfalso
      have h0 : parseMediaTypeHeader [] = .error .type := by rfl
      have : quality [] hdr = .error .type := by
        unfold quality; rw [h0]
      rw [this] at hq; cases hq
    · simp only [hpos, if_false] at h
      cases h
      refine ⟨fun hne => absurd rfl hne, fun _ x hx => ?_⟩
      have hq0 : q = 0 := by omega
      subst hq0
      rw [hc] at hx
      rcases List.mem_append.mp hx with hx | hx
      · obtain ⟨qc, _, h2⟩ := hpre x hx; omega
      · rcases List.mem_cons.mp hx with rfl | hx
        · exact hq
        · obtain ⟨qc, h1, h2⟩ := hpost x hx
          have : qc = 0 := by omega
          subst this; exact h1

/-! ### malformed input -/

theorem mapM'_error {α β} (f : α → Except Err β) : ∀ (l : List α) (e : Err), mapM' f l = .error e → ∃ a ∈ l, f a = .error e := by
  intro l
  induction l with
  | nil => intro e h; cases h
  | cons a rest ih =>
    intro e h
    simp only [mapM'] at h
    split at h
    · rename_i e' he; cases h; exact ⟨a, List.mem_cons_self, he⟩
    · split at h
      · rename_i e' he
        cases h
        obtain ⟨x, hx, hfx⟩ := ih e he
        exact ⟨x, List.mem_cons_of_mem _ hx, hfx⟩
      · cases h

/-- the model is total by construction (`Except Err Nat`): a value, InvalidMediaType, InvalidMediaRange, or "outside the
    fragment".  Moreover InvalidMediaType is raised only when the media type itself does not parse, and InvalidMediaRange
    only when some member of the comma-separated header does not parse as a media range. -/
theorem malformed_only_value_errors (mt hdr : Str) (e : Err) (h : quality mt hdr = .error e) :
    parseMediaTypeHeader mt = .error e ∨
    ∃ member ∈ splitOn ',' hdr, parseMediaRange member = .error e := by
  unfold quality at h
  split at h
  · rename_i e' he; cases h; left; exact he
  · split at h
    · rename_i e' he
      cases h
      right
      exact mapM'_error parseMediaRange _ e he
    · cases h

/-! ### case-insensitive type / subtype (fix a19fe30) -/

theorem lowerC_idem (c : Char) : lowerC (lowerC c) = lowerC c := by
  unfold lowerC
  by_cases h : 65 ≤ c.toNat ∧ c.toNat ≤ 90
  · have hv : (c.toNat + 32).isValidChar := by
      simp only [Nat.isValidChar]; omega
    have hn : (Char.ofNat (c.toNat + 32)).toNat = c.toNat + 32 := by
      unfold Char.ofNat; rw [dif_pos hv]; rfl
    simp only [if_pos h, hn]
    have : ¬ (65 ≤ c.toNat + 32 ∧ c.toNat + 32 ≤ 90) := by omega
    rw [if_neg this]
  · simp only [if_neg h]

theorem lower_idem (s : Str) : lower (lower s) = lower s := by
  unfold lower
  rw [List.map_map]
  apply List.map_congr_left
  intro c _
  exact lowerC_idem c

/-- Fix a19fe30: the type and subtype of every parsed media type are in lower case - two spellings that differ only in the
    case of ASCII letters of the type / subtype parse to the same type and subtype, so matching cannot tell them apart. -/
theorem parsed_type_is_lower (s : Str) (m : MediaType) (h : parseMediaTypeHeader s = .ok m) :
    lower m.main = m.main ∧ lower m.sub = m.sub := by
  unfold parseMediaTypeHeader at h
  split at h
  · cases h
  · generalize parseHeader s = ph at h
    obtain ⟨full, params⟩ := ph
    simp only at h
    generalize partition '/' (if (full == ['*']) = true then ['*', '/', '*'] else full) = pt at h
    obtain ⟨mm, sep, sub⟩ := pt
    simp only at h
    split at h
    · cases h
    · injection h with h; subst h; exact ⟨lower_idem _, lower_idem _⟩


#print axioms quality_is_q_of_most_specific
#print axioms bestMatch_is_first_max
end Mt

import FalconModel.Reader
/-! C13 prototype: `MultipartForm.__iter__` (falcon/media/multipart.py) as a resumable step function over the
    sync `BufferedReader` model. Each `next` resumes the generator until its next `yield` / `return` / exception. -/
namespace Mp
open Rd

def crlf : Bytes := [13, 10]
def crlfcrlf : Bytes := [13, 10, 13, 10]
def dashes : Bytes := [45, 45]
def colonSp : Bytes := [58, 32]

/-- bytes.lower(): ASCII letters only -/
def lowerB (b : Bytes) : Bytes := b.map fun c => if 65 ≤ c && c ≤ 90 then c + 32 else c

/-- bytes.split(sep) for a non-empty separator -/
def splitAux (sep : Bytes) : Nat → Bytes → Bytes → List Bytes
  | 0, _, cur => [cur]
  | _ + 1, [], cur => [cur]
  | fuel + 1, h :: t, cur =>
    if isPrefix sep (h :: t) then cur :: splitAux sep fuel ((h :: t).drop sep.length) []
    else splitAux sep fuel t (cur ++ [h])
def split (b sep : Bytes) : List Bytes := splitAux sep (b.length + 1) b []

/-- bytes.partition(sep): (before, found?, after) -/
def partitionAux (sep : Bytes) : Bytes → Bytes → Bytes × Bool × Bytes
  | [], cur => (cur, false, [])
  | h :: t, cur =>
    if isPrefix sep (h :: t) then (cur, true, (h :: t).drop sep.length) else partitionAux sep t (cur ++ [h])
def partition (b sep : Bytes) : Bytes × Bool × Bytes := partitionAux sep b []

/-- dict assignment on an association list: overwrite in place, else append (insertion order kept) -/
def setKey (m : List (Bytes × Bytes)) (k v : Bytes) : List (Bytes × Bytes) :=
  if m.any (·.1 == k) then m.map (fun e => if e.1 == k then (k, v) else e) else m ++ [(k, v)]

def hContentType : Bytes := "content-type".toUTF8.toList
def hContentDisposition : Bytes := "content-disposition".toUTF8.toList
def hCTE : Bytes := "content-transfer-encoding".toUTF8.toList
def binary : Bytes := "binary".toUTF8.toList

inductive Err where
  | structure | incompleteHeaders | cte | tooManyParts | value
deriving Repr, DecidableEq

/-- the `for line in headers_block.split(CRLF)` loop -/
def parseHeaders : List Bytes → List (Bytes × Bytes) → Except Err (List (Bytes × Bytes))
  | [], acc => .ok acc
  | line :: rest, acc =>
    let (name, found, value) := partition line colonSp
    if found then
      let name := lowerB name
      if name == hCTE && value != binary then .error .cte
      else if name == hContentType || name == hContentDisposition || name == hCTE then
        parseHeaders rest (setKey acc name value)
      else parseHeaders rest acc
    else parseHeaders rest acc

/-- local variables of the generator frame that survive a `yield` -/
structure Form where
  prologue : Bool := true
  delim : Bytes                 -- b'--' + boundary, later CRLF + that
  remaining : Int               -- remaining_parts
  maxHdr : Int
  maxCount : Int
  finished : Bool := false      -- the generator has returned or raised
deriving Repr

inductive Out (σ : Type) where
  | part (headers : List (Bytes × Bytes)) (child : R (Delim σ))
  | done (parent : R σ)
  | err (e : Err) (parent : R σ)

variable {σ : Type} [Source σ]

def resErr : Res → Err
  | .valueErr => .value
  | _ => .structure

/-- one iteration of the `while True` loop, entered with the parent stream -/
def next (f : Form) (stream : R σ) : Form × Out σ :=
  match pipeUntil stream f.delim true none with
  | (.ok _, s) =>
    let f := if f.prologue then { f with delim := crlf ++ f.delim, prologue := false } else f
    let (p, s) := peek s 2
    if p == dashes then
      let (_, s) := read s (some 2)
      ({ f with finished := true }, .done s)
    else
      match readUntil s crlf (some 0) true with
      | (.ok _, s) =>
        match readUntil s crlfcrlf (some f.maxHdr) true with
        | (.ok block, s) =>
          match parseHeaders (split block crlf) [] with
          | .ok headers =>
            let f := { f with remaining := f.remaining - 1 }
            if f.remaining < 0 && 0 < f.maxCount then ({ f with finished := true }, .err .tooManyParts s)
            else (f, .part headers (delimit s f.delim))
          | .error e => ({ f with finished := true }, .err e s)
        | (.valueErr, s) => ({ f with finished := true }, .err .value s)
        | (_, s) => ({ f with finished := true }, .err .incompleteHeaders s)
      | (r, s) => ({ f with finished := true }, .err (resErr r) s)
  | (r, s) => ({ f with finished := true }, .err (resErr r) s)

end Mp

import FalconModel.Multipart
/-! C13, the **async parser**: `MultipartForm._iterate_parts` and `BodyPart.get_data` of falcon/asgi/multipart.py.

    The file has three layers.

    1. `Ops ρ κ` - an **abstract reader interface**: the awaited `BufferedReader` operations the parse loop calls
       (`pipe_until`, `peek`, `read`, `read_until`, `delimit`) as state transformers on an arbitrary reader state `ρ`,
       the part-stream state `κ`, the operations the application may apply to a part stream (`cstep`), and `parentOf`
       (the parent reader object is shared between the part stream and the suspended generator: when the generator is
       resumed it finds the parent in whatever state the part stream left it).
    2. `next` - **the transcription of `_iterate_parts`** between two `yield`s over that interface: same statement order,
       same `try` blocks, same error mapping as the code; `getData` - `BodyPart.get_data` with its cache.
    3. `AR σ`, `gstep`, `readFrom`, `peek`, … - a **concrete executable reader**: falcon/asgi/reader.py transcribed
       generically in the chunk source (`ASource`: one `__anext__`), so that `delimit` can be modelled as the code has it: a
       second `BufferedReader` whose source is `_iter_normalized(parent._iter_delimited(delimiter))` (`DelimGen`), with its own
       buffer, sharing the parent. Async generators are explicit program counters; state is committed before each `yield`
       as in the code, so abandonment (`break`, a generator that is never resumed) is modelled. `arOps` instantiates the
       interface with it; the driver `madriver` runs `next arOps` and is tied to the real async parser on every run.

    MultipartAsyncProofs.lean proves `async_refines_flat` for EVERY instance of the interface that satisfies the flat-cursor
    laws (`Lawful`, explicit structure fields), shows that the sync reader model satisfies them (so they are the laws the
    bridge already proved for falcon/util/reader.py) and that over the sync instance `Ma.next` IS `Mp.next`.
    MultipartAsyncReaderProofs.lean proves that the concrete `arOps` satisfies the laws (`arLawful`), for every lawful chunk
    source, the nested `delimit` reader included. -/
namespace Ma
open Rd (Bytes slice sliceFrom sliceTo find Res)
open Mp (crlf crlfcrlf dashes Form parseHeaders split Err resErr)

/-! ### 1. the reader interface -/

/-- what the application may do with `part.stream` (an `asgi.BufferedReader`): the coroutine methods and `async for` -/
inductive AOp where
  | read (size : Option Int)                                    -- await stream.read(size)
  | readall                                                     -- await stream.readall()
  | peek (size : Int)                                           -- await stream.peek(size)
  | readUntil (d : Bytes) (size : Option Int) (consume : Bool)  -- await stream.read_until(d, size, consume)
  | pipeUntil (d : Bytes) (consume : Bool)                      -- await stream.pipe_until(d, dest, consume); observes what was written
  | pipe                                                        -- await stream.pipe(dest)
  | exhaust                                                     -- await stream.exhaust()
  | iterate                                                     -- b''.join([c async for c in stream])
deriving Repr

inductive AObs where
  | bytes (b : Bytes)
  | unit
  | delimErr          -- DelimiterError
  | valueErr          -- ValueError
deriving Repr, DecidableEq

structure Ops (ρ κ : Type) where
  pipeUntil : ρ → Bytes → Bool → Res × ρ                 -- await stream.pipe_until(d, consume_delimiter=c)
  peek : ρ → Int → Res × ρ                               -- await stream.peek(n)
  read : ρ → Option Int → Res × ρ                        -- await stream.read(n)
  readUntil : ρ → Bytes → Option Int → Bool → Res × ρ    -- await stream.read_until(d, n, consume_delimiter=c)
  delimit : ρ → Bytes → κ                                -- stream.delimit(d)
  parentOf : κ → ρ                                       -- the object `stream`, as the part stream left it
  cstep : κ → AOp → AObs × κ                             -- one operation of the application on `part.stream`

/-! ### 2. `_iterate_parts` -/

inductive Out (ρ κ : Type) where
  | part (headers : List (Bytes × Bytes)) (child : κ)   -- yield BodyPart(stream.delimit(delimiter), headers, …)
  | done (parent : ρ)                                    -- break: StopAsyncIteration
  | err (e : Err) (parent : ρ)                           -- MultipartParseError (or ValueError: `Err.value`)

variable {ρ κ : Type}

/-- one iteration of the `while True` loop of `_iterate_parts`, entered with the parent stream as it is now.
    `f` holds the locals that survive a `yield` (`prologue`, `delimiter`, `remaining_parts`, the two options read at the top).
    Only `DelimiterError` is caught by the two `try` blocks; any other exception of a reader call (`ValueError`) propagates
    and ends the generator (`Err.value`). -/
def next (o : Ops ρ κ) (f : Form) (stream : ρ) : Form × Out ρ κ :=
  -- try: await stream.pipe_until(delimiter, consume_delimiter=True)
  match o.pipeUntil stream f.delim true with
  | (.ok _, s) =>
    -- if prologue: delimiter = _CRLF + delimiter; prologue = False
    let f := if f.prologue then { f with delim := crlf ++ f.delim, prologue := false } else f
    -- if await stream.peek(2) == b'--':
    match o.peek s 2 with
    | (.ok p, s) =>
      if p == dashes then
        -- await stream.read(2); break
        match o.read s (some 2) with
        | (.ok _, s) => ({ f with finished := true }, .done s)
        | (r, s) => ({ f with finished := true }, .err (resErr r) s)
      else
        -- await stream.read_until(_CRLF, 0, consume_delimiter=True)
        match o.readUntil s crlf (some 0) true with
        | (.ok _, s) =>
          -- except DelimiterError: raise MultipartParseError('unexpected form structure')   [end of the first try]
          -- try: headers_block = await stream.read_until(_CRLF_CRLF, max_headers_size, consume_delimiter=True)
          match o.readUntil s crlfcrlf (some f.maxHdr) true with
          | (.ok block, s) =>
            -- for line in headers_block.split(_CRLF): …
            match parseHeaders (split block crlf) [] with
            | .ok headers =>
              -- remaining_parts -= 1; if remaining_parts < 0 < max_body_part_count: raise …
              let f := { f with remaining := f.remaining - 1 }
              if f.remaining < 0 && 0 < f.maxCount then ({ f with finished := true }, .err .tooManyParts s)
              -- yield BodyPart(stream.delimit(delimiter), headers, self._parse_options)
              else (f, .part headers (o.delimit s f.delim))
            | .error e => ({ f with finished := true }, .err e s)
          | (.valueErr, s) => ({ f with finished := true }, .err .value s)
          -- except DelimiterError: raise MultipartParseError('incomplete body part headers')
          | (_, s) => ({ f with finished := true }, .err .incompleteHeaders s)
        | (r, s) => ({ f with finished := true }, .err (resErr r) s)
    | (r, s) => ({ f with finished := true }, .err (resErr r) s)
  | (r, s) => ({ f with finished := true }, .err (resErr r) s)

/-- `BodyPart` (asgi): the part stream and the `_data` cache of `get_data` -/
structure BodyPart (κ : Type) where
  stream : κ
  headers : List (Bytes × Bytes)
  data : Option Bytes := none

inductive DataRes where
  | ok (b : Bytes)
  | tooLarge                 -- MultipartParseError('body part is too large')
  | raised (e : AObs)        -- an exception of stream.read propagates
deriving Repr, DecidableEq

/-- `await part.get_data()` (the tree with the repair 913e041; `falcon/media/multipart.py` has the same body without `await`,
    so `getData syncOps` is the sync `BodyPart.get_data`):
    ```
    if self._data is None:
        max_size = self._parse_options.max_body_part_buffer_size + 1
        self._data = await self.stream.read(max_size)
    if len(self._data) > self._parse_options.max_body_part_buffer_size:
        raise MultipartParseError(description='body part is too large')
    return self._data
    ```
    The (possibly over-long) data stays cached; the limit is tested on every call. -/
def getData (o : Ops ρ κ) (maxBuf : Int) (p : BodyPart κ) : DataRes × BodyPart κ :=
  match p.data with
  | some d => if (d.length : Int) > maxBuf then (.tooLarge, p) else (.ok d, p)
  | none =>
    let maxSize := maxBuf + 1
    match o.cstep p.stream (.read (some maxSize)) with
    | (.bytes d, s) =>
      let p := { p with stream := s, data := some d }
      if (d.length : Int) > maxBuf then (.tooLarge, p) else (.ok d, p)
    | (e, s) => (.raised e, { p with stream := s })

/-- the code before 913e041 (finding F39), kept as a regression witness only: the size test ran only on the call that
    buffered the content, after `_data` had been assigned
    ```
    if self._data is None:
        max_size = self._parse_options.max_body_part_buffer_size + 1
        self._data = await self.stream.read(max_size)
        if len(self._data) >= max_size: raise MultipartParseError(description='body part is too large')
    return self._data
    ``` -/
def getDataPinned (o : Ops ρ κ) (maxBuf : Int) (p : BodyPart κ) : DataRes × BodyPart κ :=
  match p.data with
  | some d => (.ok d, p)
  | none =>
    let maxSize := maxBuf + 1
    match o.cstep p.stream (.read (some maxSize)) with
    | (.bytes d, s) =>
      let p := { p with stream := s, data := some d }
      if (d.length : Int) ≥ maxSize then (.tooLarge, p) else (.ok d, p)
    | (e, s) => (.raised e, { p with stream := s })

/-- what the application may do with a `BodyPart`: an operation on `part.stream`, or `get_data()` (`get_text()`, `.data`,
    `.text` are `get_data()` followed by pure decoding) -/
inductive PartOp where
  | stream (op : AOp)
  | getData
deriving Repr

inductive PartObs where
  | stream (x : AObs)
  | data (r : DataRes)
deriving Repr, DecidableEq

def pstep (o : Ops ρ κ) (maxBuf : Int) (p : BodyPart κ) : PartOp → PartObs × BodyPart κ
  | .stream op => let x := o.cstep p.stream op; (.stream x.1, { p with stream := x.2 })
  | .getData => let x := getData o maxBuf p; (.data x.1, x.2)

/-- a history of operations on one `BodyPart` -/
def prun (o : Ops ρ κ) (maxBuf : Int) : BodyPart κ → List PartOp → List PartObs × BodyPart κ
  | p, [] => ([], p)
  | p, op :: rest =>
    let x := pstep o maxBuf p op
    let y := prun o maxBuf x.2 rest
    (x.1 :: y.1, y.2)

/-! ### 3. falcon/asgi/reader.py, generic in the chunk source -/

/-- the result of one `__anext__` -/
inductive Item where
  | chunk (b : Bytes)
  | stop                 -- StopAsyncIteration
  | raiseValue           -- ValueError (raised by `_iter_delimited` for a delimiter that does not fit the chunk size)
deriving Repr

/-- an async iterator over byte strings; `bound` (an upper bound on the number of items still to come) is loop fuel only -/
class ASource (σ : Type) where
  anext : σ → Item × σ
  bound : σ → Nat

/-- the iterator handed to `BufferedReader(source)` by the caller: the remaining items -/
structure Raw where
  items : List Bytes
deriving Repr

instance : ASource Raw where
  anext s := match s.items with
    | [] => (.stop, s)
    | c :: t => (.chunk c, ⟨t⟩)
  bound s := s.items.length

/-- where `_iter_normalized` is suspended -/
inductive NormPc where
  | running | yielded1 (item : Bytes) | yielded2 | finished
deriving Repr

structure AR (σ : Type) where
  buf : Bytes := []
  len : Int := 0
  pos : Int := 0
  chunk : Int
  consumed : Int := 0
  exhausted : Bool := false
  pending : Bytes := []      -- local `chunk` of _iter_normalized
  npc : NormPc := .running
  src : σ                    -- the iterator `_iter_normalized` loops over

variable {σ : Type} [ASource σ]

/-- `_iter_normalized` from the top of its `async for` until the next `yield` / return / exception -/
def normLoop : Nat → AR σ → Item × AR σ
  | 0, r => (.stop, r)
  | fuel + 1, r =>
    match ASource.anext r.src with
    | (.stop, s) =>
      let r := { r with src := s }
      if !r.pending.isEmpty then
        (.chunk r.pending, { r with consumed := r.consumed + r.pending.length, npc := .yielded2 })
      else (.stop, { r with exhausted := true, npc := .finished })
    | (.raiseValue, s) => (.raiseValue, { r with src := s, npc := .finished })
    | (.chunk item, s) =>
      let r := { r with src := s }
      if (r.pending.length : Int) ≥ r.chunk then
        (.chunk r.pending, { r with consumed := r.consumed + r.pending.length, npc := .yielded1 item })
      else normLoop fuel { r with pending := r.pending ++ item }

/-- one `__anext__` on `self._source` -/
def nextNorm (r : AR σ) : Item × AR σ :=
  match r.npc with
  | .finished => (.stop, r)
  | .yielded2 => (.stop, { r with exhausted := true, npc := .finished })
  | .yielded1 item => normLoop (ASource.bound r.src + 1) { r with pending := item, npc := .running }
  | .running => normLoop (ASource.bound r.src + 1) r

def trimBuffer (r : AR σ) : AR σ := { r with buf := sliceFrom r.buf r.pos, len := r.len - r.pos, pos := 0 }

def prependBuffer (r : AR σ) (c : Bytes) : AR σ :=
  if r.len > r.pos then
    let b := c ++ sliceFrom r.buf r.pos
    { r with buf := b, len := b.length, pos := 0 }
  else { r with buf := c, len := c.length, pos := 0 }

/-- program counters of the wrapper generators `_iter_with_buffer` (w…) and `_iter_delimited` (d…) -/
inductive Pc where
  | wStart (hint : Int) | wAfterHint | wSource
  | dStart (delim : Bytes) (hint : Int) | dFoundAfterHint (delim : Bytes) (p : Int) | dPreLoop (delim : Bytes)
  | dLoop (delim : Bytes) | dAfterOutput (delim : Bytes)
  | done
deriving Repr

/-- inside the loop of `_iter_delimited`, after a chunk has been merged into the buffer: `pos = self._buffer.find(delimiter)` -/
def dCheckBuffer (delim : Bytes) (r : AR σ) : Option (Item × Pc × AR σ) :=
  let p := find r.buf delim 0
  if p ≥ 0 then
    if p > 0 then some (.chunk (sliceTo r.buf p), .done, { r with pos := p })
    else some (.stop, .done, r)
  else none

/-- resume a wrapper generator until its next `yield` / return / exception -/
def gstep : Nat → Pc → AR σ → Item × Pc × AR σ
  | 0, _, r => (.stop, .done, r)
  | fuel + 1, pc, r =>
    match pc with
    | .done => (.stop, .done, r)
    | .wStart hint =>
      if r.len > r.pos then
        if 0 < hint && hint < r.len - r.pos then
          (.chunk (slice r.buf r.pos (r.pos + hint)), .wAfterHint, { r with pos := r.pos + hint })
        else (.chunk (slice r.buf r.pos r.len), .wSource, { r with pos := r.len })
      else gstep fuel .wSource r
    | .wAfterHint => (.chunk (slice r.buf r.pos r.len), .wSource, { r with pos := r.len })
    | .wSource =>
      match nextNorm r with
      | (.chunk c, r) => (.chunk c, .wSource, r)
      | (.stop, r) => (.stop, .done, r)
      | (.raiseValue, r) => (.raiseValue, .done, r)
    | .dStart delim hint =>
      let dl1 : Int := delim.length - 1
      if !(0 ≤ dl1 && dl1 < r.chunk) then (.raiseValue, .done, r) else
      if r.len > r.pos then
        let p := find r.buf delim r.pos
        if p == 0 then (.stop, .done, r)
        else if p > 0 then
          if 0 < hint && hint < p - r.pos then
            (.chunk (slice r.buf r.pos (r.pos + hint)), .dFoundAfterHint delim p, { r with pos := r.pos + hint })
          else (.chunk (slice r.buf r.pos p), .done, { r with pos := p })
        else if 0 < hint && hint < r.len - r.pos - dl1 then
          (.chunk (slice r.buf r.pos (r.pos + hint)), .dPreLoop delim, { r with pos := r.pos + hint })
        else gstep fuel (.dPreLoop delim) r
      else gstep fuel (.dPreLoop delim) r
    | .dFoundAfterHint _ p => (.chunk (slice r.buf r.pos p), .done, { r with pos := p })
    | .dPreLoop delim =>
      let r := if r.pos > 0 then trimBuffer r else r
      gstep fuel (.dLoop delim) r
    | .dAfterOutput delim =>
      match dCheckBuffer delim r with
      | some out => out
      | none => gstep fuel (.dLoop delim) r
    | .dLoop delim =>
      let dl1 : Int := delim.length - 1
      match nextNorm r with
      -- the source is exhausted without the delimiter: hand out what is left and consume it
      | (.stop, r) => (.chunk r.buf, .done, { r with buf := [], len := 0, pos := 0 })
      | (.raiseValue, r) => (.raiseValue, .done, r)
      | (.chunk c, r) =>
        let offset := r.len - dl1
        if offset > 0 then
          let fragment := sliceFrom r.buf offset ++ sliceTo c dl1
          let p := find fragment delim 0
          if p < 0 then
            let output := r.buf
            (.chunk output, .dAfterOutput delim, { r with buf := c, len := c.length })
          else
            let b := r.buf ++ c
            (.chunk (sliceTo b (offset + p)), .done, { r with buf := b, len := r.len + c.length, pos := offset + p })
        else
          let r := if !r.buf.isEmpty then { r with buf := r.buf ++ c, len := r.len + c.length }
                   else { r with buf := c, len := c.length }
          match dCheckBuffer delim r with
          | some out => out
          | none => gstep fuel (.dLoop delim) r

def fuelOf (r : AR σ) : Nat := 2 * ASource.bound r.src + 8

/-- `_read_from(source, size)` for `size in (-1, None)` -/
def readAll : Nat → Pc → AR σ → Bytes → Res × AR σ
  | 0, _, r, acc => (.ok acc, r)
  | fuel + 1, pc, r, acc =>
    match gstep (fuelOf r) pc r with
    | (.chunk c, pc, r) => readAll fuel pc r (acc ++ c)
    | (.stop, _, r) => (.ok acc, r)
    | (.raiseValue, _, r) => (.valueErr, r)

/-- `_read_from(source, size)` for `size > 0` (both the `join` and the `BytesIO` variant) -/
def readN : Nat → Pc → AR σ → Int → Bytes → Res × AR σ
  | 0, _, r, _, acc => (.ok acc, r)
  | fuel + 1, pc, r, remaining, acc =>
    match gstep (fuelOf r) pc r with
    | (.chunk c, pc, r) =>
      let cl : Int := c.length
      if remaining < cl then (.ok (acc ++ sliceTo c remaining), prependBuffer r (sliceFrom c remaining))
      else
        let remaining := remaining - cl
        if remaining == 0 then (.ok (acc ++ c), r) else readN fuel pc r remaining (acc ++ c)
    | (.stop, _, r) => (.ok acc, r)
    | (.raiseValue, _, r) => (.valueErr, r)

def bigFuel (r : AR σ) : Nat := 4 * (ASource.bound r.src + 4)

def readFrom (pc : Pc) (r : AR σ) (size : Option Int) : Res × AR σ :=
  match size with
  | none => readAll (bigFuel r) pc r []
  | some s =>
    if s == -1 then readAll (bigFuel r) pc r []
    else if s ≤ 0 then (.ok [], r)          -- the generator object is created but never started
    else readN (bigFuel r) pc r s []

/-- `size or 0` -/
def hintOf (size : Option Int) : Int := match size with | none => 0 | some s => s

def peekLoop : Nat → AR σ → Int → Res × AR σ
  | 0, r, size => (.ok (sliceTo r.buf size), r)
  | fuel + 1, r, size =>
    match nextNorm r with
    | (.stop, r) => (.ok (sliceTo r.buf size), r)
    | (.raiseValue, r) => (.valueErr, r)
    | (.chunk c, r) =>
      let b := r.buf ++ c
      let r := { r with buf := b, len := b.length }
      if r.len ≥ size then (.ok (sliceTo r.buf size), r) else peekLoop fuel r size

def peek (r : AR σ) (size : Int) : Res × AR σ :=
  let size := if size < 0 || size > r.chunk then r.chunk else size
  let r := if r.pos > 0 then trimBuffer r else r
  if r.len < size then peekLoop (ASource.bound r.src + 2) r size else (.ok (sliceTo r.buf size), r)

/-- `_consume_delimiter`, applied after a result `b` has been obtained -/
def consumeDelimiter (b : Bytes) (r : AR σ) (delim : Bytes) : Res × AR σ :=
  match peek r delim.length with
  | (.ok p, r) => if p != delim then (.delimErr, r) else (.ok b, { r with pos := r.pos + delim.length })
  | (e, r) => (e, r)

def read (r : AR σ) (size : Option Int) : Res × AR σ := readFrom (.wStart (hintOf size)) r size
def readall (r : AR σ) : Res × AR σ := readFrom (.wStart 0) r none

def readUntil (r : AR σ) (delim : Bytes) (size : Option Int) (consume : Bool) : Res × AR σ :=
  match readFrom (.dStart delim (hintOf size)) r size with
  | (.ok b, r) => if consume then consumeDelimiter b r delim else (.ok b, r)
  | e => e

/-- `pipe(destination)` / `exhaust()` / a full `async for` over the reader: the chunks handed out, joined -/
def pipe (r : AR σ) : Res × AR σ := readAll (bigFuel r) (.wStart 0) r []

def pipeUntil (r : AR σ) (delim : Bytes) (consume : Bool) : Res × AR σ :=
  match readAll (bigFuel r) (.dStart delim 0) r [] with
  | (.ok b, r) => if consume then consumeDelimiter b r delim else (.ok b, r)
  | e => e

def tell (r : AR σ) : Int := r.consumed - (r.len - r.pos)
def eof (r : AR σ) : Bool := r.exhausted && r.len == r.pos

/-- the source of a part stream: the generator object `parent._iter_delimited(delimiter)`; the parent lives inside it -/
structure DelimGen (σ : Type) where
  parent : AR σ
  pc : Pc

instance : ASource (DelimGen σ) where
  anext s := match gstep (fuelOf s.parent) s.pc s.parent with
    | (y, pc, p) => (y, { parent := p, pc := pc })
  -- each resumption that yields either hands out buffered bytes (at most twice in a row) or consumes a chunk of the parent's source
  bound s := 2 * ASource.bound s.parent.src + 8

/-- `delimit(delimiter)`: `type(self)(self._iter_delimited(delimiter), chunk_size=self._chunk_size)` -/
def delimit (r : AR σ) (d : Bytes) : AR (DelimGen σ) :=
  { chunk := r.chunk, src := { parent := r, pc := .dStart d 0 } }

def resObs : Res → AObs
  | .ok b => .bytes b
  | .delimErr => .delimErr
  | .valueErr => .valueErr

/-- one application-level operation on a reader -/
def arStep (r : AR σ) : AOp → AObs × AR σ
  | .read s => let x := read r s; (resObs x.1, x.2)
  | .readall => let x := readall r; (resObs x.1, x.2)
  | .peek n => let x := peek r n; (resObs x.1, x.2)
  | .readUntil d s c => let x := readUntil r d s c; (resObs x.1, x.2)
  | .pipeUntil d c => let x := pipeUntil r d c; (resObs x.1, x.2)
  | .pipe => let x := pipe r; (resObs x.1, x.2)
  | .exhaust => let x := pipe r; ((match x.1 with | .ok _ => .unit | e => resObs e), x.2)
  | .iterate => let x := pipe r; (resObs x.1, x.2)

/-- the interface, instantiated with the transcription of falcon/asgi/reader.py -/
def arOps : Ops (AR σ) (AR (DelimGen σ)) where
  pipeUntil := pipeUntil
  peek := peek
  read := read
  readUntil := readUntil
  delimit := delimit
  parentOf c := c.src.parent
  cstep := arStep

end Ma
